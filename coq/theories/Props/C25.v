(* C25 — Absolute timestamps track the wall clock. *)
From Coq Require Import List ZArith.
Require Import MTX.Lib.IntWrap MTX.Model.C24_MulDiv MTX.Proofs.C24_MulDiv MTX.Model.C25_Ntp MTX.Proofs.C25_Ntp.
Import ListNotations.
Local Open Scope Z_scope.

(* for every clock rate, every estimator state and every history of (frame timestamp, wall clock) pairs —
   jumps, wrap-arounds and overflowing differences included — each output is within [now - 5 s, now] *)
Theorem C25_window : forall rate inp e,
  Forall2 (fun i o => snd i - max_diff <= o <= snd i) inp (run rate e inp).
Proof. exact run_window. Qed.
Print Assumptions C25_window.

(* steady operation: two consecutive calls that do not resynchronise keep the reference, and their absolute
   timestamps differ by the difference of the exactly scaled offsets from the reference *)
Theorem C25_steady : forall rate e p1 n1 p2 n2 o1 o2 e1 e2,
  1 <= rate <= two32 ->
  resyncs rate e p1 n1 = false -> resyncs rate e p2 n2 = false ->
  estimate rate e p1 n1 = (e1, o1) -> estimate rate e1 p2 n2 = (e2, o2) ->
  let d1 := p1 - ref_pts e in let d2 := p2 - ref_pts e in
  in_int64 d1 -> in_int64 d2 -> in_int64 (scaled rate d1) -> in_int64 (scaled rate d2) ->
  e1 = e /\ e2 = e /\ o2 - o1 = scaled rate d2 - scaled rate d1.
Proof. exact steady_pair. Qed.
Print Assumptions C25_steady.

(* no spurious resynchronisation, over whole histories: as long as every frame of a stretch, scaled exactly from the
   reference, lies inside [now - 5 s, now] (the clock runs steadily), the estimator never resynchronises and the
   i-th output is the reference plus the exactly scaled offset — whatever the length of the stretch or the distance
   from the reference (no intermediate overflow) *)
Theorem C25_steady_stretch : forall rate e, 1 <= rate <= two32 -> inited e = true ->
  forall inp, Forall (in_step rate e) inp ->
  run rate e inp = map (fun c => ref_ntp e + scaled rate (fst c - ref_pts e)) inp.
Proof. exact steady_stretch. Qed.
Print Assumptions C25_steady_stretch.

Theorem C25_no_spurious_resync : forall rate e pts now,
  1 <= rate <= two32 -> inited e = true ->
  let d := pts - ref_pts e in
  in_int64 d -> in_int64 (scaled rate d) ->
  now - max_diff <= ref_ntp e + scaled rate d <= now ->
  resyncs rate e pts now = false /\ estimate rate e pts now = (e, ref_ntp e + scaled rate d).
Proof. exact no_spurious_resync. Qed.
Print Assumptions C25_no_spurious_resync.

Theorem C25_steady_stretch_diff : forall rate x y, 0 < rate ->
  Z.abs (rate * (scaled rate y - scaled rate x) - (y - x) * nanos) < 2 * rate.
Proof. exact steady_stretch_diff. Qed.
Print Assumptions C25_steady_stretch_diff.

(* ... which is the frame timestamp difference exactly when the offset scales without remainder, and within
   less than one nanosecond of it otherwise *)
Theorem C25_scaled_exact : forall rate x k, 0 < rate -> x * nanos = k * rate -> scaled rate x = k.
Proof. exact scaled_exact. Qed.
Print Assumptions C25_scaled_exact.

Theorem C25_scaled_close : forall rate x, 0 < rate -> Z.abs (rate * scaled rate x - x * nanos) < rate.
Proof. exact scaled_close. Qed.
Print Assumptions C25_scaled_close.

(* non-vacuity: a steady stretch at 90 kHz followed by a clock jump *)
Example C25_example :
  run 90000 est0 [(1000, 1700000000000000000); (4000, 1700000000033333334); (7000, 1700000000066666667);
                  (10000, 1700000010000000000)]
  = [1700000000000000000; 1700000000033333333; 1700000000066666666; 1700000010000000000]
  /\ resyncs 90000 {| inited := true; ref_ntp := 1700000000000000000; ref_pts := 1000 |} 4000 1700000000033333334 = false.
Proof. vm_compute. split; reflexivity. Qed.
