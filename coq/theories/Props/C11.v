(* C11 — Configuration copies are independent.
   Only statements here; every proof is `exact <lemma of Proofs/C11_Clone.v>`.
   [deep_clone true] is conf.deepClone after the fix: commit (Interface case added),
   [deep_clone false] the code as pinned. Values/heaps: Lib/Heap.v. All theorems hold for
   every heap, every value of the universe (any nesting of pointers, slices, maps, structs
   with settable and unsettable fields, interfaces, with arbitrary sharing) and every fuel
   for which the clone terminates. *)
From Coq Require Import List ZArith.
Require Import MTX.Lib.Heap MTX.Model.C11_Clone MTX.Proofs.C11_Clone.
Import ListNotations.

(* cloning only allocates: every cell that existed keeps its content (both code versions) *)
Theorem C11_clone_allocates_only : forall fixi fuel h v h' v',
  deep_clone fixi fuel h v = Some (h', v') -> exists e, h' = h ++ e.
Proof. exact deep_clone_extends. Qed.
Print Assumptions C11_clone_allocates_only.

(* every cell the copy can reach was allocated by the clone *)
Theorem C11_clone_fresh : forall fuel h v h' v',
  deep_clone true fuel h v = Some (h', v') ->
  forall a, reach h' v' a -> length h <= a < length h'.
Proof. exact clone_fresh. Qed.
Print Assumptions C11_clone_fresh.

(* the mutable cells reachable from the copy and from the original are disjoint *)
Theorem C11_clone_disjoint : forall fuel h v h' v',
  wf h v -> deep_clone true fuel h v = Some (h', v') ->
  forall a, reach h' v' a -> ~ reach h' v a.
Proof. exact clone_disjoint. Qed.
Print Assumptions C11_clone_disjoint.

(* overwriting ANY cell the copy reaches with ANY content leaves every read of the original
   (at every path, to any depth) unchanged *)
Theorem C11_mutation_independent : forall fuel h v h' v',
  wf h v -> deep_clone true fuel h v = Some (h', v') ->
  forall a c, reach h' v' a -> forall p, read (write h' a c) v p = read h v p.
Proof. exact clone_write_independent. Qed.
Print Assumptions C11_mutation_independent.

(* the same for any sequence of writes to cells that did not exist before the clone *)
Theorem C11_mutations_independent : forall fuel h v h' v',
  wf h v -> deep_clone true fuel h v = Some (h', v') ->
  forall ws, Forall (fun w => length h <= fst w) ws ->
  forall p, read (write_all ws h') v p = read h v p.
Proof. exact clone_writes_independent. Qed.
Print Assumptions C11_mutations_independent.

(* "a rejected API edit leaves the running configuration untouched": any sequence of edits made
   through the copy (cell writes at addresses the copy reaches at that moment, allocations, root
   replacement — none of which stores a reference to one of the original's cells) followed by
   discarding the copy leaves every read of the original unchanged *)
Theorem C11_rejected_edit_untouched : forall fuel h v h' v' h2 v2,
  wf h v -> deep_clone true fuel h v = Some (h', v') ->
  edits (length h) h' v' h2 v2 ->
  forall p, read h2 v p = read h v p.
Proof. exact rejected_edit_untouched. Qed.
Print Assumptions C11_rejected_edit_untouched.

(* the copy has the same shape as the original, except that fields reflect cannot set
   (unexported, e.g. the inside of *regexp.Regexp) hold the zero value — that is what the code does *)
Theorem C11_clone_same_shape : forall fuel h v h' v',
  deep_clone true fuel h v = Some (h', v') -> csim fuel h' v v'.
Proof. exact clone_same_shape. Qed.
Print Assumptions C11_clone_same_shape.

(* full structural equality, when every struct field below the value is settable *)
Theorem C11_clone_equal_partial : forall fuel h v h' v',
  deep_clone true fuel h v = Some (h', v') -> all_settable fuel h v -> ssim fuel h' v v'.
Proof. exact clone_equal_settable. Qed.
Print Assumptions C11_clone_equal_partial.

(* ... and it is false without that guard *)
Theorem C11_clone_equal_refuted :
  exists fuel h v h' v', deep_clone true fuel h v = Some (h', v') /\ forall n, ~ ssim n h' v v'.
Proof. exact clone_equal_unsettable_fails. Qed.
Print Assumptions C11_clone_equal_refuted.

(* the pinned code (before the fix) violated disjointness and independence: a Conf whose
   OptionalPaths map holds an OptionalPath with Values = any(pointer to struct) *)
Theorem C11_pinned_refuted :
  exists fuel h' v' a c,
    wf w_heap w_conf /\ deep_clone false fuel w_heap w_conf = Some (h', v') /\
    reach h' v' a /\ reach h' w_conf a /\
    read (write h' a c) w_conf w_path <> read w_heap w_conf w_path.
Proof. exact pinned_clone_shares. Qed.
Print Assumptions C11_pinned_refuted.

(* non-vacuity: a configuration-like value with sharing, an interface holding a pointer, an
   unsettable field, a nil and an empty slice: well-formed, the repaired clone terminates,
   allocates 6 cells, and un-shares the slice the original uses twice *)
Example C11_example :
  wf ex_heap ex_conf /\
  deep_clone true 12 ex_heap ex_conf =
    Some (ex_heap ++ [ [VScalar 3; VScalar 4];
                       [VScalar 3; VScalar 4];
                       [VStruct [(true, VScalar 7); (true, VRef KSlice (Some 6%nat))]];
                       [VStruct [(true, VIface (Some (VRef KPtr (Some 7%nat))))]];
                       [VRef KPtr (Some 8%nat)];
                       [] ],
          VStruct [(true, VRef KSlice (Some 5%nat)); (true, VRef KMap (Some 9%nat)); (false, VRef KPtr None);
                   (true, VRef KSlice None); (true, VRef KSlice (Some 10%nat)); (true, VIface None)]) /\
  edits 5 (ex_heap ++ [[VScalar 3]]) (VRef KSlice (Some 5%nat))
          (write (ex_heap ++ [[VScalar 3]]) 5 [VScalar 9]) (VRef KSlice (Some 5%nat)).
Proof.
  split; [apply closed_wf; reflexivity|]. split; [vm_compute; reflexivity|].
  eapply ed_cell; [apply reach_here| |apply ed_done].
  intros x [<-|[]] b Hb. inversion Hb.
Qed.
