(* C43 — HLS media is served only to authorized sessions.
   Only statements here; every proof is `exact <lemma of Proofs/C43_Hls.v>`.

   Vocabulary (Model/C43_Hls.v): `exec c init ops` is the trace (operation, outcome) of ANY history of multivariant
   requests, media requests, kicks, session expiries, muxer closes, path ready / not ready, instance crashes and
   recreations on a fresh server with configuration c (always-remux flag, CDN secret, the path manager's admission
   `auth` and `nostream` as arbitrary functions). `OPass` = the media request was handed to the muxer (HTTP 200/404 of
   the muxer), anything else = it was refused (401) or failed (500).
   `backed c pre p id u ip`  = pre contains a non-CDN multivariant request for path p from client IP ip, with
   cookieCheck=1, admitted by auth, that created session id with secret u, and no later event of pre ended that
   session (kick of id, expiry of id, close / effective path-not-ready / instance crash of the muxer of p).
   `cdn_backed c pre p id`   = the same for a CDN session created by a multivariant request carrying the CDN secret.
   "The secret matches" means: google/uuid Parse of the presented string succeeds and yields the 16 bytes of the
   session's secret (uuid_parse is a transliteration of uuid.Parse v1.6.0, compared with the library on every case). *)
From Coq Require Import List ZArith Bool.
Require Import MTX.Model.C43_Hls MTX.Proofs.C43_Hls.
Import ListNotations.
Local Open Scope Z_scope.

(* A media playlist / segment request of path p is handed to the muxer ONLY IF
   - it carries the (non-empty) CDN secret and a live CDN session of p exists, created by a request with that secret; or
   - the secret it presents (cookie if the request has the cookie at all, else query) parses to the secret of a live
     session created for THAT path by an admitted multivariant request from the SAME client IP. *)
Theorem C43_served_only_if : forall c ops pre post p ip hdr ck q,
  exec c init ops = pre ++ (Media p ip hdr ck q, OPass) :: post ->
  (is_cdn c hdr = true /\ exists id, cdn_backed c pre p id) \/
  (is_cdn c hdr = false /\ exists id u, uuid_parse (effective ck q) = Some u /\ backed c pre p id u ip).
Proof. exact served_only_if. Qed.
Print Assumptions C43_served_only_if.

(* CDN mode needs a configured, non-empty secret and exactly "Bearer <secret>" as (first) Authorization header *)
Theorem C43_cdn_needs_secret : forall c hdr, is_cdn c hdr = true -> cdn_secret c <> [] /\ hdr = bearer ++ cdn_secret c.
Proof. exact is_cdn_true. Qed.
Print Assumptions C43_cdn_needs_secret.

(* in any state: a cookie, whatever it holds, hides the query parameter; without cookie the query is used *)
Theorem C43_secret_precedence : forall c st p ip hdr v q q',
  media_out c st p ip hdr (Some v) q = media_out c st p ip hdr (Some v) q' /\
  media_out c st p ip hdr None q = media_out c st p ip hdr (Some q) q'.
Proof. exact secret_precedence. Qed.
Print Assumptions C43_secret_precedence.

Theorem C43_cookie_shadows_query : forall c st p ip hdr v q,
  is_cdn c hdr = false ->
  (forall m s, lookup p (muxers st) = Some m -> In s (m_sess m) -> uuid_parse v <> Some (s_secret s)) ->
  media_out c st p ip hdr (Some v) q <> OPass.
Proof. exact cookie_shadows_query. Qed.
Print Assumptions C43_cookie_shadows_query.

(* a secret that was only ever issued on other paths never opens path p (even if the random secrets collide) *)
Theorem C43_no_cross_path : forall c ops pre post p ip hdr ck q x,
  exec c init ops = pre ++ (Media p ip hdr ck q, x) :: post ->
  is_cdn c hdr = false ->
  (forall p' cred ip' hdr' ccq ccc sec vc id,
     In (Multi p' cred ip' hdr' ccq ccc sec, OCreated vc id) pre ->
     uuid_parse (effective ck q) = Some sec -> p' <> p) ->
  x <> OPass.
Proof. exact no_cross_path. Qed.
Print Assumptions C43_no_cross_path.

(* if every session of p created from this IP with this secret has since been kicked / expired / lost its muxer,
   the request is not served *)
Theorem C43_closed_sessions_dead : forall c ops pre post p ip hdr ck q x,
  exec c init ops = pre ++ (Media p ip hdr ck q, x) :: post ->
  is_cdn c hdr = false ->
  (forall pre1 mid cred hdr' ccc vc id u,
     pre = pre1 ++ (Multi p cred ip hdr' true ccc u, OCreated vc id) :: mid ->
     uuid_parse (effective ck q) = Some u ->
     exists e, In e mid /\ kills p id e = true) ->
  x <> OPass.
Proof. exact closed_sessions_dead. Qed.
Print Assumptions C43_closed_sessions_dead.

Theorem C43_cdn_closed_sessions_dead : forall c ops pre post p ip hdr ck q x,
  exec c init ops = pre ++ (Media p ip hdr ck q, x) :: post ->
  is_cdn c hdr = true ->
  (forall pre1 mid cred ip' hdr' ccq ccc sec id,
     pre = pre1 ++ (Multi p cred ip' hdr' ccq ccc sec, OCdnCreated id) :: mid ->
     exists e, In e mid /\ kills p id e = true) ->
  x <> OPass.
Proof. exact cdn_closed_sessions_dead. Qed.
Print Assumptions C43_cdn_closed_sessions_dead.

(* a (non-CDN) session is only ever created for a client the path manager admitted, after the cookie-check round,
   on a path that has a stream; the secret goes into a cookie iff the cookie check cookie came back *)
Theorem C43_created_only_if : forall c ops pre post p cred ip hdr ccq ccc sec vc id,
  exec c init ops = pre ++ (Multi p cred ip hdr ccq ccc sec, OCreated vc id) :: post ->
  is_cdn c hdr = false /\ ccq = true /\ auth c p cred ip = true /\ nostream c p = false /\ vc = ccc.
Proof. exact created_only_if. Qed.
Print Assumptions C43_created_only_if.

(* what "the secret matches" accepts: strings of 36, 45, 38 or 32 bytes only; and these spellings of one secret are
   all equal: any letter case; "urn:uuid:" (any case) in front; ANY one byte in front and ANY one byte behind (the
   library strips them without looking: not only "{...}") *)
Theorem C43_secret_shape : forall s u, uuid_parse s = Some u ->
  length u = 16%nat /\
  (Z.of_nat (length s) = 36 \/ Z.of_nat (length s) = 45 \/ Z.of_nat (length s) = 38 \/ Z.of_nat (length s) = 32).
Proof. exact uuid_parse_shape. Qed.
Print Assumptions C43_secret_shape.

Theorem C43_spelling_case : forall s, uuid_parse (map lower s) = uuid_parse s.
Proof. exact spelling_case. Qed.
Print Assumptions C43_spelling_case.

Theorem C43_spelling_urn : forall s pfx, length s = 36%nat -> map lower pfx = urn_prefix ->
  uuid_parse (pfx ++ s) = uuid_parse s.
Proof. exact spelling_urn. Qed.
Print Assumptions C43_spelling_urn.

Theorem C43_spelling_wrapped : forall s x y, length s = 36%nat -> uuid_parse (x :: s ++ [y]) = uuid_parse s.
Proof. exact spelling_wrapped. Qed.
Print Assumptions C43_spelling_wrapped.

(* ---- non-vacuity ------------------------------------------------------------------------------------------- *)

Definition ex_secret : list Z :=   (* "0a1b2c3d-4e5f-6a7b-8c9d-0e1f2a3b4c5d" *)
  [48;97;49;98;50;99;51;100;45;52;101;53;102;45;54;97;55;98;45;56;99;57;100;45;48;101;49;102;50;97;51;98;52;99;53;100].
Definition ex_uuid : uuid := [10;27;44;61;78;95;106;123;140;157;14;31;42;59;76;93].
Definition ex_nodash : list Z := filter (fun c => negb (c =? 45)) ex_secret.
Definition ex_upper : list Z := map (fun c => if (97 <=? c) && (c <=? 122) then c - 32 else c) ex_secret.

Example C43_example_spellings :
  uuid_parse ex_secret = Some ex_uuid /\ uuid_parse ex_upper = Some ex_uuid /\ uuid_parse ex_nodash = Some ex_uuid /\
  uuid_parse (urn_prefix ++ ex_secret) = Some ex_uuid /\ uuid_parse (123 :: ex_secret ++ [125]) = Some ex_uuid /\
  uuid_parse (120 :: ex_secret ++ [121]) = Some ex_uuid /\
  uuid_parse (ex_secret ++ [48]) = None /\ uuid_parse (removelast ex_secret) = None /\ uuid_parse [] = None /\
  uuid_parse (103 :: tl ex_secret) = None.
Proof. vm_compute. repeat split. Qed.

(* one server, paths 0 and 1, client IPs 0 and 1; only (path 0, cred 1, ip 0) and (path 1, cred 1, ip 0) are admitted *)
Definition ex_conf : config :=
  {| always := false; cdn_secret := [115]; auth := fun p cred ip => (cred =? 1) && (ip =? 0);
     nostream := fun _ => false |}.
Definition ex_other : uuid := [1;1;1;1;1;1;1;1;1;1;1;1;1;1;1;1].
Definition ex_other_s : list Z := (* "01010101-0101-0101-0101-010101010101" *)
  [48;49;48;49;48;49;48;49;45;48;49;48;49;45;48;49;48;49;45;48;49;48;49;45;48;49;48;49;48;49;48;49;48;49;48;49].

Example C43_example_history :
  map snd (exec ex_conf init
    [ Media 0 0 [] None ex_secret;                        (* no muxer yet *)
      Multi 0 1 0 [] false false ex_uuid;                 (* cookie-check round first *)
      Multi 0 0 0 [] true false ex_uuid;                  (* anonymous: not admitted *)
      Multi 0 1 0 [] true false ex_uuid;                  (* admitted: session 0 on path 0, secret via query *)
      Multi 1 1 0 [] true true ex_other;                  (* session 1 on path 1, secret via cookie *)
      Media 0 0 [] None ex_secret;                        (* right secret, right IP, right path *)
      Media 0 0 [] (Some (urn_prefix ++ ex_upper)) [];    (* another spelling, in the cookie *)
      Media 0 1 [] None ex_secret;                        (* other IP *)
      Media 1 0 [] None ex_secret;                        (* path 0's secret on path 1 *)
      Media 0 0 [] None ex_other_s;                       (* path 1's secret on path 0 *)
      Media 0 0 [] (Some ex_other_s) ex_secret;           (* cookie (wrong) hides the query (right) *)
      Media 0 0 [] (Some ex_secret) ex_other_s;           (* cookie (right) hides the query (wrong) *)
      Media 0 0 (bearer ++ [115]) None ex_secret;         (* CDN secret but no CDN session *)
      Multi 0 0 1 (bearer ++ [115]) false false [];       (* CDN session 2 on path 0: no admission asked *)
      Media 0 1 (bearer ++ [115]) None [];                (* CDN: any IP, no session secret *)
      Media 1 1 (bearer ++ [115]) None [];                (* but not on path 1 *)
      Kick 0;
      Media 0 0 [] None ex_secret;                        (* kicked *)
      Media 1 0 [] (Some ex_other_s) [];                  (* session 1 still lives *)
      Expire [1; 2];
      Media 1 0 [] (Some ex_other_s) [];
      Media 0 1 (bearer ++ [115]) None [];
      Multi 1 1 0 [] true false ex_uuid;                  (* session 3 on path 1 *)
      MuxClose 1;
      Media 1 0 [] None ex_secret ])
  = [ OUnauth; ORedirect; OUnauth; OCreated false 0; OCreated true 1; OPass; OPass; OUnauth; OUnauth; OUnauth; OUnauth;
      OPass; OUnauth; OCdnCreated 2; OPass; OUnauth; OKicked true; OUnauth; OPass; ONone; OUnauth; OUnauth;
      OCreated false 3; OClosed true; OUnauth ].
Proof. vm_compute. reflexivity. Qed.
