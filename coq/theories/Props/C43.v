(* C43 — HLS media is served only to authorized sessions.
   Only statements here; every proof is `exact <lemma of Proofs/C43_Hls.v>`.

   Vocabulary (Model/C43_Hls.v): `exec c init ops` is the trace (operation, outcome) of ANY history of multivariant
   requests, media requests, kicks, session expiries, muxer closes, path ready / not ready, instance crashes and
   recreations on a fresh server with configuration c (always-remux flag, CDN secret, the path manager's admission
   `auth` and `nostream` as arbitrary functions). `OPass` = the media request was handed to the muxer (HTTP 200/404 of
   the muxer), anything else = it was refused (401) or failed (500).
   Every request carries `n : netreq` = what is on the wire about its origin: the IP of the TCP peer and the values of
   its forwarding headers (X-Forwarded-For, X-Real-Ip, CF-Connecting-IP, ...). `cip c n` = gin's ClientIP() under the
   engine httpServer.initialize builds (SetTrustedProxies(hlsTrustedProxies) ALWAYS, also for the default empty list):
   the peer's IP, unless the peer is inside one of the configured trusted networks, in which case the rightmost item
   of X-Forwarded-For (else X-Real-Ip) that is not itself a trusted proxy.
   `backed c pre p id u ip`  = pre contains a non-CDN multivariant request for path p whose client IP (cip) is ip, with
   cookieCheck=1, admitted by auth, that created session id with secret u, and no later event of pre ended that
   session (kick of id, expiry of id, close / effective path-not-ready / instance crash of the muxer of p).
   `cdn_backed c pre p id`   = the same for a CDN session created by a multivariant request carrying the CDN secret.
   "The secret matches" means: google/uuid Parse of the presented string succeeds and yields the 16 bytes of the
   session's secret (uuid_parse is a transliteration of uuid.Parse v1.6.0, compared with the library on every case). *)
From Coq Require Import List ZArith Bool.
Require Import MTX.Model.C43_Hls MTX.Proofs.C43_Hls.
Import ListNotations.
Local Open Scope Z_scope.

(* A media playlist / segment request of path p is handed to the muxer ONLY IF
   - it carries the (non-empty) CDN secret and a live CDN session of p exists, created by a request with that secret; or
   - the secret it presents (cookie if the request has the cookie at all, else query) parses to the secret of a live
     session created for THAT path by an admitted multivariant request from the SAME client IP. *)
Theorem C43_served_only_if : forall c ops pre post p n hdr ck q,
  exec c init ops = pre ++ (Media p n hdr ck q, OPass) :: post ->
  (is_cdn c hdr = true /\ exists id, cdn_backed c pre p id) \/
  (is_cdn c hdr = false /\ exists id u, uuid_parse (effective ck q) = Some u /\ backed c pre p id u (cip c n)).
Proof. exact served_only_if. Qed.
Print Assumptions C43_served_only_if.

(* CDN mode needs a configured, non-empty secret and exactly "Bearer <secret>" as (first) Authorization header *)
Theorem C43_cdn_needs_secret : forall c hdr, is_cdn c hdr = true -> cdn_secret c <> [] /\ hdr = bearer ++ cdn_secret c.
Proof. exact is_cdn_true. Qed.
Print Assumptions C43_cdn_needs_secret.

(* in any state: a cookie, whatever it holds, hides the query parameter; without cookie the query is used *)
Theorem C43_secret_precedence : forall c st p ip hdr v q q',
  media_out c st p ip hdr (Some v) q = media_out c st p ip hdr (Some v) q' /\
  media_out c st p ip hdr None q = media_out c st p ip hdr (Some q) q'.
Proof. exact secret_precedence. Qed.
Print Assumptions C43_secret_precedence.

Theorem C43_cookie_shadows_query : forall c st p ip hdr v q,
  is_cdn c hdr = false ->
  (forall m s, lookup p (muxers st) = Some m -> In s (m_sess m) -> uuid_parse v <> Some (s_secret s)) ->
  media_out c st p ip hdr (Some v) q <> OPass.
Proof. exact cookie_shadows_query. Qed.
Print Assumptions C43_cookie_shadows_query.

(* a secret that was only ever issued on other paths never opens path p (even if the random secrets collide) *)
Theorem C43_no_cross_path : forall c ops pre post p n hdr ck q x,
  exec c init ops = pre ++ (Media p n hdr ck q, x) :: post ->
  is_cdn c hdr = false ->
  (forall p' cred n' hdr' ccq ccc sec vc id,
     In (Multi p' cred n' hdr' ccq ccc sec, OCreated vc id) pre ->
     uuid_parse (effective ck q) = Some sec -> p' <> p) ->
  x <> OPass.
Proof. exact no_cross_path. Qed.
Print Assumptions C43_no_cross_path.

(* if every session of p created from this IP with this secret has since been kicked / expired / lost its muxer,
   the request is not served *)
Theorem C43_closed_sessions_dead : forall c ops pre post p n hdr ck q x,
  exec c init ops = pre ++ (Media p n hdr ck q, x) :: post ->
  is_cdn c hdr = false ->
  (forall pre1 mid cred n' hdr' ccc vc id u,
     pre = pre1 ++ (Multi p cred n' hdr' true ccc u, OCreated vc id) :: mid ->
     cip c n' = cip c n ->
     uuid_parse (effective ck q) = Some u ->
     exists e, In e mid /\ kills p id e = true) ->
  x <> OPass.
Proof. exact closed_sessions_dead. Qed.
Print Assumptions C43_closed_sessions_dead.

Theorem C43_cdn_closed_sessions_dead : forall c ops pre post p n hdr ck q x,
  exec c init ops = pre ++ (Media p n hdr ck q, x) :: post ->
  is_cdn c hdr = true ->
  (forall pre1 mid cred ip' hdr' ccq ccc sec id,
     pre = pre1 ++ (Multi p cred ip' hdr' ccq ccc sec, OCdnCreated id) :: mid ->
     exists e, In e mid /\ kills p id e = true) ->
  x <> OPass.
Proof. exact cdn_closed_sessions_dead. Qed.
Print Assumptions C43_cdn_closed_sessions_dead.

(* a (non-CDN) session is only ever created for a client the path manager admitted, after the cookie-check round,
   on a path that has a stream; the secret goes into a cookie iff the cookie check cookie came back *)
Theorem C43_created_only_if : forall c ops pre post p cred n hdr ccq ccc sec vc id,
  exec c init ops = pre ++ (Multi p cred n hdr ccq ccc sec, OCreated vc id) :: post ->
  is_cdn c hdr = false /\ ccq = true /\ auth c p cred (cip c n) = true /\ nostream c p = false /\ vc = ccc.
Proof. exact created_only_if. Qed.
Print Assumptions C43_created_only_if.

(* ---- which IP is "the IP of the request" ------------------------------------------------------------------ *)

(* With the DEFAULT configuration (hlsTrustedProxies empty) the IP of a request is the IP of its TCP peer, whatever
   headers it carries ... *)
Theorem C43_no_trusted_proxies : forall c n, trusted c = [] -> cip c n = peer_text n.
Proof. exact cip_no_trusted_proxies. Qed.
Print Assumptions C43_no_trusted_proxies.

(* ... hence a served media request and the admitted request that created its session came from the same peer IP *)
Theorem C43_served_same_peer_default : forall c ops pre post p n hdr ck q,
  trusted c = [] ->
  exec c init ops = pre ++ (Media p n hdr ck q, OPass) :: post ->
  is_cdn c hdr = false ->
  exists pre1 mid cred n0 hdr0 ccc vc id u,
    pre = pre1 ++ (Multi p cred n0 hdr0 true ccc u, OCreated vc id) :: mid /\
    peer_text n0 = peer_text n /\ uuid_parse (effective ck q) = Some u /\
    is_cdn c hdr0 = false /\ auth c p cred (peer_text n0) = true /\
    Forall (fun e => kills p id e = false) mid.
Proof. exact served_same_peer_default. Qed.
Print Assumptions C43_served_same_peer_default.

(* In ANY configuration: a peer outside the trusted networks cannot influence anything through forwarding headers
   (X-Forwarded-For, X-Real-Ip, CF-Connecting-IP, X-Appengine-Remote-Addr, ... : the whole header list is arbitrary):
   same outcome and same next state for multivariant and media requests *)
Theorem C43_forged_headers_irrelevant : forall c st peer hs hs',
  untrusted_peer c {| n_peer := peer; n_hdrs := hs |} ->
  (forall p cred hdr ccq ccc sec,
     step c st (Multi p cred {| n_peer := peer; n_hdrs := hs |} hdr ccq ccc sec) =
     step c st (Multi p cred {| n_peer := peer; n_hdrs := hs' |} hdr ccq ccc sec)) /\
  (forall p hdr ck q,
     step c st (Media p {| n_peer := peer; n_hdrs := hs |} hdr ck q) =
     step c st (Media p {| n_peer := peer; n_hdrs := hs' |} hdr ck q)).
Proof. exact forged_headers_irrelevant. Qed.
Print Assumptions C43_forged_headers_irrelevant.

Theorem C43_served_untrusted_peer : forall c ops pre post p n hdr ck q,
  untrusted_peer c n ->
  exec c init ops = pre ++ (Media p n hdr ck q, OPass) :: post ->
  is_cdn c hdr = false ->
  exists id u, uuid_parse (effective ck q) = Some u /\ backed c pre p id u (peer_text n).
Proof. exact served_untrusted_peer. Qed.
Print Assumptions C43_served_untrusted_peer.

(* the IP of a request is its peer's, or - only if the peer is a trusted proxy - an item of X-Forwarded-For or X-Real-Ip
   that parses as an IP; no other header is ever used *)
Theorem C43_client_ip_cases : forall c n txt a,
  n_peer n = Some (txt, a) ->
  cip c n = txt \/
  (is_trusted (trusted c) a = true /\
   exists h, (h = h_xff \/ h = h_xreal) /\ In (cip c n) (items (hdr_val n h)) /\ parse_ip c (cip c n) <> None).
Proof. exact cip_cases. Qed.
Print Assumptions C43_client_ip_cases.

(* behind honest trusted proxies the IP of the request IS the client's: the client (address ca, written ct, NOT in a
   trusted network) sends any X-Forwarded-For x0 it likes; each proxy on the way appends the IP of its peer
   (chain_xff); all proxies are in trusted networks *)
Theorem C43_client_ip_honest_chain : forall c n x0 ct ca ps pt pa,
  n_peer n = Some (pt, pa) -> is_trusted (trusted c) pa = true ->
  hdr_val n h_xff = chain_xff x0 (ct :: map fst ps) ->
  clean ct = true -> parse_ip c ct = Some ca -> is_trusted (trusted c) ca = false ->
  Forall (fun e => clean (fst e) = true /\ parse_ip c (fst e) = Some (snd e) /\ is_trusted (trusted c) (snd e) = true) ps ->
  cip c n = ct.
Proof. exact cip_honest_chain. Qed.
Print Assumptions C43_client_ip_honest_chain.

(* what "the secret matches" accepts: strings of 36, 45, 38 or 32 bytes only; and these spellings of one secret are
   all equal: any letter case; "urn:uuid:" (any case) in front; ANY one byte in front and ANY one byte behind (the
   library strips them without looking: not only "{...}") *)
Theorem C43_secret_shape : forall s u, uuid_parse s = Some u ->
  length u = 16%nat /\
  (Z.of_nat (length s) = 36 \/ Z.of_nat (length s) = 45 \/ Z.of_nat (length s) = 38 \/ Z.of_nat (length s) = 32).
Proof. exact uuid_parse_shape. Qed.
Print Assumptions C43_secret_shape.

Theorem C43_spelling_case : forall s, uuid_parse (map lower s) = uuid_parse s.
Proof. exact spelling_case. Qed.
Print Assumptions C43_spelling_case.

Theorem C43_spelling_urn : forall s pfx, length s = 36%nat -> map lower pfx = urn_prefix ->
  uuid_parse (pfx ++ s) = uuid_parse s.
Proof. exact spelling_urn. Qed.
Print Assumptions C43_spelling_urn.

Theorem C43_spelling_wrapped : forall s x y, length s = 36%nat -> uuid_parse (x :: s ++ [y]) = uuid_parse s.
Proof. exact spelling_wrapped. Qed.
Print Assumptions C43_spelling_wrapped.

(* ---- non-vacuity ------------------------------------------------------------------------------------------- *)

Definition ex_secret : list Z :=   (* "0a1b2c3d-4e5f-6a7b-8c9d-0e1f2a3b4c5d" *)
  [48;97;49;98;50;99;51;100;45;52;101;53;102;45;54;97;55;98;45;56;99;57;100;45;48;101;49;102;50;97;51;98;52;99;53;100].
Definition ex_uuid : uuid := [10;27;44;61;78;95;106;123;140;157;14;31;42;59;76;93].
Definition ex_nodash : list Z := filter (fun c => negb (c =? 45)) ex_secret.
Definition ex_upper : list Z := map (fun c => if (97 <=? c) && (c <=? 122) then c - 32 else c) ex_secret.

Example C43_example_spellings :
  uuid_parse ex_secret = Some ex_uuid /\ uuid_parse ex_upper = Some ex_uuid /\ uuid_parse ex_nodash = Some ex_uuid /\
  uuid_parse (urn_prefix ++ ex_secret) = Some ex_uuid /\ uuid_parse (123 :: ex_secret ++ [125]) = Some ex_uuid /\
  uuid_parse (120 :: ex_secret ++ [121]) = Some ex_uuid /\
  uuid_parse (ex_secret ++ [48]) = None /\ uuid_parse (removelast ex_secret) = None /\ uuid_parse [] = None /\
  uuid_parse (103 :: tl ex_secret) = None.
Proof. vm_compute. repeat split. Qed.

(* one server, paths 0 and 1; clients A = 10.0.0.1 and B = 10.0.0.2; 127.0.0.1 and 192.168.1.0/24 are trusted proxies;
   only credentials 1 from A are admitted (on both paths) *)
Definition ipA : list Z := [49;48;46;48;46;48;46;49].             (* "10.0.0.1" *)
Definition ipB : list Z := [49;48;46;48;46;48;46;50].             (* "10.0.0.2" *)
Definition ipP : list Z := [49;50;55;46;48;46;48;46;49].          (* "127.0.0.1" *)
Definition ipQ : list Z := [49;57;50;46;49;54;56;46;49;46;53].    (* "192.168.1.5" *)
Definition adA : addr := (true, 167772161).
Definition adB : addr := (true, 167772162).
Definition adP : addr := (true, 2130706433).
Definition adQ : addr := (true, 3232235781).
Definition ex_parse (t : list Z) : option addr :=
  if bytes_eqb t ipA then Some adA else if bytes_eqb t ipB then Some adB
  else if bytes_eqb t ipP then Some adP else if bytes_eqb t ipQ then Some adQ else None.
Definition ex_trusted : list cidr :=
  [ {| c_v4 := true; c_base := 2130706433; c_ones := 32 |}; {| c_v4 := true; c_base := 3232235776; c_ones := 24 |} ].
Definition ex_conf : config :=
  {| always := false; cdn_secret := [115]; auth := fun p cred ip => (cred =? 1) && bytes_eqb ip ipA;
     nostream := fun _ => false; trusted := ex_trusted; parse_ip := ex_parse |}.
Definition ex_default : config :=      (* the same server with the default hlsTrustedProxies: [] *)
  {| always := false; cdn_secret := [115]; auth := auth ex_conf; nostream := fun _ => false; trusted := [];
     parse_ip := ex_parse |}.
Definition ex_other : uuid := [1;1;1;1;1;1;1;1;1;1;1;1;1;1;1;1].
Definition ex_other_s : list Z := (* "01010101-0101-0101-0101-010101010101" *)
  [48;49;48;49;48;49;48;49;45;48;49;48;49;45;48;49;48;49;45;48;49;48;49;45;48;49;48;49;48;49;48;49;48;49;48;49].

(* how requests arrive *)
Definition fromA : netreq := {| n_peer := Some (ipA, adA); n_hdrs := [] |}.
Definition fromB : netreq := {| n_peer := Some (ipB, adB); n_hdrs := [] |}.
Definition forged (h : Z) (v : list Z) : netreq := {| n_peer := Some (ipB, adB); n_hdrs := [(h, v)] |}.   (* B lies *)
Definition via_proxy (xff : list Z) : netreq := {| n_peer := Some (ipP, adP); n_hdrs := [(h_xff, xff)] |}.
Definition sep : list Z := [44; 32].

Example C43_example_client_ip :
  cip ex_conf fromA = ipA /\ cip ex_conf (forged h_xff ipA) = ipB /\ cip ex_conf (forged h_xreal ipA) = ipB /\
  cip ex_conf (forged 2 ipA) = ipB /\
  cip ex_conf (via_proxy ipA) = ipA /\
  cip ex_conf (via_proxy (ipA ++ sep ++ ipB)) = ipB /\              (* B forged "10.0.0.1", the proxy appended B *)
  cip ex_conf (via_proxy (ipA ++ sep ++ ipQ)) = ipA /\              (* A -> proxy Q -> proxy P *)
  cip ex_conf (via_proxy (ipB ++ sep ++ ipA ++ sep ++ ipQ)) = ipA /\
  cip ex_conf (via_proxy (ipP ++ sep ++ ipQ)) = ipP /\              (* only proxies: the leftmost one *)
  cip ex_conf (via_proxy [120]) = ipP /\                            (* not an IP: the peer *)
  cip ex_conf {| n_peer := Some (ipP, adP); n_hdrs := [(h_xff, [120]); (h_xreal, ipA)] |} = ipA /\
  cip ex_conf {| n_peer := None; n_hdrs := [(h_xff, ipA)] |} = [] /\
  cip ex_default (forged h_xff ipA) = ipB /\ cip ex_default (via_proxy ipA) = ipP.
Proof. vm_compute. repeat split. Qed.

(* the hypotheses of C43_client_ip_honest_chain are satisfiable: B forges "10.0.0.1", goes through Q then P *)
Example C43_example_honest_chain :
  let n := via_proxy (chain_xff ipA (ipB :: map fst [(ipQ, adQ)])) in
  hdr_val n h_xff = ipA ++ sep ++ ipB ++ sep ++ ipQ /\
  is_trusted (trusted ex_conf) adP = true /\ clean ipB = true /\ parse_ip ex_conf ipB = Some adB /\
  is_trusted (trusted ex_conf) adB = false /\
  Forall (fun e => clean (fst e) = true /\ parse_ip ex_conf (fst e) = Some (snd e) /\
                   is_trusted (trusted ex_conf) (snd e) = true) [(ipQ, adQ)] /\
  cip ex_conf n = ipB.
Proof. vm_compute. repeat split. constructor; [repeat split|constructor]. Qed.

(* why initialize must call SetTrustedProxies even for an empty list: under the engine gin.New() returns (trust
   0.0.0.0/0 and ::/0) the same forged requests would be attributed to A *)
Definition gin_default_engine : engine :=
  {| e_trusted := [ {| c_v4 := true; c_base := 0; c_ones := 0 |}; {| c_v4 := false; c_base := 0; c_ones := 0 |} ];
     e_forwarded := true; e_headers := [h_xff; h_xreal]; e_platform := None |}.
Example C43_example_gin_default_engine_spoofable :
  client_ip gin_default_engine ex_parse (forged h_xff ipA) = ipA /\
  client_ip gin_default_engine ex_parse (forged h_xreal ipA) = ipA /\
  client_ip (hls_engine ex_default) ex_parse (forged h_xff ipA) = ipB.
Proof. vm_compute. repeat split. Qed.

Example C43_example_history :
  map snd (exec ex_conf init
    [ Media 0 fromA [] None ex_secret;                    (* no muxer yet *)
      Multi 0 1 fromA [] false false ex_uuid;             (* cookie-check round first *)
      Multi 0 0 fromA [] true false ex_uuid;              (* anonymous: not admitted *)
      Multi 0 1 fromA [] true false ex_uuid;              (* admitted: session 0 on path 0, secret via query *)
      Multi 1 1 fromA [] true true ex_other;              (* session 1 on path 1, secret via cookie *)
      Media 0 fromA [] None ex_secret;                    (* right secret, right IP, right path *)
      Media 0 fromA [] (Some (urn_prefix ++ ex_upper)) [];  (* another spelling, in the cookie *)
      Media 0 fromB [] None ex_secret;                    (* other IP *)
      Media 0 (forged h_xff ipA) [] None ex_secret;       (* other IP claiming to be A: X-Forwarded-For *)
      Media 0 (forged h_xreal ipA) [] None ex_secret;     (* ... X-Real-Ip *)
      Media 0 (forged 2 ipA) [] None ex_secret;           (* ... CF-Connecting-IP *)
      Media 0 (via_proxy ipA) [] None ex_secret;          (* A through the trusted proxy *)
      Media 0 (via_proxy (ipA ++ sep ++ ipB)) [] None ex_secret;   (* B through the proxy with a forged X-Forwarded-For *)
      Multi 0 1 (forged h_xff ipA) [] true false ex_other;  (* B (not admitted) claiming to be A *)
      Media 1 fromA [] None ex_secret;                    (* path 0's secret on path 1 *)
      Media 0 fromA [] None ex_other_s;                   (* path 1's secret on path 0 *)
      Media 0 fromA [] (Some ex_other_s) ex_secret;       (* cookie (wrong) hides the query (right) *)
      Media 0 fromA [] (Some ex_secret) ex_other_s;       (* cookie (right) hides the query (wrong) *)
      Media 0 fromA (bearer ++ [115]) None ex_secret;     (* CDN secret but no CDN session *)
      Multi 0 0 fromB (bearer ++ [115]) false false [];   (* CDN session 2 on path 0: no admission asked *)
      Media 0 fromB (bearer ++ [115]) None [];            (* CDN: any IP, no session secret *)
      Media 1 fromB (bearer ++ [115]) None [];            (* but not on path 1 *)
      Kick 0;
      Media 0 fromA [] None ex_secret;                    (* kicked *)
      Media 1 fromA [] (Some ex_other_s) [];              (* session 1 still lives *)
      Expire [1; 2];
      Media 1 fromA [] (Some ex_other_s) [];
      Media 0 fromB (bearer ++ [115]) None [];
      Multi 1 1 fromA [] true false ex_uuid;              (* session 3 on path 1 *)
      MuxClose 1;
      Media 1 fromA [] None ex_secret ])
  = [ OUnauth; ORedirect; OUnauth; OCreated false 0; OCreated true 1; OPass; OPass; OUnauth; OUnauth; OUnauth; OUnauth;
      OPass; OUnauth; OUnauth; OUnauth; OUnauth; OUnauth;
      OPass; OUnauth; OCdnCreated 2; OPass; OUnauth; OKicked true; OUnauth; OPass; ONone; OUnauth; OUnauth;
      OCreated false 3; OClosed true; OUnauth ].
Proof. vm_compute. reflexivity. Qed.

(* the default configuration: forwarding headers never count *)
Example C43_example_default_config :
  map snd (exec ex_default init
    [ Multi 0 1 fromA [] true false ex_uuid;
      Media 0 fromA [] None ex_secret;
      Media 0 (forged h_xff ipA) [] None ex_secret;
      Media 0 (forged h_xreal ipA) [] None ex_secret;
      Media 0 (via_proxy ipA) [] None ex_secret;          (* 127.0.0.1 is just another client here *)
      Multi 0 1 (forged h_xff ipA) [] true false ex_other ])
  = [ OCreated false 0; OPass; OUnauth; OUnauth; OUnauth; OUnauth ].
Proof. vm_compute. reflexivity. Qed.
