(* C28 — Playback endpoints survive any recording directory content.
   Only statements here; every proof is `exact <lemma of Proofs/C28_SegRead.v>`.
   Model: Model/C28_SegRead.v — the in-tree parsing code of internal/playback/segment_fmp4.go
   (segmentFMP4ReadHeader, segmentFMP4ReadDurationFromParts, the handler of segmentFMP4MuxParts), parseSegment of
   on_list.go and the segment loop of seekAndMux of on_get.go, over a file given as a list of bytes, with outcome
   Ok v | Err | Panic why and the list of sizes passed to make([]byte, n). `pinned` is the tree as it was found,
   `repaired` the tree after the five fix: commits. Third-party decoders are oracles: every theorem below holds for
   ALL oracle functions / event lists, i.e. whatever go-mp4 and mediacommon return, as long as they return.
   Directory level: Model/C28_Dir.v - parseSegments (goroutines, errors collected in completion order),
   concatenateSegments, the tail of onList, and seekAndMux over the files FindSegments selected, any of which may be
   unparsable (second half of this file). *)
From Coq Require Import List ZArith Bool Permutation.
Require Import MTX.Lib.IntWrap MTX.Model.C24_MulDiv MTX.Model.C28_SegRead MTX.Proofs.C28_SegRead.
Require Import MTX.Model.C28_Dir MTX.Proofs.C28_Dir.
Import ListNotations.
Local Open Scope Z_scope.

(* ---- the tree as it was found: the full statement is false ---- *)
(* 16 bytes `ftyp` + `moov` header, mvhd decoded with Timescale 0: integer divide by zero *)
Theorem C28_no_panic_refuted :
  (exists data o_mvhd o_init, wf_bytes data = true /\
     fst (read_header pinned data o_mvhd o_init) = Panic DivZero) /\
  (exists flen tracks es, ts_nonzero tracks = true /\
     fst (mux_parts pinned flen tracks 0 nanos es) = Panic NilDeref).
Proof. exact no_panic_refuted_all. Qed.
Print Assumptions C28_no_panic_refuted.

(* an 80-byte file whose tfhd box has size 0 makes the part walk ask for 4294967288 bytes; a 16-byte file with a
   large moov size makes the header reader ask for 4294967048; one trun entry makes the muxing path ask for 4278190082 *)
Theorem C28_alloc_bound_refuted :
  (exists data o1 o2 o3 tracks, wf_bytes data = true /\ len data = 80 /\
     In 4294967288 (snd (read_duration_from_parts pinned data o1 o2 o3 tracks))) /\
  (exists data o_mvhd o_init, wf_bytes data = true /\ len data = 16 /\
     In 4294967048 (snd (read_header pinned data o_mvhd o_init))) /\
  (exists tracks es, ts_nonzero tracks = true /\
     In 4278190082 (snd (mux_parts pinned 933 tracks 0 (100 * nanos) es))).
Proof. exact alloc_bound_refuted_all. Qed.
Print Assumptions C28_alloc_bound_refuted.

(* ---- the repaired tree ---- *)
(* No input makes the in-tree code panic or loop forever (Panic Hang = the fuel |file|+1 of a loop ran out):
   for every file (a list of bytes) and every behaviour of the third-party decoders,
   - segmentFMP4ReadHeader,
   - segmentFMP4ReadDurationFromParts for tracks with non-zero timescales,
   - parseSegment (/list) provided fmp4.Init.Unmarshal only returns tracks with a non-zero timescale
     (mediacommon checks it; the assumption is necessary: C28_parts_needs_timescale),
   - the handler of segmentFMP4MuxParts over every sequence of box events, for every start and duration,
   - the loop over later segments of seekAndMux (/get), for every sequence of segment headers
   end in Ok or Err. *)
Theorem C28_no_panic :
  (forall data o_mvhd o_init w, wf_bytes data = true ->
     fst (read_header repaired data o_mvhd o_init) <> Panic w) /\
  (forall data o_tfhd o_tfdt o_trun tracks w, wf_bytes data = true -> ts_nonzero tracks = true ->
     fst (read_duration_from_parts repaired data o_tfhd o_tfdt o_trun tracks) <> Panic w) /\
  (forall data o_mvhd o_init o_tfhd o_tfdt o_trun w, wf_bytes data = true ->
     (forall n tracks, o_init n = InitOk tracks -> ts_nonzero tracks = true) ->
     fst (parse_segment repaired data o_mvhd o_init o_tfhd o_tfdt o_trun) <> Panic w) /\
  (forall file_len tracks start_dts duration events w, ts_nonzero tracks = true ->
     fst (mux_parts repaired file_len tracks start_dts duration events) <> Panic w) /\
  (forall first segs w, seek_loop first first segs 0 <> Panic w).
Proof. exact no_panic_all. Qed.
Print Assumptions C28_no_panic.

(* Every size passed to make([]byte, n) by the in-tree code is at most max(8, file length)
   (header, part walk, parseSegment) resp. at most the file length (sample payloads of the muxing path). *)
Theorem C28_alloc_bound :
  (forall data o_mvhd o_init a, wf_bytes data = true ->
     In a (snd (read_header repaired data o_mvhd o_init)) -> a <= Z.max 8 (len data)) /\
  (forall data o_tfhd o_tfdt o_trun tracks a, wf_bytes data = true -> ts_nonzero tracks = true ->
     In a (snd (read_duration_from_parts repaired data o_tfhd o_tfdt o_trun tracks)) -> a <= Z.max 8 (len data)) /\
  (forall data o_mvhd o_init o_tfhd o_tfdt o_trun a, wf_bytes data = true ->
     (forall n tracks, o_init n = InitOk tracks -> ts_nonzero tracks = true) ->
     In a (snd (parse_segment repaired data o_mvhd o_init o_tfhd o_tfdt o_trun)) -> a <= Z.max 8 (len data)) /\
  (forall file_len tracks start_dts duration events a, ts_nonzero tracks = true ->
     In a (snd (mux_parts repaired file_len tracks start_dts duration events)) -> a <= Z.max 0 file_len).
Proof. exact alloc_bound_all. Qed.
Print Assumptions C28_alloc_bound.

(* the hypothesis on track timescales cannot be dropped: the repaired part walk divides by the track timescale *)
Theorem C28_parts_needs_timescale :
  exists data o_tfhd o_tfdt o_trun tracks, wf_bytes data = true /\
    fst (read_duration_from_parts repaired data o_tfhd o_tfdt o_trun tracks) = Panic DivZero.
Proof. exact parts_needs_timescale_ex. Qed.
Print Assumptions C28_parts_needs_timescale.

(* the witnesses of the refutations are errors on the repaired tree *)
Example C28_witnesses_now_errors :
  fst (read_header repaired w_hdr (fun _ _ => MvhdOk 5 0) (fun _ => InitErr)) = Err /\
  read_duration_from_parts repaired (w_parts 0) (fun _ _ => Some 1) (fun _ _ => Some 0) (fun _ _ => Some [])
    [(1, 90000)] = (Err, [8]).
Proof. split; [exact header_repaired_same_input|exact parts_repaired_same_input]. Qed.

(* non-vacuity: the model walks a well-formed segment to the end (2 s of media) and muxes a sample *)
Example C28_parts_nontrivial :
  fst (read_duration_from_parts repaired (w_parts 8) (fun _ _ => Some 1) (fun _ _ => Some 90000)
         (fun _ _ => Some [45000; 45000]) [(1, 90000)]) = Ok 2000000000.
Proof. exact parts_nontrivial. Qed.
Example C28_mux_nontrivial :
  exists s, mux_parts repaired 933 [(1, 90000)] 0 (100 * nanos)
         [EMoof 683; ETraf; ETfhd (Some 1); ETfdt (Some 90000);
          ETrun (Some (120, [{| e_dur := 90000; e_size := 2; e_nonsync := false; e_cto := 0 |}])); EMdat]
        = (Ok s, [2]) /\ s.(m_seg_dur) = 2 * nanos /\
        s.(m_calls) = [FinalDTS 180000; WriteSample 90000 0 false 2 803; SetTrack 1].
Proof. exact mux_nontrivial. Qed.

(* ================= directory level: valid segments next to zero-filled / truncated / foreign files ================= *)
(* `file_ok f`: the file is a list of bytes and fmp4.Init.Unmarshal only returns tracks with a non-zero timescale;
   everything else about the file (content, what the third-party decoders answer on it, the start decoded from its
   name, its stream-id box, the box events and the dts of /get) is arbitrary. `sched` is the order in which the
   collecting loop of parseSegments receives the goroutines' results: any permutation of 0..n-1.

   For every list of selected files - unparsable ones in any position, one, several or all of them -, every
   completion order and every window:
   - /list (parseSegments, concatenateSegments, entries[0], entries[1:], entries[len-1]) ends in a status, not in a
     nil dereference or an index out of range;
   - /get (seekAndMux: segments[0], header / mux errors of the first and of later files, mtxi.DTS) ends in a class
     of answers, not in a panic;
   the same with the per-file outcomes as arbitrary non-panicking values (third and fourth statement). *)
Theorem C28_dir_no_panic :
  (forall files sched start end_ w,
     Forall file_ok files -> Permutation sched (seq 0 (length files)) ->
     on_list_files files sched start end_ <> Panic w) /\
  (forall files duration w, Forall file_ok files -> on_get_files files duration <> Panic w) /\
  (forall found sched start end_ w,
     first_panic found = None -> Permutation sched (seq 0 (length found)) ->
     on_list_dir KeepAny found sched start end_ <> Panic w) /\
  (forall found w, Forall gfile_ok found -> on_get_dir found <> Panic w).
Proof. exact dir_no_panic_all. Qed.
Print Assumptions C28_dir_no_panic.

(* What /list answers: status 500 exactly when one of the selected files cannot be parsed (no error is lost,
   whichever goroutine finishes last), and the whole answer is independent of the completion order. *)
Theorem C28_list_dir_answer :
  (forall files sched start end_,
     Forall file_ok files -> Permutation sched (seq 0 (length files)) -> files <> [] ->
     match start, end_ with Some s, Some e => e <? s | _, _ => false end = false ->
     (on_list_files files sched start end_ = Ok L500 <-> exists f, In f files /\ file_parse f = Err)) /\
  (forall found sched start end_, Permutation sched (seq 0 (length found)) ->
     on_list_dir KeepAny found sched start end_ = on_list_dir KeepAny found (seq 0 (length found)) start end_).
Proof. exact dir_list_answer_all. Qed.
Print Assumptions C28_list_dir_answer.

(* The collecting loop must keep ANY error: with `err = <-ch` (KeepLast) an unparsable file followed by a valid one
   that finishes later leaves a nil slot that concatenateSegments dereferences; and whatever the discipline, a nil
   slot in the list handed to concatenateSegments is a nil dereference. *)
Theorem C28_list_keep_last_refuted :
  (exists found sched, first_panic found = None /\ Permutation sched (seq 0 (length found)) /\
     on_list_dir KeepLast found sched None None = Panic NilDeref) /\
  (forall l1 l2, concatenate_segments (map Some l1 ++ None :: l2) = Panic NilDeref).
Proof. split; [exact keep_last_refuted|exact nil_slot_panics]. Qed.
Print Assumptions C28_list_keep_last_refuted.

(* the same two files under the code's loop: 500; under KeepLast the other completion order hides the defect *)
Example C28_keep_last_same_input :
  on_list_dir KeepAny [Err; Ok w_seg] [0%nat; 1%nat] None None = Ok L500 /\
  on_list_dir KeepLast [Err; Ok w_seg] [1%nat; 0%nat] None None = Ok L500.
Proof. exact keep_last_same_input. Qed.
(* non-vacuity: an unparsable file between two valid ones -> 500; two contiguous valid files -> one clipped entry *)
Example C28_list_dir_nontrivial :
  on_list_dir KeepAny [Ok w_seg; Err; Ok (PS 5000000000 1 None [(1, 90000, 1)])] [2%nat; 0%nat; 1%nat] None None = Ok L500 /\
  on_list_dir KeepAny [Ok w_seg; Ok (PS 2000001000 3000000000 None [(1, 90000, 1)])] [1%nat; 0%nat] (Some 500000000) None
    = Ok (L200 [LE 500000000 4500001000]).
Proof. exact list_nontrivial. Qed.
Example C28_get_dir_nontrivial :
  on_get_dir [GF (Ok w_seg) (Ok 2000000000); GF Err Err] = Ok GFailed /\
  on_get_dir [GF Err Err; GF (Ok w_seg) (Ok 2000000000)] = Ok GBadFirst /\
  on_get_dir [GF (Ok w_seg) (Ok 2000000000); GF (Ok (PS 2000001000 0 None [(1, 90000, 1)])) (Ok 5)] = Ok (GMuxed 2).
Proof. exact get_nontrivial. Qed.
