(* C05 - CORS allows only configured origins.
   Only statements here; every proof is `exact <lemma of Proofs/C05_Cors.v>`.
   is_origin_allowed parse origin allow models isOriginAllowed after the fix: commits a08e622 (scheme and port
   compared in the wildcard branch, wildcard applied to the host name only) and f582f54 (regexp.QuoteMeta);
   `parse` is the url.Parse oracle (Scheme and Host of a raw string, None on error); the regexp engine on the
   quoted pattern is modelled as a glob matcher (assumption stated in Model/C05_Cors.v).
   eff_port u / eff_hostname u / complete_host u: port, host name and host:port after the default-port completion
   (http 80, https 443). cglob false p t: every '*' of p stands for any characters, every other character matches
   literally. cglob true adds the rule C_bare: a "*." may match nothing (bare parent domain). *)
From Coq Require Import List ZArith Bool.
Require Import MTX.Lib.Utf8 MTX.Model.C05_Cors MTX.Proofs.C05_Cors.
Import ListNotations.
Local Open Scope Z_scope.

(* FULL statement, false of the code (also of the repaired code): the bare parent domain of a "*." entry is
   echoed. Deliberate upstream behaviour -> KNOWN_FINDINGS.jsonl class "wildcard-bare-parent". *)
Theorem C05_echo_sound_refuted :
  is_origin_allowed parse_ex str_https_example_org [str_https_star_example_org] = Echo str_https_example_org /\
  ~ eligible (cglob false) parse_ex str_https_example_org [str_https_star_example_org] /\
  bare_parent_class parse_ex str_https_example_org [str_https_star_example_org] = true.
Proof. exact bare_parent_refuted. Qed.
Print Assumptions C05_echo_sound_refuted.

(* with exactly that class excluded by a boolean guard on the inputs, the full statement holds for all origins,
   all allow lists and all url.Parse behaviours: the echoed value is the origin itself, and some allowed entry has
   the same scheme and the same effective port and either the same host:port or a wildcard host name that matches
   the origin's host name with '*' = any characters and everything else literal *)
Theorem C05_echo_sound_partial : forall parse origin allow s,
  is_origin_allowed parse origin allow = Echo s ->
  bare_parent_class parse origin allow = false ->
  s = origin /\
  exists a au ou, In a allow /\ parse a = Some au /\ parse origin = Some ou /\
    u_scheme ou <> [] /\ u_scheme au = u_scheme ou /\ eff_port au = eff_port ou /\
    (complete_host au = complete_host ou \/
     (has_star (eff_hostname au) = true /\ cglob false (eff_hostname au) (eff_hostname ou))).
Proof. exact echo_sound_guarded. Qed.
Print Assumptions C05_echo_sound_partial.

(* without the guard: the same with the lax reading (the only extra rule is C_bare) *)
Theorem C05_echo_sound_lax : forall parse origin allow s,
  is_origin_allowed parse origin allow = Echo s ->
  s = origin /\ eligible (cglob true) parse origin allow.
Proof. exact echo_sound_lax. Qed.
Print Assumptions C05_echo_sound_lax.

(* what membership in the excluded class means *)
Theorem C05_bare_parent_class_meaning : forall parse o a_raw, bare_parent_entry parse o a_raw = true ->
  exists a, parse a_raw = Some a /\ u_scheme a = u_scheme o /\ eff_port a = eff_port o /\
    cglob true (eff_hostname a) (eff_hostname o) /\ ~ cglob false (eff_hostname a) (eff_hostname o).
Proof. exact bare_parent_entry_spec. Qed.
Print Assumptions C05_bare_parent_class_meaning.

(* the matcher of the model decides the relation (both readings) *)
Theorem C05_glob_matcher_correct : forall lax p t, gmatch lax (tokenize false p) t = true <-> cglob lax p t.
Proof. exact gmatch_cglob. Qed.
Print Assumptions C05_glob_matcher_correct.

Theorem C05_star_only_if_listed : forall parse origin allow,
  is_origin_allowed parse origin allow = Star -> In [42] allow.
Proof. intros parse. exact (star_only_if_listed parse wild_match). Qed.
Print Assumptions C05_star_only_if_listed.

Theorem C05_absent_otherwise : forall parse origin allow,
  ~ eligible (cglob true) parse origin allow -> ~ In [42] allow ->
  is_origin_allowed parse origin allow = Absent.
Proof. exact absent_otherwise. Qed.
Print Assumptions C05_absent_otherwise.

Theorem C05_result_cases : forall parse origin allow,
  is_origin_allowed parse origin allow = Echo origin \/ is_origin_allowed parse origin allow = Star \/
  is_origin_allowed parse origin allow = Absent.
Proof. intros parse. exact (result_cases parse wild_match). Qed.
Print Assumptions C05_result_cases.

(* not asked by the property, pins the model from the other side: an eligible origin is echoed *)
Theorem C05_echo_complete : forall parse origin allow,
  origin <> [] ->
  (exists a au ou, In a allow /\ parse a = Some au /\ parse origin = Some ou /\
     u_scheme ou <> [] /\ u_scheme au = u_scheme ou /\ eff_port au = eff_port ou /\
     (complete_host au = complete_host ou \/
      (has_star (eff_hostname au) = true /\ valid_utf8 (eff_hostname au) = true /\
       cglob true (eff_hostname au) (eff_hostname ou)))) ->
  is_origin_allowed parse origin allow = Echo origin.
Proof. exact echo_complete. Qed.
Print Assumptions C05_echo_complete.

(* The pinned code (is_origin_allowed_v0) violated even the lax statement: the wildcard branch ignored the scheme
   (http and ftp origins echoed for an https entry) and did not escape '.', all three reproduced on the real
   function before the fix (design_notes/C05.md). *)
Theorem C05_pinned_code_refuted :
  (is_origin_allowed_v0 parse_ex str_http_evil_443 [str_https_star_example_org] = Echo str_http_evil_443 /\
   ~ eligible (cglob true) parse_ex str_http_evil_443 [str_https_star_example_org]) /\
  (is_origin_allowed_v0 parse_ex str_ftp_evil_443 [str_https_star_example_org] = Echo str_ftp_evil_443 /\
   ~ eligible (cglob true) parse_ex str_ftp_evil_443 [str_https_star_example_org]) /\
  (is_origin_allowed_v0 parse_ex str_https_subX [str_https_star_sub] = Echo str_https_subX /\
   ~ eligible (cglob true) parse_ex str_https_subX [str_https_star_sub]).
Proof. exact v0_refuted. Qed.
Print Assumptions C05_pinned_code_refuted.

Theorem C05_pinned_witnesses_now_rejected :
  is_origin_allowed parse_ex str_http_evil_443 [str_https_star_example_org] = Absent /\
  is_origin_allowed parse_ex str_ftp_evil_443 [str_https_star_example_org] = Absent /\
  is_origin_allowed parse_ex str_https_subX [str_https_star_sub] = Absent.
Proof. exact v0_witnesses_fixed. Qed.
Print Assumptions C05_pinned_witnesses_now_rejected.

(* non-vacuity of the guarded theorem: a sub-domain is echoed, outside the excluded class, and is eligible *)
Example C05_example :
  let sub := [104;116;116;112;115;58;47;47;97;46;98;46;101;120;97;109;112;108;101;46;111;114;103] in   (* https://a.b.example.org *)
  let parse := fun s => if list_eqb s sub
                        then Some {| u_scheme := s_https; u_host := [97;46;98;46;101;120;97;109;112;108;101;46;111;114;103] |}
                        else parse_ex s in
  is_origin_allowed parse sub [[42]; str_https_star_example_org] = Echo sub /\
  bare_parent_class parse sub [[42]; str_https_star_example_org] = false /\
  is_origin_allowed parse str_https_subX [[42]; str_https_star_example_org] = Star /\
  is_origin_allowed parse str_https_subX [str_https_star_example_org] = Absent /\
  eff_port {| u_scheme := s_https; u_host := h_example_org |} = [52; 52; 51] /\
  complete_host {| u_scheme := s_http; u_host := [91; 58; 58; 49; 93] |} = [91; 91; 58; 58; 49; 93; 93; 58; 56; 48].
Proof. vm_compute. repeat split. Qed.
