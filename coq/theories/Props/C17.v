(* C17 — Readers get the publisher's units in order; drops are counted.
   Only statements here; every proof is `exact <lemma of Proofs/C17_StreamSM.v>`.

   The model (Model/C17_StreamSM.v) is a labelled transition system whose labels are the atomic steps of
   internal/stream at the granularity of Stream.mutex / the ring-buffer mutex.  A history is ANY list of labels
   that the system can execute from the initial state (`run (init fmts n) ls = Some s`): this is every schedule of
   the writer, the reader goroutines and the callers of AddReader/RemoveReader at that granularity, for every queue
   size n > 0, every set of medias/formats, readers and sub-streams.  A stream format is identified as in the code, by
   the pair (media, format) that indexes Stream.medias[m].formats[f]; one media may carry several formats.
   `asked r ls` is the list of r's OnData labels (the pairs it subscribed to).  `offered r ls` is read off the labels
   alone: the ((media, format), unit) triples of the Write labels issued through the sub-stream that was current at
   that moment (last NewSub), while r was attached (after AddReader r, before RemoveBegin r), to a pair r asked for
   before it was added, in write order.  `ring_holds b q` says that ring buffer b contains exactly q, oldest first.
   Not covered: data races / the Go memory model (the theorems are about interleavings of the mutex-protected steps). *)
From Coq Require Import List ZArith Arith Bool.
Require Import MTX.Model.C17_StreamSM MTX.Proofs.C17_StreamSM MTX.Model.C17_WriteLock MTX.Proofs.C17_WriteLock.
Import ListNotations.

(* what reader r has been handed (callbacks finished ++ the one in flight) followed by what is still queued for it
   is a subsequence of what was written for it: same order, every written occurrence at most once *)
Theorem C17_order : forall fmts n ls s r rd,
  0 < n -> run (init fmts n) ls = Some s -> s_readers s r = Some rd ->
  subseq (r_delivered rd ++ inflight rd) (offered r ls) /\
  exists q, ring_holds (r_buf rd) q /\ subseq (r_delivered rd ++ inflight rd ++ q) (offered r ls).
Proof. exact order_both. Qed.
Print Assumptions C17_order.

(* `offered` only contains units that some Write label carried, in write order *)
Theorem C17_offered_were_written : forall r ls, subseq (offered r ls) (all_writes ls).
Proof. exact offered_writes. Qed.
Print Assumptions C17_offered_were_written.

(* if the publisher never writes the same unit twice, no reader gets a unit twice *)
Theorem C17_at_most_once : forall fmts n ls s r rd,
  0 < n -> run (init fmts n) ls = Some s -> s_readers s r = Some rd ->
  NoDup (map snd (all_writes ls)) -> NoDup (map snd (r_delivered rd ++ inflight rd)).
Proof. exact at_most_once. Qed.
Print Assumptions C17_at_most_once.

(* nothing of a format the reader did not subscribe to is delivered to it, in flight or queued for it *)
Theorem C17_no_foreign_format : forall fmts n ls s r rd,
  0 < n -> run (init fmts n) ls = Some s -> s_readers s r = Some rd ->
  exists q, ring_holds (r_buf rd) q /\
            forall x, In x (r_delivered rd ++ inflight rd ++ q) -> In (fst x) (r_subs rd).
Proof. exact no_foreign_format. Qed.
Print Assumptions C17_no_foreign_format.

(* written-to-r = delivered + in flight + queued + discarded (+ k items dropped by buffer.Close(), k = 0 until
   RemoveClose, k <= queue size afterwards, when the queue is empty) *)
Theorem C17_accounting : forall fmts n ls s r rd,
  0 < n -> run (init fmts n) ls = Some s -> s_readers s r = Some rd ->
  exists q k, ring_holds (r_buf rd) q /\
    length (offered r ls) = length (r_delivered rd) + length (inflight rd) + length q + r_discarded rd + k /\
    k <= n /\
    (r_phase rd = Attached \/ r_phase rd = Unsubscribed -> k = 0) /\
    (r_phase rd = Closed \/ r_phase rd = Joined -> q = []).
Proof. exact accounting. Qed.
Print Assumptions C17_accounting.

(* the discarded counter moves only in a Write step of the current sub-stream to a format the (attached) reader
   subscribed to that found the queue full; it then moves by one and the queue is untouched *)
Theorem C17_discard_only_when_full : forall s l s' r rd rd',
  reachable s -> step s l = Some s' -> s_readers s r = Some rd -> s_readers s' r = Some rd' ->
  r_discarded rd' <> r_discarded rd ->
  exists ss f u q, l = Write ss f u /\ s_cur s = Some ss /\ r_phase rd = Attached /\ In f (r_subs rd) /\
                   ring_holds (r_buf rd) q /\ length q = s_qsize s /\
                   r_discarded rd' = S (r_discarded rd) /\ r_buf rd' = r_buf rd.
Proof. exact discard_only_when_full. Qed.
Print Assumptions C17_discard_only_when_full.

(* units are skipped only when the queue is full: with room, the unit is appended to the reader's queue *)
Theorem C17_write_when_room : forall s ss f u s' r rd q,
  reachable s -> step s (Write ss f u) = Some s' -> s_cur s = Some ss ->
  s_readers s r = Some rd -> r_phase rd = Attached -> In f (r_subs rd) ->
  ring_holds (r_buf rd) q -> length q < s_qsize s ->
  exists rd', s_readers s' r = Some rd' /\ ring_holds (r_buf rd') (q ++ [(f, u)]) /\
              r_discarded rd' = r_discarded rd /\ r_go rd' = r_go rd /\ r_delivered rd' = r_delivered rd /\
              r_phase rd' = r_phase rd.
Proof. exact write_when_room. Qed.
Print Assumptions C17_write_when_room.

(* each skipped unit is counted *)
Theorem C17_write_when_full : forall s ss f u s' r rd q,
  reachable s -> step s (Write ss f u) = Some s' -> s_cur s = Some ss ->
  s_readers s r = Some rd -> r_phase rd = Attached -> In f (r_subs rd) ->
  ring_holds (r_buf rd) q -> length q = s_qsize s ->
  exists rd', s_readers s' r = Some rd' /\ r_buf rd' = r_buf rd /\
              r_discarded rd' = S (r_discarded rd) /\ r_go rd' = r_go rd /\ r_delivered rd' = r_delivered rd /\
              r_phase rd' = r_phase rd.
Proof. exact write_when_full. Qed.
Print Assumptions C17_write_when_full.

(* the reader goroutine takes the oldest queued item *)
Theorem C17_pull_takes_head : forall s r rd x q s',
  reachable s -> s_readers s r = Some rd -> ring_holds (r_buf rd) (x :: q) -> step s (ReaderPull r) = Some s' ->
  exists rd', s_readers s' r = Some rd' /\ r_go rd' = Busy x /\ ring_holds (r_buf rd') q /\
              r_delivered rd' = r_delivered rd /\ r_discarded rd' = r_discarded rd.
Proof. exact pull_takes_head. Qed.
Print Assumptions C17_pull_takes_head.

(* after RemoveJoin r, in every continuation: the record of r (delivered list, counters) is frozen, its goroutine
   has exited, and no ReaderPull r / ReaderDone r step is executable *)
Theorem C17_no_callback_after_remove : forall ls s r rd s',
  reachable s -> s_readers s r = Some rd -> r_phase rd = Joined -> run s ls = Some s' ->
  s_readers s' r = Some rd /\ r_go rd = Exited /\
  ~ In (ReaderPull r) ls /\ forall ok, ~ In (ReaderDone r ok) ls.
Proof. exact no_callback_after_remove. Qed.
Print Assumptions C17_no_callback_after_remove.

(* RemoveReader returns (RemoveJoin) only after the goroutine of the reader has left its loop *)
Theorem C17_join_needs_exit : forall s r s' rd,
  step s (RemoveJoin r) = Some s' -> s_readers s r = Some rd -> r_go rd = Exited /\ r_phase rd = Closed.
Proof. exact join_needs_exit. Qed.
Print Assumptions C17_join_needs_exit.

(* between RemoveBegin and RemoveJoin (and after) no write touches the reader *)
Theorem C17_nothing_queued_after_unsubscribe : forall s ss f u s' r rd,
  reachable s -> step s (Write ss f u) = Some s' -> s_readers s r = Some rd -> r_phase rd <> Attached ->
  s_readers s' r = Some rd.
Proof. exact nothing_queued_after_unsubscribe. Qed.
Print Assumptions C17_nothing_queued_after_unsubscribe.

(* stale sub-stream guard: a write through a sub-stream that is not the current one changes nothing at all *)
Theorem C17_stale_write_noop : forall s ss f u s',
  s_cur s <> Some ss -> step s (Write ss f u) = Some s' -> s' = s.
Proof. exact write_stale. Qed.
Print Assumptions C17_stale_write_noop.

(* the per-format subscription table holds exactly the attached readers that registered the format *)
Theorem C17_subscribed_iff : forall s r rd f,
  reachable s -> s_readers s r = Some rd ->
  (In r (s_onDatas s f) <-> r_phase rd = Attached /\ In f (r_subs rd)).
Proof. exact subscribed_iff. Qed.
Print Assumptions C17_subscribed_iff.

(* Reader.OnData adds exactly the pair it is called with to r.onDatas: a second format of a media that already has
   an entry does not replace the first *)
Theorem C17_ondata_keeps_earlier : forall od m f k,
  In k (keys_of (on_data od m f)) <-> k = (m, f) \/ In k (keys_of od).
Proof. exact on_data_keys. Qed.
Print Assumptions C17_ondata_keeps_earlier.

(* in every history the pairs a reader is registered with are exactly the pairs of its OnData labels ... *)
Theorem C17_subs_are_asked : forall fmts n ls s r rd,
  0 < n -> run (init fmts n) ls = Some s -> s_readers s r = Some rd ->
  forall k, In k (r_subs rd) <-> In k (asked r ls).
Proof. exact subs_are_asked. Qed.
Print Assumptions C17_subs_are_asked.

(* ... and the subscriber table of (media, format) k holds exactly the attached readers that asked for k *)
Theorem C17_subscribed_iff_asked : forall fmts n ls s r rd k,
  0 < n -> run (init fmts n) ls = Some s -> s_readers s r = Some rd ->
  (In r (s_onDatas s k) <-> r_phase rd = Attached /\ In k (asked r ls)).
Proof. exact subscribed_iff_asked. Qed.
Print Assumptions C17_subscribed_iff_asked.

(* `offered`, label by label: a Write adds its unit for r exactly when it goes through the current sub-stream while
   r is attached and r asked for that pair (any of them: C17_accounting then says the unit is delivered, in flight,
   queued or counted as discarded); no other label changes `offered` *)
Theorem C17_offered_write : forall fmts n ls s r rd ss k u,
  0 < n -> run (init fmts n) ls = Some s -> s_readers s r = Some rd ->
  offered r (ls ++ [Write ss k u]) =
    if match r_phase rd with Attached => true | _ => false end && opt_eqb (s_cur s) ss && memK k (asked r ls)
    then offered r ls ++ [(k, u)] else offered r ls.
Proof. exact offered_write. Qed.
Print Assumptions C17_offered_write.

Theorem C17_offered_other : forall r ls l,
  (forall ss k u, l <> Write ss k u) -> offered r (ls ++ [l]) = offered r ls.
Proof. exact offered_snoc_other. Qed.
Print Assumptions C17_offered_other.

(* SubStream.WriteUnit split into start / RLock returns / currency comparison / finish (Model/C17_WriteLock.v), all
   other labels whole, AddReader/RemoveBegin/NewSub enabled only while no call holds the read lock: with the code's
   order (lock, then compare) every fine-grained schedule from the initial state is a history of the coarse LTS in
   which each call is one Write label placed where the call finishes, ending in the same state - so all theorems
   above hold for these schedules ... *)
Theorem C17_write_call_atomic : forall fmts n ls s ws tr,
  micro_run LockThenCheck (init fmts n) [] ls = Some (s, ws, tr) -> run (init fmts n) tr = Some s.
Proof. exact lock_then_check_refines. Qed.
Print Assumptions C17_write_call_atomic.

Theorem C17_write_call_atomic_order : forall fmts n ls s ws tr r rd,
  0 < n -> micro_run LockThenCheck (init fmts n) [] ls = Some (s, ws, tr) -> s_readers s r = Some rd ->
  exists q, ring_holds (r_buf rd) q /\ subseq (r_delivered rd ++ inflight rd ++ q) (offered r tr).
Proof. exact lock_then_check_order. Qed.
Print Assumptions C17_write_call_atomic_order.

(* ... whereas with the comparison made before the lock is taken there is a schedule (the call of the replaced
   publisher compares, the new publisher is installed, the call gets the lock and fans out) after which a reader
   holds a unit that no current publisher wrote for it, and the emitted labels do not lead to that state *)
Theorem C17_check_then_lock_refuted :
  exists ls s ws tr rd,
    micro_run CheckThenLock (init race_fmts 2) [] ls = Some (s, ws, tr) /\
    s_readers s 1%Z = Some rd /\
    offered 1%Z tr = [] /\
    slot (r_buf rd) 0 = Some ((0, 0), 50)%Z /\
    run (init race_fmts 2) tr <> Some s.
Proof. exact check_then_lock_refuted. Qed.
Print Assumptions C17_check_then_lock_refuted.

(* the gortsplib ring buffer is a FIFO of capacity rb_size: Push appends when there is room ... *)
Theorem C17_ring_push_room : forall rb q x,
  0 < rb_size rb -> ring_ok rb q -> length q < rb_size rb ->
  exists rb', rb_push rb x = (rb', true) /\ ring_ok rb' (q ++ [x]) /\
              rb_size rb' = rb_size rb /\ rb_closed rb' = rb_closed rb.
Proof. exact ring_push_room. Qed.
Print Assumptions C17_ring_push_room.

(* ... fails (and changes nothing) exactly when it is full ... *)
Theorem C17_ring_push_full : forall rb q x,
  0 < rb_size rb -> ring_ok rb q -> length q = rb_size rb -> rb_push rb x = (rb, false).
Proof. exact ring_push_full. Qed.
Print Assumptions C17_ring_push_full.

(* ... and Pull removes the head *)
Theorem C17_ring_pull : forall rb x q,
  0 < rb_size rb -> ring_holds rb (x :: q) ->
  exists rb', rb_pull rb = PullItem rb' x /\ ring_holds rb' q /\ rb_size rb' = rb_size rb /\
              rb_closed rb' = rb_closed rb /\ rb_wi rb' = rb_wi rb /\
              (rb_ri rb' + length q) mod rb_size rb = (rb_ri rb + S (length q)) mod rb_size rb.
Proof. exact ring_pull_item. Qed.
Print Assumptions C17_ring_pull.

(* non-vacuity: media 0 with two formats, media 1 with one; reader 2 asks for (0,0), then (0,1), then - after a unit
   was written - (1,0); full queues, discards by two readers, a stale write, removal while a unit is in flight and
   one is queued; the final views and the `offered` / `asked` lists are computed *)
Example C17_example :
  match run (init ex_fmts 2) ex_hist with
  | Some s =>
      ex_view s 1 = Some ([((0, 0), 100)%Z], [((0, 0), 102)%Z], 1, 2, Attached) /\
      ex_view s 2 = Some ([((0, 1), 101)%Z], [], 2, 0, Joined) /\
      offered 1 ex_hist = [((0, 0), 100); ((0, 0), 102); ((0, 0), 103); ((0, 0), 104); ((0, 0), 108)]%Z /\
      offered 2 ex_hist = [((0, 1), 101); ((0, 0), 102); ((0, 0), 103); ((0, 0), 104); ((1, 0), 105)]%Z /\
      asked 2 ex_hist = [(0, 0); (0, 1); (1, 0)]%Z
  | None => False
  end.
Proof. exact example_run. Qed.

(* non-vacuity of `reachable` with a Joined reader: the final state of the example *)
Example C17_example_reachable :
  exists s, reachable s /\ exists rd, s_readers s 2%Z = Some rd /\ r_phase rd = Joined /\ r_discarded rd = 2.
Proof. exact example_reachable. Qed.

(* the driver's forced schedule in the code's order: the replaced publisher's call gets the lock after the switch *)
Example C17_race_example :
  match micro_run LockThenCheck (init race_fmts 2) [] race_good with
  | Some (s, ws, tr) =>
      tr = [NewSub 1; OnData 1 0 0; AddReader 1; NewSub 2; Write 1 (0, 0) 50]%Z /\ ws = [] /\
      offered 1%Z tr = [] /\
      match s_readers s 1%Z with Some rd => occupancy (r_buf rd) = 0 | None => False end
  | None => False
  end.
Proof. exact race_good_run. Qed.
