(* C07 — Secrets are not disclosed by API responses or debug dumps.
   Only statements here; every proof is `exact <lemma of Proofs/C07_Redact.v or Proofs/C07_Dump.v>`.
   Part 1: api.redactCredentials on the heap model of Lib/Heap.v (strings are opaque tokens: 0 = "",
   1 = "<redacted>"); redact = C11's repaired deepClone followed by `if x != "" { x = "<redacted>" }` on
   every password slot of the copy. Part 2: httpp.dumpRequest on byte strings; a request carries its body
   READER (the bytes it delivers and how the stream ends: EOF or a non-EOF error), so every theorem about
   `dump` also covers the requests whose body cannot be read. *)
From Coq Require Import List ZArith Bool.
Require Import MTX.Lib.Heap MTX.Model.C11_Clone MTX.Model.C07_Redact MTX.Model.C07_Dump
               MTX.Proofs.C07_Redact MTX.Proofs.C07_Dump.
Import ListNotations.
Local Open Scope Z_scope.

(* every password slot of the returned view (users' Pass, pathDefaults' and every path's PublishPass /
   ReadPass pointee), read in the heap after the call, holds "" or the placeholder: for every heap, every
   configuration value (any sharing between credential pointers, any number of users/paths) *)
Theorem C07_no_password_in_view : forall fuel h v h2 c, redact fuel h v = Some (h2, c) ->
  forall s z, In s (pass_slots h2 c) -> slot_get h2 s = Some z -> z = tok_empty \/ z = tok_redacted.
Proof. exact no_password_in_view. Qed.
Print Assumptions C07_no_password_in_view.

(* producing the view leaves every read of the live configuration (any path, any depth) unchanged *)
Theorem C07_live_untouched : forall fuel h v h2 c, wf h v -> redact fuel h v = Some (h2, c) ->
  forall p, read h2 v p = read h v p.
Proof. exact live_untouched. Qed.
Print Assumptions C07_live_untouched.

(* ... because no password slot of the view lives in a cell the live configuration reaches *)
Theorem C07_view_disjoint : forall fuel h v h2 c, wf h v -> redact fuel h v = Some (h2, c) ->
  forall a, reach h v a -> (a < length h)%nat /\ (forall x, In x (pass_slots h2 c) -> s_addr x <> a).
Proof. exact view_disjoint. Qed.
Print Assumptions C07_view_disjoint.

(* the redaction loop alone (whatever it is applied to) leaves no password *)
Theorem C07_redaction_complete : forall h c s z,
  In s (pass_slots h c) -> slot_get (redact_in h c) s = Some z -> z = tok_empty \/ z = tok_redacted.
Proof. exact redact_in_harmless. Qed.
Print Assumptions C07_redaction_complete.

(* the value of a header of the redaction set cannot influence the dump - whatever the body reader does
   (r ranges over all requests, including those whose body fails to be read: r_bend r <> EndEOF) *)
Theorem C07_dump_noninterference : forall k v v' r, is_redacted k = true ->
  dump (set_header k v r) = dump (set_header k v' r).
Proof. exact dump_noninterference. Qed.
Print Assumptions C07_dump_noninterference.

(* with several values: only their number shows *)
Theorem C07_dump_values_hidden : forall k vs vs' r rest, is_redacted k = true -> length vs = length vs' ->
  dump (with_hdr r ((k, vs) :: rest)) = dump (with_hdr r ((k, vs') :: rest)).
Proof. exact dump_values_hidden. Qed.
Print Assumptions C07_dump_values_hidden.

(* the set is what protects: any other header is written verbatim (when the body can be read) *)
Theorem C07_dump_shows_other : forall k v r, body_fails r = false -> is_redacted k = false -> r_hdr r = [(k, [v])] ->
  dump r = dump_head r ++ (k ++ [58; 32] ++ v ++ crlf) ++ dump_tail r.
Proof. exact dump_shows_other. Qed.
Print Assumptions C07_dump_shows_other.

(* a request whose body cannot be read (client gone in the middle of the upload, body shorter than
   Content-Length, malformed chunked encoding, ...) is not dumped at all: no header, no request line *)
Theorem C07_dump_failed_body_empty : forall r, body_fails r = true -> dump r = [].
Proof. exact dump_failed_body. Qed.
Print Assumptions C07_dump_failed_body_empty.

(* ... and these are exactly the readers that return a non-EOF error before max_body+1 bytes went through
   the LimitReader, or together with byte number max_body+1 *)
Theorem C07_body_fails_iff : forall r, body_fails r = true <->
  (r_bend r = EndErr /\ Z.of_nat (length (r_body r)) < peek_limit) \/
  (r_bend r = EndErrWithLast /\ Z.of_nat (length (r_body r)) <= peek_limit).
Proof. exact body_fails_iff. Qed.
Print Assumptions C07_body_fails_iff.

(* an error past the first max_body+1 bytes is never seen: the dump does not depend on how the stream ends *)
Theorem C07_dump_error_past_cap : forall m u j n h hd b e e', peek_limit < Z.of_nat (length b) ->
  dump (mkReq m u j n h hd b e) = dump (mkReq m u j n h hd b e').
Proof. exact dump_error_past_cap. Qed.
Print Assumptions C07_dump_error_past_cap.

(* the line handlerLogger.ServeHTTP writes into the debug log for the request, "[conn <addr>] [c->s] <dump>":
   same noninterference, for every request and body reader *)
Theorem C07_log_noninterference : forall addr k v v' r, is_redacted k = true ->
  log_request addr (set_header k v r) = log_request addr (set_header k v' r).
Proof. exact log_noninterference. Qed.
Print Assumptions C07_log_noninterference.

Theorem C07_log_values_hidden : forall addr k vs vs' r rest, is_redacted k = true -> length vs = length vs' ->
  log_request addr (with_hdr r ((k, vs) :: rest)) = log_request addr (with_hdr r ((k, vs') :: rest)).
Proof. exact log_values_hidden. Qed.
Print Assumptions C07_log_values_hidden.

(* net/http hands header names over canonicalised: whatever letter case the client used, a name of the set
   arrives spelled as in the set (so the exact-match lookup of dumpRequest finds it) *)
Theorem C07_header_names_case_insensitive : forall raw k, In k redact_names ->
  map to_lower raw = map to_lower k -> canon_key raw = k.
Proof. exact canon_case_insensitive. Qed.
Print Assumptions C07_header_names_case_insensitive.

(* ---- non-vacuity and the role of the clone ---- *)

(* live configuration: two users (passwords 7 and ""), pathDefaults.PublishPass -> cell 1 (password 8),
   ReadPass nil, one path whose PublishPass is THE SAME pointer as pathDefaults' (as conf.Validate leaves it)
   and whose ReadPass -> cell 4 (password 9) *)
Definition ex_heap : heap :=
  [ [VStruct [(true, VScalar 20); (true, VScalar 7)]; VStruct [(true, VScalar 21); (true, VScalar 0)]];
    [VScalar 8];
    [VRef KPtr (Some 3%nat)];
    [VStruct [(true, VRef KPtr (Some 1%nat)); (true, VRef KPtr (Some 4%nat))]];
    [VScalar 9] ].
Definition ex_conf : value :=
  VStruct [(true, VRef KSlice (Some 0%nat));
           (true, VStruct [(true, VRef KPtr (Some 1%nat)); (true, VRef KPtr None)]);
           (true, VRef KMap (Some 2%nat))].

Example C07_example :
  wf ex_heap ex_conf /\
  passwords ex_heap ex_conf = [Some 7; Some 0; Some 8; Some 8; Some 9] /\
  match redact 12 ex_heap ex_conf with
  | Some (h2, c) => passwords h2 c = [Some 1; Some 0; Some 1; Some 1; Some 1]
                    /\ passwords h2 ex_conf = [Some 7; Some 0; Some 8; Some 8; Some 9]
                    /\ firstn 5 h2 = ex_heap
  | None => False
  end.
Proof. split; [apply closed_wf; reflexivity|]. vm_compute. repeat split. Qed.

(* without the Clone() the same loop rewrites the live configuration *)
Example C07_no_clone_refuted :
  let (h2, c) := redact_no_clone ex_heap ex_conf in
  read h2 ex_conf [SField 0; SElem 0; SField 1] = Some (VScalar 1) /\
  read ex_heap ex_conf [SField 0; SElem 0; SField 1] = Some (VScalar 7).
Proof. vm_compute. split; reflexivity. Qed.

(* a request with "authorization: Basic c2VjcmV0" (any letter case) is dumped with the placeholder;
   the same value in a header outside the set is dumped as it is *)
Example C07_dump_example :
  let secret := [66;97;115;105;99;32;99;50;86;106;99;109;86;48] in
  let r k := mkReq [71;69;84] [47;120] 1 1 [104] [(canon_key k, [secret])] [] EndEOF in
  dump (r [97;85;84;72;79;82;73;90;65;84;73;79;78])
    = [71;69;84;32;47;120;32;72;84;84;80;47;49;46;49;13;10;72;111;115;116;58;32;104;13;10;
       65;117;116;104;111;114;105;122;97;116;105;111;110;58;32;60;114;101;100;97;99;116;101;100;62;13;10;13;10]
  /\ dump (r [88;45;84;111;107;101;110])
    = [71;69;84;32;47;120;32;72;84;84;80;47;49;46;49;13;10;72;111;115;116;58;32;104;13;10;
       88;45;84;111;107;101;110;58;32] ++ secret ++ [13;10;13;10].
Proof. vm_compute. split; reflexivity. Qed.

(* a POST announcing more body than the client sends (the reader delivers "v=0\r\n", then a non-EOF error):
   nothing is logged for it, whatever its headers; the same request with a clean end is dumped, redacted *)
Example C07_dump_failed_body_example :
  let secret := [66;97;115;105;99;32;99;50;86;106;99;109;86;48] in
  let r e := mkReq [80;79;83;84] [47;120] 1 1 [104] [([67;111;111;107;105;101], [secret])] [118;61;48;13;10] e in
  body_fails (r EndErr) = true /\ body_fails (r EndErrWithLast) = true /\ body_fails (r EndEOF) = false
  /\ dump (r EndErr) = [] /\ dump (r EndErrWithLast) = []
  /\ dump (r EndEOF)
    = [80;79;83;84;32;47;120;32;72;84;84;80;47;49;46;49;13;10;72;111;115;116;58;32;104;13;10;
       67;111;111;107;105;101;58;32;60;114;101;100;97;99;116;101;100;62;13;10;13;10;118;61;48;13;10].
Proof. vm_compute. repeat split. Qed.
