(* C31 — Segment operations identify segments by instant.
   Only statements here; every proof is `exact <lemma of Proofs/C31_DeleteSeg.v>`.
   Model: Model/C31_DeleteSeg.v (onRecordingDeleteSegment after fix 555d196, listing = Path.Decode,
   recorder = Path.Encode, all over the same substituted path format g) on top of Model/C26_RecPath.v. *)
From Coq Require Import List ZArith.
Require Import MTX.Lib.Civil MTX.Model.C26_RecPath MTX.Proofs.C26_RecPath MTX.Model.C26_Zone MTX.Proofs.C26_Zone
               MTX.Model.C31_DeleteSeg MTX.Proofs.C31_DeleteSeg.
Import ListNotations.
Local Open Scope Z_scope.

(* Two requests for the same instant name the same file, whatever offsets they are written with:
   every zone function, every format (no side condition at all). *)
Theorem C31_same_instant_same_file : forall zone g a b,
  same_instant a b -> delete_target zone g a = delete_target zone g b.
Proof. exact same_instant_same_file. Qed.
Print Assumptions C31_same_instant_same_file.

(* ... in particular the RFC 3339 renderings of one instant at any two offsets (civil fields + offset,
   read back with time.Date semantics) *)
Theorem C31_renderings_same_file : forall zone g u n o1 o2,
  delete_target zone g (instant_of_fields (fields_of u n o1)) =
  delete_target zone g (instant_of_fields (fields_of u n o2)).
Proof. exact renderings_same_file. Qed.
Print Assumptions C31_renderings_same_file.

Theorem C31_rfc3339_fields_denote : forall u n off, instant_of_fields (fields_of u n off) = mkI u n off.
Proof. exact fields_roundtrip. Qed.
Print Assumptions C31_rfc3339_fields_denote.

(* Listing and deletion agree on every file the recorder wrote: the listing reports the recorded start
   (to the microsecond with %f, to the second otherwise), and that start, fed back to delete with any offset,
   names exactly that file. For every zone function, every substituted format in which every '%' starts a
   placeholder and which identifies the instant (%s or the six calendar fields), every instant the
   fixed-width fields can hold; without %z the offset `loff` of the (fixed-offset) local zone that Decode
   uses must be the one in force at the recording. For zones with changing offsets see
   C31_agrees_with_listing_local / _zone / C31_agrees_on_file_zone below. *)
Theorem C31_agrees_with_listing : forall zone loff g u0 n0,
  let ts := tokenize g in
  let t0 := mkI u0 n0 (zone u0) in
  no_stray ts = true -> no_path ts = true -> identifies ts = true -> encodable loff ts t0 = true ->
  exists u n, listed_start loff g (recorded_name zone g u0 n0) = Some (u, n)
              /\ (u, n) = trunc_start ts t0
              /\ forall off, delete_target zone g (mkI u n off) = recorded_name zone g u0 n0.
Proof. exact agrees_with_listing. Qed.
Print Assumptions C31_agrees_with_listing.

(* The same for ANY server zone, given as C26's `lzone` L (offset time.Date subtracts for a reading /
   offset in force at an instant; the recorder and delete use lz_at L): *)
Theorem C31_agrees_with_listing_local : forall L g u0 n0,
  let ts := tokenize g in
  let t0 := mkI u0 n0 (lz_at L u0) in
  no_stray ts = true -> no_path ts = true -> identifies ts = true -> encodable_lz L ts t0 = true ->
  exists u n, listed_start_lz L g (recorded_name (lz_at L) g u0 n0) = Some (u, n)
              /\ (u, n) = trunc_start ts t0
              /\ forall off, delete_target (lz_at L) g (mkI u n off) = recorded_name (lz_at L) g u0 n0.
Proof. exact agrees_with_listing_lz. Qed.
Print Assumptions C31_agrees_with_listing_local.

(* In a zone-database zone (a table of offset changes with offsets within B of UTC and changes more than
   2B apart, Model/C26_Zone.v; DST zones included) the hypothesis on time.Date is discharged: for every
   recording outside the repeated hours - whatever the format, no %z / %s needed - the listing reports the
   recorded start and that start, written with any offset, deletes exactly that file ... *)
Theorem C31_agrees_with_listing_zone : forall B z, zone_ok B z = true -> forall g u0 n0,
  let ts := tokenize g in
  let t0 := local_instant z u0 n0 in
  no_stray ts = true -> no_path ts = true -> identifies ts = true -> enc_ranges ts t0 = true ->
  in_repeat (lookup z) u0 = false ->
  exists u n, listed_start_lz (lz_of_zone z) g (recorded_name (offset_at z) g u0 n0) = Some (u, n)
              /\ (u, n) = trunc_start ts t0
              /\ forall off, delete_target (offset_at z) g (mkI u n off) = recorded_name (offset_at z) g u0 n0.
Proof. exact agrees_with_listing_zone. Qed.
Print Assumptions C31_agrees_with_listing_zone.

(* ... and for EVERY recording, repeated hours included, listing and deletion agree on the file: the
   listed start shows the wall-clock reading of the recording (it is the recorded instant or the instant one
   clock change away, see C26_zone_date_pick_first and _second), and written with any offset it deletes exactly that file. *)
Theorem C31_agrees_on_file_zone : forall B z, zone_ok B z = true -> forall g u0 n0,
  let ts := tokenize g in
  let t0 := local_instant z u0 n0 in
  no_stray ts = true -> no_path ts = true -> identifies ts = true -> enc_ranges ts t0 = true ->
  exists u n, listed_start_lz (lz_of_zone z) g (recorded_name (offset_at z) g u0 n0) = Some (u, n)
              /\ u + offset_at z u = u0 + offset_at z u0 /\ n = snd (trunc_start ts t0)
              /\ forall off, delete_target (offset_at z) g (mkI u n off) = recorded_name (offset_at z) g u0 n0.
Proof. exact agrees_on_file_zone. Qed.
Print Assumptions C31_agrees_on_file_zone.

(* inside a repeated hour the listed INSTANT can be the other one (restriction named: the agreement on the
   instant needs in_repeat = false; inherent in a name without %z / %s): Europe/Rome 2024, the segment
   recorded at 2024-10-27T00:30:00Z (02:30 CEST) is listed at 01:30:00Z (02:30 CET); deleting by either
   instant removes that file *)
Definition rome2024 : zone := mkZone 3600 [(1711846800, 7200); (1729990800, 3600)].
Theorem C31_listed_instant_repeated_hour_refuted :
  let g := [47;114;101;99;47; 99;97;109; 47; 37;89;45;37;109;45;37;100;95;37;72;45;37;77;45;37;83;45;37;102; 46;109;112;52] in
  let v := recorded_name (offset_at rome2024) g 1729989000 0 in
  zone_ok 57600 rome2024 = true /\ in_repeat (lookup rome2024) 1729989000 = true /\
  listed_start_lz (lz_of_zone rome2024) g v = Some (1729992600, 0) /\
  delete_target (offset_at rome2024) g (mkI 1729992600 0 0) = v /\
  delete_target (offset_at rome2024) g (mkI 1729989000 0 7200) = v.
Proof. vm_compute. repeat split. Qed.
Print Assumptions C31_listed_instant_repeated_hour_refuted.

(* "exactly the segment whose start equals the given instant": a request can only name the file of a
   segment whose start equals its instant at the format's precision *)
Theorem C31_only_that_instant : forall zone loff g req u0 n0,
  let ts := tokenize g in
  no_stray ts = true -> no_path ts = true -> identifies ts = true ->
  encodable loff ts (to_local zone req) = true -> encodable loff ts (mkI u0 n0 (zone u0)) = true ->
  delete_target zone g req = recorded_name zone g u0 n0 ->
  trunc_start ts (to_local zone req) = trunc_start ts (mkI u0 n0 (zone u0)).
Proof. exact target_only_that_instant. Qed.
Print Assumptions C31_only_that_instant.

(* the same in a zone-database zone, both instants outside the repeated hours *)
Theorem C31_only_that_instant_zone : forall B z, zone_ok B z = true -> forall g req u0 n0,
  let ts := tokenize g in
  no_stray ts = true -> no_path ts = true -> identifies ts = true ->
  enc_ranges ts (to_local (offset_at z) req) = true -> enc_ranges ts (local_instant z u0 n0) = true ->
  in_repeat (lookup z) (i_unix req) = false -> in_repeat (lookup z) u0 = false ->
  delete_target (offset_at z) g req = recorded_name (offset_at z) g u0 n0 ->
  trunc_start ts (to_local (offset_at z) req) = trunc_start ts (local_instant z u0 n0).
Proof. exact only_that_instant_zone. Qed.
Print Assumptions C31_only_that_instant_zone.

(* the substituted format is what C26 speaks about: recorder, listing and delete, which substitute the
   name first and encode with an empty Path, produce Path{name, t}.Encode(recordPath ++ extension) *)
Theorem C31_path_format_is_C26_encode : forall rp ext name t,
  no_stray (tokenize rp) = true -> Forall (fun c => c <> 37) name -> Forall (fun c => c <> 37) ext ->
  encode_go (path_format rp ext name) [] t = encode_go (rp ++ ext) name t.
Proof. exact path_format_encode. Qed.
Print Assumptions C31_path_format_is_C26_encode.

(* the code before fix 555d196 (request's own offset): 2024-01-01T10:00:00+02:00 and 2024-01-01T08:00:00Z
   are the same instant and named different files under the default format *)
Theorem C31_same_instant_same_file_refuted :
  same_instant req_plus2 req_utc /\
  delete_target_prefix g_default req_plus2 <> delete_target_prefix g_default req_utc /\
  req_plus2 = instant_of_fields (mkF 2024 1 1 10 0 0 0 7200) /\ req_utc = instant_of_fields (mkF 2024 1 1 8 0 0 0 0).
Proof. exact prefix_refuted. Qed.
Print Assumptions C31_same_instant_same_file_refuted.

(* non-vacuity: default record path, path a/b, server at +01:00; the segment of 2024-01-01T09:00:00.123456789+01:00
   is listed at ...123456 and deleted by that start written in UTC, at +14:00 and at -12:00; the hypotheses of
   C31_agrees_with_listing hold for it *)
Definition rp_default : list Z :=   (* /rec/%path/%Y-%m-%d_%H-%M-%S-%f *)
  [47;114;101;99;47; 37;112;97;116;104; 47; 37;89;45;37;109;45;37;100;95;37;72;45;37;77;45;37;83;45;37;102].
Definition ext_mp4 : list Z := [46;109;112;52].
Example C31_example :
  let zone := fun _ : Z => 3600 in
  let g := path_format rp_default ext_mp4 [97;47;98] in
  let ts := tokenize g in
  let v := recorded_name zone g 1704096000 123456789 in
  no_stray ts = true /\ no_path ts = true /\ identifies ts = true /\
  encodable 3600 ts (mkI 1704096000 123456789 3600) = true /\
  listed_start 3600 g v = Some (1704096000, 123456000) /\
  delete_target zone g (mkI 1704096000 123456000 0) = v /\
  delete_target zone g (mkI 1704096000 123456000 50400) = v /\
  delete_target zone g (mkI 1704096000 123456000 (-43200)) = v /\
  delete_target zone g (mkI 1704096001 123456000 3600) <> v /\
  rfc3339_parse [50;48;50;52;45;48;49;45;48;49;84;49;48;58;48;48;58;48;48;46;49;50;51;52;53;54;43;48;50;58;48;48]
    = Some (mkI 1704096000 123456000 7200).
Proof. vm_compute. repeat split; discriminate. Qed.
