(* C23 — RTP re-packetization is size-bounded and lossless.
   Only statements here; every proof is `exact <lemma of Proofs/C23_*.v>`.

   Modelled and proved: (1) the glue of subStreamFormat.writeUnitInner / initialize / newRTPEncoder
   (Model/C23_RtpGlue.v: glue_write, generic in the packetizer) and (2) the H.264 packetizer of gortsplib
   (Model/C23_RtpH264.v: h264_encode = rtph264.Encoder.Encode, decode = rtph264.Decoder.Decode).
   All other formats (H.265, AV1, VP8, VP9, MPEG-4 Video, MPEG-1 Video, M-JPEG, Opus, MPEG-4 Audio, LATM,
   MPEG-1 Audio, AC-3, G.711, LPCM, KLV, FLAC) are NOT covered by a theorem: for them the check evaluates the
   boolean form of the property (Check/C23.v spec_fail) on the packets of the real encoder and the output of the
   real decoder — differential only.

   blen = length as Z. enc = (PayloadMaxSize, SSRC, next sequence number). The encoder leaves Timestamp = 0;
   the glue adds rtpTimeOffset + uint32(PTS) (stamp). Preconditions are the encoder's own: PayloadMaxSize >= 3
   (FU-A needs one byte of room; smaller values divide by zero in Go) and < 65536 (16-bit STAP-A size field;
   the configuration caps udpMaxPayloadSize at 1472). *)
From Coq Require Import List ZArith Bool Lia.
Require Import MTX.Lib.IntWrap MTX.Model.C23_RtpH264 MTX.Model.C23_RtpGlue.
Require Import MTX.Model.C23_RtpH265 MTX.Model.C23_RtpAudio MTX.Model.C23_RtpGlueInst.
Require Import MTX.Proofs.C23_RtpH264 MTX.Proofs.C23_RtpH264Seq MTX.Proofs.C23_RtpH264Rt MTX.Proofs.C23_RtpH264Rt2
               MTX.Proofs.C23_RtpGlue MTX.Proofs.C23_RtpGlue2.
Require Import MTX.Proofs.C23_RtpH265 MTX.Proofs.C23_RtpH265Rt MTX.Proofs.C23_RtpAudio MTX.Proofs.C23_RtpGlueGen
               MTX.Proofs.C23_RtpInst.
Require Import MTX.Model.C23_RtpLife MTX.Proofs.C23_RtpLife MTX.Proofs.C23_RtpLifeInst.
Import ListNotations.
Local Open Scope Z_scope.

(* ---- size: every payload fits, for every access unit (no condition on the NAL units at all) ---- *)
Theorem C23_size : forall e au pkts e',
  3 <= e.(e_max) -> h264_encode e au = Ok (pkts, e') ->
  forall p, In p pkts -> blen p.(p_payload) <= e.(e_max).
Proof. exact h264_encode_size. Qed.
Print Assumptions C23_size.

(* the encoder does not fail (no division by zero, no index out of range) under its stated precondition *)
Theorem C23_encode_total : forall e au,
  3 <= e.(e_max) -> ~ In [] au -> exists pkts e', h264_encode e au = Ok (pkts, e').
Proof. exact h264_encode_total. Qed.
Print Assumptions C23_encode_total.

(* ---- lossless: the decoder, in any clean state (no partial frame, not in Annex-B mode), fed the packets of
   one unit stamped with any timestamp, says "more packets needed" for all but the last and returns exactly the
   access unit at the last one, and is clean again.
   nal_ok n: n non-empty, forbidden_zero_bit clear (first byte < 128), NAL type not 24..29 (the RTP-only types),
   no start code 00 00 01 inside — what H.264 guarantees of a NAL unit; max_nalus = 50 and max_au_size = 8 MiB
   are the decoder's limits. ---- *)
Theorem C23_roundtrip : forall e au pkts e' d delta,
  3 <= e.(e_max) < 65536 -> au <> [] -> Forall nal_ok au ->
  blen au <= max_nalus -> au_size au <= max_au_size ->
  h264_encode e au = Ok (pkts, e') -> clean d ->
  exists d', decode_run d (map (stamp delta) pkts) = (repeat DMore (length pkts - 1) ++ [DOk au], d')
             /\ clean d' /\ (1 <= length pkts)%nat.
Proof. exact h264_roundtrip. Qed.
Print Assumptions C23_roundtrip.

(* all sequences of units through one encoder and one decoder: the decoder returns exactly the units, in order,
   and never an error *)
Theorem C23_roundtrip_seq : forall aus e pkss e' d deltas,
  3 <= e.(e_max) < 65536 ->
  Forall (fun au => au <> [] /\ Forall nal_ok au /\ blen au <= max_nalus /\ au_size au <= max_au_size) aus ->
  length deltas = length aus ->
  h264_encode_run e aus = Ok (pkss, e') -> clean d ->
  dok_units (fst (decode_run d (stamp_units deltas pkss))) = aus
  /\ ~ In DErr (fst (decode_run d (stamp_units deltas pkss)))
  /\ clean (snd (decode_run d (stamp_units deltas pkss))).
Proof. exact h264_roundtrip_run. Qed.
Print Assumptions C23_roundtrip_seq.

(* the precondition is necessary: the forbidden_zero_bit of a fragmented NAL unit is lost (FU-A has no room for
   it), so such a unit does not come back *)
Theorem C23_roundtrip_needs_forbidden_zero_bit :
  exists e au pkts e', h264_encode e au = Ok (pkts, e') /\ 3 <= e.(e_max) < 65536 /\
    fst (decode_run dec_init pkts) <> repeat DMore (length pkts - 1) ++ [DOk au].
Proof.
  exists (mkenc 4 7 0), [[129; 1; 2; 3; 4]]. eexists. eexists. split; [vm_compute; reflexivity|].
  split; [cbn; lia|]. vm_compute. discriminate.
Qed.
Print Assumptions C23_roundtrip_needs_forbidden_zero_bit.

(* ---- sequence numbers: consecutive mod 2^16, one SSRC, within a unit and across units ---- *)
Theorem C23_seq_consecutive : forall e au pkts e',
  0 <= e.(e_seq) < 65536 -> h264_encode e au = Ok (pkts, e') ->
  (forall i d, (i < length pkts)%nat -> p_seq (nth i pkts d) = (e.(e_seq) + Z.of_nat i) mod 65536)
  /\ e'.(e_seq) = (e.(e_seq) + Z.of_nat (length pkts)) mod 65536
  /\ (forall p, In p pkts -> p.(p_ssrc) = e.(e_ssrc) /\ p.(p_ts) = 0).
Proof. exact h264_encode_seq. Qed.
Print Assumptions C23_seq_consecutive.

Theorem C23_seq_consecutive_run : forall e aus pkss e',
  0 <= e.(e_seq) < 65536 -> h264_encode_run e aus = Ok (pkss, e') ->
  forall i d, (i < length (concat pkss))%nat ->
    p_seq (nth i (concat pkss) d) = (e.(e_seq) + Z.of_nat i) mod 65536.
Proof. exact h264_encode_run_seq. Qed.
Print Assumptions C23_seq_consecutive_run.

(* ---- the glue (any packetizer P/encode): a unit is re-encoded iff an encoder existed or some incoming payload
   exceeds the maximum ---- *)
Theorem C23_oversize_trigger : forall (P : Type) (encode : enc -> P -> res (list packet * enc) + enc)
    max avail g pts inp decerr deliv g' out,
  glue_write P encode max avail g pts inp decerr deliv = GOk g' out ->
  has_enc g' = has_enc g || existsb (oversized max) inp.
Proof. exact glue_trigger. Qed.
Print Assumptions C23_oversize_trigger.

(* which encoder, which offset, which packets: either nothing is touched (no encoder, nothing oversized), or the
   unit is encoded by the existing encoder / by one created with the SSRC and sequence number of the first
   oversized packet and offset = its timestamp - uint32(PTS), and every generated packet is stamped *)
Theorem C23_glue_cases : forall (P : Type) (encode : enc -> P -> res (list packet * enc) + enc)
    max avail g pts inp decerr deliv g' out,
  glue_write P encode max avail g pts inp decerr deliv = GOk g' out ->
  (g.(g_enc) = None /\ g' = g /\ out = inp /\ first_oversized max inp = None)
  \/ (exists e0 off0, effective max avail g pts inp e0 off0 /\
       ((deliv = None /\ out = [] /\ g' = mkg (Some e0) off0)
        \/ (exists p pkts e', deliv = Some p /\ encode e0 p = inl (Ok (pkts, e'))
                              /\ out = stamp_all off0 pts pkts /\ g' = mkg (Some e') off0))).
Proof. exact glue_write_inv. Qed.
Print Assumptions C23_glue_cases.

(* forwarded packets are never oversized; an oversized packet of a format without encoder is dropped *)
Theorem C23_passthrough : forall (P : Type) (encode : enc -> P -> res (list packet * enc) + enc)
    max avail g pts inp decerr deliv g' out,
  glue_write P encode max avail g pts inp decerr deliv = GOk g' out -> has_enc g' = false ->
  out = inp /\ g' = g /\ forallb (fun p => negb (oversized max p)) out = true.
Proof. exact glue_passthrough. Qed.
Print Assumptions C23_passthrough.

Theorem C23_no_encoder_drops : forall (P : Type) (encode : enc -> P -> res (list packet * enc) + enc)
    max g pts inp deliv pkt,
  g.(g_enc) = None -> first_oversized max inp = Some pkt ->
  glue_write P encode max false g pts inp false deliv = GErr g.
Proof. exact glue_no_encoder. Qed.
Print Assumptions C23_no_encoder_drops.

(* ---- timestamps (H.264 through the glue): every packet of a re-encoded unit carries offset + PTS mod 2^32; the
   offset is fixed once an encoder exists; at creation it reproduces the oversized packet's own timestamp ---- *)
Theorem C23_ts_offset : forall max avail g pts inp decerr deliv g' out,
  h264_glue_write max avail g pts inp decerr deliv = GOk g' out -> has_enc g' = true ->
  Forall (fun p => p.(p_ts) = wrapu32 (g'.(g_off) + wrapu32 pts)) out
  /\ (has_enc g = true -> g'.(g_off) = g.(g_off))
  /\ (has_enc g = false -> exists pkt, first_oversized max inp = Some pkt
                                       /\ g'.(g_off) = wrapu32 (pkt.(p_ts) - wrapu32 pts)
                                       /\ (0 <= pkt.(p_ts) < two32 -> wrapu32 (g'.(g_off) + wrapu32 pts) = pkt.(p_ts))).
Proof. exact h264_glue_ts. Qed.
Print Assumptions C23_ts_offset.

(* ---- size and round trip through the glue ---- *)
Theorem C23_glue_size : forall max avail g pts inp decerr deliv g' out,
  3 <= max -> enc_max_ok max g -> Forall (fun p => 0 <= p.(p_seq) < 65536) inp ->
  h264_glue_write max avail g pts inp decerr deliv = GOk g' out -> has_enc g' = true ->
  Forall (fun p => blen p.(p_payload) <= max) out /\ enc_max_ok max g'.
Proof. exact h264_glue_size. Qed.
Print Assumptions C23_glue_size.

Theorem C23_glue_roundtrip : forall max avail g pts inp decerr au g' out d,
  3 <= max < 65536 -> enc_max_ok max g ->
  h264_glue_write max avail g pts inp decerr (Some au) = GOk g' out -> has_enc g' = true ->
  au <> [] -> Forall nal_ok au -> blen au <= max_nalus -> au_size au <= max_au_size -> clean d ->
  exists d', decode_run d out = (repeat DMore (length out - 1) ++ [DOk au], d') /\ clean d' /\ (1 <= length out)%nat.
Proof. exact h264_glue_roundtrip. Qed.
Print Assumptions C23_glue_roundtrip.

(* ---- non-vacuity ---- *)

(* max = 10: two small NAL units in one STAP-A (9 bytes), an 11-byte unit in two FU-A fragments, a last
   unit alone with the marker; sequence numbers wrap from 65535 to 0 *)
Example C23_example_encode :
  let e := mkenc 10 77 65535 in
  let au := [[65; 1]; [65; 2]; [101; 1; 2; 3; 4; 5; 6; 7; 8; 9; 10]; [6; 9; 9]] in
  Forall nal_ok au /\ au <> [] /\
  h264_encode e au =
  Ok ([ mkpkt 65535 0 false 77 [24; 0; 2; 65; 1; 0; 2; 65; 2];
        mkpkt 0 0 false 77 [124; 133; 1; 2; 3; 4; 5; 6; 7; 8];
        mkpkt 1 0 false 77 [124; 69; 9; 10];
        mkpkt 2 0 true 77 [6; 9; 9] ], mkenc 10 77 3).
Proof.
  cbv zeta. split; [|split; [discriminate|vm_compute; reflexivity]].
  repeat constructor; try (cbn; lia); try (intros [H1 H2]; cbn in H1, H2; lia).
Qed.

Example C23_example_roundtrip :
  let e := mkenc 10 77 65535 in
  let au := [[65; 1]; [65; 2]; [101; 1; 2; 3; 4; 5; 6; 7; 8; 9; 10]; [6; 9; 9]] in
  match h264_encode e au with
  | Ok (pkts, e') =>
      (3 <=? length pkts)%nat && forallb (fun p => blen p.(p_payload) <=? 10) pkts
      && (e_seq e' =? (65535 + Z.of_nat (length pkts)) mod 65536)
      && match fst (decode_run dec_init (map (stamp 1234) pkts)) with
         | outs => match rev outs with DOk [[65; 1]; [65; 2]; [101; 1; 2; 3; 4; 5; 6; 7; 8; 9; 10]; [6; 9; 9]] :: _ => true | _ => false end
         end
  | Panic => false
  end = true.
Proof. vm_compute. reflexivity. Qed.

(* the glue: passthrough, then creation of the encoder from an oversized packet, then re-use *)
Example C23_example_glue :
  let small := mkpkt 10 5000 true 9 [65; 1; 2] in
  let big := mkpkt 11 8000 true 9 [65; 1; 2; 3; 4; 5; 6; 7; 8; 9] in
  let g0 := mkg None 0 in
  h264_glue_write 8 true g0 100 [small] false (Some [[65; 1; 2]]) = GOk g0 [small]
  /\ match h264_glue_write 8 true g0 3100 [big] false (Some [[65; 1; 2; 3; 4; 5; 6; 7; 8; 9]]) with
     | GOk g1 out =>
         has_enc g1 = true /\ g1.(g_off) = 4900 /\ map p_seq out = [11; 12] /\ map p_ts out = [8000; 8000]
         /\ map p_ssrc out = [9; 9]
     | _ => False
     end.
Proof. vm_compute. repeat split; reflexivity. Qed.

(* ====================================================================================================
   Second part: more packetizers. For each of them the same four statements as for H.264 - size, round trip
   (decoder clean afterwards), consecutive sequence numbers, timestamp law - first for the encoder/decoder pair
   alone, then through the glue. The glue part is ONE generic development (Proofs/C23_RtpGlueGen.v: any
   packetizer honouring the contract "sequence numbers + size under its precondition + timestamp law + round
   trip") instantiated per format.
   ==================================================================================================== *)

(* ---- the generic glue theorems (any payload type P, any encoder honouring the contract) ---- *)

(* rtpTimeOffset: unchanged once an encoder exists; at creation = oversized packet's timestamp - uint32(PTS) *)
Theorem C23_glue_offset : forall (P : Type) (encode : enc -> P -> res (list packet * enc) + enc)
    max avail g pts inp decerr deliv g' out,
  glue_write P encode max avail g pts inp decerr deliv = GOk g' out -> has_enc g' = true ->
  (has_enc g = true -> g'.(g_off) = g.(g_off))
  /\ (has_enc g = false -> exists pkt, first_oversized max inp = Some pkt
                                       /\ g'.(g_off) = wrapu32 (pkt.(p_ts) - wrapu32 pts)
                                       /\ (0 <= pkt.(p_ts) < two32 -> wrapu32 (g'.(g_off) + wrapu32 pts) = pkt.(p_ts))).
Proof. exact glue_offset. Qed.
Print Assumptions C23_glue_offset.

(* sequence numbers through the glue: consecutive (mod 2^16) from the effective encoder's next number (the
   existing encoder's, or the first oversized packet's own number), one SSRC, and the encoder kept in the state
   continues right after them - for every encoder whose calls satisfy enc_post0 *)
Theorem C23_glue_seq_generic : forall (P : Type) (encode : enc -> P -> res (list packet * enc) + enc),
  (forall e p pkts e', encode e p = inl (Ok (pkts, e')) -> enc_post0 e pkts e') ->
  forall max avail g pts inp decerr deliv g' out,
  glue_write P encode max avail g pts inp decerr deliv = GOk g' out -> has_enc g' = true ->
  exists e0 off0 e1, effective max avail g pts inp e0 off0 /\ g' = mkg (Some e1) off0
    /\ seq_chain e0.(e_seq) out /\ Forall (fun p => p.(p_ssrc) = e0.(e_ssrc)) out
    /\ e1.(e_seq) = adv e0.(e_seq) (length out) /\ e1.(e_max) = e0.(e_max) /\ e1.(e_ssrc) = e0.(e_ssrc).
Proof. exact glue_seq_gen. Qed.
Print Assumptions C23_glue_seq_generic.

(* size through the glue: lo = the encoder's lower bound on PayloadMaxSize, pre = its precondition on the unit *)
Theorem C23_glue_size_generic : forall (P : Type) (encode : enc -> P -> res (list packet * enc) + enc),
  (forall e p pkts e', encode e p = inl (Ok (pkts, e')) -> enc_post0 e pkts e') ->
  forall (lo : Z) (pre : Z -> P -> Prop),
  (forall e p pkts e', lo <= e.(e_max) -> pre e.(e_max) p -> encode e p = inl (Ok (pkts, e')) ->
     Forall (fun q => blen q.(p_payload) <= e.(e_max)) pkts) ->
  forall max avail g pts inp decerr deliv g' out,
  lo <= max -> max <> 0 -> enc_max_ok max g -> Forall (fun p => 0 <= p.(p_seq) < 65536) inp ->
  glue_write P encode max avail g pts inp decerr deliv = GOk g' out -> has_enc g' = true ->
  (forall p, deliv = Some p -> pre max p) ->
  Forall (fun p => blen p.(p_payload) <= max) out /\ enc_max_ok max g'.
Proof. exact glue_size_gen. Qed.
Print Assumptions C23_glue_size_generic.

(* timestamps through the glue: Timestamp = (what the encoder set) + rtpTimeOffset + uint32(PTS) mod 2^32 *)
Theorem C23_glue_ts_generic : forall (P : Type) (encode : enc -> P -> res (list packet * enc) + enc)
    (tslaw : Z -> P -> list Z -> Prop),
  (forall e p pkts e', encode e p = inl (Ok (pkts, e')) -> tslaw e.(e_max) p (map p_ts pkts)) ->
  forall max avail g pts inp decerr p g' out,
  max <> 0 -> enc_max_ok max g ->
  glue_write P encode max avail g pts inp decerr (Some p) = GOk g' out -> has_enc g' = true ->
  exists offs, tslaw max p offs
    /\ map p_ts out = map (fun o => wrapu32 (o + wrapu32 (g'.(g_off) + wrapu32 pts))) offs.
Proof. exact glue_ts_gen. Qed.
Print Assumptions C23_glue_ts_generic.

(* round trip through the glue, for any decoder (state D, run function, clean predicate) *)
Theorem C23_glue_roundtrip_generic : forall (P : Type) (encode : enc -> P -> res (list packet * enc) + enc)
    (lo : Z) (D : Type) (drun : D -> list packet -> list dout * D) (cleanD : D -> Prop) (hi : Z)
    (okp : Z -> P -> Prop) (good : P -> list dout -> Prop),
  (forall e p pkts e' d delta,
     lo <= e.(e_max) < hi -> okp e.(e_max) p -> encode e p = inl (Ok (pkts, e')) -> cleanD d ->
     good p (fst (drun d (map (stamp delta) pkts))) /\ cleanD (snd (drun d (map (stamp delta) pkts)))
     /\ (1 <= length pkts)%nat) ->
  forall max avail g pts inp decerr p g' out d,
  lo <= max < hi -> max <> 0 -> enc_max_ok max g ->
  glue_write P encode max avail g pts inp decerr (Some p) = GOk g' out -> has_enc g' = true ->
  okp max p -> cleanD d ->
  good p (fst (drun d out)) /\ cleanD (snd (drun d out)) /\ (1 <= length out)%nat.
Proof. exact glue_roundtrip_gen. Qed.
Print Assumptions C23_glue_roundtrip_generic.

(* ---------------------------------------------------------------------------------------------------
   H.265 (gortsplib rtph265: single NAL unit / aggregation packet type 48 / fragmentation unit type 49).
   Preconditions are the encoder's own: PayloadMaxSize >= 4 (a fragmentation unit needs one byte of room; 3
   divides by zero in Go) and every NAL unit has its two-byte header (the encoder returns "invalid NALU"
   otherwise). nal5_ok n: two header bytes in 0..255, type not 48..50, no start code 00 00 01 inside. The
   forbidden_zero_bit survives fragmentation here (unlike H.264). The decoder accepts at most 21 NAL units
   and 8 MiB per access unit.
   --------------------------------------------------------------------------------------------------- *)
Theorem C23_h265_size : forall e au pkts e',
  4 <= e.(e_max) -> h265_encode e au = inl (Ok (pkts, e')) ->
  forall p, In p pkts -> blen p.(p_payload) <= e.(e_max).
Proof. exact h265_encode_size. Qed.
Print Assumptions C23_h265_size.

Theorem C23_h265_encode_total : forall e au,
  4 <= e.(e_max) -> Forall (fun n => 2 <= blen n) au -> exists pkts e', h265_encode e au = inl (Ok (pkts, e')).
Proof. exact h265_encode_total. Qed.
Print Assumptions C23_h265_encode_total.

Theorem C23_h265_roundtrip : forall e au pkts e' d delta,
  4 <= e.(e_max) < 65536 -> au <> [] -> Forall nal5_ok au ->
  blen au <= max_nalus5 -> au_size au <= max_au_size5 ->
  h265_encode e au = inl (Ok (pkts, e')) -> clean5 d ->
  exists d', decode5_run d (map (stamp delta) pkts) = (repeat DMore (length pkts - 1) ++ [DOk au], d')
             /\ clean5 d' /\ (1 <= length pkts)%nat.
Proof. exact h265_roundtrip. Qed.
Print Assumptions C23_h265_roundtrip.

Theorem C23_h265_roundtrip_seq : forall aus e pkss e' d deltas,
  4 <= e.(e_max) < 65536 ->
  Forall (fun au => au <> [] /\ Forall nal5_ok au /\ blen au <= max_nalus5 /\ au_size au <= max_au_size5) aus ->
  length deltas = length aus ->
  h265_encode_run e aus = Some (pkss, e') -> clean5 d ->
  dok_units (fst (decode5_run d (stamp_units deltas pkss))) = aus
  /\ ~ In DErr (fst (decode5_run d (stamp_units deltas pkss)))
  /\ clean5 (snd (decode5_run d (stamp_units deltas pkss))).
Proof. exact h265_roundtrip_run. Qed.
Print Assumptions C23_h265_roundtrip_seq.

Theorem C23_h265_seq_consecutive : forall e au pkts e',
  0 <= e.(e_seq) < 65536 -> h265_encode e au = inl (Ok (pkts, e')) ->
  (forall i d, (i < length pkts)%nat -> p_seq (nth i pkts d) = (e.(e_seq) + Z.of_nat i) mod 65536)
  /\ e'.(e_seq) = (e.(e_seq) + Z.of_nat (length pkts)) mod 65536
  /\ (forall p, In p pkts -> p.(p_ssrc) = e.(e_ssrc) /\ p.(p_ts) = 0).
Proof. exact h265_encode_seq. Qed.
Print Assumptions C23_h265_seq_consecutive.

Theorem C23_h265_seq_consecutive_run : forall e aus pkss e',
  0 <= e.(e_seq) < 65536 -> h265_encode_run e aus = Some (pkss, e') ->
  forall i d, (i < length (concat pkss))%nat ->
    p_seq (nth i (concat pkss) d) = (e.(e_seq) + Z.of_nat i) mod 65536.
Proof. exact h265_encode_run_seq. Qed.
Print Assumptions C23_h265_seq_consecutive_run.

Theorem C23_h265_glue_seq : forall max avail g pts inp decerr deliv g' out,
  h265_glue_write max avail g pts inp decerr deliv = GOk g' out -> has_enc g' = true ->
  exists e0 off0 e1, effective max avail g pts inp e0 off0 /\ g' = mkg (Some e1) off0
    /\ seq_chain e0.(e_seq) out /\ Forall (fun p => p.(p_ssrc) = e0.(e_ssrc)) out
    /\ e1.(e_seq) = adv e0.(e_seq) (length out) /\ e1.(e_max) = e0.(e_max) /\ e1.(e_ssrc) = e0.(e_ssrc).
Proof. exact h265_glue_seq. Qed.
Print Assumptions C23_h265_glue_seq.

Theorem C23_h265_glue_size : forall max avail g pts inp decerr deliv g' out,
  4 <= max -> enc_max_ok max g -> Forall (fun p => 0 <= p.(p_seq) < 65536) inp ->
  h265_glue_write max avail g pts inp decerr deliv = GOk g' out -> has_enc g' = true ->
  Forall (fun p => blen p.(p_payload) <= max) out /\ enc_max_ok max g'.
Proof. exact h265_glue_size. Qed.
Print Assumptions C23_h265_glue_size.

Theorem C23_h265_glue_ts : forall max avail g pts inp decerr au g' out,
  max <> 0 -> enc_max_ok max g ->
  h265_glue_write max avail g pts inp decerr (Some au) = GOk g' out -> has_enc g' = true ->
  Forall (fun p => p.(p_ts) = wrapu32 (g'.(g_off) + wrapu32 pts)) out
  /\ (has_enc g = true -> g'.(g_off) = g.(g_off))
  /\ (has_enc g = false -> exists pkt, first_oversized max inp = Some pkt
                                       /\ g'.(g_off) = wrapu32 (pkt.(p_ts) - wrapu32 pts)
                                       /\ (0 <= pkt.(p_ts) < two32 -> wrapu32 (g'.(g_off) + wrapu32 pts) = pkt.(p_ts))).
Proof. exact h265_glue_ts. Qed.
Print Assumptions C23_h265_glue_ts.

Theorem C23_h265_glue_roundtrip : forall max avail g pts inp decerr au g' out d,
  4 <= max < 65536 -> enc_max_ok max g ->
  h265_glue_write max avail g pts inp decerr (Some au) = GOk g' out -> has_enc g' = true ->
  au <> [] -> Forall nal5_ok au -> blen au <= max_nalus5 -> au_size au <= max_au_size5 -> clean5 d ->
  exists d', decode5_run d out = (repeat DMore (length out - 1) ++ [DOk au], d') /\ clean5 d' /\ (1 <= length out)%nat.
Proof. exact h265_glue_roundtrip. Qed.
Print Assumptions C23_h265_glue_roundtrip.

(* ---------------------------------------------------------------------------------------------------
   Opus (rtpEncoderOpus over gortsplib rtpsimpleaudio): one RTP packet per Opus packet of the unit, carrying
   it unchanged; Timestamp = sum of the durations (opus.PacketDuration2, 48 kHz) of the Opus packets before it.
   RTP/Opus has no fragmentation: the size bound holds IF AND ONLY IF every Opus packet fits - an Opus packet
   longer than the maximum goes out as it is (C23_opus_oversized_goes_out; finding, see design notes).
   The decoder is stateless.
   --------------------------------------------------------------------------------------------------- *)
Theorem C23_opus_size : forall e frames pkts e',
  opus_encode e frames = inl (Ok (pkts, e')) ->
  (Forall (fun f => blen f <= e.(e_max)) frames <-> Forall (fun p => blen p.(p_payload) <= e.(e_max)) pkts).
Proof. exact opus_encode_size. Qed.
Print Assumptions C23_opus_size.

Theorem C23_opus_oversized_goes_out :
  exists e frames pkts e', opus_encode e frames = inl (Ok (pkts, e'))
    /\ exists p, In p pkts /\ blen p.(p_payload) > e.(e_max).
Proof. exact opus_oversized_goes_out. Qed.
Print Assumptions C23_opus_oversized_goes_out.

Theorem C23_opus_seq_consecutive : forall e frames pkts e',
  opus_encode e frames = inl (Ok (pkts, e')) -> enc_post0 e pkts e' /\ length pkts = length frames.
Proof. exact opus_encode_post. Qed.
Print Assumptions C23_opus_seq_consecutive.

Theorem C23_opus_ts : forall e frames pkts e',
  opus_encode e frames = inl (Ok (pkts, e')) ->
  map p_ts pkts = map wrapu32 (starts 0 (map opus_duration frames))
  /\ Forall (fun p => p.(p_marker) = false) pkts.
Proof. exact opus_encode_ts. Qed.
Print Assumptions C23_opus_ts.

Theorem C23_opus_roundtrip : forall e frames pkts e' delta,
  Forall (fun f => f <> []) frames -> opus_encode e frames = inl (Ok (pkts, e')) ->
  simple_run (map (stamp delta) pkts) = map (fun f => DOk [f]) frames.
Proof. exact opus_roundtrip. Qed.
Print Assumptions C23_opus_roundtrip.

Theorem C23_opus_glue_seq : forall max avail g pts inp decerr deliv g' out,
  opus_glue_write max avail g pts inp decerr deliv = GOk g' out -> has_enc g' = true ->
  exists e0 off0 e1, effective max avail g pts inp e0 off0 /\ g' = mkg (Some e1) off0
    /\ seq_chain e0.(e_seq) out /\ Forall (fun p => p.(p_ssrc) = e0.(e_ssrc)) out
    /\ e1.(e_seq) = adv e0.(e_seq) (length out) /\ e1.(e_max) = e0.(e_max) /\ e1.(e_ssrc) = e0.(e_ssrc).
Proof. exact opus_glue_seq. Qed.
Print Assumptions C23_opus_glue_seq.

Theorem C23_opus_glue_size : forall max avail g pts inp decerr deliv g' out,
  max <> 0 -> enc_max_ok max g -> Forall (fun p => 0 <= p.(p_seq) < 65536) inp ->
  opus_glue_write max avail g pts inp decerr deliv = GOk g' out -> has_enc g' = true ->
  (forall frames, deliv = Some frames -> Forall (fun f => blen f <= max) frames) ->
  Forall (fun p => blen p.(p_payload) <= max) out /\ enc_max_ok max g'.
Proof. exact opus_glue_size. Qed.
Print Assumptions C23_opus_glue_size.

Theorem C23_opus_glue_ts : forall max avail g pts inp decerr frames g' out,
  max <> 0 -> enc_max_ok max g ->
  opus_glue_write max avail g pts inp decerr (Some frames) = GOk g' out -> has_enc g' = true ->
  map p_ts out = map (fun s => wrapu32 (s + (g'.(g_off) + wrapu32 pts))) (starts 0 (map opus_duration frames))
  /\ (has_enc g = true -> g'.(g_off) = g.(g_off))
  /\ (has_enc g = false -> exists pkt, first_oversized max inp = Some pkt
                                       /\ g'.(g_off) = wrapu32 (pkt.(p_ts) - wrapu32 pts)
                                       /\ (0 <= pkt.(p_ts) < two32 -> wrapu32 (g'.(g_off) + wrapu32 pts) = pkt.(p_ts))).
Proof. exact opus_glue_ts. Qed.
Print Assumptions C23_opus_glue_ts.

Theorem C23_opus_glue_roundtrip : forall max avail g pts inp decerr frames g' out,
  max <> 0 -> enc_max_ok max g ->
  opus_glue_write max avail g pts inp decerr (Some frames) = GOk g' out -> has_enc g' = true ->
  frames <> [] -> Forall (fun f => f <> []) frames ->
  simple_run out = map (fun f => DOk [f]) frames /\ (1 <= length out)%nat.
Proof. exact opus_glue_roundtrip. Qed.
Print Assumptions C23_opus_glue_roundtrip.

(* ---------------------------------------------------------------------------------------------------
   G.711 and LPCM (gortsplib rtplpcm): ss = sampleSize = BitDepth * ChannelCount / 8 (G.711: ChannelCount),
   maxPayloadSize = (PayloadMaxSize / ss) * ss. Precondition (the encoder's own, enforced by newRTPEncoder
   since fix 6728a85): 0 < ss <= PayloadMaxSize; outside it the encoder divides by zero
   (C23_lpcm_sample_must_fit). Every packet but the last has maxPayloadSize bytes; whole samples stay whole;
   packet i starts i * (PayloadMaxSize / ss) samples after the first. The decoder is stateless and returns
   the payload: the unit is the concatenation (joined).
   --------------------------------------------------------------------------------------------------- *)
Theorem C23_lpcm_size : forall ss e samples pkts e',
  0 < ss <= e.(e_max) -> lpcm_encode ss e samples = inl (Ok (pkts, e')) ->
  Forall (fun p => blen p.(p_payload) <= e.(e_max)) pkts.
Proof. exact lpcm_encode_size. Qed.
Print Assumptions C23_lpcm_size.

Theorem C23_lpcm_encode_total : forall ss e samples,
  0 < ss <= e.(e_max) -> exists pkts e', lpcm_encode ss e samples = inl (Ok (pkts, e')).
Proof. exact lpcm_encode_total. Qed.
Print Assumptions C23_lpcm_encode_total.

Theorem C23_lpcm_sample_must_fit : forall ss e samples,
  e.(e_max) < ss -> 0 <= e.(e_max) -> lpcm_encode ss e samples = inl Panic.
Proof. exact lpcm_sample_must_fit. Qed.
Print Assumptions C23_lpcm_sample_must_fit.

Theorem C23_lpcm_aligned : forall ss e samples pkts e',
  0 < ss <= e.(e_max) -> lpcm_encode ss e samples = inl (Ok (pkts, e')) ->
  (blen samples) mod ss = 0 -> Forall (fun p => (blen p.(p_payload)) mod ss = 0) pkts.
Proof. exact lpcm_encode_aligned. Qed.
Print Assumptions C23_lpcm_aligned.

Theorem C23_lpcm_ts : forall ss e samples pkts e',
  0 < ss <= e.(e_max) -> lpcm_encode ss e samples = inl (Ok (pkts, e')) ->
  (forall i d, (i < length pkts)%nat -> p_ts (nth i pkts d) = wrapu32 (Z.of_nat i * (e.(e_max) / ss)))
  /\ Forall (fun p => p.(p_marker) = false) pkts.
Proof. exact lpcm_encode_ts. Qed.
Print Assumptions C23_lpcm_ts.

Theorem C23_lpcm_seq_consecutive : forall ss e samples pkts e',
  0 < ss <= e.(e_max) -> lpcm_encode ss e samples = inl (Ok (pkts, e')) -> enc_post0 e pkts e'.
Proof. exact lpcm_encode_post. Qed.
Print Assumptions C23_lpcm_seq_consecutive.

Theorem C23_lpcm_roundtrip : forall ss e samples pkts e' delta,
  0 < ss <= e.(e_max) -> lpcm_encode ss e samples = inl (Ok (pkts, e')) ->
  joined (simple_run (map (stamp delta) pkts)) = Some samples /\ (samples <> [] -> (1 <= length pkts)%nat).
Proof. exact lpcm_roundtrip. Qed.
Print Assumptions C23_lpcm_roundtrip.

Theorem C23_lpcm_glue_seq : forall ss max avail g pts inp decerr deliv g' out,
  0 < ss ->
  lpcm_glue_write ss max avail g pts inp decerr deliv = GOk g' out -> has_enc g' = true ->
  exists e0 off0 e1, effective max avail g pts inp e0 off0 /\ g' = mkg (Some e1) off0
    /\ seq_chain e0.(e_seq) out /\ Forall (fun p => p.(p_ssrc) = e0.(e_ssrc)) out
    /\ e1.(e_seq) = adv e0.(e_seq) (length out) /\ e1.(e_max) = e0.(e_max) /\ e1.(e_ssrc) = e0.(e_ssrc).
Proof. exact lpcm_glue_seq. Qed.
Print Assumptions C23_lpcm_glue_seq.

Theorem C23_lpcm_glue_size : forall ss max avail g pts inp decerr deliv g' out,
  0 < ss <= max -> enc_max_ok max g -> Forall (fun p => 0 <= p.(p_seq) < 65536) inp ->
  lpcm_glue_write ss max avail g pts inp decerr deliv = GOk g' out -> has_enc g' = true ->
  Forall (fun p => blen p.(p_payload) <= max) out /\ enc_max_ok max g'.
Proof. exact lpcm_glue_size. Qed.
Print Assumptions C23_lpcm_glue_size.

Theorem C23_lpcm_glue_ts : forall ss max avail g pts inp decerr samples g' out,
  0 < ss <= max -> enc_max_ok max g ->
  lpcm_glue_write ss max avail g pts inp decerr (Some samples) = GOk g' out -> has_enc g' = true ->
  (forall i d, (i < length out)%nat ->
     p_ts (nth i out d) = wrapu32 (Z.of_nat i * (max / ss) + (g'.(g_off) + wrapu32 pts)))
  /\ (has_enc g = true -> g'.(g_off) = g.(g_off))
  /\ (has_enc g = false -> exists pkt, first_oversized max inp = Some pkt
                                       /\ g'.(g_off) = wrapu32 (pkt.(p_ts) - wrapu32 pts)
                                       /\ (0 <= pkt.(p_ts) < two32 -> wrapu32 (g'.(g_off) + wrapu32 pts) = pkt.(p_ts))).
Proof. exact lpcm_glue_ts. Qed.
Print Assumptions C23_lpcm_glue_ts.

Theorem C23_lpcm_glue_roundtrip : forall ss max avail g pts inp decerr samples g' out,
  0 < ss <= max -> enc_max_ok max g ->
  lpcm_glue_write ss max avail g pts inp decerr (Some samples) = GOk g' out -> has_enc g' = true ->
  samples <> [] ->
  joined (simple_run out) = Some samples /\ (1 <= length out)%nat.
Proof. exact lpcm_glue_roundtrip. Qed.
Print Assumptions C23_lpcm_glue_roundtrip.

(* ---- non-vacuity of the second part ---- *)

(* H.265, max = 12: VPS+SPS in one aggregation packet (2 + 2+3 + 2+3 = 12), a 14-byte slice in two
   fragmentation units (forbidden_zero_bit set on purpose: it survives), a last unit alone with the marker;
   sequence numbers wrap; the decoder gives the access unit back *)
Example C23_example_h265 :
  let e := mkenc 12 77 65535 in
  let au := [[64; 1; 12]; [66; 1; 13]; [166; 1; 1; 2; 3; 4; 5; 6; 7; 8; 9; 10; 11; 12]; [78; 1; 9]] in
  Forall nal5_ok au /\
  h265_encode e au =
  inl (Ok ([ mkpkt 65535 0 false 77 [96; 1; 0; 3; 64; 1; 12; 0; 3; 66; 1; 13];
             mkpkt 0 0 false 77 [226; 1; 147; 1; 2; 3; 4; 5; 6; 7; 8; 9];
             mkpkt 1 0 false 77 [226; 1; 83; 10; 11; 12];
             mkpkt 2 0 true 77 [78; 1; 9] ], mkenc 12 77 3))
  /\ fst (decode5_run dec5_init (map (stamp 999)
            [ mkpkt 65535 0 false 77 [96; 1; 0; 3; 64; 1; 12; 0; 3; 66; 1; 13];
              mkpkt 0 0 false 77 [226; 1; 147; 1; 2; 3; 4; 5; 6; 7; 8; 9];
              mkpkt 1 0 false 77 [226; 1; 83; 10; 11; 12];
              mkpkt 2 0 true 77 [78; 1; 9] ]))
     = [DMore; DMore; DMore; DOk au].
Proof.
  cbv zeta. split; [|split; vm_compute; reflexivity].
  repeat constructor; try (cbn; lia); try (intros [H1 H2]; vm_compute in H1, H2; lia).
Qed.

(* Opus: three packets of 20 ms, 2 x 10 ms (code 1) and 3 x 20 ms (code 3, count 3): timestamps 0, 960, 1920 *)
Example C23_example_opus :
  opus_encode (mkenc 100 5 65535) [[8 * 19; 1; 2]; [8 * 18 + 1; 7]; [8 * 19 + 3; 3; 9]]
  = inl (Ok ([mkpkt 65535 0 false 5 [152; 1; 2]; mkpkt 0 960 false 5 [145; 7]; mkpkt 1 1920 false 5 [155; 3; 9]],
             mkenc 100 5 2)).
Proof. vm_compute. reflexivity. Qed.

(* LPCM 16 bit stereo (ss = 4), max = 10: maxPayloadSize = 8, 20 bytes -> 8 + 8 + 4, timestamps 0, 2, 4;
   through the glue with offset 100 and PTS 1000 *)
Example C23_example_lpcm :
  lpcm_encode 4 (mkenc 10 5 7) [1;2;3;4;5;6;7;8;9;10;11;12;13;14;15;16;17;18;19;20]
  = inl (Ok ([mkpkt 7 0 false 5 [1;2;3;4;5;6;7;8]; mkpkt 8 2 false 5 [9;10;11;12;13;14;15;16];
              mkpkt 9 4 false 5 [17;18;19;20]], mkenc 10 5 10))
  /\ match lpcm_glue_write 4 10 true (mkg (Some (mkenc 10 5 7)) 100) 1000 [] false
             (Some [1;2;3;4;5;6;7;8;9;10;11;12;13;14;15;16;17;18;19;20]) with
     | GOk g1 out => map p_ts out = [1100; 1102; 1104] /\ map p_seq out = [7; 8; 9]
                     /\ joined (simple_run out) = Some [1;2;3;4;5;6;7;8;9;10;11;12;13;14;15;16;17;18;19;20]
     | _ => False
     end.
Proof. vm_compute. repeat split; reflexivity. Qed.

(* ================================================================================================================
   Third part (builder b2-c23): the per-format RTP state over the WHOLE LIFE of a Stream - a sequence of sub streams.

   Model/C23_RtpLife.v: one streamFormat (rtpEncoder, rtpTimeOffset, ptsOffset; flags alwaysAvailable, forceRemux)
   shared by every sub stream the Stream goes through (an ordinary stream has one; an always-available stream has
   the offline sub stream, publishers replacing each other, the offline sub stream again, ...). An event is either
   ESub (a SubStream.Initialize: subStreamFormat.initialize = ssf_init, initialize2 = ssf_init2) or EUnit (a unit
   through writeUnitInner = glue_write on the PTS shifted by ptsOffset); life_trace gives, per event, the state
   before, the result and the state after. The random draws of a (possible) new encoder and offset are event
   arguments, so every theorem holds whatever the random source returns.
   ================================================================================================================ *)

(* subStreamFormat.initialize with an encoder already there: encoder (SSRC, sequence number) and offset are left
   alone - for any publisher kind, any mode, any random draw *)
Theorem C23_life_sub_keeps_state : forall max avail m use_rtp dec_ok rnd g e,
  g.(g_enc) = Some e ->
  ssf_init max avail m use_rtp dec_ok rnd g = if use_rtp && negb dec_ok then None else Some g.
Proof. exact ssf_init_keeps. Qed.
Print Assumptions C23_life_sub_keeps_state.

(* ... without encoder: created exactly when the server must generate the packets (non-RTP publisher, always-available
   stream, forced remux), from the drawn SSRC / sequence number / offset; a format without encoder fails *)
Theorem C23_life_sub_creates : forall max avail m use_rtp dec_ok ssrc seq0 off g,
  g.(g_enc) = None -> (use_rtp = true -> dec_ok = true) ->
  ssf_init max avail m use_rtp dec_ok (ssrc, seq0, off) g =
    if needs_encoder m use_rtp
    then (if avail then Some (mkg (Some (enc_init max ssrc seq0)) off) else None)
    else Some g.
Proof. exact ssf_init_creates. Qed.
Print Assumptions C23_life_sub_creates.

(* the first sub stream of a Stream that needs an encoder creates the state ... *)
Theorem C23_life_first_sub : forall P encode max avail m use_rtp dec_ok ssrc seq0 off first computed,
  (use_rtp = true -> dec_ok = true) -> needs_encoder m use_rtp = true -> avail = true ->
  life_step P encode max avail m l_init (ESub P use_rtp dec_ok (ssrc, seq0, off) first computed)
  = (mkl (mkg (Some (enc_init max ssrc seq0)) off) (ssf_init2 m first computed 0), RSub true).
Proof. exact life_first_sub. Qed.
Print Assumptions C23_life_first_sub.

(* ... an RTP publisher on an ordinary stream does not (packets pass through until one is oversized) *)
Theorem C23_life_first_sub_rtp : forall P encode max avail dec_ok rnd first computed,
  life_step P encode max avail (mkmode false false) l_init (ESub P true dec_ok rnd first computed)
  = if dec_ok then (l_init, RSub true) else (l_init, RSub false).
Proof. exact life_first_sub_rtp. Qed.
Print Assumptions C23_life_first_sub_rtp.

(* HISTORY (any packetizer): from a state with an encoder, over ANY sequence of sub stream initialisations and units:
   every state before and after every event has an encoder and the SAME rtpTimeOffset; a sub stream initialisation
   leaves encoder + sequence number + offset untouched; every re-encoded unit goes out as the packets of the
   encoder in the state before, stamped with that one offset and the unit's (shifted) PTS *)
Theorem C23_life_offset_fixed : forall P encode max avail m evs s,
  has_enc s.(l_g) = true ->
  Forall (entry_ok P encode m s.(l_g).(g_off)) (life_trace P encode max avail m s evs).
Proof. exact life_offset_fixed. Qed.
Print Assumptions C23_life_offset_fixed.

(* the entries of a history are chained: each event starts in the state the previous one ended in *)
Theorem C23_life_chained : forall P encode max avail m evs s a b,
  In (a, b) (combine (life_trace P encode max avail m s evs) (tl (life_trace P encode max avail m s evs))) ->
  snd a = fst (fst (fst b)).
Proof. exact life_trace_chained. Qed.
Print Assumptions C23_life_chained.

(* HISTORY (any packetizer honouring enc_post0): in every entry the unit's packets are numbered from the number of
   the encoder in the state before, with its SSRC, and the encoder of the state after continues behind them; a sub
   stream initialisation consumes no number. With C23_life_chained: the numbering continues across sub streams *)
Theorem C23_life_seq_entries : forall P encode,
  (forall e p pkts e', encode e p = inl (Ok (pkts, e')) -> enc_post0 e pkts e') ->
  forall max avail m evs s, Forall (entry_seq P) (life_trace P encode max avail m s evs).
Proof. exact life_seq_entries. Qed.
Print Assumptions C23_life_seq_entries.

(* HISTORY (a packetizer that never returns an error): ALL packets of the whole history, across every sub stream,
   form ONE consecutive run (mod 2^16) from the first encoder's number with ONE SSRC; the encoder at the end
   continues after them and the offset at the end is the offset at the start *)
Theorem C23_life_seq_consecutive : forall P encode,
  (forall e p pkts e', encode e p = inl (Ok (pkts, e')) -> enc_post0 e pkts e') ->
  (forall e p e', encode e p <> inr e') ->
  forall max avail m evs s e0,
  s.(l_g).(g_enc) = Some e0 ->
  let all := trace_pkts P (life_trace P encode max avail m s evs) in
  seq_chain e0.(e_seq) all /\ Forall (fun p => p.(p_ssrc) = e0.(e_ssrc)) all
  /\ exists e1, (life_final P encode max avail m s evs).(l_g).(g_enc) = Some e1
       /\ e1.(e_seq) = adv e0.(e_seq) (length all) /\ e1.(e_max) = e0.(e_max) /\ e1.(e_ssrc) = e0.(e_ssrc)
       /\ (life_final P encode max avail m s evs).(l_g).(g_off) = s.(l_g).(g_off).
Proof. exact life_seq_consecutive. Qed.
Print Assumptions C23_life_seq_consecutive.

(* HISTORY, size: EVERY packet the Stream sends for the format over its whole life - generated by the encoder of the
   first or of any later sub stream, created by initialize or by an oversized packet, or forwarded untouched - fits
   the maximum (under the encoder's own precondition lo <= max / pre, as in C23_glue_size_generic) *)
Theorem C23_life_size : forall P encode,
  (forall e p pkts e', encode e p = inl (Ok (pkts, e')) -> enc_post0 e pkts e') ->
  (forall e p e', encode e p <> inr e') ->
  forall lo (pre : Z -> P -> Prop),
  (forall e p pkts e', lo <= e.(e_max) -> pre e.(e_max) p ->
     encode e p = inl (Ok (pkts, e')) -> Forall (fun q => blen q.(p_payload) <= e.(e_max)) pkts) ->
  forall max avail m evs s,
  lo <= max -> max <> 0 -> enc_max_ok max s.(l_g) -> Forall (event_ok P pre max) evs ->
  Forall (fun p => blen p.(p_payload) <= max) (trace_pkts P (life_trace P encode max avail m s evs)).
Proof. exact life_size. Qed.
Print Assumptions C23_life_size.

(* ---- H.264 (its encoder never fails): the three history theorems without contract hypotheses ---- *)
Theorem C23_h264_life_seq_consecutive : forall max avail m evs s e0,
  s.(l_g).(g_enc) = Some e0 ->
  let all := trace_pkts (list bytes) (h264_life_trace max avail m s evs) in
  seq_chain e0.(e_seq) all /\ Forall (fun p => p.(p_ssrc) = e0.(e_ssrc)) all
  /\ exists e1, (h264_life_final max avail m s evs).(l_g).(g_enc) = Some e1
       /\ e1.(e_seq) = adv e0.(e_seq) (length all) /\ e1.(e_max) = e0.(e_max) /\ e1.(e_ssrc) = e0.(e_ssrc)
       /\ (h264_life_final max avail m s evs).(l_g).(g_off) = s.(l_g).(g_off).
Proof. exact h264_life_seq_consecutive. Qed.
Print Assumptions C23_h264_life_seq_consecutive.

(* every packet of every unit of the whole history: Timestamp = the ONE offset + uint32(shifted PTS) (mod 2^32) *)
Theorem C23_h264_life_ts : forall max avail m evs s,
  has_enc s.(l_g) = true -> Forall (h264_entry_ts m s.(l_g).(g_off)) (h264_life_trace max avail m s evs).
Proof. exact h264_life_ts. Qed.
Print Assumptions C23_h264_life_ts.

Theorem C23_h264_life_size : forall max avail m evs s,
  3 <= max -> enc_max_ok max s.(l_g) ->
  Forall (fun e => match e with
                   | ESub _ _ _ (_, seq0, _) _ _ => 0 <= seq0 < 65536
                   | EUnit _ _ inp _ _ => Forall (fun p => 0 <= p.(p_seq) < 65536) inp
                   end) evs ->
  Forall (fun p => blen p.(p_payload) <= max) (trace_pkts (list bytes) (h264_life_trace max avail m s evs)).
Proof. exact h264_life_size. Qed.
Print Assumptions C23_h264_life_size.

(* ---- Opus, G.711 / LPCM: one consecutive run over the whole history ---- *)
Theorem C23_opus_life_seq_consecutive : forall max avail m evs s e0,
  s.(l_g).(g_enc) = Some e0 ->
  let all := trace_pkts (list bytes) (life_trace (list bytes) opus_encode max avail m s evs) in
  seq_chain e0.(e_seq) all /\ Forall (fun p => p.(p_ssrc) = e0.(e_ssrc)) all
  /\ exists e1, (life_final (list bytes) opus_encode max avail m s evs).(l_g).(g_enc) = Some e1
       /\ e1.(e_seq) = adv e0.(e_seq) (length all) /\ e1.(e_max) = e0.(e_max) /\ e1.(e_ssrc) = e0.(e_ssrc)
       /\ (life_final (list bytes) opus_encode max avail m s evs).(l_g).(g_off) = s.(l_g).(g_off).
Proof. exact opus_life_seq_consecutive. Qed.
Print Assumptions C23_opus_life_seq_consecutive.

Theorem C23_lpcm_life_seq_consecutive : forall ss max avail m evs s e0,
  0 < ss -> s.(l_g).(g_enc) = Some e0 ->
  let all := trace_pkts bytes (life_trace bytes (lpcm_encode ss) max avail m s evs) in
  seq_chain e0.(e_seq) all /\ Forall (fun p => p.(p_ssrc) = e0.(e_ssrc)) all
  /\ exists e1, (life_final bytes (lpcm_encode ss) max avail m s evs).(l_g).(g_enc) = Some e1
       /\ e1.(e_seq) = adv e0.(e_seq) (length all) /\ e1.(e_max) = e0.(e_max) /\ e1.(e_ssrc) = e0.(e_ssrc)
       /\ (life_final bytes (lpcm_encode ss) max avail m s evs).(l_g).(g_off) = s.(l_g).(g_off).
Proof. exact lpcm_life_seq_consecutive. Qed.
Print Assumptions C23_lpcm_life_seq_consecutive.

(* non-vacuity: an always-available H.264 stream, max 100. The offline sub stream creates the encoder (SSRC 7, first
   number 65535, offset 1000); a unit; a publisher comes (its initialisation would draw SSRC 9 / number 5 / offset 77:
   ignored) and ptsOffset becomes 500; its unit continues the numbering across the wrap with the same offset and the
   shifted PTS; an RTP publisher replaces it: its packet is discarded and the unit re-encoded, same run *)
Example C23_example_life :
  let m := mkmode true false in
  let evs := [ ESub (list bytes) false true (7, 65535, 1000) false 0;
               EUnit (list bytes) 10 [] false (Some [[65; 1; 2]]);
               ESub (list bytes) false true (9, 5, 77) true 500;
               EUnit (list bytes) 20 [] false (Some [[65; 3]; [65; 4]]);
               ESub (list bytes) true true (11, 6, 78) true 900;
               EUnit (list bytes) 30 [mkpkt 300 12345 true 55 [65; 9]] false (Some [[65; 9]]) ] in
  map (fun q => snd (fst q)) (h264_life_trace 100 true m l_init evs)
  = [ RSub true;
      RPkts [mkpkt 65535 1010 true 7 [65; 1; 2]];
      RSub true;
      RPkts [mkpkt 0 1520 true 7 [24; 0; 2; 65; 3; 0; 2; 65; 4]];
      RSub true;
      RPkts [mkpkt 1 1930 true 7 [65; 9]] ]
  /\ h264_life_final 100 true m l_init evs = mkl (mkg (Some (mkenc 100 7 2)) 1000) 900.
Proof. vm_compute. split; reflexivity. Qed.
