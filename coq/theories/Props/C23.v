(* C23 — RTP re-packetization is size-bounded and lossless.
   Only statements here; every proof is `exact <lemma of Proofs/C23_*.v>`.

   Modelled and proved: (1) the glue of subStreamFormat.writeUnitInner / initialize / newRTPEncoder
   (Model/C23_RtpGlue.v: glue_write, generic in the packetizer) and (2) the H.264 packetizer of gortsplib
   (Model/C23_RtpH264.v: h264_encode = rtph264.Encoder.Encode, decode = rtph264.Decoder.Decode).
   All other formats (H.265, AV1, VP8, VP9, MPEG-4 Video, MPEG-1 Video, M-JPEG, Opus, MPEG-4 Audio, LATM,
   MPEG-1 Audio, AC-3, G.711, LPCM, KLV, FLAC) are NOT covered by a theorem: for them the check evaluates the
   boolean form of the property (Check/C23.v spec_fail) on the packets of the real encoder and the output of the
   real decoder — differential only.

   blen = length as Z. enc = (PayloadMaxSize, SSRC, next sequence number). The encoder leaves Timestamp = 0;
   the glue adds rtpTimeOffset + uint32(PTS) (stamp). Preconditions are the encoder's own: PayloadMaxSize >= 3
   (FU-A needs one byte of room; smaller values divide by zero in Go) and < 65536 (16-bit STAP-A size field;
   the configuration caps udpMaxPayloadSize at 1472). *)
From Coq Require Import List ZArith Bool Lia.
Require Import MTX.Lib.IntWrap MTX.Model.C23_RtpH264 MTX.Model.C23_RtpGlue.
Require Import MTX.Proofs.C23_RtpH264 MTX.Proofs.C23_RtpH264Seq MTX.Proofs.C23_RtpH264Rt MTX.Proofs.C23_RtpH264Rt2
               MTX.Proofs.C23_RtpGlue MTX.Proofs.C23_RtpGlue2.
Import ListNotations.
Local Open Scope Z_scope.

(* ---- size: every payload fits, for every access unit (no condition on the NAL units at all) ---- *)
Theorem C23_size : forall e au pkts e',
  3 <= e.(e_max) -> h264_encode e au = Ok (pkts, e') ->
  forall p, In p pkts -> blen p.(p_payload) <= e.(e_max).
Proof. exact h264_encode_size. Qed.
Print Assumptions C23_size.

(* the encoder does not fail (no division by zero, no index out of range) under its stated precondition *)
Theorem C23_encode_total : forall e au,
  3 <= e.(e_max) -> ~ In [] au -> exists pkts e', h264_encode e au = Ok (pkts, e').
Proof. exact h264_encode_total. Qed.
Print Assumptions C23_encode_total.

(* ---- lossless: the decoder, in any clean state (no partial frame, not in Annex-B mode), fed the packets of
   one unit stamped with any timestamp, says "more packets needed" for all but the last and returns exactly the
   access unit at the last one, and is clean again.
   nal_ok n: n non-empty, forbidden_zero_bit clear (first byte < 128), NAL type not 24..29 (the RTP-only types),
   no start code 00 00 01 inside — what H.264 guarantees of a NAL unit; max_nalus = 50 and max_au_size = 8 MiB
   are the decoder's limits. ---- *)
Theorem C23_roundtrip : forall e au pkts e' d delta,
  3 <= e.(e_max) < 65536 -> au <> [] -> Forall nal_ok au ->
  blen au <= max_nalus -> au_size au <= max_au_size ->
  h264_encode e au = Ok (pkts, e') -> clean d ->
  exists d', decode_run d (map (stamp delta) pkts) = (repeat DMore (length pkts - 1) ++ [DOk au], d')
             /\ clean d' /\ (1 <= length pkts)%nat.
Proof. exact h264_roundtrip. Qed.
Print Assumptions C23_roundtrip.

(* all sequences of units through one encoder and one decoder: the decoder returns exactly the units, in order,
   and never an error *)
Theorem C23_roundtrip_seq : forall aus e pkss e' d deltas,
  3 <= e.(e_max) < 65536 ->
  Forall (fun au => au <> [] /\ Forall nal_ok au /\ blen au <= max_nalus /\ au_size au <= max_au_size) aus ->
  length deltas = length aus ->
  h264_encode_run e aus = Ok (pkss, e') -> clean d ->
  dok_units (fst (decode_run d (stamp_units deltas pkss))) = aus
  /\ ~ In DErr (fst (decode_run d (stamp_units deltas pkss)))
  /\ clean (snd (decode_run d (stamp_units deltas pkss))).
Proof. exact h264_roundtrip_run. Qed.
Print Assumptions C23_roundtrip_seq.

(* the precondition is necessary: the forbidden_zero_bit of a fragmented NAL unit is lost (FU-A has no room for
   it), so such a unit does not come back *)
Theorem C23_roundtrip_needs_forbidden_zero_bit :
  exists e au pkts e', h264_encode e au = Ok (pkts, e') /\ 3 <= e.(e_max) < 65536 /\
    fst (decode_run dec_init pkts) <> repeat DMore (length pkts - 1) ++ [DOk au].
Proof.
  exists (mkenc 4 7 0), [[129; 1; 2; 3; 4]]. eexists. eexists. split; [vm_compute; reflexivity|].
  split; [cbn; lia|]. vm_compute. discriminate.
Qed.
Print Assumptions C23_roundtrip_needs_forbidden_zero_bit.

(* ---- sequence numbers: consecutive mod 2^16, one SSRC, within a unit and across units ---- *)
Theorem C23_seq_consecutive : forall e au pkts e',
  0 <= e.(e_seq) < 65536 -> h264_encode e au = Ok (pkts, e') ->
  (forall i d, (i < length pkts)%nat -> p_seq (nth i pkts d) = (e.(e_seq) + Z.of_nat i) mod 65536)
  /\ e'.(e_seq) = (e.(e_seq) + Z.of_nat (length pkts)) mod 65536
  /\ (forall p, In p pkts -> p.(p_ssrc) = e.(e_ssrc) /\ p.(p_ts) = 0).
Proof. exact h264_encode_seq. Qed.
Print Assumptions C23_seq_consecutive.

Theorem C23_seq_consecutive_run : forall e aus pkss e',
  0 <= e.(e_seq) < 65536 -> h264_encode_run e aus = Ok (pkss, e') ->
  forall i d, (i < length (concat pkss))%nat ->
    p_seq (nth i (concat pkss) d) = (e.(e_seq) + Z.of_nat i) mod 65536.
Proof. exact h264_encode_run_seq. Qed.
Print Assumptions C23_seq_consecutive_run.

(* ---- the glue (any packetizer P/encode): a unit is re-encoded iff an encoder existed or some incoming payload
   exceeds the maximum ---- *)
Theorem C23_oversize_trigger : forall (P : Type) (encode : enc -> P -> res (list packet * enc) + unit)
    max avail g pts inp decerr deliv g' out,
  glue_write P encode max avail g pts inp decerr deliv = GOk g' out ->
  has_enc g' = has_enc g || existsb (oversized max) inp.
Proof. exact glue_trigger. Qed.
Print Assumptions C23_oversize_trigger.

(* which encoder, which offset, which packets: either nothing is touched (no encoder, nothing oversized), or the
   unit is encoded by the existing encoder / by one created with the SSRC and sequence number of the first
   oversized packet and offset = its timestamp - uint32(PTS), and every generated packet is stamped *)
Theorem C23_glue_cases : forall (P : Type) (encode : enc -> P -> res (list packet * enc) + unit)
    max avail g pts inp decerr deliv g' out,
  glue_write P encode max avail g pts inp decerr deliv = GOk g' out ->
  (g.(g_enc) = None /\ g' = g /\ out = inp /\ first_oversized max inp = None)
  \/ (exists e0 off0, effective max avail g pts inp e0 off0 /\
       ((deliv = None /\ out = [] /\ g' = mkg (Some e0) off0)
        \/ (exists p pkts e', deliv = Some p /\ encode e0 p = inl (Ok (pkts, e'))
                              /\ out = stamp_all off0 pts pkts /\ g' = mkg (Some e') off0))).
Proof. exact glue_write_inv. Qed.
Print Assumptions C23_glue_cases.

(* forwarded packets are never oversized; an oversized packet of a format without encoder is dropped *)
Theorem C23_passthrough : forall (P : Type) (encode : enc -> P -> res (list packet * enc) + unit)
    max avail g pts inp decerr deliv g' out,
  glue_write P encode max avail g pts inp decerr deliv = GOk g' out -> has_enc g' = false ->
  out = inp /\ g' = g /\ forallb (fun p => negb (oversized max p)) out = true.
Proof. exact glue_passthrough. Qed.
Print Assumptions C23_passthrough.

Theorem C23_no_encoder_drops : forall (P : Type) (encode : enc -> P -> res (list packet * enc) + unit)
    max g pts inp deliv pkt,
  g.(g_enc) = None -> first_oversized max inp = Some pkt ->
  glue_write P encode max false g pts inp false deliv = GErr g.
Proof. exact glue_no_encoder. Qed.
Print Assumptions C23_no_encoder_drops.

(* ---- timestamps (H.264 through the glue): every packet of a re-encoded unit carries offset + PTS mod 2^32; the
   offset is fixed once an encoder exists; at creation it reproduces the oversized packet's own timestamp ---- *)
Theorem C23_ts_offset : forall max avail g pts inp decerr deliv g' out,
  h264_glue_write max avail g pts inp decerr deliv = GOk g' out -> has_enc g' = true ->
  Forall (fun p => p.(p_ts) = wrapu32 (g'.(g_off) + wrapu32 pts)) out
  /\ (has_enc g = true -> g'.(g_off) = g.(g_off))
  /\ (has_enc g = false -> exists pkt, first_oversized max inp = Some pkt
                                       /\ g'.(g_off) = wrapu32 (pkt.(p_ts) - wrapu32 pts)
                                       /\ (0 <= pkt.(p_ts) < two32 -> wrapu32 (g'.(g_off) + wrapu32 pts) = pkt.(p_ts))).
Proof. exact h264_glue_ts. Qed.
Print Assumptions C23_ts_offset.

(* ---- size and round trip through the glue ---- *)
Theorem C23_glue_size : forall max avail g pts inp decerr deliv g' out,
  3 <= max -> enc_max_ok max g -> Forall (fun p => 0 <= p.(p_seq) < 65536) inp ->
  h264_glue_write max avail g pts inp decerr deliv = GOk g' out -> has_enc g' = true ->
  Forall (fun p => blen p.(p_payload) <= max) out /\ enc_max_ok max g'.
Proof. exact h264_glue_size. Qed.
Print Assumptions C23_glue_size.

Theorem C23_glue_roundtrip : forall max avail g pts inp decerr au g' out d,
  3 <= max < 65536 -> enc_max_ok max g ->
  h264_glue_write max avail g pts inp decerr (Some au) = GOk g' out -> has_enc g' = true ->
  au <> [] -> Forall nal_ok au -> blen au <= max_nalus -> au_size au <= max_au_size -> clean d ->
  exists d', decode_run d out = (repeat DMore (length out - 1) ++ [DOk au], d') /\ clean d' /\ (1 <= length out)%nat.
Proof. exact h264_glue_roundtrip. Qed.
Print Assumptions C23_glue_roundtrip.

(* ---- non-vacuity ---- *)

(* max = 10: two small NAL units in one STAP-A (9 bytes), an 11-byte unit in two FU-A fragments, a last
   unit alone with the marker; sequence numbers wrap from 65535 to 0 *)
Example C23_example_encode :
  let e := mkenc 10 77 65535 in
  let au := [[65; 1]; [65; 2]; [101; 1; 2; 3; 4; 5; 6; 7; 8; 9; 10]; [6; 9; 9]] in
  Forall nal_ok au /\ au <> [] /\
  h264_encode e au =
  Ok ([ mkpkt 65535 0 false 77 [24; 0; 2; 65; 1; 0; 2; 65; 2];
        mkpkt 0 0 false 77 [124; 133; 1; 2; 3; 4; 5; 6; 7; 8];
        mkpkt 1 0 false 77 [124; 69; 9; 10];
        mkpkt 2 0 true 77 [6; 9; 9] ], mkenc 10 77 3).
Proof.
  cbv zeta. split; [|split; [discriminate|vm_compute; reflexivity]].
  repeat constructor; try (cbn; lia); try (intros [H1 H2]; cbn in H1, H2; lia).
Qed.

Example C23_example_roundtrip :
  let e := mkenc 10 77 65535 in
  let au := [[65; 1]; [65; 2]; [101; 1; 2; 3; 4; 5; 6; 7; 8; 9; 10]; [6; 9; 9]] in
  match h264_encode e au with
  | Ok (pkts, e') =>
      (3 <=? length pkts)%nat && forallb (fun p => blen p.(p_payload) <=? 10) pkts
      && (e_seq e' =? (65535 + Z.of_nat (length pkts)) mod 65536)
      && match fst (decode_run dec_init (map (stamp 1234) pkts)) with
         | outs => match rev outs with DOk [[65; 1]; [65; 2]; [101; 1; 2; 3; 4; 5; 6; 7; 8; 9; 10]; [6; 9; 9]] :: _ => true | _ => false end
         end
  | Panic => false
  end = true.
Proof. vm_compute. reflexivity. Qed.

(* the glue: passthrough, then creation of the encoder from an oversized packet, then re-use *)
Example C23_example_glue :
  let small := mkpkt 10 5000 true 9 [65; 1; 2] in
  let big := mkpkt 11 8000 true 9 [65; 1; 2; 3; 4; 5; 6; 7; 8; 9] in
  let g0 := mkg None 0 in
  h264_glue_write 8 true g0 100 [small] false (Some [[65; 1; 2]]) = GOk g0 [small]
  /\ match h264_glue_write 8 true g0 3100 [big] false (Some [[65; 1; 2; 3; 4; 5; 6; 7; 8; 9]]) with
     | GOk g1 out =>
         has_enc g1 = true /\ g1.(g_off) = 4900 /\ map p_seq out = [11; 12] /\ map p_ts out = [8000; 8000]
         /\ map p_ssrc out = [9; 9]
     | _ => False
     end.
Proof. vm_compute. repeat split; reflexivity. Qed.
