(* C23 — placeholder while the proofs are being written *)
From Coq Require Import List ZArith Bool.
Require Import MTX.Model.C23_RtpH264.
