(* C44 — API list pagination partitions results.
   Only statements here; every proof is `exact <lemma of Proofs/C44_Paginate.v>`. *)
From Coq Require Import List ZArith.
Require Import MTX.Lib.IntWrap MTX.Model.C44_Paginate MTX.Proofs.C44_Paginate.
Require Import MTX.Model.C44_Callers MTX.Proofs.C44_Callers.
Import ListNotations.
Local Open Scope Z_scope.

(* concatenating pages 0..pageCount-1 yields the whole list (any element type, any length < 2^62) *)
Theorem C44_concat : forall (A : Type) (xs : list A) (ipp : Z),
  Z.of_nat (length xs) < 2 ^ 62 -> 0 < ipp < two31 ->
  concat (map (fun p => page_items xs ipp (Z.of_nat p))
              (seq 0 (Z.to_nat (page_count (Z.of_nat (length xs)) ipp)))) = xs.
Proof. exact @pages_concat. Qed.
Print Assumptions C44_concat.

Theorem C44_page_size : forall (A : Type) (xs : list A) (ipp page : Z),
  Z.of_nat (length xs) < 2 ^ 62 -> 0 < ipp < two31 -> 0 <= page < two31 ->
  Z.of_nat (length (page_items xs ipp page)) <= ipp.
Proof. exact @page_size. Qed.
Print Assumptions C44_page_size.

Theorem C44_past_end_empty : forall (A : Type) (xs : list A) (ipp page : Z),
  Z.of_nat (length xs) < 2 ^ 62 -> 0 < ipp < two31 -> 0 <= page < two31 ->
  page_count (Z.of_nat (length xs)) ipp <= page -> page_items xs ipp page = [].
Proof. exact @page_past_end. Qed.
Print Assumptions C44_past_end_empty.

(* a parameter string is accepted iff it is empty (default) or a non-empty run of ASCII digits
   whose value is below 2^31 (and non-zero for itemsPerPage) *)
Theorem C44_param_syntax : forall s v,
  parse_uint31 s = Some v <-> s <> [] /\ all_digits s /\ v = dec_value 0 s /\ v < two31.
Proof. exact parse_uint31_spec. Qed.
Print Assumptions C44_param_syntax.

Theorem C44_invalid_rejected : forall len i p, 0 <= len < 2 ^ 62 ->
  (paginate len i p = Rejected <-> ~ (valid_ipp i /\ valid_page p)).
Proof. exact paginate_rejects_iff. Qed.
Print Assumptions C44_invalid_rejected.

(* with Go's 64-bit wrap-around in the model: no overflow changes a result, no slice panics *)
Theorem C44_no_overflow : forall len ipp page,
  0 < len < 2 ^ 62 -> 0 < ipp < two31 -> 0 <= page -> (page + 1) * ipp < 2 ^ 63 ->
  paginate2 len ipp page = Page (ceil_div len ipp) (Z.min (page * ipp) len) (Z.min ((page + 1) * ipp) len).
Proof. exact paginate2_exact. Qed.
Print Assumptions C44_no_overflow.

Theorem C44_no_panic : forall len i p, 0 <= len < 2 ^ 62 -> paginate len i p <> Panics.
Proof. exact paginate_no_panic. Qed.
Print Assumptions C44_no_panic.

(* ---- the callers: a list endpoint `items := source(); paginate; answer {itemCount, pageCount, page}` ----
   (Model/C44_Callers.v; every handler of internal/api that calls paginate has one of the two shapes, tied by the
   driver's go/ast inventory and by driving each endpoint through the real router)

   For every source list (any element type, length < 2^62) and all parameter strings standing for itemsPerPage = ipp
   and page = page (defaults included): the answer carries the length of the whole source, the page count, and exactly
   the consecutive slice [page*ipp, page*ipp+ipp) of the source. *)
Theorem C44_endpoint_page : forall (A : Type) (src : list A) (i p : list Z) (ipp page : Z),
  Z.of_nat (length src) < 2 ^ 62 -> ipp_value i ipp -> page_value p page ->
  list_response src i p =
    ROk (Z.of_nat (length src)) (page_count (Z.of_nat (length src)) ipp) (page_items src ipp page)
  /\ items_of (list_response src i p) = firstn (Z.to_nat ipp) (skipn (Z.to_nat (page * ipp)) src).
Proof. intros A src i p ipp page Hl Hi Hp. split; [exact (list_response_valid src i p ipp page Hl Hi Hp) | exact (list_response_slice src i p ipp page Hl Hi Hp)]. Qed.
Print Assumptions C44_endpoint_page.

(* the answers to pages 0..pageCount-1 (whatever strings spell the page numbers) concatenate to the source *)
Theorem C44_endpoint_concat : forall (A : Type) (src : list A) (i : list Z) (ps : nat -> list Z) (ipp : Z),
  Z.of_nat (length src) < 2 ^ 62 -> ipp_value i ipp -> (forall k, page_value (ps k) (Z.of_nat k)) ->
  concat (map (fun k => items_of (list_response src i (ps k)))
              (seq 0 (Z.to_nat (page_count (Z.of_nat (length src)) ipp)))) = src.
Proof. exact @list_response_concat. Qed.
Print Assumptions C44_endpoint_concat.

Theorem C44_endpoint_page_size : forall (A : Type) (src : list A) (i p : list Z) (ipp page : Z),
  Z.of_nat (length src) < 2 ^ 62 -> ipp_value i ipp -> page_value p page ->
  Z.of_nat (length (items_of (list_response src i p))) <= ipp.
Proof. exact @list_response_size. Qed.
Print Assumptions C44_endpoint_page_size.

Theorem C44_endpoint_past_end_empty : forall (A : Type) (src : list A) (i p : list Z) (ipp page : Z),
  Z.of_nat (length src) < 2 ^ 62 -> ipp_value i ipp -> page_value p page ->
  page_count (Z.of_nat (length src)) ipp <= page -> items_of (list_response src i p) = [].
Proof. exact @list_response_past_end. Qed.
Print Assumptions C44_endpoint_past_end_empty.

(* 400 exactly for invalid parameters; no request makes a handler panic *)
Theorem C44_endpoint_invalid_rejected : forall (A : Type) (src : list A) (i p : list Z),
  Z.of_nat (length src) < 2 ^ 62 -> (list_response src i p = RBad <-> ~ (valid_ipp i /\ valid_page p)).
Proof. exact @list_response_rejects_iff. Qed.
Print Assumptions C44_endpoint_invalid_rejected.

Theorem C44_endpoint_no_panic : forall (A : Type) (src : list A) (i p : list Z),
  Z.of_nat (length src) < 2 ^ 62 -> list_response src i p <> RPanic.
Proof. exact @list_response_no_panic. Qed.
Print Assumptions C44_endpoint_no_panic.

(* the keys shape (onRecordingsList: paginate the path names, allocate Items with the page's length, fill by index)
   answers exactly like an endpoint whose source is the list of built items: all theorems above apply to it *)
Theorem C44_endpoint_keys : forall (K A : Type) (zero : A) (f : K -> A) (keys : list K) (i p : list Z),
  list_response_alloc zero f false keys i p = list_response (map f keys) i p.
Proof. intros. rewrite list_response_alloc_eq. apply list_response_keys_eq. Qed.
Print Assumptions C44_endpoint_keys.

(* allocating Items BEFORE paginate (length of the whole key list) violates the page size bound *)
Theorem C44_endpoint_alloc_before_refuted :
  exists (keys : list Z) i p ipp page, ipp_value i ipp /\ page_value p page /\
    ~ Z.of_nat (length (items_of (list_response_alloc (-1) (fun k => k) true keys i p))) <= ipp.
Proof. exact alloc_before_refuted. Qed.
Print Assumptions C44_endpoint_alloc_before_refuted.

(* what the driver compares against: every driven endpoint (both shapes) is list_response on [0..n) *)
Theorem C44_endpoint_driven : forall ep n i p r,
  endpoint_response ep n i p = Some r -> r = list_response (iota 0 (Z.to_nat n)) i p.
Proof. exact endpoint_response_list. Qed.
Print Assumptions C44_endpoint_driven.

(* non-vacuity: 7 recordings, itemsPerPage=3, pages "0".."3"; default parameters; rejected strings *)
Example C44_endpoint_example :
  map (fun p => list_response_alloc (-1) (fun k => k) false [10;11;12;13;14;15;16] [51] [p]) [48;49;50;51] =
    [ROk 7 3 [10;11;12]; ROk 7 3 [13;14;15]; ROk 7 3 [16]; ROk 7 3 []]
  /\ list_response [1;2;3] [] [] = ROk 3 1 [1;2;3] /\ list_response [1;2;3] [48] [] = RBad
  /\ ipp_value [51] 3 /\ page_value [50] 2 /\ ipp_value [] 100 /\ length endpoints = 15%nat.
Proof. vm_compute. repeat split; try (right; split; [reflexivity | discriminate]); try (right; reflexivity); left; split; reflexivity. Qed.

(* non-vacuity: a concrete list with a partial last page *)
Example C44_example :
  map (page_items [1;2;3;4;5;6;7] 3) [0;1;2;3] = [[1;2;3];[4;5;6];[7];[]] /\ page_count 7 3 = 3
  /\ paginate 7 [51] [50] = Page 3 6 7 /\ paginate 7 [48] [] = Rejected /\ paginate 7 [] [45;49] = Rejected.
Proof. vm_compute. repeat split. Qed.
