(* C44 — API list pagination partitions results.
   Only statements here; every proof is `exact <lemma of Proofs/C44_Paginate.v>`. *)
From Coq Require Import List ZArith.
Require Import MTX.Lib.IntWrap MTX.Model.C44_Paginate MTX.Proofs.C44_Paginate.
Import ListNotations.
Local Open Scope Z_scope.

(* concatenating pages 0..pageCount-1 yields the whole list (any element type, any length < 2^62) *)
Theorem C44_concat : forall (A : Type) (xs : list A) (ipp : Z),
  Z.of_nat (length xs) < 2 ^ 62 -> 0 < ipp < two31 ->
  concat (map (fun p => page_items xs ipp (Z.of_nat p))
              (seq 0 (Z.to_nat (page_count (Z.of_nat (length xs)) ipp)))) = xs.
Proof. exact @pages_concat. Qed.
Print Assumptions C44_concat.

Theorem C44_page_size : forall (A : Type) (xs : list A) (ipp page : Z),
  Z.of_nat (length xs) < 2 ^ 62 -> 0 < ipp < two31 -> 0 <= page < two31 ->
  Z.of_nat (length (page_items xs ipp page)) <= ipp.
Proof. exact @page_size. Qed.
Print Assumptions C44_page_size.

Theorem C44_past_end_empty : forall (A : Type) (xs : list A) (ipp page : Z),
  Z.of_nat (length xs) < 2 ^ 62 -> 0 < ipp < two31 -> 0 <= page < two31 ->
  page_count (Z.of_nat (length xs)) ipp <= page -> page_items xs ipp page = [].
Proof. exact @page_past_end. Qed.
Print Assumptions C44_past_end_empty.

(* a parameter string is accepted iff it is empty (default) or a non-empty run of ASCII digits
   whose value is below 2^31 (and non-zero for itemsPerPage) *)
Theorem C44_param_syntax : forall s v,
  parse_uint31 s = Some v <-> s <> [] /\ all_digits s /\ v = dec_value 0 s /\ v < two31.
Proof. exact parse_uint31_spec. Qed.
Print Assumptions C44_param_syntax.

Theorem C44_invalid_rejected : forall len i p, 0 <= len < 2 ^ 62 ->
  (paginate len i p = Rejected <-> ~ (valid_ipp i /\ valid_page p)).
Proof. exact paginate_rejects_iff. Qed.
Print Assumptions C44_invalid_rejected.

(* with Go's 64-bit wrap-around in the model: no overflow changes a result, no slice panics *)
Theorem C44_no_overflow : forall len ipp page,
  0 < len < 2 ^ 62 -> 0 < ipp < two31 -> 0 <= page -> (page + 1) * ipp < 2 ^ 63 ->
  paginate2 len ipp page = Page (ceil_div len ipp) (Z.min (page * ipp) len) (Z.min ((page + 1) * ipp) len).
Proof. exact paginate2_exact. Qed.
Print Assumptions C44_no_overflow.

Theorem C44_no_panic : forall len i p, 0 <= len < 2 ^ 62 -> paginate len i p <> Panics.
Proof. exact paginate_no_panic. Qed.
Print Assumptions C44_no_panic.

(* non-vacuity: a concrete list with a partial last page *)
Example C44_example :
  map (page_items [1;2;3;4;5;6;7] 3) [0;1;2;3] = [[1;2;3];[4;5;6];[7];[]] /\ page_count 7 3 = 3
  /\ paginate 7 [51] [50] = Page 3 6 7 /\ paginate 7 [48] [] = Rejected /\ paginate 7 [] [45;49] = Rejected.
Proof. vm_compute. repeat split. Qed.
