(* C40 — Concurrent operation is race-free and deadlock-free.   LEVEL: PARTIAL.

   NOT decided here: data-race freedom.  It is a statement about the Go memory model; no executable Gallina model
   can exhibit a data race, so nothing below says anything about it (the check runs a `go test -race` soak in the
   thorough tier; that is testing, not proof).

   Decided here, for the model Model/C40_Rendezvous.v of the synchronous-channel protocol between the path manager
   loop (pathManager.run and its do* handlers, doClosePath = pa.close(); pa.wait()), the path loops (path.run /
   runInner, every handler as an arbitrary well-formed script of blocking operations, the termination sequence), the
   callers (AddReader / AddPublisher / Describe / APIPathsGet: send to pm, wait, send to the path, wait;
   ReloadPathConfs) and shutdown (pathManager.close): ANY number of paths and callers, ALL interleavings of the atomic
   steps (a step = one rendezvous or one ctx.Done() branch).  `reachable true` = the protocol as it is in the code,
   `reachable false` = without the `<-pa.ctx.Done()` branches of setPathReady / setPathNotReady / removePath /
   closePathIfIdle.

   internal l = false  only for the environment's moves: a new call arrives (LSpawn), a timer of a path fires (LTimer),
   pathManager.close() is called (LCancel).

   quiescent s  = the path manager is in its main select with pm.ctx alive (or has terminated); every path is in its
   main select with its ctx alive (or has terminated); every caller has returned or is a request on hold of such a path
   (describeRequestsOnHold / readerAddRequestsOnHold: waiting for an on-demand source, answered by a later request, a
   timer or the path's termination); pathManager.close() is not in progress. *)
From Coq Require Import List Arith Bool.
Require Import MTX.Model.C40_Rendezvous MTX.Proofs.C40_Rendezvous MTX.Proofs.C40_Refuted MTX.Check.C40 MTX.Proofs.C40_Check.
Require Import MTX.Model.C40_CoreLoop MTX.Proofs.C40_CoreLoop MTX.Proofs.C40_CoreCheck.
Require MTX.Model.C40_StreamLock MTX.Proofs.C40_StreamLock MTX.Proofs.C40_StreamCheck.
Require MTX.Model.C40_HlsLoop MTX.Proofs.C40_HlsLoop MTX.Proofs.C40_HlsCheck.
Import ListNotations.

(* progress: in every reachable state either nobody is inside an operation (quiescent), or some step other than an
   environment move is enabled; and from every reachable state shutdown runs to the all-terminated state *)
Theorem C40_no_deadlock : forall s, reachable true s ->
  (quiescent s \/ exists l s', internal l = true /\ step true s l = Some s')
  /\ (exists ls s', forallb internal ls = true /\ run true s (shutdown_labels s ++ ls) = Some s' /\ all_terminated s').
Proof. exact no_deadlock. Qed.
Print Assumptions C40_no_deadlock.

(* every schedule of internal steps is finite (at most `measure s` steps): no livelock among the modelled processes *)
Theorem C40_every_schedule_finite : forall s ls s', reachable true s ->
  forallb internal ls = true -> run true s ls = Some s' -> length ls + measure s' <= measure s.
Proof. intros s ls s' HR. apply internal_run_bounded. exact (inv_reachable true s HR). Qed.
Print Assumptions C40_every_schedule_finite.

(* without new arrivals the system settles: some schedule of at most `measure s` internal steps reaches quiescence *)
Theorem C40_quiesces : forall s, reachable true s ->
  exists ls s', forallb internal ls = true /\ run true s ls = Some s' /\ quiescent s' /\ length ls <= measure s.
Proof. intros s HR. apply quiesces. exact (inv_reachable true s HR). Qed.
Print Assumptions C40_quiesces.

(* once pm.ctx is cancelled, WHATEVER the scheduler does: when no internal step is left, the path manager loop and
   every path have terminated, every started call has returned and pathManager.close() has returned *)
Theorem C40_shutdown_any_schedule : forall s ls s', reachable true s -> pm_ctx s = true ->
  run true s ls = Some s' -> (forall l, internal l = true -> step true s' l = None) -> all_terminated s'.
Proof. intros s ls s' HR. apply shutdown_any_schedule. exact (inv_reachable true s HR). Qed.
Print Assumptions C40_shutdown_any_schedule.

(* a call that has started returns (shutdown_labels s = [LCancel] if close() was not called yet, else []) *)
Theorem C40_every_call_returns : forall s c, reachable true s -> c < nc s ->
  exists ls s' r, forallb internal ls = true /\ run true s (shutdown_labels s ++ ls) = Some s' /\ callers s' c = CDone r.
Proof. intros s c HR. apply every_call_returns. exact (inv_reachable true s HR). Qed.
Print Assumptions C40_every_call_returns.

(* a call only ends with "terminated" if pm.ctx was cancelled or (second select / request on hold) the path manager
   had called pa.close() on that path; pctx of an existing path is changed by doClosePath only *)
Theorem C40_terminated_needs_ctx : forall s c, reachable true s ->
  match callers s c with
  | CDone DPmTerm => pm_ctx s = true
  | CDone (DPaTerm p) | CDone (DPaTermAns p) => pm_ctx s = true \/ pctx (paths s p) = true
  | _ => True
  end.
Proof. intros s c HR. apply terminated_needs_ctx. exact (inv_reachable true s HR). Qed.
Print Assumptions C40_terminated_needs_ctx.

Theorem C40_pctx_only_by_close : forall esc s l s' p,
  step esc s l = Some s' -> l <> LPmCloseHd -> p < np s -> pctx (paths s' p) = pctx (paths s p).
Proof. exact pctx_frame. Qed.
Print Assumptions C40_pctx_only_by_close.

(* the correspondence check's test "the model claims that nothing can move here except processes held in a driver
   hook" (Check.C40.settled, a finite list of candidate labels) is complete: if it accepts a reachable state, every
   enabled internal step involves a frozen process; with nothing frozen, no internal step is enabled at all *)
Theorem C40_check_settled_sound : forall s fr l s', reachable true s ->
  settled s fr = true -> internal l = true -> step true s l = Some s' ->
  exists q, In q (involves s l) /\ existsb (proc_eqb q) fr = true.
Proof. intros s fr l s' HR. apply settled_sound. exact (inv_reachable true s HR). Qed.
Print Assumptions C40_check_settled_sound.

(* the escape branches are what the proof uses: without them this state is reachable — the path manager is in
   pa.wait() for path 0, path 0 is blocked in setPathReady sending to the path manager, the publisher waits for the
   path's answer — and no step but an environment move is enabled *)
Theorem C40_no_deadlock_refuted : exists s,
  reachable false s
  /\ pm s = PmWait 0 [] /\ ppc (paths s 0) = PaRun /\ script (paths s 0) = [APm KReady; AAns 0]
  /\ pctx (paths s 0) = true /\ pm_ctx s = false /\ callers s 0 = CWaitPa 0
  /\ ~ quiescent s
  /\ forall l, internal l = true -> step false s l = None.
Proof.
  exists stuck. split; [exact stuck_reachable|].
  destruct stuck_shape as [H1 [H2 [H3 [H4 [H5 H6]]]]].
  repeat (split; [assumption|]). split; [exact stuck_not_quiescent|exact stuck_no_step].
Qed.
Print Assumptions C40_no_deadlock_refuted.

(* non-vacuity: the same schedule with the escape branches winds down (path 0 dead, publisher answered, pm idle) *)
Example C40_example_escape :
  run true init escape_trace = Some wound_down
  /\ pm wound_down = PmIdle /\ ppc (paths wound_down 0) = PaDead /\ callers wound_down 0 = CDone DPaAns.
Proof. exact same_schedule_with_escape. Qed.

(* non-vacuity: a reachable quiescent state with a request on hold, and shutdown from it *)
Example C40_example_hold :
  match run true init [LSpawn KCall; LPmRecv 0; LPmHandled (HNew []); LPmAns; LPaRecv 0 []] with
  | Some s => callers s 0 = CWaitPa 0 /\ held (paths s 0) = [0] /\ pm s = PmIdle
              /\ match run true s [LCancel; LPmStop; LPaCtx 0; LPaTRemEsc 0; LPaTAns 0; LPaTFin 0 false; LClDone] with
                 | Some s' => callers s' 0 = CDone (DPaTermAns 0) /\ closer s' = ClDone /\ ppc (paths s' 0) = PaDead
                 | None => False
                 end
  | None => False
  end.
Proof. vm_compute. repeat split. Qed.

(* ==== Core level (Model/C40_CoreLoop.v): the select loop of Core.run (API configuration requests with their
   request / response rendezvous, confChanged, interrupt, ctx.Done), reloadConf / closeResources closing the API
   server, api.Close (http.Server.Shutdown, then the handler tracker's wg.Wait() without time-out), the API handlers
   (any number; body read, Core.APIConfig*: select { send ; <-p.ctx.Done() }, <-res, response), the watcher.
   `kreachable true` = the code with fix 90f555e (closeAPI refuses the requests that arrive while the API server is
   being closed); `kreachable false` = the code before it.  kinternal l = false only for the environment: a request
   arrives (QSpawn), the configuration file changes (QFileChanged), a signal (QInterrupt), Core.Close() (QCancel).
   kquiescent s = every started request has been answered and its handler has returned, api.Close is not running, and
   Core.run has terminated or sits in its select with nothing to receive. ==== *)

(* progress: a reachable state is quiescent or some non-environment step is enabled *)
Theorem C40_core_no_deadlock : forall s, kreachable true s ->
  kquiescent s \/ exists l s', kinternal l = true /\ kstep true s l = Some s'.
Proof. intros s HR. apply kprogress. exact (kinv_reachable true s HR). Qed.
Print Assumptions C40_core_no_deadlock.

(* no livelock: a schedule of internal steps has at most kmeasure s steps (with or without the refusal) *)
Theorem C40_core_every_schedule_finite : forall refuse s ls s', kreachable refuse s ->
  forallb kinternal ls = true -> krun refuse s ls = Some s' -> length ls + kmeasure s' <= kmeasure s.
Proof. intros refuse s ls s' HR. apply kinternal_run_bounded. exact (kinv_reachable refuse s HR). Qed.
Print Assumptions C40_core_every_schedule_finite.

(* every request that has passed the tracker is answered (accepted, rejected, or refused with "terminated") and its
   handler returns: WHATEVER the scheduler does, once no internal step is left every handler has returned ... *)
Theorem C40_core_every_request_answered : forall s ls s', kreachable true s -> krun true s ls = Some s' ->
  (forall l, kinternal l = true -> kstep true s' l = None) ->
  forall h, h < nh s' -> exists r, hd s' h = HdDone r.
Proof.
  intros s ls s' HR Hrun Hstuck.
  pose proof (kinv_run _ _ _ _ (kinv_reachable true s HR) Hrun) as I'.
  destruct (kstuck_quiescent s' I' Hstuck) as [Ha _]. exact Ha.
Qed.
Print Assumptions C40_core_every_request_answered.

(* ... and such a schedule exists (of at most kmeasure s steps, by C40_core_every_schedule_finite) *)
Theorem C40_core_quiesces : forall s, kreachable true s ->
  exists ls s', forallb kinternal ls = true /\ krun true s ls = Some s' /\ kquiescent s' /\
                forall h, h < nh s -> exists r, hd s' h = HdDone r.
Proof.
  intros s HR. destruct (kquiesces s (kinv_reachable true s HR)) as (ls & s' & Hall & Hrun & Q & Hn).
  exists ls, s'. split; [exact Hall|split; [exact Hrun|split; [exact Q|]]].
  intros h Hh. destruct Q as [Ha _]. apply Ha. rewrite Hn. exact Hh.
Qed.
Print Assumptions C40_core_quiesces.

(* shutdown: once p.ctx is cancelled (Core.Close(), a signal, a failed reload), whatever the scheduler does, when no
   internal step is left Core.run has closed p.done, the API server is gone, the watcher has terminated and every
   request has been answered *)
Theorem C40_core_shutdown_any_schedule : forall s ls s', kreachable true s -> kctx s = true ->
  krun true s ls = Some s' -> (forall l, kinternal l = true -> kstep true s' l = None) -> kterminated s'.
Proof. intros s ls s' HR. apply kshutdown_any_schedule. exact (kinv_reachable true s HR). Qed.
Print Assumptions C40_core_shutdown_any_schedule.

(* the enabledness test of the Core-level correspondence check is complete *)
Theorem C40_core_check_settled_sound : forall s fr l s', kreachable true s ->
  ksettled s fr = true -> kinternal l = true -> kstep true s l = Some s' ->
  exists q, In q (kinvolves l) /\ existsb (kproc_eqb q) fr = true.
Proof. intros s fr l s' HR. apply ksettled_sound. exact (kinv_reachable true s HR). Qed.
Print Assumptions C40_core_check_settled_sound.

(* the code before 90f555e: this state is reachable — Core.run inside api.Close() (tracker: wg.Wait()) after it has
   answered the accepted edit of handler 0, handler 1 at `select { p.ch <- req ; <-p.ctx.Done() }` with p.ctx alive —
   and no step but an environment move (Core.Close()) is enabled.  Replayed on the real code: KNOWN_FINDINGS.jsonl
   (fixed: 90f555e), design_notes/C40.md *)
Theorem C40_core_no_deadlock_refuted : exists s,
  kreachable false s
  /\ co s = CoApiClosing false /\ ac s = AcTracker /\ hd s 0 = HdDone RsOk /\ hd s 1 = HdSend /\ kctx s = false
  /\ ~ kquiescent s
  /\ forall l, kinternal l = true -> kstep false s l = None.
Proof.
  exists kstuck. split; [exact kstuck_reachable|].
  destruct kstuck_shape as (H1 & H2 & H3 & H4 & H5 & _).
  repeat (split; [assumption|]). split; [exact kstuck_not_quiescent|exact kstuck_no_step].
Qed.
Print Assumptions C40_core_no_deadlock_refuted.

(* non-vacuity: the same schedule with the refusal goes on: request 1 is answered "terminated", api.Close() returns,
   the new API server is created and Core.run is back in its select *)
Example C40_core_example_refusal :
  match krun true kinit kunstuck_trace with
  | Some s => co s = CoIdle /\ hd s 0 = HdDone RsOk /\ hd s 1 = HdDone RsRefused /\ ac s = AcNone /\ api_up s = true
              /\ tr_open s = true
  | None => False
  end.
Proof. exact kunstuck. Qed.

(* non-vacuity: a file reload with a parked request, then shutdown; everything terminates *)
Example C40_core_example_shutdown :
  match krun true kinit [QSpawn KdEdit; QFileChanged; QCoConf true true; QCoCloseApi; QAcShutdown; QHBody 0 true;
                         QCoRefRecv 0; QCoRefAns; QHRet 0; QAcDone; QCoApiClosed; QCoRest true true; QSpawn KdRead;
                         QCancel; QCoCtx; QCoExit; QWtTerm; QCoWClosed; QCoCloseApi; QAcShutdown; QHRet 1; QAcDone;
                         QCoApiClosed; QCoRest true true] with
  | Some s => co s = CoDone /\ hd s 0 = HdDone RsRefused /\ hd s 1 = HdDone RsRead /\ wt s = WtDone /\ api_up s = false
  | None => False
  end.
Proof. vm_compute. repeat split. Qed.

(* ==== Stream level (Model/C40_StreamLock.v, module SL): the public operations of stream.Stream - AddReader,
   RemoveReader, SubStream.WriteUnit, the locked part of SubStream.Initialize (a sub-stream switch), WaitForReaders,
   OutboundBytes, RTSPStream/RTSPSStream, Close, and any other well-behaved user of Stream.mutex - as straight-line
   programs over the state the mutex guards, cut at every point where another goroutine can get in; the critical
   sections are delimited by the Lock / Unlock instructions of the program table `SL.prog SL.Code` exactly as stream.go
   delimits them; sync.RWMutex with its writer preference; hasReaders as a channel that panics when closed twice.
   ANY number of concurrent calls (SL.LSpawn is the environment), ALL interleavings of the instructions.
   `SL.reachable SL.Code` = stream.go; the other variants are edits of the program table.
   Panic states: close of a closed channel; an access to s.readers / sf.onDatas / s.subStream / s.rtspStream without
   the mutex in the required mode (for the maps: Go's fatal "concurrent map writes"); unlock of an unlocked mutex. ==== *)

(* no schedule of concurrent Stream operations reaches a panic state *)
Theorem C40_stream_no_panic : forall s, SL.reachable SL.Code s -> SL.panic s = None.
Proof. exact C40_StreamLock.no_panic. Qed.
Print Assumptions C40_stream_no_panic.

(* the mutex is a mutex: at most one goroutine in a write section, none in a read section next to it, and the
   goroutines inside a section (by their program position) are exactly those the mutex says *)
Theorem C40_stream_mutual_exclusion : forall s, SL.reachable SL.Code s ->
  (forall p q, SL.holds_w (SL.g s) p = true -> SL.holds_w (SL.g s) q = true -> p = q)
  /\ (forall p q, SL.holds_w (SL.g s) p = true -> SL.holds_r (SL.g s) q = true -> False)
  /\ (forall p pr, nth_error (SL.procs s) p = Some pr ->
        (C40_StreamLock.stage (SL.p_code pr) = C40_StreamLock.SW <-> SL.holds_w (SL.g s) p = true)
        /\ (C40_StreamLock.stage (SL.p_code pr) = C40_StreamLock.SR <-> SL.holds_r (SL.g s) p = true)).
Proof. exact C40_StreamLock.mutual_exclusion. Qed.
Print Assumptions C40_stream_mutual_exclusion.

(* the hasReaders C40_StreamLock.handshake: whenever no goroutine is inside AddReader / RemoveReader with the write lock (the mutex
   is free, or a reader / an observer has it), a registered reader means that hasReaders is closed: the registration
   and the check-then-close are ONE critical section.  This is what an observer that gets the mutex between two
   operations checks on the real Stream (Check.C40.zobs_bad) *)
Theorem C40_stream_handshake : forall s, SL.reachable SL.Code s -> SL.no_mutator s ->
  SL.readers (SL.g s) <> [] -> SL.has_closed (SL.g s) = true.
Proof. exact C40_StreamLock.handshake. Qed.
Print Assumptions C40_stream_handshake.

(* WaitForReaders: once an AddReader call has returned, hasReaders is closed *)
Theorem C40_stream_joined_means_closed : forall s p pr r, SL.reachable SL.Code s ->
  nth_error (SL.procs s) p = Some pr -> SL.p_op pr = SL.OpAdd r -> SL.p_code pr = [] -> SL.has_closed (SL.g s) = true.
Proof. exact C40_StreamLock.joined_means_closed. Qed.
Print Assumptions C40_stream_joined_means_closed.

(* every schedule of the calls in C40_StreamLock.progress is finite: exactly `SL.measure s` instructions are left *)
Theorem C40_stream_every_schedule_finite : forall s ls s', SL.reachable SL.Code s ->
  forallb SL.internal ls = true -> SL.run SL.Code s ls = Some s' -> length ls + SL.measure s' = SL.measure s.
Proof. intros s ls s' R. apply C40_StreamLock.internal_run_bounded. exact (C40_StreamLock.inv_reachable s R). Qed.
Print Assumptions C40_stream_every_schedule_finite.

(* every operation C40_StreamLock.completes, WHATEVER the scheduler does: from a reachable state some call can always move unless all
   have returned - the only goroutines that may be left are those in WaitForReaders on a stream that no AddReader was
   ever called on - and when no call can move any more that is the state we are in; such a schedule exists *)
Theorem C40_stream_every_operation_completes : forall s, SL.reachable SL.Code s ->
  ((exists p s', SL.step SL.Code s (SL.LStep p) = Some s') \/ SL.quiescent s)
  /\ (forall ls s', SL.run SL.Code s ls = Some s' ->
        (forall l, SL.internal l = true -> SL.step SL.Code s' l = None) -> SL.quiescent s')
  /\ (exists ls s', forallb SL.internal ls = true /\ SL.run SL.Code s ls = Some s' /\ SL.quiescent s'
                    /\ length ls <= SL.measure s).
Proof.
  intros s R. pose proof (C40_StreamLock.inv_reachable s R) as I. split; [exact (C40_StreamLock.progress s I)|]. split.
  - intros ls s' Hrun. apply C40_StreamLock.stuck_quiescent. eapply C40_StreamLock.inv_run; eassumption.
  - exact (C40_StreamLock.completes s I).
Qed.
Print Assumptions C40_stream_every_operation_completes.

(* the seeded edit (AddReader unlocks after the registration, the check-then-close of hasReaders follows): two first
   joiners close the channel twice; and already after ONE joiner's Unlock an observer holding the mutex sees a
   registered reader with hasReaders open - which C40_stream_handshake excludes for the code *)
Theorem C40_stream_unlock_before_check_refuted :
  (exists s, SL.reachable SL.UnlockBeforeCheck s /\ SL.panic s = Some SL.PDoubleClose)
  /\ (exists s, SL.reachable SL.UnlockBeforeCheck s /\ SL.no_mutator s /\ SL.panic s = None
                /\ SL.readers (SL.g s) = [1] /\ SL.has_closed (SL.g s) = false).
Proof. split; [exact C40_StreamCheck.ubc_double_close|exact C40_StreamCheck.ubc_exposed]. Qed.
Print Assumptions C40_stream_unlock_before_check_refuted.

(* neighbours: RemoveReader that unlocks before its deletes, AddReader under the read lock, WriteUnit without the
   read lock, and Close() reading the RTSP streams without the mutex - the code before fix b0c271a, a data race shown
   by `go test -race` on RTSPStream() next to Close(): each reaches an access to a guarded field without the mutex *)
Theorem C40_stream_lock_discipline_refuted :
  (exists s, SL.reachable SL.UnregAfterUnlock s /\ SL.panic s = Some SL.PRace)
  /\ (exists s, SL.reachable SL.AddUnderRLock s /\ SL.panic s = Some SL.PRace)
  /\ (exists s, SL.reachable SL.WriteNoLock s /\ SL.panic s = Some SL.PRace)
  /\ (exists s, SL.reachable SL.CloseNoLock s /\ SL.panic s = Some SL.PRace).
Proof.
  split; [exact C40_StreamCheck.unreg_race|split; [exact C40_StreamCheck.rlock_race|split;
    [exact C40_StreamCheck.nolock_race|exact C40_StreamCheck.close_race]]].
Qed.
Print Assumptions C40_stream_lock_discipline_refuted.

(* the enabledness test of the stream-level correspondence check is complete, and the code's model never predicts an
   observation that the check's spec_fail rejects *)
Theorem C40_stream_check_settled_sound : forall s fr l s',
  zsettled s fr = true -> SL.internal l = true -> SL.step SL.Code s l = Some s' ->
  exists p, l = SL.LStep p /\ existsb (Nat.eqb p) fr = true.
Proof. exact C40_StreamCheck.zsettled_sound. Qed.
Print Assumptions C40_stream_check_settled_sound.

Theorem C40_stream_obs_consistent : forall s o, SL.reachable SL.Code s -> SL.no_mutator s ->
  zshared_matches s o = true ->
  (match zo_readers o with [] => false | _ => true end && negb (zo_closed o)) = false
  /\ list_eqb Nat.eqb (zo_readers o) (zo_cbs o) = true
  /\ (2 <=? zo_rtsp o) = false.
Proof. exact C40_StreamCheck.zobs_consistent. Qed.
Print Assumptions C40_stream_obs_consistent.

(* non-vacuity: the schedule that crashes the edited table is not a schedule of the code; in the code the observer
   that gets the mutex after the first joiner sees hasReaders closed *)
Example C40_stream_example_code :
  SL.run SL.Code SL.init C40_StreamLock.double_close_trace = None
  /\ match SL.run SL.Code SL.init ([SL.LSpawn (SL.OpAdd 1); SL.LSpawn (SL.OpHold true)] ++ C40_StreamLock.steps 0 7 ++ C40_StreamLock.steps 1 2) with
     | Some s => SL.holds_w (SL.g s) 1 = true /\ SL.readers (SL.g s) = [1] /\ SL.has_closed (SL.g s) = true
     | None => False
     end.
Proof. split; [exact C40_StreamLock.same_trace_not_in_code|exact C40_StreamLock.code_not_exposed]. Qed.

(* non-vacuity: two first joiners, a goroutine in WaitForReaders, a writer and a remover, interleaved: all return *)
Example C40_stream_example_all_return :
  match SL.run SL.Code SL.init
          ([SL.LSpawn SL.OpWait; SL.LSpawn (SL.OpAdd 1); SL.LSpawn (SL.OpAdd 2); SL.LSpawn (SL.OpWrite 0)]
           ++ [SL.LStep 1; SL.LStep 2; SL.LStep 3; SL.LStep 1; SL.LStep 3; SL.LStep 3; SL.LStep 3]
           ++ C40_StreamLock.steps 1 5 ++ [SL.LStep 0] ++ C40_StreamLock.steps 2 6 ++ [SL.LSpawn (SL.OpRemove 1)] ++ C40_StreamLock.steps 4 5) with
  | Some s => SL.quiescent s /\ SL.readers (SL.g s) = [2] /\ SL.has_closed (SL.g s) = true /\ SL.measure s = 0
  | None => False
  end.
Proof.
  match goal with |- match ?r with _ => _ end => destruct r as [s|] eqn:E; vm_compute in E; [|discriminate] end.
  inversion E; subst s; clear E. split; [|repeat split].
  intros pr Hin. left. simpl in Hin. repeat (destruct Hin as [<-|Hin]; [reflexivity|]). contradiction.
Qed.

(* ==== HLS level (Model/C40_HlsLoop.v, module HL): who waits for whom between pathManager.run (idle / in a handler / in
   doSetPathReady-NotReady calling the HLS server), the path loops (idle / in pm.setPathReady-NotReady), hls.Server.run
   (idle / in createMuxer / at the muxers' mutexes for an API listing or kick / in path.RemoveReader for a kick) and
   the HLS muxers (mutex held across pathManager.AddReader and the path's answer; mutex held across session.close2 ->
   path.RemoveReader).  Any number of paths, muxers, callers; all interleavings.  `true` = hls.Server.PathReady /
   PathNotReady queue the event and return (fix 029c0b4); `false` = the pinned code (unbuffered send to
   hls.Server.run).  The first model (C40_Rendezvous) ASSUMED that these two calls return; this model is where that
   assumption is discharged for the repaired code and refuted for the pinned one. ==== *)

(* progress holds in EVERY state of the repaired code (no invariant needed): quiescent, or one of the loops can move;
   every schedule is finite; whatever the scheduler does, when nothing can move the state is quiescent; it is reached *)
Theorem C40_hls_every_operation_completes : forall s,
  (HL.quiescentb s = true \/ exists l s', HL.internal l = true /\ HL.step true s l = Some s')
  /\ ((forall l, HL.internal l = true -> HL.step true s l = None) -> HL.quiescentb s = true)
  /\ (exists ls s', forallb HL.internal ls = true /\ HL.run true s ls = Some s' /\ HL.quiescentb s' = true
                    /\ length ls <= HL.measure s).
Proof.
  intros s. split; [exact (C40_HlsLoop.progress s)|]. split; [exact (C40_HlsLoop.stuck_quiescent s)|].
  exact (C40_HlsLoop.completes s).
Qed.
Print Assumptions C40_hls_every_operation_completes.

Theorem C40_hls_every_schedule_finite : forall q ls s s',
  forallb HL.internal ls = true -> HL.run q s ls = Some s' -> length ls + HL.measure s' <= HL.measure s.
Proof. intros q ls s s'. apply C40_HlsLoop.internal_run_bounded. Qed.
Print Assumptions C40_hls_every_schedule_finite.

(* the pinned code: three reachable states in which no loop can move and that are not quiescent.
   A1 (reported from a hung run, reproduced 4 of 4 by the forced schedule of zz_verif_c40hls_test.go on the pinned
   code): pathManager.run in PathNotReady, hls.Server.run at the mutex of a muxer that is inside pathManager.AddReader.
   A2: the muxer holds its mutex inside path.RemoveReader of a path whose loop waits for pathManager.run.
   A3: no mutex: hls.Server.run serves a kick inside path.RemoveReader of such a path. *)
Theorem C40_hls_no_deadlock_refuted :
  (HL.reachable false C40_HlsLoop.stuck_a1 /\ HL.quiescentb C40_HlsLoop.stuck_a1 = false
   /\ forall l, HL.internal l = true -> HL.step false C40_HlsLoop.stuck_a1 l = None)
  /\ (HL.reachable false C40_HlsLoop.stuck_a2 /\ HL.quiescentb C40_HlsLoop.stuck_a2 = false
      /\ forall l, HL.internal l = true -> HL.step false C40_HlsLoop.stuck_a2 l = None)
  /\ (HL.reachable false C40_HlsLoop.stuck_a3 /\ HL.quiescentb C40_HlsLoop.stuck_a3 = false
      /\ forall l, HL.internal l = true -> HL.step false C40_HlsLoop.stuck_a3 l = None).
Proof.
  split; [|split].
  - split; [exact C40_HlsLoop.a1_reachable|split; [reflexivity|exact C40_HlsLoop.a1_no_step]].
  - split; [exact C40_HlsLoop.a2_reachable|split; [reflexivity|exact C40_HlsLoop.a2_no_step]].
  - split; [exact C40_HlsLoop.a3_reachable|split; [reflexivity|exact C40_HlsLoop.a3_no_step]].
Qed.
Print Assumptions C40_hls_no_deadlock_refuted.

Theorem C40_hls_check_settled_sound : forall s fr l s',
  hsettled s fr = true -> HL.internal l = true -> HL.step true s l = Some s' ->
  exists q, In q (hinvolves l) /\ existsb (hfroz_eqb q) fr = true.
Proof. exact C40_HlsCheck.hsettled_sound. Qed.
Print Assumptions C40_hls_check_settled_sound.

(* non-vacuity: the witness schedule of A1 with the queue: pathManager.run gets back to its select, the muxer is served,
   the listing is answered, everything is quiescent *)
Example C40_hls_example_queue :
  HL.run false HL.init C40_HlsLoop.trace_a1 = Some C40_HlsLoop.stuck_a1
  /\ match HL.run true HL.init C40_HlsLoop.trace_a1_queued with
     | Some s => HL.quiescentb s = true /\ HL.mxs s = [HL.MxUp 0]
     | None => False
     end.
Proof. split; [exact C40_HlsLoop.a1_run|exact C40_HlsLoop.a1_with_queue]. Qed.


(* ---- HLS muxer level (Model/C40_HlsMux.v, module HM): the muxer's own goroutine - initialize / runInner / run of
   internal/servers/hls/muxer.go, as one list of lock / touch instructions per event (AddReader error, first instance
   created or not, instance failure, re-creation, session clean-up, activity timer, context) and per muxer kind
   (client-requested / always remux) - with API readers, session writers and Server.Close() on the same
   sync.RWMutex.  Any number of users, any event history, all interleavings. ------------------------------------- *)
Require MTX.Model.C40_HlsMux MTX.Proofs.C40_HlsMux.
Module HM := MTX.Model.C40_HlsMux.HM.

(* every exit path of runInner releases the mutex (whatever the event and the muxer kind, the loaded code is
   well-typed from "nothing held" to "nothing held"), the discipline holds in every reachable state, and therefore
   every reachable state is quiescent - every call has returned; the muxer is gone, or waits in its select and
   nobody has cancelled its context; after Server.Close() it IS gone - or some goroutine can move *)
Theorem C40_mux_every_operation_completes : forall s,
  HM.reachable HM.Code s ->
  HM.inv s = true
  /\ (HM.quiescentb s = true \/ exists l s', HM.internal l = true /\ HM.step HM.Code s l = Some s')
  /\ (HM.quiescentb s = true -> HM.cancelled s = true -> HM.gone s = true)
  /\ (HM.quiescentb s = true -> forall c, In c (HM.cls s) -> HM.c_code c = []).
Proof.
  intros s Hr; pose proof (C40_HlsMux.mux_inv_reachable s Hr) as Hi; split; auto; split; [|split].
  - destruct (HM.stuckb HM.Code s) eqn:E.
    + left; apply C40_HlsMux.mux_progress; auto.
    + right; apply C40_HlsMux.not_stuck_step; auto.
  - apply C40_HlsMux.quiescent_closed_gone.
  - intros Hq c Hin; unfold HM.quiescentb in Hq; apply andb_true_iff in Hq; destruct Hq as [Hq _].
    rewrite forallb_forall in Hq; specialize (Hq c Hin); destruct (HM.c_code c); auto; discriminate.
Qed.
Print Assumptions C40_mux_every_operation_completes.

Theorem C40_mux_exit_paths_release : forall k e,
  HM.wfc HM.MN (if HM.is_init e then HM.ILock :: fst (HM.load HM.Code k e) else fst (HM.load HM.Code k e)) = true.
Proof. exact C40_HlsMux.load_wf. Qed.
Print Assumptions C40_mux_exit_paths_release.

(* every internal step costs one unit of the measure, in every state of every variant: no schedule is infinite *)
Theorem C40_mux_every_schedule_finite : forall v s l s',
  HM.internal l = true -> HM.step v s l = Some s' -> HM.measure s' < HM.measure s.
Proof. exact C40_HlsMux.mux_measure_decreases. Qed.
Print Assumptions C40_mux_every_schedule_finite.

(* refuted: a variant in which ONE exit path leaves with the mutex held (instance failure of a client-requested muxer:
   the two critical sections merged with the early return inside; AddReader error; creation error; session
   clean-up) reaches a state where nothing can move, the mutex is held, the muxer is not gone, an API request and
   Server.Close() wait for ever; the same schedules on the pinned code do not *)
Theorem C40_mux_leaked_lock_refuted :
  C40_HlsMux.stuck_not_quiescent HM.LeakCrash C40_HlsMux.sched_crash = true
  /\ C40_HlsMux.stuck_not_quiescent HM.LeakAddErr C40_HlsMux.sched_adderr = true
  /\ C40_HlsMux.stuck_not_quiescent HM.LeakCreateErr C40_HlsMux.sched_createerr = true
  /\ C40_HlsMux.stuck_not_quiescent HM.LeakCleanup C40_HlsMux.sched_cleanup = true
  /\ C40_HlsMux.stuck_not_quiescent HM.Code C40_HlsMux.sched_crash = false
  /\ C40_HlsMux.stuck_not_quiescent HM.Code C40_HlsMux.sched_adderr = false
  /\ C40_HlsMux.stuck_not_quiescent HM.Code C40_HlsMux.sched_createerr = false
  /\ C40_HlsMux.stuck_not_quiescent HM.Code C40_HlsMux.sched_cleanup = false.
Proof. exact C40_HlsMux.mux_leaks_refuted. Qed.
Print Assumptions C40_mux_leaked_lock_refuted.
