(* C40 — Concurrent operation is race-free and deadlock-free.   LEVEL: PARTIAL.

   NOT decided here: data-race freedom.  It is a statement about the Go memory model; no executable Gallina model
   can exhibit a data race, so nothing below says anything about it (the check runs a `go test -race` soak in the
   thorough tier; that is testing, not proof).

   Decided here, for the model Model/C40_Rendezvous.v of the synchronous-channel protocol between the path manager
   loop (pathManager.run and its do* handlers, doClosePath = pa.close(); pa.wait()), the path loops (path.run /
   runInner, every handler as an arbitrary well-formed script of blocking operations, the termination sequence), the
   callers (AddReader / AddPublisher / Describe / APIPathsGet: send to pm, wait, send to the path, wait;
   ReloadPathConfs) and shutdown (pathManager.close): ANY number of paths and callers, ALL interleavings of the atomic
   steps (a step = one rendezvous or one ctx.Done() branch).  `reachable true` = the protocol as it is in the code,
   `reachable false` = without the `<-pa.ctx.Done()` branches of setPathReady / setPathNotReady / removePath /
   closePathIfIdle.

   internal l = false  only for the environment's moves: a new call arrives (LSpawn), a timer of a path fires (LTimer),
   pathManager.close() is called (LCancel).

   quiescent s  = the path manager is in its main select with pm.ctx alive (or has terminated); every path is in its
   main select with its ctx alive (or has terminated); every caller has returned or is a request on hold of such a path
   (describeRequestsOnHold / readerAddRequestsOnHold: waiting for an on-demand source, answered by a later request, a
   timer or the path's termination); pathManager.close() is not in progress. *)
From Coq Require Import List Arith Bool.
Require Import MTX.Model.C40_Rendezvous MTX.Proofs.C40_Rendezvous MTX.Proofs.C40_Refuted MTX.Check.C40 MTX.Proofs.C40_Check.
Import ListNotations.

(* progress: in every reachable state either nobody is inside an operation (quiescent), or some step other than an
   environment move is enabled; and from every reachable state shutdown runs to the all-terminated state *)
Theorem C40_no_deadlock : forall s, reachable true s ->
  (quiescent s \/ exists l s', internal l = true /\ step true s l = Some s')
  /\ (exists ls s', forallb internal ls = true /\ run true s (shutdown_labels s ++ ls) = Some s' /\ all_terminated s').
Proof. exact no_deadlock. Qed.
Print Assumptions C40_no_deadlock.

(* every schedule of internal steps is finite (at most `measure s` steps): no livelock among the modelled processes *)
Theorem C40_every_schedule_finite : forall s ls s', reachable true s ->
  forallb internal ls = true -> run true s ls = Some s' -> length ls + measure s' <= measure s.
Proof. intros s ls s' HR. apply internal_run_bounded. exact (inv_reachable true s HR). Qed.
Print Assumptions C40_every_schedule_finite.

(* without new arrivals the system settles: some schedule of at most `measure s` internal steps reaches quiescence *)
Theorem C40_quiesces : forall s, reachable true s ->
  exists ls s', forallb internal ls = true /\ run true s ls = Some s' /\ quiescent s' /\ length ls <= measure s.
Proof. intros s HR. apply quiesces. exact (inv_reachable true s HR). Qed.
Print Assumptions C40_quiesces.

(* once pm.ctx is cancelled, WHATEVER the scheduler does: when no internal step is left, the path manager loop and
   every path have terminated, every started call has returned and pathManager.close() has returned *)
Theorem C40_shutdown_any_schedule : forall s ls s', reachable true s -> pm_ctx s = true ->
  run true s ls = Some s' -> (forall l, internal l = true -> step true s' l = None) -> all_terminated s'.
Proof. intros s ls s' HR. apply shutdown_any_schedule. exact (inv_reachable true s HR). Qed.
Print Assumptions C40_shutdown_any_schedule.

(* a call that has started returns (shutdown_labels s = [LCancel] if close() was not called yet, else []) *)
Theorem C40_every_call_returns : forall s c, reachable true s -> c < nc s ->
  exists ls s' r, forallb internal ls = true /\ run true s (shutdown_labels s ++ ls) = Some s' /\ callers s' c = CDone r.
Proof. intros s c HR. apply every_call_returns. exact (inv_reachable true s HR). Qed.
Print Assumptions C40_every_call_returns.

(* a call only ends with "terminated" if pm.ctx was cancelled or (second select / request on hold) the path manager
   had called pa.close() on that path; pctx of an existing path is changed by doClosePath only *)
Theorem C40_terminated_needs_ctx : forall s c, reachable true s ->
  match callers s c with
  | CDone DPmTerm => pm_ctx s = true
  | CDone (DPaTerm p) | CDone (DPaTermAns p) => pm_ctx s = true \/ pctx (paths s p) = true
  | _ => True
  end.
Proof. intros s c HR. apply terminated_needs_ctx. exact (inv_reachable true s HR). Qed.
Print Assumptions C40_terminated_needs_ctx.

Theorem C40_pctx_only_by_close : forall esc s l s' p,
  step esc s l = Some s' -> l <> LPmCloseHd -> p < np s -> pctx (paths s' p) = pctx (paths s p).
Proof. exact pctx_frame. Qed.
Print Assumptions C40_pctx_only_by_close.

(* the correspondence check's test "the model claims that nothing can move here except processes held in a driver
   hook" (Check.C40.settled, a finite list of candidate labels) is complete: if it accepts a reachable state, every
   enabled internal step involves a frozen process; with nothing frozen, no internal step is enabled at all *)
Theorem C40_check_settled_sound : forall s fr l s', reachable true s ->
  settled s fr = true -> internal l = true -> step true s l = Some s' ->
  exists q, In q (involves s l) /\ existsb (proc_eqb q) fr = true.
Proof. intros s fr l s' HR. apply settled_sound. exact (inv_reachable true s HR). Qed.
Print Assumptions C40_check_settled_sound.

(* the escape branches are what the proof uses: without them this state is reachable — the path manager is in
   pa.wait() for path 0, path 0 is blocked in setPathReady sending to the path manager, the publisher waits for the
   path's answer — and no step but an environment move is enabled *)
Theorem C40_no_deadlock_refuted : exists s,
  reachable false s
  /\ pm s = PmWait 0 [] /\ ppc (paths s 0) = PaRun /\ script (paths s 0) = [APm KReady; AAns 0]
  /\ pctx (paths s 0) = true /\ pm_ctx s = false /\ callers s 0 = CWaitPa 0
  /\ ~ quiescent s
  /\ forall l, internal l = true -> step false s l = None.
Proof.
  exists stuck. split; [exact stuck_reachable|].
  destruct stuck_shape as [H1 [H2 [H3 [H4 [H5 H6]]]]].
  repeat (split; [assumption|]). split; [exact stuck_not_quiescent|exact stuck_no_step].
Qed.
Print Assumptions C40_no_deadlock_refuted.

(* non-vacuity: the same schedule with the escape branches winds down (path 0 dead, publisher answered, pm idle) *)
Example C40_example_escape :
  run true init escape_trace = Some wound_down
  /\ pm wound_down = PmIdle /\ ppc (paths wound_down 0) = PaDead /\ callers wound_down 0 = CDone DPaAns.
Proof. exact same_schedule_with_escape. Qed.

(* non-vacuity: a reachable quiescent state with a request on hold, and shutdown from it *)
Example C40_example_hold :
  match run true init [LSpawn KCall; LPmRecv 0; LPmHandled (HNew []); LPmAns; LPaRecv 0 []] with
  | Some s => callers s 0 = CWaitPa 0 /\ held (paths s 0) = [0] /\ pm s = PmIdle
              /\ match run true s [LCancel; LPmStop; LPaCtx 0; LPaTRemEsc 0; LPaTAns 0; LPaTFin 0 false; LClDone] with
                 | Some s' => callers s' 0 = CDone (DPaTermAns 0) /\ closer s' = ClDone /\ ppc (paths s' 0) = PaDead
                 | None => False
                 end
  | None => False
  end.
Proof. vm_compute. repeat split. Qed.
