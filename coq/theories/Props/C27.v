(* C27 — Recordings are playable up to the last complete part at any crash point.
   Only statements here; every proof is `exact <lemma of Proofs/C27_Fmp4Rec.v>`.
   Model: Model/C27_Fmp4Rec.v. A segment file is  init ++ part_1 ++ ... ++ part_n  (init = ftyp box ++ moov box, part =
   moof box ++ mdat box, one Write call each); a crash image is  init ++ (first j bytes of the part region) ++ z zero
   bytes. The reader is `moof_loop` of Model/C28_SegRead.v, the model of the moof/mdat walk of
   segmentFMP4ReadDurationFromParts that the C28 correspondence run ties to the code. The moov payload is
   universally quantified: every theorem holds in every state (absent, complete, torn) of the duration rewrite. *)
From Coq Require Import List ZArith Bool.
Require Import MTX.Lib.IntWrap MTX.Model.C24_MulDiv MTX.Model.C28_SegRead MTX.Proofs.C28_SegRead
  MTX.Model.C27_Fmp4Rec MTX.Proofs.C27_Fmp4Rec.
Import ListNotations.
Local Open Scope Z_scope.

(* the appending writes of the log add up to init ++ parts: the duration rewrite does not change the length *)
Theorem C27_write_log : forall ftyp_pl moov_pl ps off dur,
  appended (write_log ftyp_pl moov_pl ps off dur) = init_bytes ftyp_pl moov_pl ++ parts_bytes ps.
Proof. exact appended_log. Qed.
Print Assumptions C27_write_log.

(* every prefix of the part region = the complete parts ++ at most one incomplete tail, a proper prefix of the next part *)
Theorem C27_layout : forall ps j, 0 <= j <= len (parts_bytes ps) ->
  exists tail, firstn (Z.to_nat j) (parts_bytes ps) = parts_bytes (firstn (complete ps j) ps) ++ tail /\
    (tail = [] \/ exists p, nth_error ps (complete ps j) = Some p /\
                            tail = firstn (length tail) (part_bytes p) /\ len tail < part_len p).
Proof. exact layout_all. Qed.
Print Assumptions C27_layout.

(* the reader finds both boxes of the header whatever the moov payload holds ... *)
Theorem C27_header_found : forall ftyp_pl moov_pl rest,
  8 + len ftyp_pl < 4294967296 -> 8 + len moov_pl < 4294967296 ->
  hdr_at (init_bytes ftyp_pl moov_pl ++ rest) 0 t_ftyp = Ok (Some (8 + len ftyp_pl)) /\
  hdr_at (init_bytes ftyp_pl moov_pl ++ rest) (8 + len ftyp_pl) t_moov = Ok (Some (8 + len moov_pl)).
Proof. exact init_headers. Qed.
Print Assumptions C27_header_found.

(* ... and its walk over ANY crash image (any cut j, even negative or past the end, any number of zero bytes) ends, with
   the fuel of the reader model, on `expect_last`: the offset of the last part whose moof box and mdat header are on disk *)
Theorem C27_recover : forall ftyp_pl moov_pl ps j z,
  Forall wf_part ps -> wf_bytes (crash_image ftyp_pl moov_pl ps j z) = true ->
  moof_loop (crash_image ftyp_pl moov_pl ps j z) (fuel_of_file (crash_image ftyp_pl moov_pl ps j z))
    (len (init_bytes ftyp_pl moov_pl)) (-1)
  = Ok (expect_last ps (len (init_bytes ftyp_pl moov_pl)) j (-1)).
Proof. exact recover_reader. Qed.
Print Assumptions C27_recover.

(* what is found is the last complete part or the part right after it (whose payload may be incomplete: the walk does
   not check the mdat payload length); with no complete part: nothing (-1) or the first part. Complete parts are never
   skipped. So the media lost is bounded by the last part. *)
Theorem C27_loss_bound : forall ps off j last,
  let c := complete ps j in
  ((c = O /\ (expect_last ps off j last = last \/ expect_last ps off j last = off)) \/
   (c <> O /\ (expect_last ps off j last = offset_of ps off (c - 1) \/ expect_last ps off j last = offset_of ps off c))) /\
  (c <> O -> offset_of ps off (c - 1) <= expect_last ps off j last).
Proof. exact loss_bound_all. Qed.
Print Assumptions C27_loss_bound.

(* a segment closed normally: the duration written by writeDuration and read back by segmentFMP4ReadHeader is
   endDTS - startDTS truncated to a millisecond (mvhd timescale 1000, durations below 2^32 ms = 49 days) *)
Theorem C27_closed_duration : forall d, 0 <= d < 4294967296 * 1000000 ->
  duration_read (duration_field d) = d / 1000000 * 1000000 /\
  d - 1000000 < duration_read (duration_field d) <= d.
Proof. exact closed_duration_all. Qed.
Print Assumptions C27_closed_duration.

(* consecutive segments of one stream (same stream id, numbers n and n+1) are recognised as continuous *)
Theorem C27_continuity : forall sid n legacy, 0 <= n -> n + 1 < 18446744073709551616 ->
  can_concat legacy (Some (sid, n)) (Some (sid, n + 1)) = true.
Proof. exact continuity_all. Qed.
Print Assumptions C27_continuity.

Example C27_walk_example :
  moof_loop (crash_image [1; 2; 3; 4] [5; 6; 7; 8] [ex_part 8 12; ex_part 8 16; ex_part 12 16] 85 5) 10 24 (-1) = Ok 60 /\
  complete [ex_part 8 12; ex_part 8 16; ex_part 12 16] 85 = 2%nat /\
  moof_loop (crash_image [1; 2; 3; 4] [5; 6; 7; 8] [ex_part 8 12; ex_part 8 16; ex_part 12 16] 104 0) 10 24 (-1) = Ok 100.
Proof. exact example_walk. Qed.
