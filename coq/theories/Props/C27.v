(* C27 — Recordings are playable up to the last complete part at any crash point.
   Only statements here; every proof is `exact <lemma of Proofs/C27_Fmp4Rec.v>`.
   Model: Model/C27_Fmp4Rec.v. A segment file is  init ++ part_1 ++ ... ++ part_n  (init = ftyp box ++ moov box, part =
   moof box ++ mdat box, one Write call each); a crash image is  init ++ (first j bytes of the part region) ++ z zero
   bytes. The reader is `moof_loop` of Model/C28_SegRead.v, the model of the moof/mdat walk of
   segmentFMP4ReadDurationFromParts that the C28 correspondence run ties to the code. The moov payload is
   universally quantified: every theorem about the walk holds in every state (absent, complete, torn) of the duration
   rewrite; what /list does with the header duration is the subject of the second block (C27_list_any_write_crash). *)
From Coq Require Import List ZArith Bool.
Require Import MTX.Lib.IntWrap MTX.Model.C24_MulDiv MTX.Model.C28_SegRead MTX.Proofs.C28_SegRead
  MTX.Model.C27_Fmp4Rec MTX.Proofs.C27_Fmp4Rec MTX.Model.C27_Segmenter MTX.Proofs.C27_Segmenter MTX.Proofs.C27_SegLink
  MTX.Proofs.C27_SegDur MTX.Model.C27_Rewrite MTX.Proofs.C27_Rewrite.
Import ListNotations.
Local Open Scope Z_scope.

(* the appending writes of the log add up to init ++ parts: the duration rewrite does not change the length *)
Theorem C27_write_log : forall ftyp_pl moov_pl ps off dur,
  appended (write_log ftyp_pl moov_pl ps off dur) = init_bytes ftyp_pl moov_pl ++ parts_bytes ps.
Proof. exact appended_log. Qed.
Print Assumptions C27_write_log.

(* every prefix of the part region = the complete parts ++ at most one incomplete tail, a proper prefix of the next part *)
Theorem C27_layout : forall ps j, 0 <= j <= len (parts_bytes ps) ->
  exists tail, firstn (Z.to_nat j) (parts_bytes ps) = parts_bytes (firstn (complete ps j) ps) ++ tail /\
    (tail = [] \/ exists p, nth_error ps (complete ps j) = Some p /\
                            tail = firstn (length tail) (part_bytes p) /\ len tail < part_len p).
Proof. exact layout_all. Qed.
Print Assumptions C27_layout.

(* the reader finds both boxes of the header whatever the moov payload holds ... *)
Theorem C27_header_found : forall ftyp_pl moov_pl rest,
  8 + len ftyp_pl < 4294967296 -> 8 + len moov_pl < 4294967296 ->
  hdr_at (init_bytes ftyp_pl moov_pl ++ rest) 0 t_ftyp = Ok (Some (8 + len ftyp_pl)) /\
  hdr_at (init_bytes ftyp_pl moov_pl ++ rest) (8 + len ftyp_pl) t_moov = Ok (Some (8 + len moov_pl)).
Proof. exact init_headers. Qed.
Print Assumptions C27_header_found.

(* ... and its walk over ANY crash image (any cut j, even negative or past the end, any number of zero bytes) ends, with
   the fuel of the reader model, on `expect_last`: the offset of the last part whose moof box and mdat header are on disk *)
Theorem C27_recover : forall ftyp_pl moov_pl ps j z,
  Forall wf_part ps -> wf_bytes (crash_image ftyp_pl moov_pl ps j z) = true ->
  moof_loop (crash_image ftyp_pl moov_pl ps j z) (fuel_of_file (crash_image ftyp_pl moov_pl ps j z))
    (len (init_bytes ftyp_pl moov_pl)) (-1)
  = Ok (expect_last ps (len (init_bytes ftyp_pl moov_pl)) j (-1)).
Proof. exact recover_reader. Qed.
Print Assumptions C27_recover.

(* what is found is the last complete part or the part right after it (whose payload may be incomplete: the walk does
   not check the mdat payload length); with no complete part: nothing (-1) or the first part. Complete parts are never
   skipped. So the media lost is bounded by the last part. *)
Theorem C27_loss_bound : forall ps off j last,
  let c := complete ps j in
  ((c = O /\ (expect_last ps off j last = last \/ expect_last ps off j last = off)) \/
   (c <> O /\ (expect_last ps off j last = offset_of ps off (c - 1) \/ expect_last ps off j last = offset_of ps off c))) /\
  (c <> O -> offset_of ps off (c - 1) <= expect_last ps off j last).
Proof. exact loss_bound_all. Qed.
Print Assumptions C27_loss_bound.

(* a segment closed normally: the duration written by writeDuration and read back by segmentFMP4ReadHeader is
   endDTS - startDTS truncated to a millisecond (mvhd timescale 1000, durations below 2^32 ms = 49 days) *)
Theorem C27_closed_duration : forall d, 0 <= d < 4294967296 * 1000000 ->
  duration_read (duration_field d) = d / 1000000 * 1000000 /\
  d - 1000000 < duration_read (duration_field d) <= d.
Proof. exact closed_duration_all. Qed.
Print Assumptions C27_closed_duration.

(* consecutive segments of one stream (same stream id, numbers n and n+1) are recognised as continuous *)
Theorem C27_continuity : forall sid n legacy, 0 <= n -> n + 1 < 18446744073709551616 ->
  can_concat legacy (Some (sid, n)) (Some (sid, n + 1)) = true.
Proof. exact continuity_all. Qed.
Print Assumptions C27_continuity.

(* ================================================================================================================
   The duration rewrite at close, at the granularity of Write calls (Model/C27_Rewrite.v). `close_log` = the log of the
   repaired code (fix in /repo: the mvhd payload is marshalled into a buffer and written with ONE Write call):
   Write(init with DurationV0 = 0), one Write per part, one rewrite of the mvhd payload. `crash_state l k t z` = k calls
   complete; the call in progress, if it appends, has t bytes on disk followed by z zero bytes; a rewrite call in
   progress has not happened (what one write(2) leaves behind when the machine stops inside it is the file system's
   business: listed assumption). `list_source` = parseSegment of /list: a header duration of 0 -> the parts are
   scanned (moof_loop), otherwise the header is trusted. *)

(* every crash point after the header write is a crash image of the model above with the header of writeInit
   (duration 0), or the closed file *)
Theorem C27_write_crash_states : forall ft hd a b rest ps d k t z, len hd = 8 -> (1 <= k)%nat ->
  (exists j z', crash_state (close_log ft hd a b rest ps d) k t z = crash_image ft (moov_with hd a 0 b rest) ps j z')
  \/ ((length ps + 2 <= k)%nat /\ crash_state (close_log ft hd a b rest ps d) k t z = final_file ft hd a b rest ps d).
Proof. exact crash_state_repaired. Qed.
Print Assumptions C27_write_crash_states.

(* FULL STATEMENT for /list: at EVERY crash point (any number k >= 1 of complete calls, any tear t of an appending call,
   any zero fill z) /list either scans the parts of a crash image and finds `expect_last` (the last complete part or the
   one right after it: C27_loss_bound), or the segment is closed and the header carries the true duration truncated to a
   millisecond (a closed segment shorter than 1 ms is scanned as well). There is no state in which a wrong non-zero
   header duration hides complete parts. *)
Theorem C27_list_any_write_crash : forall ft hd a b rest ps d k t z,
  len hd = 8 -> Forall wf_part ps -> 0 <= d < 4294967296 * 1000000 -> (1 <= k)%nat ->
  let s := crash_state (close_log ft hd a b rest ps d) k t z in
  let il := len (init_bytes ft (moov_with hd a 0 b rest)) in
  wf_bytes s = true ->
  (exists j z', s = crash_image ft (moov_with hd a 0 b rest) ps j z' /\
                list_source s (rewrite_off ft + len a) il = FromParts (Ok (expect_last ps il j (-1))))
  \/ ((length ps + 2 <= k)%nat /\ s = final_file ft hd a b rest ps d /\
      list_source s (rewrite_off ft + len a) il =
        if d <? 1000000 then FromParts (Ok (expect_last ps il (len (parts_bytes ps)) (-1)))
        else FromHeader (d / 1000000 * 1000000)).
Proof. exact list_any_write_crash. Qed.
Print Assumptions C27_list_any_write_crash.

(* The PINNED code (before the fix) wrote the mvhd payload with one Write call per byte (`close_log_pinned`; observed by
   strace: 100 one-byte write(2) calls). After the appends and k of these calls the file is the complete file with the
   first k bytes of the payload new and the others old ... *)
Theorem C27_pinned_rewrite_prefix : forall ft hd a b rest ps d (k : nat), len hd = 8 ->
  file_after (firstn (S (length ps) + k) (close_log_pinned ft hd a b rest ps d))
  = overwrite (init_bytes ft (moov_with hd a 0 b rest) ++ parts_bytes ps) (rewrite_off ft)
              (firstn k (mvhd_pl a (duration_field d) b) ++ skipn k (mvhd_pl a 0 b)).
Proof. exact pinned_state. Qed.
Print Assumptions C27_pinned_rewrite_prefix.

(* ... so with i of the 4 bytes of DurationV0 written the header holds the first i bytes of the final value followed by
   zero bytes: for i = 1, 2, 3 a value that is in general neither 0 nor final *)
Theorem C27_pinned_torn_field : forall ft hd a b rest ps d (i : nat), len hd = 8 -> (i <= 4)%nat ->
  field_at (file_after (firstn (S (length ps) + (length a + i)) (close_log_pinned ft hd a b rest ps d)))
           (rewrite_off ft + len a)
  = torn_field 0 (duration_field d) i.
Proof. exact pinned_torn_field. Qed.
Print Assumptions C27_pinned_torn_field.

(* REFUTED for the pinned log: under the hypotheses of C27_list_any_write_crash there is a crash point between two Write
   calls (a 1000 ms segment, 00 00 03 E8, stopped after the third byte: 00 00 03 00 = 768 ms) at which every part is on
   disk, complete, and /list trusts a non-zero header duration below the true one: the complete parts behind it are not
   reported. Replayed on the real code by the driver family CTorn (see design_notes/C27.md). *)
Theorem C27_list_any_write_crash_pinned_refuted :
  exists ft hd a b rest ps d k,
    let s := crash_state (close_log_pinned ft hd a b rest ps d) k 0 0 in
    let il := len (init_bytes ft (moov_with hd a 0 b rest)) in
    len hd = 8 /\ Forall wf_part ps /\ 0 <= d < 4294967296 * 1000000 /\ (1 <= k)%nat /\ wf_bytes s = true /\
    skipn (Z.to_nat il) s = parts_bytes ps /\
    exists v, list_source s (rewrite_off ft + len a) il = FromHeader v /\ 0 < v < d / 1000000 * 1000000.
Proof. exact torn_refuted_ex. Qed.
Print Assumptions C27_list_any_write_crash_pinned_refuted.

(* non-vacuity of C27_list_any_write_crash: the same segment with the repaired log, stopped before the rewrite (parts
   scanned, last part found) and after it (header 1000 ms) *)
Example C27_rewrite_example :
  list_source (crash_state (close_log ex_ft ex_hd ex_a ex_b ex_rest ex_ps ex_d) 3 0 0) (rewrite_off ex_ft + len ex_a) 136
  = FromParts (Ok 172) /\
  list_source (crash_state (close_log ex_ft ex_hd ex_a ex_b ex_rest ex_ps ex_d) 4 0 0) (rewrite_off ex_ft + len ex_a) 136
  = FromHeader 1000000000.
Proof. exact example_rewrite. Qed.

Example C27_walk_example :
  moof_loop (crash_image [1; 2; 3; 4] [5; 6; 7; 8] [ex_part 8 12; ex_part 8 16; ex_part 12 16] 85 5) 10 24 (-1) = Ok 60 /\
  complete [ex_part 8 12; ex_part 8 16; ex_part 12 16] 85 = 2%nat /\
  moof_loop (crash_image [1; 2; 3; 4] [5; 6; 7; 8] [ex_part 8 12; ex_part 8 16; ex_part 12 16] 104 0) 10 24 (-1) = Ok 100.
Proof. exact example_walk. Qed.


(* ================================================================================================================
   The segmenter (Model/C27_Segmenter.v): formatFMP4Track.write / formatFMP4Segment / formatFMP4Part as a state
   machine over samples (track, dts, ntp, non-sync, size); `run c evs` = first-key-frame gate, then one
   formatFMP4Track.write per sample until the first error, then formatFMP4.close. Its log: SCreate n (create file n +
   Write(init)), SPart n p (one Write), SClose n d (duration rewrite + Close). All theorems: for EVERY configuration
   and EVERY sample sequence. *)

(* the log is  create 0, parts of 0, close 0, create 1, ...: it is the concatenation of the logs of its files
   (create; parts; close), and after formatFMP4.close every file is closed *)
Theorem C27_segmenter_log : forall c evs,
  let L := x_log (run c evs) in
  log_ok None 0 L = true /\ log_open None L = None /\ concat (map ops_of_file (files_of L)) = L /\
  (forall f, In f (files_of L) -> f.(f_closed) <> None).
Proof. exact segmenter_log. Qed.
Print Assumptions C27_segmenter_log.

(* the i-th file carries segment number i: consecutive files of a recording have numbers n, n+1 (with the same
   stream id: what C27_continuity needs) *)
Theorem C27_segment_numbers_consecutive : forall c evs i f,
  nth_error (files_of (x_log (run c evs))) i = Some f -> f.(f_num) = Z.of_nat i.
Proof. exact numbers_consecutive. Qed.
Print Assumptions C27_segment_numbers_consecutive.

(* the samples of the parts of all files, concatenated, are exactly the samples for which formatFMP4Segment.write
   returned nil (x_acc), in order - hence in order per track as well *)
Theorem C27_no_sample_lost : forall c evs, log_samples (x_log (run c evs)) = x_acc (run c evs).
Proof. exact no_sample_lost. Qed.
Print Assumptions C27_no_sample_lost.

(* the bounds the code enforces on a part, exactly: payload sizes add up to at most maxPartSize; without its last
   sample the part is shorter than partDuration (duration() = max end, initially 0, minus the first dts), unless it has
   a single sample; a part followed by another part of the same file has reached partDuration *)
Theorem C27_parts_bounded : forall c evs, 0 <= c_max_part c ->
  parts_bounded c None (x_log (run c evs)) = true /\
  (forall k p, In (SPart k p) (x_log (run c evs)) -> part_ok c (o_smps p) = true) /\
  (forall l1 k p k' q l2, x_log (run c evs) = l1 ++ SPart k p :: SPart k' q :: l2 -> c_part_dur c <= span (o_smps p)).
Proof. exact parts_bounded_thm. Qed.
Print Assumptions C27_parts_bounded.

(* with one video track, the first video sample of every file is a sync sample (gate + switch condition +
   discard-until-sync after a late video sample, fix 2f5314e) *)
Theorem C27_starts_on_sync : forall c v evs, video_tracks c = [v] ->
  forall f, In f (files_of (x_log (run c evs))) -> first_video_sync (file_samples f) = true.
Proof. exact starts_on_sync. Qed.
Print Assumptions C27_starts_on_sync.

(* ... which cannot hold with two video tracks: the switch follows the key frames of one of them *)
Theorem C27_starts_on_sync_two_video_refuted :
  exists c evs f, length (video_tracks c) = 2%nat /\ In f (files_of (x_log (run c evs))) /\
                  first_video_sync (file_samples f) = false.
Proof. exact two_video_refuted. Qed.
Print Assumptions C27_starts_on_sync_two_video_refuted.

(* the log only grows: when the process stops after any number k of samples, the calls made so far are a prefix of the
   final log (the last one possibly torn: the crash model above) *)
Theorem C27_log_prefix : forall c evs k,
  exists l', x_log (run c evs) = x_log (run_from c (init_st c) (firstn k (gate c evs))) ++ l'.
Proof. exact log_prefix. Qed.
Print Assumptions C27_log_prefix.

(* read as calls on its file (encoders of mediacommon / go-mp4 = arbitrary functions), the log of a file IS the
   write log of C27_write_log ... *)
Theorem C27_segmenter_write_log : forall enc_ftyp enc_moov enc_part dur_off enc_dur f d, f.(f_closed) = Some d ->
  flat_map (wops_of enc_ftyp enc_moov enc_part dur_off enc_dur f) (ops_of_file f) =
  write_log (enc_ftyp f.(f_num) f.(f_sdts) f.(f_sntp)) (enc_moov f.(f_num) f.(f_sdts) f.(f_sntp))
            (map enc_part f.(f_parts)) (dur_off f.(f_num) f.(f_sdts) f.(f_sntp)) (enc_dur d).
Proof. exact link_write_log. Qed.
Print Assumptions C27_segmenter_write_log.

(* ... so for every file of every run, cut anywhere and zero-filled, the reader's walk ends on expect_last *)
Theorem C27_segmenter_recover : forall enc_ftyp enc_moov enc_part dur_off enc_dur c evs f j z,
  In f (files_of (x_log (run c evs))) -> (forall p, wf_part (enc_part p)) ->
  let ft := enc_ftyp f.(f_num) f.(f_sdts) f.(f_sntp) in
  let mv := enc_moov f.(f_num) f.(f_sdts) f.(f_sntp) in
  let ps := map enc_part f.(f_parts) in
  wf_bytes (crash_image ft mv ps j z) = true ->
  appended (flat_map (wops_of enc_ftyp enc_moov enc_part dur_off enc_dur f) (ops_of_file f))
  = init_bytes ft mv ++ parts_bytes ps /\
  f.(f_closed) <> None /\
  moof_loop (crash_image ft mv ps j z) (fuel_of_file (crash_image ft mv ps j z)) (len (init_bytes ft mv)) (-1)
  = Ok (expect_last ps (len (init_bytes ft mv)) j (-1)).
Proof. exact link_recover. Qed.
Print Assumptions C27_segmenter_recover.

(* ---- the duration a segment records at close, with any number of tracks interleaved in any order (b5-c27) ----
   The true duration of a file is (the end of the sample that ends LAST) - (segment start): `media_end` is the
   maximum over every sample of the file's parts, whatever the order in which the tracks handed them in - with audio
   ahead of video, or a sparse track with long samples, the sample written last before the close ends earlier than
   one written before it. SClose n d = writeDuration(d) + onSegmentComplete(path, d). *)

(* every file of every run records exactly its true duration - also the file closed after a failed write (repaired
   code, fix b7e594b: a sample refused by formatFMP4Part.write no longer raises endDTS) *)
Theorem C27_true_duration : forall c evs f,
  In f (files_of (x_log (run c evs))) -> f_closed f = Some (true_duration f).
Proof. exact closed_exact. Qed.
Print Assumptions C27_true_duration.

(* the same at any earlier time (the log before formatFMP4.close: segments closed by a switch) and as a scan of the
   whole log: every SClose carries (maximum end - start) of its file *)
Theorem C27_true_duration_at_switch : forall c evs,
  let x := run_from c (init_st c) (gate c evs) in
  dur_scan None (x_log x) = true /\
  forall f d, In f (files_of (x_log x)) -> f_closed f = Some d -> d = true_duration f.
Proof. exact closed_by_switch_exact. Qed.
Print Assumptions C27_true_duration_at_switch.

Theorem C27_true_duration_scan : forall c evs, dur_scan None (x_log (run c evs)) = true.
Proof. exact closed_scan. Qed.
Print Assumptions C27_true_duration_scan.

(* REFUTED for the PINNED code (`run_pinned`: formatFMP4Segment.write raised endDTS before formatFMP4Part.write could
   refuse the sample, "reached maximum part size"): the file closed after the error recorded the end of a sample it
   does not hold. Witness: max part size 100, samples of 50 and 80 bytes at 25 fps: 80 ms recorded, 40 ms held.
   Replayed on the real code by the driver family `oversize` (see design_notes/C27.md). *)
Theorem C27_true_duration_pinned_refuted :
  exists c evs f d, In f (files_of (x_log (run_pinned c evs))) /\ In o_err (x_outs (run_pinned c evs)) /\
                    f_closed f = Some d /\ true_duration f < d.
Proof. exact example_after_error_pinned. Qed.
Print Assumptions C27_true_duration_pinned_refuted.

(* the same input on the repaired code: the write fails in the same way, the file records the 40 ms it holds *)
Example C27_true_duration_after_error_example :
  In o_err (x_outs (run exe_cfg exe_evs)) /\
  map (fun f => (f_closed f, true_duration f)) (files_of (x_log (run exe_cfg exe_evs))) = [(Some 40000000, 40000000)].
Proof. exact example_after_error_fixed. Qed.

(* track by track: when the sample ends of each track do not decrease (they do not, except by a nanosecond of
   rounding around zero-length samples at negative timestamps), the media end is the maximum over the tracks of the
   end of their last sample *)
Theorem C27_media_end_per_track : forall n start l,
  (forall w, In w l -> (w_trk w < n)%nat) ->
  (forall t, (t < n)%nat -> nondecr (track_ends t l) = true) ->
  media_end start l = tracks_end n start l.
Proof. exact media_end_per_track. Qed.
Print Assumptions C27_media_end_per_track.

(* non-vacuity, and the input class of seeded change C27-b: 25 fps video + 20 ms audio frames that arrive 400 ms
   ahead; no error; one file; the sample written last is a video sample ending at 0.8 s, the audio written before it
   ends at 1.22 s: recorded = true duration = maximum over the tracks = 1.22 s, not 0.8 s *)
Example C27_true_duration_example :
  let x := run exd_cfg exd_evs in
  (forall o, In o (x_outs x) -> o <> o_err) /\
  map (fun f => (f_closed f, true_duration f, last_written_end (f_sdts f) (file_samples f) - f_sdts f,
                 tracks_end 2 (f_sdts f) (file_samples f) - f_sdts f,
                 nondecr (track_ends 0 (file_samples f)) && nondecr (track_ends 1 (file_samples f))))
      (files_of (x_log x))
  = [(Some 1220000000, 1220000000, 800000000, 1220000000, true)].
Proof. exact example_true_duration. Qed.

(* audio creates the first segment 10 ms after the first key frame: the key frame is late, its group is discarded,
   three files, all closed, each with video, each starting on a sync sample (by C27_starts_on_sync) *)
Example C27_segmenter_example :
  let x := run ex_cfg ex_evs in
  firstn 16 (x_outs x) = [0; 0; 0; 1; 0; 0; 1; 0; 0; 1; 0; 0; 1; 0; 0; 1] /\
  map (fun f => (f_num f, length (f_parts f), f_closed f, has_video (file_samples f))) (files_of (x_log x))
  = [(0, 5%nat, Some 390000000, true); (1, 5%nat, Some 410000000, true); (2, 5%nat, Some 400000000, true)] /\
  video_tracks ex_cfg = [0%nat] /\ length (log_samples (x_log x)) = 83%nat.
Proof. exact example_segmenter. Qed.
