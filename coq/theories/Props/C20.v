(* C20 — Hooks fire in well-formed start/stop pairs (path hooks: runOnAvailable/runOnUnavailable = "ready /
   not ready", runOnOnline/runOnOffline, runOnDemand/runOnUnDemand). Only statements here.
   `cf` ranges over every configuration, alwaysAvailable paths included (there the available pair is opened by
   initialize() and the online pair follows the publishers / the static source).
   EOpen k = the call of hooks.OnAvailable / OnOnline / OnDemand (which runs the start command),
   EClose k = the call of the closure it returned (which stops it and launches the un-command). *)
From Coq Require Import List ZArith.
Require Import MTX.Lib.Trace MTX.Model.PathSM MTX.Proofs.PathSM MTX.Proofs.PathSM_Hooks MTX.Proofs.PathSM_Trace MTX.Proofs.PathSM_Logs.
Import ListNotations.
Local Open Scope Z_scope.

(* over the whole trace of any history (initialize() included), the executions of each pair strictly
   alternate, each pair opened by the start hook *)
Theorem C20_calls_alternate : forall cf ops k,
  conf_ok cf = true -> alternates (cls_call k) (snd (run cf ops)).
Proof. exact (c20_alternates true). Qed.
Print Assumptions C20_calls_alternate.

(* ... and the pair is open at the end exactly when the state says so: stream present (available),
   onOfflineHook set (online), onUnDemandHook set (demand) *)
Theorem C20_open_iff_state : forall cf ops k,
  conf_ok cf = true ->
  mon_run (alt_mon (cls_call k)) false (snd (run cf ops)) = Some (open_of k (fst (run cf ops))).
Proof. exact (c20_calls true). Qed.
Print Assumptions C20_open_iff_state.

(* any open pair is closed when the path closes, and none is opened afterwards *)
Theorem C20_closed_after_close : forall cf pre post k,
  conf_ok cf = true -> alternates_closed (cls_call k) (snd (run cf (pre ++ Close :: post))).
Proof. exact (c20_closed_after_close true). Qed.
Print Assumptions C20_closed_after_close.

(* the same for what an operator sees: with runOnX configured, the log lines "runOnX command started" /
   "runOnX command stopped" of pair k alternate along every history, starting with "started" ... *)
Theorem C20_logs_alternate : forall cf ops k,
  conf_ok cf = true -> h_start k cf = true -> alternates (cls_log k) (snd (run cf ops)).
Proof. exact (c20_logs_alternate true). Qed.
Print Assumptions C20_logs_alternate.

(* ... and the pair is closed once the path has closed *)
Theorem C20_logs_closed_after_close : forall cf pre post k,
  conf_ok cf = true -> h_start k cf = true ->
  alternates_closed (cls_log k) (snd (run cf (pre ++ Close :: post))).
Proof. exact (c20_logs_closed_after_close true). Qed.
Print Assumptions C20_logs_closed_after_close.

(* the log lines are exactly the expansion of the hook calls by internal/hooks (no stray line, none missing) *)
Theorem C20_logs_are_expansion_of_calls : forall cf ops, WE cf (snd (run cf ops)).
Proof. exact (we_run true). Qed.
Print Assumptions C20_logs_are_expansion_of_calls.

(* non-vacuity: an on-demand history opens and closes all three pairs *)
Example C20_example :
  let cf := mkConf false false true 0 true true true true true true false in
  filter is_hook (snd (run cf [AddReader 1 1; AddPublisher 2 1 true; RemoveReader 1; TimerFire TPubClose; Close]))
  = [EOpen HDemand; EOpen HAvail; EOpen HOnline; EClose HDemand; EClose HOnline; EClose HAvail].
Proof. vm_compute. reflexivity. Qed.

(* non-vacuity, alwaysAvailable: the available pair is opened by initialize(), the online pair follows the
   publishers, and Close while a publisher is online closes both *)
Example C20_example_always_available :
  let cf := mkConf false false true 0 true true true true false false true in
  filter is_hook (snd (run cf [AddPublisher 1 1 true; RemovePublisher 1; AddPublisher 2 2 true; Close]))
  = [EOpen HAvail; EOpen HOnline; EClose HOnline; EOpen HOnline; EClose HOnline; EClose HAvail].
Proof. vm_compute. reflexivity. Qed.

(* ---- per-reader hooks (runOnRead / runOnUnread) of the HLS front end, muxer level ------------------------------------
   Model/C20b_HlsMux.v (module HX; the other per-reader / per-connection sites: Props/C20b.v).  Requests for the
   multivariant playlist of one path - ordinary ones and CDN ones - pass the HTTP handler's checks (MArrive), wait inside
   pathManager.AddReader as long as the path manager likes (several CDN requests may all have seen "no CDN session yet")
   and are registered in any order (MProceed); idle expiry, API kick and every way the muxer drops all its sessions
   (instance failure, muxer close, Server.Close) interleave freely.  For ALL such schedules and every session s:
   hooks.OnRead / the closure it returned are called in well-formed start/stop pairs, the pair of s is open exactly while
   the muxer can still reach s (muxer.cdnSession / muxer.sessionsBySecret), and no pair is open once the muxer has
   dropped its sessions, whatever not-admitted requests follow. *)
Require MTX.Model.C20b_SessionHooks MTX.Model.C20b_HlsMux MTX.Proofs.C20b_HlsMux.
Module SH := MTX.Model.C20b_SessionHooks.
Module HM := MTX.Model.C20b_HlsMux.HX.

Theorem C20_hls_reader_pairs : forall (ops : list HM.mop) (s : nat),
  SH.pairs_okb false (HM.proj s (HM.mtrace true ops)) = true /\
  mon_run (alt_mon SH.hcls) false (HM.proj s (HM.mtrace true ops)) = Some (HM.reach (HM.mfinal true ops) s).
Proof.
  intros ops s. split; [apply MTX.Proofs.C20b_HlsMux.hls_mux_pairs_okb|apply MTX.Proofs.C20b_HlsMux.hls_mux_pairs].
Qed.
Print Assumptions C20_hls_reader_pairs.

Theorem C20_hls_reader_closed_after_close : forall (pre post : list HM.mop) (s : nat),
  forallb (fun o => match o with HM.MProceed _ true => false | _ => true end) post = true ->
  SH.pairs_okb true (HM.proj s (HM.mtrace true (pre ++ HM.MCloseAll :: post))) = true.
Proof. exact MTX.Proofs.C20b_HlsMux.hls_mux_closed_after_close. Qed.
Print Assumptions C20_hls_reader_closed_after_close.

(* addSession replacing the CDN session without close2(): refuted by two concurrent first CDN requests *)
Theorem C20_hls_replace_without_close_refuted :
  let w := [HM.MArrive true; HM.MArrive true; HM.MProceed 0%nat true; HM.MProceed 1%nat true; HM.MCloseAll] in
  SH.pairs_okb true (HM.proj 0%nat (HM.mtrace false w)) = false /\
  SH.pairs_okb true (HM.proj 0%nat (HM.mtrace true w)) = true.
Proof. vm_compute. split; reflexivity. Qed.
Print Assumptions C20_hls_replace_without_close_refuted.
