(* C15 — Live paths reconcile with configuration after reloads.
   Only statements here; every proof is `exact <lemma of Proofs/C15_PathMgr.v>`.

   `run m mask fixed s h` feeds a history h of reloads / on-demand creations / publishers leaving to the model of
   pathManager (doReloadConf, createPath, ...), m = regexp oracle (as in C14), mask = which fields
   pathConfCanBeUpdated copies, fixed = false: the code as found / true: the code after the fix: commit.
   `hot_mask`, `hot_fields`, `path_fields` are regenerated from the Go source on every run (MTXGen.C15_HotFields):
   the theorems below that mention them are re-checked against the current pathConfCanBeUpdated / conf.Path. *)
From Coq Require Import List ZArith String.
Require Import MTX.Model.C14_PathConf MTX.Proofs.C14_PathConf MTX.Model.C15_PathMgr MTX.Proofs.C15_PathMgr.
Require Import MTX.Model.C15_Delivery MTX.Proofs.C15_Delivery.
Require Import MTXGen.C15_HotFields.
Import ListNotations.
Local Open Scope Z_scope.

(* After ANY history (every reload carrying a map, i.e. unique keys), for any oracle and any hot-field mask:
   every static configuration has a live path, every live path's name resolves, and each live path runs with
   exactly the configuration name, configuration and capture groups that FindPathConf selects for its name. *)
Theorem C15_reconciled : forall (m : str -> str -> option (list str)) (mask : list bool) cs h,
  NoDup (map fst cs) -> Forall wf_op h ->
  Rec m (run m mask true (init m mask true cs) h).
Proof. exact reachable_rec. Qed.
Print Assumptions C15_reconciled.

(* ... and doReloadConf never dereferences a missing configuration (pm.pathConfs[pa.confName] is always there) *)
Theorem C15_no_nil_conf : forall (m : str -> str -> option (list str)) (mask : list bool) cs h,
  NoDup (map fst cs) -> Forall wf_op h ->
  st_crashed (run m mask true (init m mask true cs) h) = false.
Proof. exact reachable_no_crash. Qed.
Print Assumptions C15_no_nil_conf.

(* the full invariant (Rec + unique names + unique object identities) is inductive: one step from ANY state satisfying it *)
Theorem C15_step_preserves : forall (m : str -> str -> option (list str)) (mask : list bool) s o,
  Inv m s -> wf_op o -> Inv m (step m mask true s o).
Proof. exact step_inv. Qed.
Print Assumptions C15_step_preserves.

(* The code as found does NOT satisfy it: publish foo under ~^(f)oo$, reload so that foo is served by ~^f(oo)$;
   the live path keeps the groups [foo; f] while resolution gives [foo; oo] (replayed on the real pathManager). *)
Theorem C15_reconciled_refuted :
  exists m cs h, NoDup (map fst cs) /\ Forall wf_op h /\
                 ~ Rec m (run m hot_mask false (init m hot_mask false cs) h).
Proof. exact reconciled_refuted. Qed.
Print Assumptions C15_reconciled_refuted.

(* pathConfCanBeUpdated, as generated from the source: true exactly when every field that is NOT in the generated
   hot-field list has the same value in both configurations *)
Theorem C15_hot_iff : forall (o n : conf),
  List.length o = List.length path_fields -> List.length n = List.length path_fields ->
  (can_update o n = true <->
   forall i f, nth_error path_fields i = Some f -> ~ In f hot_fields -> nth_error o i = nth_error n i).
Proof. exact can_update_hot_iff. Qed.
Print Assumptions C15_hot_iff.

(* the generated list stays within what the property documents as hot-reloadable: forwarding, recording, camera
   controls (plus Name/Regexp, which follow the configuration key); and it is a list of real fields *)
Theorem C15_hot_fields_scope : forall f, In f hot_fields -> documented_hot f = true /\ In f path_fields.
Proof. exact hot_fields_scope. Qed.
Print Assumptions C15_hot_fields_scope.

(* A live path survives a reload (same path object: its publisher and readers stay) iff its name still resolves and
   the selected configuration differs from the one it runs with on hot fields only; any other change recreates it
   (a static one) or closes it. In every reachable state of the repaired code. *)
Theorem C15_kept_iff : forall (m : str -> str -> option (list str)) (mask : list bool) s nc p,
  Inv m s -> NoDup (map fst nc) -> In p (st_paths s) ->
  (survives p (reload m mask true s nc) <->
   exists k c g, find m nc (p_name p) = Found k c g /\ can_update_mask mask (p_conf p) c = true).
Proof. exact kept_iff. Qed.
Print Assumptions C15_kept_iff.

(* ---- second layer (Model/C15_Delivery.v): the hand-over of a reloaded configuration to a live path is a step of
   its own. `run` above is the MANAGER's side (its tables, and for each live path what it last handed over); the
   path goroutine runs with what it has RECEIVED. xrun m mask ordered guarded: XReload issues hand-overs (queued per
   path), XDeliver n i lets path n receive one (ordered: the oldest; otherwise the i-th pending one), XCreate / XLeave
   as before, except that an idle path decides to close from the configuration it runs with.
   ordered = guarded = true is the code after the two fix: commits of this layer. *)

(* Hand-overs received in order: after ANY history of reloads, on-demand creations, publishers leaving and
   deliveries interleaved in any way (a path may still be waiting for the first hand-over while several later reloads
   are processed), for any oracle and mask:
   - the manager's side is reconciled and never dereferences a missing configuration;
   - for every live path, receiving its pending hand-overs (oldest first) leads to exactly what the manager recorded;
   - a live path with nothing pending runs with exactly the configuration name, configuration and capture groups that
     FindPathConf selects for its name; if nothing is pending anywhere, the whole property holds of what the paths run with;
   - the pending hand-overs can always be received (drain_ops: only XDeliver steps), and then it holds. *)
Theorem C15_delivery_in_order : forall (m : str -> str -> option (list str)) (mask : list bool) cs h,
  NoDup (map fst cs) -> Forall wf_xop h ->
  let s := xrun m mask true true (xinit m mask cs) h in
  Rec m (proj s) /\ xs_crashed s = false /\
  (forall x, In x (xs_paths s) -> settle x = mgr_view (x_p x)) /\
  (forall x, In x (xs_paths s) -> x_queue x = [] -> runs_resolved m (xs_confs s) x) /\
  (quiet s = true -> Rec m (applied_view s)) /\
  xrun m mask true true s (drain_ops s) = drain s /\ quiet (drain s) = true /\ Rec m (applied_view (drain s)).
Proof. exact delivery_in_order. Qed.
Print Assumptions C15_delivery_in_order.

(* the invariant of the second layer is inductive: one step (a delivery included) from ANY state satisfying it *)
Theorem C15_delivery_step_preserves : forall (m : str -> str -> option (list str)) (mask : list bool) s o,
  XInv m s -> wf_xop o -> XInv m (xstep m mask true true s o).
Proof. exact xstep_xinv. Qed.
Print Assumptions C15_delivery_step_preserves.

(* deliveries never change what the manager decides: its side of a reload step is the first-layer `reload`
   (so C15_kept_iff speaks about every state of the second layer), a delivery leaves it untouched *)
Theorem C15_delivery_manager_side : forall (m : str -> str -> option (list str)) (mask : list bool) o s nc n i,
  proj (xreload m mask s nc) = reload m mask true (proj s) nc /\
  proj (xdeliver o s n i) = proj s /\
  proj (xcreate m s n) = create m (proj s) n.
Proof. exact delivery_manager_side. Qed.
Print Assumptions C15_delivery_manager_side.

(* The code as found (one free goroutine per hand-over: any pending one may be received next) does NOT satisfy it:
   static path foo, two hot reloads (recordPath v1, then v2) issued before the path receives anything, received in
   the opposite order: nothing is pending any more, the manager's table holds v2, the path runs with v1 - for good.
   Replayed on the real pathManager (driver class raced-reloads), fixed in /repo. *)
Theorem C15_delivery_unordered_refuted :
  exists m cs h, NoDup (map fst cs) /\ Forall wf_xop h /\
    let s := xrun m hot_mask false true (xinit m hot_mask cs) h in
    quiet s = true /\ ~ Rec m (applied_view s).
Proof. exact delivery_unordered_refuted. Qed.
Print Assumptions C15_delivery_unordered_refuted.

(* The code as found also lets an idle path close itself from the configuration it still RUNS with: publish foo
   under ~^(f)oo$, a reload adds the static configuration foo (hot-compatible: the path is kept and handed the new
   configuration), the publisher leaves before the path has received it: the path sees a regexp configuration and
   no source, asks to be closed, the manager closes it: the static configuration foo has no live path.
   Replayed on the real pathManager, fixed in /repo (the manager checks its own record before closing). *)
Theorem C15_idle_close_refuted :
  exists m cs h, NoDup (map fst cs) /\ Forall wf_xop h /\
    ~ Rec m (proj (xrun m hot_mask true false (xinit m hot_mask cs) h)).
Proof. exact idle_close_refuted. Qed.
Print Assumptions C15_idle_close_refuted.

(* non-vacuity of the second layer: the raced witness through both delivery disciplines (the three configurations
   differ on a hot field only); groups of one configuration with the fields of another; the idle-close witness through
   the guarded manager (path kept, one hand-over pending) *)
Example C15_example_raced :
  (can_update (cvec 0) (cvec 1) = true /\ can_update (cvec 1) (cvec 2) = true /\ conf_eqb (cvec 1) (cvec 2) = false) /\
  (let s := xrun ex_oracle hot_mask false true (xinit ex_oracle hot_mask raced_confs) raced_hist in
   quiet s = true /\ map (fun x => (p_gen (x_p x), conf_eqb (x_conf x) (cvec 1))) (xs_paths s) = [(0, true)] /\
   xs_confs s = [(n_foo, cvec 2)]) /\
  (let s := xrun ex_oracle hot_mask true true (xinit ex_oracle hot_mask raced_confs) raced_hist in
   quiet s = true /\ map (fun x => (p_gen (x_p x), conf_eqb (x_conf x) (cvec 2))) (xs_paths s) = [(0, true)]) /\
  (let s := xrun ex_oracle hot_mask false true (xinit ex_oracle hot_mask [(k_foo1, cvec 0)]) raced_groups_hist in
   map (fun x => (p_confName (x_p x), x_cname x, conf_eqb (x_conf x) (cvec 1), x_matches x, x_queue x)) (xs_paths s)
   = [(k_foo2, k_foo1, true, [n_foo; g_oo], [])]) /\
  (let s := xrun ex_oracle hot_mask true true (xinit ex_oracle hot_mask idle_confs) idle_hist in
   map (fun x => (p_name (x_p x), p_confName (x_p x), x_cname x, List.length (x_queue x))) (xs_paths s)
   = [(n_foo, n_foo, k_foo1, 1%nat)]).
Proof.
  split; [exact raced_hot|]. split; [exact raced_unordered_state|]. split; [exact raced_ordered_state|].
  split; [exact raced_groups_state|exact idle_close_guarded].
Qed.

(* a history with deliveries interleaved with later reloads: three reloads of the static path foo are issued, the
   path receives the first after the second was issued and the other two at the end: it runs v3, nothing pending *)
Example C15_example_interleaved :
  let s := xrun ex_oracle hot_mask true true (xinit ex_oracle hot_mask raced_confs)
             [XReload [(n_foo, cvec 1)]; XReload [(n_foo, cvec 2)]; XDeliver n_foo 0; XReload [(n_foo, cvec 3)]] in
  map (fun x => (conf_eqb (x_conf x) (cvec 1), List.length (x_queue x))) (xs_paths s) = [(true, 2%nat)] /\
  map (fun x => (conf_eqb (x_conf x) (cvec 3), List.length (x_queue x)))
      (xs_paths (xrun ex_oracle hot_mask true true s (drain_ops s))) = [(true, 0%nat)].
Proof. vm_compute. split; reflexivity. Qed.

(* non-vacuity *)
Example C15_example_witness :
  st_paths (run ex_oracle hot_mask false (init ex_oracle hot_mask false witness_confs) witness_hist)
    = [LP n_foo k_foo2 [] [n_foo; g_f] 0] /\
  st_paths (run ex_oracle hot_mask true (init ex_oracle hot_mask true witness_confs) witness_hist)
    = [LP n_foo k_foo2 [] [n_foo; g_oo] 0] /\
  find ex_oracle [(k_foo2, ([] : conf))] n_foo = Found k_foo2 [] [n_foo; g_oo].
Proof. repeat split; vm_compute; reflexivity. Qed.

Example C15_example_hot :
  In "Forward"%string hot_fields /\ In "RecordPath"%string hot_fields /\
  In "MaxReaders"%string path_fields /\ ~ In "MaxReaders"%string hot_fields /\
  ~ In "Source"%string hot_fields /\ ~ In "RunOnReady"%string hot_fields.
Proof. exact hot_fields_nonempty_cold. Qed.

(* a history mixing a non-hot change (static path recreated: new identity), a hot change (kept), a static
   configuration disappearing under a live static path that a regexp configuration then serves (kept, new groups) *)
Example C15_example_history :
  let v := fun a b => a :: b :: repeat 0 (Nat.pred (Nat.pred (List.length path_fields))) in
  let s := run ex_oracle [false; true] true
             (init ex_oracle [false; true] true [(n_foo, v 0 0)])
             [Reload [(n_foo, v 1 0)]; Reload [(n_foo, v 1 7)]; Reload [(k_foo2, v 1 7)]] in
  map (fun p => (p_confName p, p_matches p, p_gen p)) (st_paths s) = [(k_foo2, [n_foo; g_oo], 1)].
Proof. vm_compute. reflexivity. Qed.
