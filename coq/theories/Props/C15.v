(* C15 — Live paths reconcile with configuration after reloads.
   Only statements here; every proof is `exact <lemma of Proofs/C15_PathMgr.v>`.

   `run m mask fixed s h` feeds a history h of reloads / on-demand creations / publishers leaving to the model of
   pathManager (doReloadConf, createPath, ...), m = regexp oracle (as in C14), mask = which fields
   pathConfCanBeUpdated copies, fixed = false: the code as found / true: the code after the fix: commit.
   `hot_mask`, `hot_fields`, `path_fields` are regenerated from the Go source on every run (MTXGen.C15_HotFields):
   the theorems below that mention them are re-checked against the current pathConfCanBeUpdated / conf.Path. *)
From Coq Require Import List ZArith String.
Require Import MTX.Model.C14_PathConf MTX.Proofs.C14_PathConf MTX.Model.C15_PathMgr MTX.Proofs.C15_PathMgr.
Require Import MTXGen.C15_HotFields.
Import ListNotations.
Local Open Scope Z_scope.

(* After ANY history (every reload carrying a map, i.e. unique keys), for any oracle and any hot-field mask:
   every static configuration has a live path, every live path's name resolves, and each live path runs with
   exactly the configuration name, configuration and capture groups that FindPathConf selects for its name. *)
Theorem C15_reconciled : forall (m : str -> str -> option (list str)) (mask : list bool) cs h,
  NoDup (map fst cs) -> Forall wf_op h ->
  Rec m (run m mask true (init m mask true cs) h).
Proof. exact reachable_rec. Qed.
Print Assumptions C15_reconciled.

(* ... and doReloadConf never dereferences a missing configuration (pm.pathConfs[pa.confName] is always there) *)
Theorem C15_no_nil_conf : forall (m : str -> str -> option (list str)) (mask : list bool) cs h,
  NoDup (map fst cs) -> Forall wf_op h ->
  st_crashed (run m mask true (init m mask true cs) h) = false.
Proof. exact reachable_no_crash. Qed.
Print Assumptions C15_no_nil_conf.

(* the full invariant (Rec + unique names + unique object identities) is inductive: one step from ANY state satisfying it *)
Theorem C15_step_preserves : forall (m : str -> str -> option (list str)) (mask : list bool) s o,
  Inv m s -> wf_op o -> Inv m (step m mask true s o).
Proof. exact step_inv. Qed.
Print Assumptions C15_step_preserves.

(* The code as found does NOT satisfy it: publish foo under ~^(f)oo$, reload so that foo is served by ~^f(oo)$;
   the live path keeps the groups [foo; f] while resolution gives [foo; oo] (replayed on the real pathManager). *)
Theorem C15_reconciled_refuted :
  exists m cs h, NoDup (map fst cs) /\ Forall wf_op h /\
                 ~ Rec m (run m hot_mask false (init m hot_mask false cs) h).
Proof. exact reconciled_refuted. Qed.
Print Assumptions C15_reconciled_refuted.

(* pathConfCanBeUpdated, as generated from the source: true exactly when every field that is NOT in the generated
   hot-field list has the same value in both configurations *)
Theorem C15_hot_iff : forall (o n : conf),
  List.length o = List.length path_fields -> List.length n = List.length path_fields ->
  (can_update o n = true <->
   forall i f, nth_error path_fields i = Some f -> ~ In f hot_fields -> nth_error o i = nth_error n i).
Proof. exact can_update_hot_iff. Qed.
Print Assumptions C15_hot_iff.

(* the generated list stays within what the property documents as hot-reloadable: forwarding, recording, camera
   controls (plus Name/Regexp, which follow the configuration key); and it is a list of real fields *)
Theorem C15_hot_fields_scope : forall f, In f hot_fields -> documented_hot f = true /\ In f path_fields.
Proof. exact hot_fields_scope. Qed.
Print Assumptions C15_hot_fields_scope.

(* A live path survives a reload (same path object: its publisher and readers stay) iff its name still resolves and
   the selected configuration differs from the one it runs with on hot fields only; any other change recreates it
   (a static one) or closes it. In every reachable state of the repaired code. *)
Theorem C15_kept_iff : forall (m : str -> str -> option (list str)) (mask : list bool) s nc p,
  Inv m s -> NoDup (map fst nc) -> In p (st_paths s) ->
  (survives p (reload m mask true s nc) <->
   exists k c g, find m nc (p_name p) = Found k c g /\ can_update_mask mask (p_conf p) c = true).
Proof. exact kept_iff. Qed.
Print Assumptions C15_kept_iff.

(* non-vacuity *)
Example C15_example_witness :
  st_paths (run ex_oracle hot_mask false (init ex_oracle hot_mask false witness_confs) witness_hist)
    = [LP n_foo k_foo2 [] [n_foo; g_f] 0] /\
  st_paths (run ex_oracle hot_mask true (init ex_oracle hot_mask true witness_confs) witness_hist)
    = [LP n_foo k_foo2 [] [n_foo; g_oo] 0] /\
  find ex_oracle [(k_foo2, ([] : conf))] n_foo = Found k_foo2 [] [n_foo; g_oo].
Proof. repeat split; vm_compute; reflexivity. Qed.

Example C15_example_hot :
  In "Forward"%string hot_fields /\ In "RecordPath"%string hot_fields /\
  In "MaxReaders"%string path_fields /\ ~ In "MaxReaders"%string hot_fields /\
  ~ In "Source"%string hot_fields /\ ~ In "RunOnReady"%string hot_fields.
Proof. exact hot_fields_nonempty_cold. Qed.

(* a history mixing a non-hot change (static path recreated: new identity), a hot change (kept), a static
   configuration disappearing under a live static path that a regexp configuration then serves (kept, new groups) *)
Example C15_example_history :
  let v := fun a b => a :: b :: repeat 0 (Nat.pred (Nat.pred (List.length path_fields))) in
  let s := run ex_oracle [false; true] true
             (init ex_oracle [false; true] true [(n_foo, v 0 0)])
             [Reload [(n_foo, v 1 0)]; Reload [(n_foo, v 1 7)]; Reload [(k_foo2, v 1 7)]] in
  map (fun p => (p_confName p, p_matches p, p_gen p)) (st_paths s) = [(k_foo2, [n_foo; g_oo], 1)].
Proof. vm_compute. reflexivity. Qed.
