From Coq Require Import List ZArith.
Require Import MTX.Lib.Civil MTX.Model.C26_RecPath.
Theorem C26_placeholder : True. Proof. exact I. Qed.
Print Assumptions C26_placeholder.
