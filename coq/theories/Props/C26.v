(* C26 — Segment file names encode path and start instant losslessly.
   Only statements here; every proof is `exact <lemma of Proofs/C26_RecPath.v or Lib/Civil.v>`.
   Model: Model/C26_RecPath.v (encode_go = Path.Encode, decode_lz / decode = Path.Decode after fix 2b44fe1
   and the re-encode comparison), Model/C26_Zone.v (zone tables, Location.lookup, time.Date's rule). *)
From Coq Require Import List ZArith.
Require Import MTX.Lib.Civil MTX.Model.C26_RecPath MTX.Proofs.C26_RecPath MTX.Model.C26_Zone MTX.Proofs.C26_Zone.
Require Import MTX.Model.C26_Finder MTX.Proofs.C26_Finder.
Import ListNotations.
Local Open Scope Z_scope.

(* ------------------------------------------------------------------ first half: Decode (Encode) *)

(* Every name the recorder writes is recognised as a segment of that path with that start instant
   (to the microsecond when the format has %f, to the second otherwise), for every format in which
   every '%' starts a placeholder, %path occurs once and at most one %z follows it; every path name
   without newline and '%' (all valid names); every instant the fixed-width fields can hold
   (4-digit year if %Y, 10-digit Unix time if %s; with %z an offset of whole minutes below 100 h;
   without %z the instant is held in the local zone, here the fixed offset `loff`). *)
Theorem C26_roundtrip : forall loff f p t,
  wf_format f = true -> name_ok p = true -> identifies (tokenize f) = true ->
  encodable loff (tokenize f) t = true ->
  decode loff f (encode_go f p t) =
  Some (p, fst (trunc_start (tokenize f) t), snd (trunc_start (tokenize f) t)).
Proof. exact roundtrip. Qed.
Print Assumptions C26_roundtrip.

(* The same for ANY local zone, given as the two functions the code uses (L: the offset time.Date
   subtracts for a wall-clock reading, the offset in force at an instant): without %z the instant must be
   held in the local zone, and without %s as well time.Date must map its reading back to that offset. *)
Theorem C26_roundtrip_local : forall L f p t,
  wf_format f = true -> name_ok p = true -> identifies (tokenize f) = true ->
  encodable_lz L (tokenize f) t = true ->
  decode_lz L f (encode_go f p t) =
  Some (p, fst (trunc_start (tokenize f) t), snd (trunc_start (tokenize f) t)).
Proof. exact roundtrip_lz. Qed.
Print Assumptions C26_roundtrip_local.

(* ... and that condition is exact: without %z and %s, an instant held in the local zone comes back
   if and only if time.Date maps its wall-clock reading to the offset in force at it. *)
Theorem C26_roundtrip_exactly_when : forall L f p t,
  wf_format f = true -> name_ok p = true -> identifies (tokenize f) = true -> enc_ranges (tokenize f) t = true ->
  has Tz (tokenize f) = false -> has Ts (tokenize f) = false -> lz_at L (i_unix t) = i_off t ->
  (decode_lz L f (encode_go f p t) = Some (p, i_unix t, snd (trunc_start (tokenize f) t))
   <-> lz_date L (i_unix t + i_off t) = i_off t).
Proof. exact roundtrip_lz_iff. Qed.
Print Assumptions C26_roundtrip_exactly_when.

(* ------------------------------------------------------------------ zone-database zones (DST) *)

(* A zone = a finite table of offset changes (Model/C26_Zone.v: `lookup` = Location.lookup,
   `go_date_off` = the resolution rule of time.Date as implemented), with the two properties of a zone
   database: offsets within B seconds of UTC, successive changes more than 2B apart (zone_ok).
   In such a zone time.Date maps the wall-clock reading of EVERY instant outside the repeated hours
   (the (a - b) seconds before and after a change from offset a down to b) back to that instant ... *)
Theorem C26_zone_date_recovers : forall B z, zone_ok B z = true -> forall u,
  in_repeat (lookup z) u = false -> go_date_off z (u + offset_at z u) = offset_at z u.
Proof. exact zone_date_recovers. Qed.
Print Assumptions C26_zone_date_recovers.

(* ... hence the recorder's file name decodes to path and start for every such instant, whatever the
   format (no %z / %s needed) ... *)
Theorem C26_zone_roundtrip : forall B z, zone_ok B z = true -> forall f p u n,
  wf_format f = true -> name_ok p = true -> identifies (tokenize f) = true ->
  enc_ranges (tokenize f) (local_instant z u n) = true -> in_repeat (lookup z) u = false ->
  decode_zone z f (encode_go f p (local_instant z u n)) =
  Some (p, u, snd (trunc_start (tokenize f) (local_instant z u n))).
Proof. exact roundtrip_zone. Qed.
Print Assumptions C26_zone_roundtrip.

(* ... exactly when (any table): *)
Theorem C26_zone_roundtrip_iff : forall z f p u n,
  wf_format f = true -> name_ok p = true -> identifies (tokenize f) = true ->
  enc_ranges (tokenize f) (local_instant z u n) = true ->
  has Tz (tokenize f) = false -> has Ts (tokenize f) = false ->
  (decode_zone z f (encode_go f p (local_instant z u n)) =
     Some (p, u, snd (trunc_start (tokenize f) (local_instant z u n)))
   <-> go_date_off z (u + offset_at z u) = offset_at z u).
Proof. exact roundtrip_zone_iff. Qed.
Print Assumptions C26_zone_roundtrip_iff.

(* Inside a repeated hour time.Date picks by comparing the reading, taken as UTC, with the change:
   the offset before the change if the reading precedes it, the offset after it otherwise (so zones west
   of Greenwich get the first pass, zones east of it the second) - for an instant of the first pass
   (period [_, e0) at offset a, then b < a) and of the second pass (period [s0, _) at a, before it a' > a). *)
Theorem C26_zone_date_pick_first : forall B z, zone_ok B z = true -> forall u a s e0,
  lookup z u = (a, s, Some e0) -> first_pass (lookup z) u = true ->
  go_date_off z (u + a) = if u + a <? e0 then a else offset_at z e0.
Proof. exact zone_pick_first. Qed.
Print Assumptions C26_zone_date_pick_first.

Theorem C26_zone_date_pick_second : forall B z, zone_ok B z = true -> forall u a s0 e,
  lookup z u = (a, Some s0, e) -> second_pass (lookup z) u = true ->
  go_date_off z (u + a) = if u + a <? s0 then offset_at z (s0 - 1) else a.
Proof. exact zone_pick_second. Qed.
Print Assumptions C26_zone_date_pick_second.

(* Every instant of a repeated hour has a twin, a different instant with the same wall-clock reading ... *)
Theorem C26_zone_repeat_collides : forall B z, zone_ok B z = true -> forall u, in_repeat (lookup z) u = true ->
  twin (lookup z) u <> u /\ twin (lookup z) u + offset_at z (twin (lookup z) u) = u + offset_at z u.
Proof. exact zone_repeat_collides. Qed.
Print Assumptions C26_zone_repeat_collides.

(* ... and, when the format has neither %z nor %s, the SAME FILE NAME (the recorder opens it with
   os.Create, which truncates: the earlier segment is lost - KNOWN_FINDINGS class dst-repeated-hour) *)
Theorem C26_zone_collision : forall B z, zone_ok B z = true -> forall f p u n,
  forallb (fun k => negb (tok_eqb k (TLit 37))) (tokenize f) = true -> Forall (fun c => c <> 37) p ->
  has Tz (tokenize f) = false -> has Ts (tokenize f) = false -> in_repeat (lookup z) u = true ->
  twin (lookup z) u <> u /\
  encode_go f p (local_instant z (twin (lookup z) u) n) = encode_go f p (local_instant z u n).
Proof. exact collision_zone. Qed.
Print Assumptions C26_zone_collision.

(* Still, every name the recorder writes - repeated hours included - is recognised, with the right path
   and a Start that shows the wall-clock reading that was written (it is the recorded instant or its twin) *)
Theorem C26_zone_recognised : forall B z, zone_ok B z = true -> forall f p u n,
  wf_format f = true -> name_ok p = true -> identifies (tokenize f) = true ->
  enc_ranges (tokenize f) (local_instant z u n) = true ->
  let r := decoded_unix (lz_of_zone z) (tokenize f) (local_instant z u n) in
  decode_zone z f (encode_go f p (local_instant z u n)) =
  Some (p, r, snd (trunc_start (tokenize f) (local_instant z u n)))
  /\ r + offset_at z r = u + offset_at z u.
Proof. exact recognised_zone. Qed.
Print Assumptions C26_zone_recognised.

(* The first half at full strength ("all instants and time zones") is therefore false of the code:
   Europe/Rome 2024 (CET +1 h, CEST +2 h from 2024-03-31T01:00Z to 2024-10-27T01:00Z), default format,
   02:30:00 CEST (00:30Z) and 02:30:00 CET (01:30Z): two instants, one file name, Decode reports the
   second; America/New_York 2024, 01:30 EDT / 01:30 EST: Decode reports the first. *)
Definition rome2024 : zone := mkZone 3600 [(1711846800, 7200); (1729990800, 3600)].
Definition newyork2024 : zone := mkZone (-18000) [(1710054000, -14400); (1730613600, -18000)].
Definition f_default : list Z :=  (* /rec/%path/%Y-%m-%d_%H-%M-%S-%f.mp4 *)
  [47;114;101;99;47; 37;112;97;116;104; 47; 37;89;45;37;109;45;37;100;95;37;72;45;37;77;45;37;83;45;37;102; 46;109;112;52].
Theorem C26_zone_roundtrip_refuted :
  let p := [99;97;109] in
  zone_ok 57600 rome2024 = true /\ zone_ok 57600 newyork2024 = true /\
  wf_format f_default = true /\ identifies (tokenize f_default) = true /\
  enc_ranges (tokenize f_default) (local_instant rome2024 1729989000 0) = true /\
  in_repeat (lookup rome2024) 1729989000 = true /\ twin (lookup rome2024) 1729989000 = 1729992600 /\
  encode_go f_default p (local_instant rome2024 1729989000 0) =
  encode_go f_default p (local_instant rome2024 1729992600 0) /\
  decode_zone rome2024 f_default (encode_go f_default p (local_instant rome2024 1729989000 0))
    = Some (p, 1729992600, 0) /\
  encode_go f_default p (local_instant newyork2024 1730611800 0) =
  encode_go f_default p (local_instant newyork2024 1730615400 0) /\
  decode_zone newyork2024 f_default (encode_go f_default p (local_instant newyork2024 1730615400 0))
    = Some (p, 1730611800, 0).
Proof. vm_compute. repeat split. Qed.
Print Assumptions C26_zone_roundtrip_refuted.

Theorem C26_valid_names_ok : forall p, valid_name p = true -> name_ok p = true.
Proof. exact valid_name_ok. Qed.
Print Assumptions C26_valid_names_ok.

(* Path.Encode's ten sequential ReplaceAll passes equal the placeholder-by-placeholder rendering *)
Theorem C26_encode_by_tokens : forall f p t,
  forallb (fun k => negb (tok_eqb k (TLit 37))) (tokenize f) = true -> Forall (fun c => c <> 37) p ->
  encode_go f p t = encode f p t.
Proof. exact encode_go_tokens. Qed.
Print Assumptions C26_encode_by_tokens.

(* ------------------------------------------------------------------ second half: whole names *)

(* A file is recognised only if its whole name is one the recorder could have produced: it IS the name
   Encode writes for the decoded path and start (at the offset of the decoded Start). Every local zone,
   every format (degenerate ones included), every candidate. Since the fix that ends Decode with
   `return p.Encode(format) == v`. *)
Theorem C26_whole_name : forall L f v p u n, decode_lz L f v = Some (p, u, n) ->
  exists off, v = encode_go f p (mkI u n off).
Proof. exact whole_name_full. Qed.
Print Assumptions C26_whole_name.

(* The shape form (used by C06 / C30): a recognised name is, as a whole, the literals of the format
   with well-shaped fields in between (digits of the placeholder's width, a zone Z|+-dddd, a path text
   without newline): no foreign prefix, suffix or infix. *)
Theorem C26_whole_name_shape : forall L f v r, decode_lz L f v = Some r ->
  exists caps, v = fill (tokenize f) caps /\ forallb cap_shape caps = true
               /\ map fst caps = nonlit (tokenize f) /\ r = decode_caps_lz L caps.
Proof. exact whole_name_lz. Qed.
Print Assumptions C26_whole_name_shape.

(* the code before that fix recognised names Encode never writes: month 13 (now rejected) *)
Theorem C26_strict_whole_name_refuted :
  (exists r, decode_lax 0 f_month v_month = Some r) /\ (forall p t, v_month <> encode f_month p t) /\
  decode 0 f_month v_month = None.
Proof. exact strict_whole_name_refuted. Qed.
Print Assumptions C26_strict_whole_name_refuted.

(* the code before fix 2b44fe1 (regex without anchors) recognised "a/1700000000.m~" for "%path/%s.m" *)
Theorem C26_unanchored_refuted :
  decode_unanchored 0 f_unanch v_unanch = Some ([97], 1700000000, 0) /\
  (forall p t, v_unanch <> encode f_unanch p t) /\ decode 0 f_unanch v_unanch = None.
Proof. exact unanchored_refuted. Qed.
Print Assumptions C26_unanchored_refuted.

(* outside wf_format the first half is false: under "%path/%path_%s" the segment of a/b is not recognised
   (before the re-encode comparison it was attributed to b/a/b) (known finding) *)
Theorem C26_two_paths_refuted :
  let p := [97; 47; 98] in let t := mkI 1700000000 0 0 in
  valid_name p = true /\ identifies (tokenize f_two) = true /\ encodable 0 (tokenize f_two) t = true /\
  decode_lax 0 f_two (encode_go f_two p t) = Some ([98; 47; 97; 47; 98], 1700000000, 0) /\
  decode 0 f_two (encode_go f_two p t) = None.
Proof. exact two_paths_refuted. Qed.
Print Assumptions C26_two_paths_refuted.

(* calendar arithmetic behind %Y..%S: both round trips, all days / all valid dates *)
Theorem C26_days_civil_days : forall z,
  let '(y, m, d) := civil_from_days z in days_from_civil y m d = z /\ 1 <= m <= 12 /\ 1 <= d <= 31.
Proof. exact days_civil_days. Qed.
Print Assumptions C26_days_civil_days.

Theorem C26_civil_days_civil : forall y m d,
  valid_date y m d = true -> civil_from_days (days_from_civil y m d) = (y, m, d).
Proof. exact civil_days_civil. Qed.
Print Assumptions C26_civil_days_civil.

(* non-vacuity: the default format (made absolute, with extension) is well-formed and identifies the
   instant; a concrete segment name round-trips in a +01:00 zone; a %z format likewise *)
Definition f_zone : list Z :=     (* %path/%Y-%m-%d_%H-%M-%S-%f%z *)
  [37;112;97;116;104; 47; 37;89;45;37;109;45;37;100;95;37;72;45;37;77;45;37;83;45;37;102;37;122].
Example C26_example :
  let t := mkI 1704099600 123456789 3600 in
  wf_format f_default = true /\ identifies (tokenize f_default) = true /\
  encodable 3600 (tokenize f_default) t = true /\ valid_name [97;47;98] = true /\
  decode 3600 f_default (encode_go f_default [97;47;98] t) = Some ([97;47;98], 1704099600, 123456000) /\
  wf_format f_zone = true /\ encodable 0 (tokenize f_zone) t = true /\
  decode 0 f_zone (encode_go f_zone [97;47;98] t) = Some ([97;47;98], 1704099600, 123456000) /\
  decode 3600 f_default (encode_go f_default [97;47;98] t ++ [46;98;97;107]) = None.
Proof. vm_compute. repeat split. Qed.


(* ------------------------------------------------------------------ the finder (segment.go): which names it matches against *)

(* FindSegments / fixedPathHasSegments substitute %path FIRST and make the result absolute and clean AFTERWARDS
   (finder_format). For every record path, extension, working directory and every path name IsValidPathName
   accepts, the format then depends on the name only through its non-empty elements: the only thing Clean
   changes in a valid name (runs of slashes: site//cam1) is changed in the format exactly as the kernel and
   WalkDir change it in the name of the recorder's file. *)
Theorem C26_finder_format_slash_runs : forall cwd f ext p,
  path_name_valid p = true -> finder_format cwd f ext p = finder_format cwd f ext (squeeze p).
Proof. exact finder_format_squeeze. Qed.
Print Assumptions C26_finder_format_slash_runs.

(* hence, whatever is on disk, a valid name and its clean form are answered with the same segments *)
Theorem C26_finder_alias : forall L cwd f ext p files,
  path_name_valid p = true -> find_model L cwd f ext p files = find_model L cwd f ext (squeeze p) files.
Proof. exact find_model_squeeze. Qed.
Print Assumptions C26_finder_alias.

(* the other order (Abs/Clean on the raw record path, the name inserted afterwards) is refuted: under /srv, the
   default record path and the valid name site//cam1, the file the recorder wrote at 2024-03-09T17:45:12.250731Z is
   found by the code's order, not found by the clean-first order, and the clean-first order finds it only when
   asked for site/cam1 *)
Theorem C26_finder_cleanfirst_refuted :
  path_name_valid w_name = true /\
  decode 0 (finder_format w_cwd w_fmt w_ext w_name) (walked w_cwd w_fmt w_ext w_name w_t) = Some ([], 1710006312, 250731000) /\
  decode 0 (finder_format_cleanfirst w_cwd w_fmt w_ext w_name) (walked w_cwd w_fmt w_ext w_name w_t) = None /\
  decode 0 (finder_format_cleanfirst w_cwd w_fmt w_ext (squeeze w_name)) (walked w_cwd w_fmt w_ext w_name w_t)
    = Some ([], 1710006312, 250731000).
Proof. exact cleanfirst_refuted. Qed.
Print Assumptions C26_finder_cleanfirst_refuted.
