(* C26 — Segment file names encode path and start instant losslessly.
   Only statements here; every proof is `exact <lemma of Proofs/C26_RecPath.v or Lib/Civil.v>`.
   Model: Model/C26_RecPath.v (encode_go = Path.Encode, decode = Path.Decode after fix 2b44fe1). *)
From Coq Require Import List ZArith.
Require Import MTX.Lib.Civil MTX.Model.C26_RecPath MTX.Proofs.C26_RecPath.
Import ListNotations.
Local Open Scope Z_scope.

(* Every name the recorder writes is recognised as a segment of that path with that start instant
   (to the microsecond when the format has %f, to the second otherwise), for every format in which
   every '%' starts a placeholder, %path occurs once and at most one %z follows it; every path name
   without newline and '%' (all valid names); every instant the fixed-width fields can hold
   (4-digit year if %Y, 10-digit Unix time if %s; with %z an offset of whole minutes below 100 h,
   without %z and %s the local offset `loff` that Decode applies equals the one Encode used). *)
Theorem C26_roundtrip : forall loff f p t,
  wf_format f = true -> name_ok p = true -> identifies (tokenize f) = true ->
  encodable loff (tokenize f) t = true ->
  decode loff f (encode_go f p t) =
  Some (p, fst (trunc_start (tokenize f) t), snd (trunc_start (tokenize f) t)).
Proof. exact roundtrip. Qed.
Print Assumptions C26_roundtrip.

Theorem C26_valid_names_ok : forall p, valid_name p = true -> name_ok p = true.
Proof. exact valid_name_ok. Qed.
Print Assumptions C26_valid_names_ok.

(* Path.Encode's ten sequential ReplaceAll passes equal the placeholder-by-placeholder rendering *)
Theorem C26_encode_by_tokens : forall f p t,
  forallb (fun k => negb (tok_eqb k (TLit 37))) (tokenize f) = true -> Forall (fun c => c <> 37) p ->
  encode_go f p t = encode f p t.
Proof. exact encode_go_tokens. Qed.
Print Assumptions C26_encode_by_tokens.

(* A recognised name is, as a whole, the literals of the format with well-shaped fields in between
   (digits of the placeholder's width, a zone Z|±dddd, a path text without newline): no foreign
   prefix, suffix or infix. Partial: it does not say that the fields are ones Encode writes
   (calendar range, canonical zone text, agreeing duplicates) — see C26_strict_whole_name_refuted. *)
Theorem C26_whole_name_partial : forall loff f v r, decode loff f v = Some r ->
  exists caps, v = fill (tokenize f) caps /\ forallb cap_shape caps = true
               /\ map fst caps = nonlit (tokenize f) /\ r = decode_caps loff caps.
Proof. exact whole_name. Qed.
Print Assumptions C26_whole_name_partial.

(* full strength of the second half is false of the code: month 13 is accepted (known finding) *)
Theorem C26_strict_whole_name_refuted :
  (exists r, decode 0 f_month v_month = Some r) /\ forall p t, v_month <> encode f_month p t.
Proof. exact strict_whole_name_refuted. Qed.
Print Assumptions C26_strict_whole_name_refuted.

(* the code before fix 2b44fe1 (regex without anchors) recognised "a/1700000000.m~" for "%path/%s.m" *)
Theorem C26_unanchored_refuted :
  decode_unanchored 0 f_unanch v_unanch = Some ([97], 1700000000, 0) /\
  (forall p t, v_unanch <> encode f_unanch p t) /\ decode 0 f_unanch v_unanch = None.
Proof. exact unanchored_refuted. Qed.
Print Assumptions C26_unanchored_refuted.

(* outside wf_format the first half is false: "%path/%path_%s" attributes a/b's segment to b/a/b (known finding) *)
Theorem C26_two_paths_refuted :
  let p := [97; 47; 98] in let t := mkI 1700000000 0 0 in
  valid_name p = true /\ identifies (tokenize f_two) = true /\ encodable 0 (tokenize f_two) t = true /\
  decode 0 f_two (encode_go f_two p t) = Some ([98; 47; 97; 47; 98], 1700000000, 0).
Proof. exact two_paths_refuted. Qed.
Print Assumptions C26_two_paths_refuted.

(* calendar arithmetic behind %Y..%S: both round trips, all days / all valid dates *)
Theorem C26_days_civil_days : forall z,
  let '(y, m, d) := civil_from_days z in days_from_civil y m d = z /\ 1 <= m <= 12 /\ 1 <= d <= 31.
Proof. exact days_civil_days. Qed.
Print Assumptions C26_days_civil_days.

Theorem C26_civil_days_civil : forall y m d,
  valid_date y m d = true -> civil_from_days (days_from_civil y m d) = (y, m, d).
Proof. exact civil_days_civil. Qed.
Print Assumptions C26_civil_days_civil.

(* non-vacuity: the default format (made absolute, with extension) is well-formed and identifies the
   instant; a concrete segment name round-trips in a +01:00 zone; a %z format likewise *)
Definition f_default : list Z :=  (* /rec/%path/%Y-%m-%d_%H-%M-%S-%f.mp4 *)
  [47;114;101;99;47; 37;112;97;116;104; 47; 37;89;45;37;109;45;37;100;95;37;72;45;37;77;45;37;83;45;37;102; 46;109;112;52].
Definition f_zone : list Z :=     (* %path/%Y-%m-%d_%H-%M-%S-%f%z *)
  [37;112;97;116;104; 47; 37;89;45;37;109;45;37;100;95;37;72;45;37;77;45;37;83;45;37;102;37;122].
Example C26_example :
  let t := mkI 1704099600 123456789 3600 in
  wf_format f_default = true /\ identifies (tokenize f_default) = true /\
  encodable 3600 (tokenize f_default) t = true /\ valid_name [97;47;98] = true /\
  decode 3600 f_default (encode_go f_default [97;47;98] t) = Some ([97;47;98], 1704099600, 123456000) /\
  wf_format f_zone = true /\ encodable 0 (tokenize f_zone) t = true /\
  decode 0 f_zone (encode_go f_zone [97;47;98] t) = Some ([97;47;98], 1704099600, 123456000) /\
  decode 3600 f_default (encode_go f_default [97;47;98] t ++ [46;98;97;107]) = None.
Proof. vm_compute. repeat split. Qed.
