(* C14 — Path configuration resolution is deterministic and precedence-correct.
   Only statements here; every proof is `exact <lemma of Proofs/C14_PathConf.v>`.

   `find m cs n` is the model of conf.FindPathConf(pathConfs, n): cs is the Go map in ANY iteration order
   (association list key -> configuration, C is the configuration payload), m is the regexp oracle
   (m k n = the FindStringSubmatch result of the regexp that Path.validate compiled for key k, on name n).
   All theorems hold for every oracle, every payload type, every configuration set and every name. *)
From Coq Require Import List ZArith Permutation Sorted.
Require Import MTX.Model.C14_PathConf MTX.Proofs.C14_PathConf.
Import ListNotations.
Local Open Scope Z_scope.

(* a configuration stored under exactly the requested name wins, with no capture groups - whatever the
   name looks like (the lookup precedes validation: a name equal to a regexp key is accepted, see C06) *)
Theorem C14_exact_first : forall (C : Type) (m : str -> str -> option (list str)) (cs : list (str * C)) n c,
  NoDup (map fst cs) -> In (n, c) cs -> find m cs n = Found n c [].
Proof. exact @find_exact. Qed.
Print Assumptions C14_exact_first.

(* otherwise, for a valid name: the answer is (k, c, g) iff k is a regexp configuration matching n with
   groups g and every other matching regexp configuration comes after k in name order, all/all_others last *)
Theorem C14_first_regex_in_order : forall (C : Type) (m : str -> str -> option (list str)) (cs : list (str * C)) n k c g,
  ~ In n (map fst cs) -> valid_name n = true -> NoDup (map fst cs) -> at_most_one_catch_all cs ->
  (find m cs n = Found k c g <->
   In (k, c) cs /\ is_regex_key k = true /\ m k n = Some g /\
   forall k' c', In (k', c') cs -> is_regex_key k' = true -> m k' n <> None -> k' = k \/ before k k').
Proof. exact @find_first_regex. Qed.
Print Assumptions C14_first_regex_in_order.

(* rejected iff no exact key and (invalid name or no regexp configuration matches) *)
Theorem C14_reject_otherwise : forall (C : Type) (m : str -> str -> option (list str)) (cs : list (str * C)) n,
  is_rejected (find m cs n) <->
  ~ In n (map fst cs) /\
  (valid_name n = false \/ forall k c, In (k, c) cs -> is_regex_key k = true -> m k n = None).
Proof. exact @find_reject_iff. Qed.
Print Assumptions C14_reject_otherwise.

(* map iteration order does not matter *)
Theorem C14_order_independent : forall (C : Type) (m : str -> str -> option (list str)) (cs cs' : list (str * C)) n,
  NoDup (map fst cs) -> Permutation cs cs' -> at_most_one_catch_all cs ->
  find m cs n = find m cs' n.
Proof. exact @find_perm. Qed.
Print Assumptions C14_order_independent.

(* nor does the sorting algorithm: ANY permutation of the regexp configurations that satisfies
   sort.Slice's postcondition for the comparator is the list the model uses *)
Theorem C14_any_sort : forall (C : Type) (cs l : list (str * C)),
  NoDup (map fst cs) -> at_most_one_catch_all cs ->
  Permutation l (regex_confs cs) -> sorted_by_less l -> l = sort_confs (regex_confs cs).
Proof. exact @any_sort_unique. Qed.
Print Assumptions C14_any_sort.

(* the catch-all hypothesis is necessary: the comparator ties `all` with `all_others`, so with both present
   (Conf.Validate refuses that) two iteration orders give different answers *)
Theorem C14_tie_without_hypothesis :
  exists (cs cs' : list (str * Z)) n,
    NoDup (map fst cs) /\ Permutation cs cs' /\ find ex_oracle cs n <> find ex_oracle cs' n.
Proof. exact tie_refuted. Qed.
Print Assumptions C14_tie_without_hypothesis.

(* non-vacuity: static hit, least regexp with its groups, catch-all last although "all_others" < "~...",
   a regexp key used as a name, invalid and unconfigured names *)
Example C14_example :
  let cs := [(k_foo2, 2); (s_all_others, 9); (n_foo ++ [47; 120], 5); (k_foo1, 1)] in
  let nobar := [98; 97; 114] in
  NoDup (map fst cs) /\
  find ex_oracle cs (n_foo ++ [47; 120]) = Found (n_foo ++ [47; 120]) 5 [] /\
  find ex_oracle cs n_foo = Found k_foo1 1 [n_foo; g_f] /\
  find ex_oracle (rev cs) n_foo = Found k_foo1 1 [n_foo; g_f] /\
  find ex_oracle cs nobar = Found s_all_others 9 [nobar] /\
  find ex_oracle cs k_foo1 = Found k_foo1 1 [] /\
  find ex_oracle cs [46; 46; 47; 120] = ErrInvalid /\
  find ex_oracle [(k_foo1, 1)] nobar = ErrNotConfigured.
Proof.
  cbv zeta. split; [repeat constructor; simpl; intuition discriminate|].
  vm_compute. repeat split.
Qed.
