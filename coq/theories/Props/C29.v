(* C29 - placeholder while the correspondence is being brought up; replaced by the real statements. *)
From Coq Require Import List ZArith.
Require Import MTX.Model.C29_Playback.
Import ListNotations.
Theorem C29_placeholder : concatenate [] = [].
Proof. reflexivity. Qed.
Print Assumptions C29_placeholder.
