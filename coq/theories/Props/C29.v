(* C29 - Playback list/get return exactly the recorded media in range.
   Only statements here; every proof is `exact <lemma of Proofs/C29_List.v / Proofs/C29_Get.v>`.

   Vocabulary (Proofs/C29_List.v): rec_ok = recorder invariant on the segment list (strictly increasing starts,
   durations >= 0, a segment that does not continue its predecessor starts at or after the predecessor's end, one
   that continues it does not end before it); bridged a b = segmentFMP4CanBeConcatenated on consecutive files;
   runs = maximal runs of segments continuing each other; hull = [start of the first, end of the last);
   recorded / recorded_hull = an instant lies in a segment / between the start of a segment and the end of one
   that continues it; contiguous = no jitter between a segment and the one that continues it.
   (Proofs/C29_Get.v): played = the segments seekAndMux plays with their time offsets; read_rows = recorded samples
   of a track in the parts that are read, with decode times relative to the requested start; all_rows = the same
   over all parts; tracks_sorted = per track these times never go back and advance by < 2^32; srows = a sample
   table without durations; no_cut = the guard excluding the known finding (KNOWN_FINDINGS get:*cut-short). *)
From Coq Require Import List ZArith Bool.
Require Import MTX.Model.C29_Playback MTX.Proofs.C29_List MTX.Proofs.C29_Get.
Import ListNotations.
Local Open Scope Z_scope.

(* ------------------------------------------------------------------ /list *)

(* spans are time-ordered, non-overlapping and never of negative length, for every window *)
Theorem C29_list_sorted_disjoint : forall all st en es,
  rec_ok all -> on_list all st en = LEntries es -> entries_sorted es.
Proof. exact list_sorted_disjoint. Qed.
Print Assumptions C29_list_sorted_disjoint.

(* union of the spans = recorded media clipped to the window, as sets of instants *)
Theorem C29_list_cover : forall all st en es,
  rec_ok all -> contiguous all -> on_list all st en = LEntries es ->
  forall t, in_entries es t <-> recorded all t /\ in_window st en t.
Proof. exact list_cover. Qed.
Print Assumptions C29_list_cover.

(* with NTP/DTS jitter between a segment and the one that continues it, the answer lies between the two
   readings of "recorded": everything inside a segment is covered, nothing outside the hull of a run is *)
Theorem C29_list_cover_jitter : forall all st en es,
  rec_ok all -> on_list all st en = LEntries es -> forall t,
  (in_entries es t -> in_window st en t /\ recorded_hull all t) /\
  (recorded all t -> in_window st en t -> in_entries es t).
Proof. exact list_cover_bounds. Qed.
Print Assumptions C29_list_cover_jitter.

(* 404 only if nothing was recorded inside the window *)
Theorem C29_list_notfound : forall all st en,
  rec_ok all -> on_list all st en = LNotFound -> forall t, in_window st en t -> ~ recorded all t.
Proof. exact list_notfound. Qed.
Print Assumptions C29_list_notfound.

(* an end before the start is rejected (fix ed2cfb0; before it: a span of negative length, see the Example below) *)
Theorem C29_list_reversed_rejected : forall all v e, e < v -> on_list all (Some v) (Some e) = LBadRequest.
Proof. exact list_reversed_rejected. Qed.
Print Assumptions C29_list_reversed_rejected.

(* the merged entries are exactly the hulls of the maximal runs: only consecutive files that continue each other
   are merged, and every such pair is *)
Theorem C29_merge_only_consecutive : forall l,
  concatenate l = map hull (runs l) /\ concat (runs l) = l /\
  Forall (fun g => g <> [] /\ chain g) (runs l) /\ runs_separated (runs l).
Proof. exact merge_only_consecutive. Qed.
Print Assumptions C29_merge_only_consecutive.

(* "continues": same stream id and consecutive numbers; files without the mtxi box: same tracks and at most 1 s apart *)
Theorem C29_continues_iff : forall a b, bridged a b = true <->
  match s_mtxi a, s_mtxi b with
  | Some m1, Some m2 => mx_sid m1 = mx_sid m2 /\ (mx_num m1 + 1) mod 2 ^ 64 = mx_num m2
  | None, None => s_tracks a = s_tracks b /\ seg_end a - second <= s_start b <= seg_end a + second
  | _, _ => False
  end.
Proof. exact bridged_iff. Qed.
Print Assumptions C29_continues_iff.

(* ------------------------------------------------------------------ /get *)

(* the sample table of every track of the returned file: pre-roll, then exactly the recorded samples (of the parts
   read) whose decode time relative to the requested start lies in [0, duration), in recorded order, with that time *)
Theorem C29_get_table : forall all start dur ps g0 off rest,
  on_get all start dur = Ok ps ->
  played all start dur = (g0, off) :: rest ->
  let tracks := s_tracks (g_seg g0) in
  NoDup (track_ids tracks) ->
  tracks_sorted dur tracks (played all start dur) ->
  forall id ts c, In (id, ts, c) tracks ->
  srows (flat_track id ps) =
  expected_rows (filter (lt_d (go_to_mp4 dur ts)) (read_rows id ts dur tracks (played all start dur))).
Proof. exact get_table. Qed.
Print Assumptions C29_get_table.

(* full strength (window over ALL parts of the played segments) is false: reading stops at the first part in which
   any track reaches the end of the window *)
Theorem C29_get_window_refuted :
  exists all start dur ps g0 off rest id ts c x,
    on_get all start dur = Ok ps /\ played all start dur = (g0, off) :: rest /\
    NoDup (track_ids (s_tracks (g_seg g0))) /\
    tracks_sorted dur (s_tracks (g_seg g0)) (played all start dur) /\
    In (id, ts, c) (s_tracks (g_seg g0)) /\
    In x (filter (in_win (go_to_mp4 dur ts)) (all_rows id ts (played all start dur))) /\
    ~ In (strip (fst x), snd x) (srows (flat_track id ps)).
Proof. exact get_window_refuted. Qed.
Print Assumptions C29_get_window_refuted.

(* partial: with the guard no_cut, the table is a pre-roll (no longer than the samples before the start) followed by
   exactly the samples of the window, in recorded order, re-based to the requested start *)
Theorem C29_get_window_partial : forall all start dur ps g0 off rest,
  on_get all start dur = Ok ps ->
  played all start dur = (g0, off) :: rest ->
  let tracks := s_tracks (g_seg g0) in
  let vis := played all start dur in
  NoDup (track_ids tracks) -> tracks_sorted dur tracks vis ->
  forall id ts c, In (id, ts, c) tracks -> no_cut id ts dur tracks vis ->
  exists pre, srows (flat_track id ps) = pre ++ srows (filter (in_win (go_to_mp4 dur ts)) (all_rows id ts vis))
              /\ (length pre <= length (filter neg_t (read_rows id ts dur tracks vis)))%nat.
Proof. exact get_window_partial. Qed.
Print Assumptions C29_get_window_partial.

(* the pre-roll: nothing if the first sample of the window is a sync sample (or the window is empty), otherwise
   the samples before the start from their last sync sample on (all of them if none is), each at the decode
   time of the first sample of the window, i.e. with zero duration *)
Theorem C29_get_preroll : forall all start dur ps g0 off rest,
  on_get all start dur = Ok ps ->
  played all start dur = (g0, off) :: rest ->
  let tracks := s_tracks (g_seg g0) in
  let vis := played all start dur in
  NoDup (track_ids tracks) -> tracks_sorted dur tracks vis ->
  forall id ts c, In (id, ts, c) tracks ->
  let rows := read_rows id ts dur tracks vis in
  match filter (in_win (go_to_mp4 dur ts)) rows with
  | [] => srows (flat_track id ps) = []
  | (s0, t0) :: _ =>
      exists before keep,
        map fst (filter neg_t rows) = before ++ keep /\
        srows (flat_track id ps) =
          map (fun p => (strip p, t0)) (if sm_sync s0 then [] else keep) ++ srows (filter (in_win (go_to_mp4 dur ts)) rows) /\
        forallb (fun s => negb (sm_sync s)) (tl keep) = true /\
        (before = [] \/ exists k r, keep = k :: r /\ sm_sync k = true)
  end.
Proof. exact get_preroll. Qed.
Print Assumptions C29_get_preroll.

(* 404 after the reader went through the played segments: no track has a sample of the window in the parts read
   (mux_all = seekAndMux without its final flush) *)
Theorem C29_get_notfound : forall all start dur segs m0,
  find_segments g_start all (Some start) (Some (start + dur)) = Some segs ->
  mux_all segs start dur = Ok m0 -> on_get all start dur = ErrNotFound ->
  exists g0 rest, played all start dur = (g0, g_start g0 - start) :: rest /\
    let tracks := s_tracks (g_seg g0) in
    (NoDup (track_ids tracks) -> tracks_sorted dur tracks (played all start dur) ->
     forall id ts c, In (id, ts, c) tracks ->
       filter (in_win (go_to_mp4 dur ts)) (read_rows id ts dur tracks (played all start dur)) = []).
Proof. exact get_notfound_after_reading. Qed.
Print Assumptions C29_get_notfound.

(* the played segments: the first one FindSegments returns, then files that continue their predecessor *)
Theorem C29_get_played_consecutive : forall all start dur segs,
  find_segments g_start all (Some start) (Some (start + dur)) = Some segs ->
  played all start dur <> [] ->
  exists g0 rest, played all start dur = (g0, g_start g0 - start) :: rest /\
    chain_from (g_seg g0) (g_start g0 - start) start (g_seg g0) rest /\
    map fst (played all start dur) = firstn (length (played all start dur)) segs.
Proof. exact played_chain. Qed.
Print Assumptions C29_get_played_consecutive.

(* ------------------------------------------------------------------ non-vacuity *)

Definition ex_mx (n d : Z) := Some (mkMtxi 7 n d).
Definition ex_rec : list seg :=
  [ mkSeg 1000 2000 (ex_mx 4 0) [(1, 90000, 1)];
    mkSeg 3000 2500 (ex_mx 5 2000) [(1, 90000, 1)];         (* continues the first, contiguous *)
    mkSeg 9000 1000 (Some (mkMtxi 8 0 0)) [(1, 90000, 1)] ].  (* another stream, after a gap *)

Example C29_list_example :
  rec_ok ex_rec /\ contiguous ex_rec /\
  on_list ex_rec (Some 1500) (Some 9400) = LEntries [mkEntry 1500 4000; mkEntry 9000 400] /\
  on_list ex_rec (Some 6000) (Some 8000) = LNotFound /\
  on_list ex_rec (Some 5500) None = LEntries [mkEntry 5500 0; mkEntry 9000 1000] /\
  runs ex_rec = [[nth 0 ex_rec (mkSeg 0 0 None []); nth 1 ex_rec (mkSeg 0 0 None [])]; [nth 2 ex_rec (mkSeg 0 0 None [])]].
Proof. vm_compute. repeat split; try discriminate; intros; reflexivity. Qed.

(* the defect repaired by ed2cfb0, on the handler as it was (witness replayed on the real endpoint:
   segment 2012-08-04_22-20-56-061000.mp4 of 1.1 s, start = ...56.853577777, end = ...56.461000037) *)
Example C29_list_reversed_before_fix :
  on_list_core [mkSeg 1344118856061000000 1100000000 None []] (Some 1344118856853577777) (Some 1344118856461000037)
  = Some [mkEntry 1344118856853577777 (-392577740)].
Proof. vm_compute. reflexivity. Qed.

Example C29_get_example :
  on_get [wit_seg] 0 450000000 = Ok [[mkO 1 0 [mkSample 1 500 true 0]; mkO 2 0 [mkSample 2 400 true 0; mkSample 3 400 true 0]]]
  /\ played [wit_seg] 0 450000000 = [(wit_seg, 0)]
  /\ no_cut 1 1000 450000000 (s_tracks (g_seg wit_seg)) (played [wit_seg] 0 450000000)
  /\ no_cut 2 1000 450000000 (s_tracks (g_seg wit_seg)) (played [wit_seg] 0 450000000).
Proof. exact get_window_example. Qed.
