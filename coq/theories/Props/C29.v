(* C29 - Playback list/get return exactly the recorded media in range.
   Only statements here; every proof is `exact <lemma of Proofs/C29_*.v>`. (get part: in progress) *)
From Coq Require Import List ZArith Bool.
Require Import MTX.Model.C29_Playback MTX.Proofs.C29_List.
Import ListNotations.
Local Open Scope Z_scope.

Theorem C29_list_sorted_disjoint : forall all st en es,
  rec_ok all -> on_list all st en = LEntries es -> entries_sorted es.
Proof. exact list_sorted_disjoint. Qed.
Print Assumptions C29_list_sorted_disjoint.
