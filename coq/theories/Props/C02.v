(* C02 - HTTP and JWT authentication admit only what the authority grants.
   Only statements here; every proof is `exact <lemma of Proofs/C02_AuthExt.v>`.

   Model (Model/C02_AuthExt.v): get_token = getToken (with a model of url.ParseQuery / QueryUnescape), authenticate_http =
   authenticateHTTP + the AskCredentials flag of Authenticate, http_body = the json.Marshal'ed POST body (Lib/Json's
   json_string is encoding/json's string encoder), authenticate_jwt = authenticateJWT, claim_perms = the claim decoding of
   jwtClaims.UnmarshalJSON; matches_permission / excluded are C01's model of matchesPermission.
   Oracles, quantified over in every theorem: rx (regexp), post (the auth server's answer to a body), jwt_parse
   (golang-jwt + JWKS keyfunc + the parser options: Some (subject, raw claim) iff signature, alg, exp/nbf, iss, aud
   verify), dec_perms / dec_str (encoding/json on the raw claim). The issuer/audience settings are modelled, not oracle:
   authenticate_jwt_cfg = authenticate_jwt on parse_with_claims jwt_verify (parser_opts JWTIssuer JWTAudience), where
   jwt_verify is golang-jwt + keyfunc WITHOUT options (signature, alg, exp/nbf; returns sub, iss, aud, raw claim),
   parser_opts is the option list authenticateJWT builds and opt_ok is golang-jwt's verifyIssuer / verifyAudience. *)
From Coq Require Import List ZArith Bool.
Require Import MTX.Lib.Utf8 MTX.Lib.Json MTX.Model.C01_Auth MTX.Model.C02_AuthExt MTX.Proofs.C02_AuthExt.
Require Import MTX.Model.C02_Jwks MTX.Proofs.C02_Jwks.
Import ListNotations.
Local Open Scope Z_scope.

(* http method: granted iff excluded (as the empty user), or the auth server answers 2xx to the POST of http_body
   (as the supplied user) *)
Theorem C02_http_iff : forall rx post ex r u,
  authenticate_http rx post ex r = Granted u <->
  (excluded rx ex r = true /\ u = []) \/
  (excluded rx ex r = false /\ u = x_user r /\
   exists st, post (http_body r (get_token false r)) = Some st /\ 200 <= st <= 299).
Proof. exact http_iff. Qed.
Print Assumptions C02_http_iff.

(* a POST is made exactly when the request is not excluded, and it carries http_body with the selected token *)
Theorem C02_http_posted : forall rx ex r b,
  http_posted rx ex r = Some b <-> excluded rx ex r = false /\ b = http_body r (get_token false r).
Proof. exact http_posted_iff. Qed.
Print Assumptions C02_http_posted.

(* the posted body is a JSON object whose members are, in order, ip, user, password, token, action, path, protocol, id,
   query, userAgent with the request's values (strings as encoding/json transmits them: ill-formed UTF-8 becomes U+FFFD) *)
Theorem C02_http_body : forall r tok, req_bytes r tok ->
  parse_obj (http_body r tok) =
  Some ([ ([105; 112], JStr (sanitize (x_ipstr r)));
          ([117; 115; 101; 114], JStr (sanitize (x_user r)));
          ([112; 97; 115; 115; 119; 111; 114; 100], JStr (sanitize (x_pass r)));
          ([116; 111; 107; 101; 110], JStr (sanitize tok));
          ([97; 99; 116; 105; 111; 110], JStr (sanitize (x_action r)));
          ([112; 97; 116; 104], JStr (sanitize (x_path r)));
          ([112; 114; 111; 116; 111; 99; 111; 108], JStr (sanitize (x_proto r)));
          ([105; 100], match x_id r with Some u => JStr (sanitize u) | None => JNull end);
          ([113; 117; 101; 114; 121], JStr (sanitize (x_query r)));
          ([117; 115; 101; 114; 65; 103; 101; 110; 116], JStr (sanitize (x_agent r))) ], []).
Proof. exact http_body_decodes. Qed.
Print Assumptions C02_http_body.

(* with well-formed UTF-8 the user, password, token, path and query arrive unchanged *)
Theorem C02_http_body_exact : forall r tok, req_bytes r tok ->
  valid_utf8 (x_user r) = true -> valid_utf8 (x_pass r) = true -> valid_utf8 tok = true ->
  valid_utf8 (x_path r) = true -> valid_utf8 (x_query r) = true ->
  exists ms, parse_obj (http_body r tok) = Some (ms, []) /\
    In ([117; 115; 101; 114], JStr (x_user r)) ms /\
    In ([112; 97; 115; 115; 119; 111; 114; 100], JStr (x_pass r)) ms /\
    In ([116; 111; 107; 101; 110], JStr tok) ms /\
    In ([112; 97; 116; 104], JStr (x_path r)) ms /\
    In ([113; 117; 101; 114; 121], JStr (x_query r)) ms.
Proof. exact http_body_exact. Qed.
Print Assumptions C02_http_body_exact.

(* jwt method: granted iff excluded (as the empty user), or the JWKS is available, a token is present, it verifies, its
   permission claim decodes and grants the action on the path (as the token's subject) *)
Theorem C02_jwt_iff : forall rx jwt_parse dec_perms dec_str ex jwks_ok inq r u,
  authenticate_jwt rx jwt_parse dec_perms dec_str ex jwks_ok inq r = Granted u <->
  (excluded rx ex r = true /\ u = []) \/
  (excluded rx ex r = false /\ jwks_ok = true /\
   let tok := get_token (in_query_flag true inq) r in
   tok <> [] /\
   exists raw ps, jwt_parse tok = Some (u, Some raw) /\ claim_perms dec_perms dec_str raw = Some ps /\
                  matches_permission rx ps (x_action r) (x_path r) = true).
Proof. exact jwt_iff. Qed.
Print Assumptions C02_jwt_iff.

(* jwt method with its issuer/audience settings, for ALL settings: granted iff excluded, or the JWKS is available, a token
   is present, it verifies (signature/alg/exp/nbf), its iss claim IS the configured issuer when one is configured, the
   configured audience IS AMONG its aud claim when one is configured, and its permission claim grants the action on the path *)
Theorem C02_jwt_cfg_iff : forall rx jwt_verify dec_perms dec_str issuer audience ex jwks_ok inq r u,
  authenticate_jwt_cfg rx jwt_verify dec_perms dec_str issuer audience ex jwks_ok inq r = Granted u <->
  (excluded rx ex r = true /\ u = []) \/
  (excluded rx ex r = false /\ jwks_ok = true /\
   let tok := get_token (in_query_flag true inq) r in
   tok <> [] /\
   exists c raw ps, jwt_verify tok = Some c /\ u = jc_sub c /\
                    (issuer = [] \/ jc_iss c = issuer) /\ (audience = [] \/ In audience (jc_aud c)) /\
                    jc_raw c = Some raw /\ claim_perms dec_perms dec_str raw = Some ps /\
                    matches_permission rx ps (x_action r) (x_path r) = true).
Proof. exact jwt_cfg_iff. Qed.
Print Assumptions C02_jwt_cfg_iff.

(* each configured setting is enforced whatever the other setting is: a verifying token whose iss is not the configured
   issuer (in particular: absent), resp. whose aud does not contain the configured audience (absent, empty, other values),
   is never granted *)
Theorem C02_jwt_issuer_enforced : forall rx jwt_verify dec_perms dec_str issuer audience ex jwks_ok inq r c,
  issuer <> [] -> excluded rx ex r = false ->
  jwt_verify (get_token (in_query_flag true inq) r) = Some c -> jc_iss c <> issuer ->
  forall u, authenticate_jwt_cfg rx jwt_verify dec_perms dec_str issuer audience ex jwks_ok inq r <> Granted u.
Proof. exact jwt_cfg_wrong_issuer. Qed.
Print Assumptions C02_jwt_issuer_enforced.

Theorem C02_jwt_audience_enforced : forall rx jwt_verify dec_perms dec_str issuer audience ex jwks_ok inq r c,
  audience <> [] -> excluded rx ex r = false ->
  jwt_verify (get_token (in_query_flag true inq) r) = Some c -> ~ In audience (jc_aud c) ->
  forall u, authenticate_jwt_cfg rx jwt_verify dec_perms dec_str issuer audience ex jwks_ok inq r <> Granted u.
Proof. exact jwt_cfg_wrong_audience. Qed.
Print Assumptions C02_jwt_audience_enforced.

(* the settings only restrict: whatever is granted under some issuer/audience settings is granted with none configured *)
Theorem C02_jwt_settings_restrict : forall rx jwt_verify dec_perms dec_str issuer audience ex jwks_ok inq r u,
  authenticate_jwt_cfg rx jwt_verify dec_perms dec_str issuer audience ex jwks_ok inq r = Granted u ->
  authenticate_jwt_cfg rx jwt_verify dec_perms dec_str [] [] ex jwks_ok inq r = Granted u.
Proof. exact jwt_cfg_unset_monotone. Qed.
Print Assumptions C02_jwt_settings_restrict.

(* the option list authenticateJWT passes to golang-jwt: WithIssuer iff an issuer is configured, WithAudience iff an
   audience is configured - both when both are - and what golang-jwt's checks for them accept *)
Theorem C02_parser_opts : forall issuer audience o,
  In o (parser_opts issuer audience) <->
  (o = WithIssuer issuer /\ issuer <> []) \/ (o = WithAudience audience /\ audience <> []).
Proof. exact parser_opts_in. Qed.
Print Assumptions C02_parser_opts.

Theorem C02_opt_issuer : forall c s, s <> [] -> (opt_ok c (WithIssuer s) = true <-> jc_iss c = s).
Proof. exact opt_issuer_spec. Qed.
Print Assumptions C02_opt_issuer.

Theorem C02_opt_audience : forall c s, s <> [] -> (opt_ok c (WithAudience s) = true <-> In s (jc_aud c)).
Proof. exact opt_audience_spec. Qed.
Print Assumptions C02_opt_audience.

(* where the token comes from: the token field, else the password, else - only for RTSP/RTMP, or for HLS/WebRTC/playback/
   api/metrics/pprof requests when JWT-in-HTTP-query is on - the single "token" query parameter, else the single "jwt"
   one (of a query url.ParseQuery accepts), else nothing *)
Theorem C02_token_precedence : forall inq r t,
  get_token inq r = t <->
  (x_token r <> [] /\ t = x_token r) \/
  (x_token r = [] /\ x_pass r <> [] /\ t = x_pass r) \/
  (x_token r = [] /\ x_pass r = [] /\ query_allowed_spec inq r /\ query_token_spec (x_query r) t) \/
  (x_token r = [] /\ x_pass r = [] /\ ~ query_allowed_spec inq r /\ t = []).
Proof. exact token_precedence. Qed.
Print Assumptions C02_token_precedence.

(* the query model on queries assembled from keys/values free of & ; = % + (every JWT is): the pairs come back *)
Theorem C02_query_clean : forall ps, forallb clean_pair ps = true -> parse_query (encode_pairs ps) = (false, ps).
Proof. exact parse_query_clean. Qed.
Print Assumptions C02_query_clean.

(* the permission claim as a JSON array and as a string holding that array give the same permission list *)
Theorem C02_claim_forms : forall (dec_perms : list Z -> option (list perm)) (dec_str : list Z -> option (list Z)) arr str ps,
  dec_perms arr = Some ps -> dec_perms str = None -> dec_str str = Some arr ->
  claim_perms dec_perms dec_str arr = Some ps /\ claim_perms dec_perms dec_str str = Some ps.
Proof. exact claim_forms. Qed.
Print Assumptions C02_claim_forms.

(* a claim that is neither is rejected; so is a verified token without the claim *)
Theorem C02_claim_garbage : forall (dec_perms : list Z -> option (list perm)) (dec_str : list Z -> option (list Z)) raw,
  dec_perms raw = None ->
  (dec_str raw = None \/ exists s, dec_str raw = Some s /\ dec_perms s = None) ->
  claim_perms dec_perms dec_str raw = None.
Proof. exact claim_garbage. Qed.
Print Assumptions C02_claim_garbage.

Theorem C02_jwt_missing_claim : forall rx jwt_parse dec_perms dec_str ex inq r tok sub,
  get_token (in_query_flag true inq) r = tok -> jwt_parse tok = Some (sub, None) ->
  excluded rx ex r = false ->
  forall u, authenticate_jwt rx jwt_parse dec_perms dec_str ex true inq r <> Granted u.
Proof. exact jwt_missing_claim. Qed.
Print Assumptions C02_jwt_missing_claim.

(* denied requests ask for credentials iff asking is enabled and no user, password or token (from any source) came *)
Theorem C02_http_ask : forall rx post ex r a, authenticate_http rx post ex r = Denied a ->
  (a = true <-> x_ask r = true /\ x_user r = [] /\ x_pass r = [] /\ get_token false r = []).
Proof. exact http_ask. Qed.
Print Assumptions C02_http_ask.

Theorem C02_jwt_ask : forall rx jwt_parse dec_perms dec_str ex jwks_ok inq r a,
  authenticate_jwt rx jwt_parse dec_perms dec_str ex jwks_ok inq r = Denied a ->
  (a = true <-> x_ask r = true /\ x_user r = [] /\ x_pass r = [] /\ get_token (in_query_flag true inq) r = []).
Proof. exact jwt_ask. Qed.
Print Assumptions C02_jwt_ask.

Theorem C02_jwt_cfg_ask : forall rx jwt_verify dec_perms dec_str issuer audience ex jwks_ok inq r a,
  authenticate_jwt_cfg rx jwt_verify dec_perms dec_str issuer audience ex jwks_ok inq r = Denied a ->
  (a = true <-> x_ask r = true /\ x_user r = [] /\ x_pass r = [] /\ get_token (in_query_flag true inq) r = []).
Proof. exact jwt_cfg_ask. Qed.
Print Assumptions C02_jwt_cfg_ask.

(* ---- which JWKS keys: the cache of pullJWTJWKS over a history of calls on one Manager (Model/C02_Jwks.v) -------------
   K: key sets; verify k: golang-jwt with the key function built from k; EAuth served r: Authenticate(r) while the JWKS server
   would answer `served`; ERefresh: RefreshJWTJWKS; EExpire: the refresh period passes. *)

(* after a refresh (or expiry), whatever happened before and whatever happens in between: a request granted later - not
   being excluded - is granted under a key set the server handed out after that moment; in particular a token signed with
   a key that was withdrawn before the refresh is no longer admitted *)
Theorem C02_jwks_refresh_honoured :
  forall (K : Type) rx (verify : K -> list Z -> option jclaims) dec_perms dec_str issuer audience ex inq st evs served r st' u,
  auth_step K rx verify dec_perms dec_str issuer audience ex inq
    (fst (run K rx verify dec_perms dec_str issuer audience ex inq (invalidate K st) evs)) served r = (st', Granted u) ->
  excluded rx ex r = false ->
  exists k, In k (served_keys K (evs ++ [EAuth K served r])) /\
            authenticate_jwt_cfg rx (verify k) dec_perms dec_str issuer audience ex true inq r = Granted u.
Proof. exact refresh_honoured. Qed.
Print Assumptions C02_jwks_refresh_honoured.

(* a stale cache and a JWKS server without a usable answer: denied, state unchanged - no fallback to the old keys *)
Theorem C02_jwks_no_stale_fallback :
  forall (K : Type) rx (verify : K -> list Z -> option jclaims) dec_perms dec_str issuer audience ex inq st r,
  js_fresh K st = false -> excluded rx ex r = false ->
  exists a, auth_step K rx verify dec_perms dec_str issuer audience ex inq st None r = (st, Denied a).
Proof. exact stale_fetch_failure. Qed.
Print Assumptions C02_jwks_no_stale_fallback.

(* a stale cache and an answering server: the served keys decide and are cached; a fresh cache: the cached keys decide
   whatever the server would answer; excluded requests never consult the JWKS *)
Theorem C02_jwks_fetch :
  forall (K : Type) rx (verify : K -> list Z -> option jclaims) dec_perms dec_str issuer audience ex inq st k r,
  js_fresh K st = false -> excluded rx ex r = false ->
  auth_step K rx verify dec_perms dec_str issuer audience ex inq st (Some k) r =
  ({| js_fresh := true; js_keys := Some k |},
   authenticate_jwt_cfg rx (verify k) dec_perms dec_str issuer audience ex true inq r).
Proof. exact stale_fetch_success. Qed.
Print Assumptions C02_jwks_fetch.

Theorem C02_jwks_cached :
  forall (K : Type) rx (verify : K -> list Z -> option jclaims) dec_perms dec_str issuer audience ex inq st k served r,
  js_fresh K st = true -> js_keys K st = Some k -> excluded rx ex r = false ->
  auth_step K rx verify dec_perms dec_str issuer audience ex inq st served r =
  (st, authenticate_jwt_cfg rx (verify k) dec_perms dec_str issuer audience ex true inq r).
Proof. exact fresh_cache_used. Qed.
Print Assumptions C02_jwks_cached.

Theorem C02_jwks_excluded :
  forall (K : Type) rx (verify : K -> list Z -> option jclaims) dec_perms dec_str issuer audience ex inq st served r,
  excluded rx ex r = true ->
  auth_step K rx verify dec_perms dec_str issuer audience ex inq st served r = (st, Granted []).
Proof. exact excluded_no_fetch. Qed.
Print Assumptions C02_jwks_excluded.

(* every state reachable from a new Manager has a key function whenever its cache is fresh (no nil key function) *)
Theorem C02_jwks_reachable :
  forall (K : Type) rx (verify : K -> list Z -> option jclaims) dec_perms dec_str issuer audience ex inq evs,
  let st := fst (run K rx verify dec_perms dec_str issuer audience ex inq (js_init K) evs) in
  js_fresh K st = true -> js_keys K st <> None.
Proof. exact reachable_wf. Qed.
Print Assumptions C02_jwks_reachable.

(* non-vacuity *)
Definition ex_req (tok pass proto action query : list Z) : xreq :=
  {| x_user := [117]; x_pass := pass; x_token := tok; x_ipstr := [49]; x_action := action; x_path := [112]; x_proto := proto;
     x_id := None; x_query := query; x_agent := []; x_ask := true |}.

Example C02_example :
  (* token=T1&jwt=J over RTSP: the token parameter; duplicated token parameter: the jwt one; over HLS only when allowed;
     a malformed escape anywhere voids the query; the password beats the query; the token field beats the password *)
  get_token false (ex_req [] [] p_rtsp a_read [116;111;107;101;110;61;84;49;38;106;119;116;61;74]) = [84; 49] /\
  get_token false (ex_req [] [] p_rtsp a_read [116;111;107;101;110;61;84;49;38;116;111;107;101;110;61;84;50;38;106;119;116;61;74]) = [74] /\
  get_token false (ex_req [] [] p_hls a_read [116;111;107;101;110;61;84;49]) = [] /\
  get_token true (ex_req [] [] p_hls a_read [116;111;107;101;110;61;84;49]) = [84; 49] /\
  get_token true (ex_req [] [] [115;114;116] a_read [116;111;107;101;110;61;84;49]) = [] /\
  get_token true (ex_req [] [] [115;114;116] a_playback [116;111;107;101;110;61;37;53;52;43]) = [84; 32] /\
  get_token false (ex_req [] [] p_rtsp a_read [116;111;107;101;110;61;84;49;38;120;61;37;122]) = [] /\
  get_token false (ex_req [] [80] p_rtsp a_read [116;111;107;101;110;61;84;49]) = [80] /\
  get_token false (ex_req [70] [80] p_rtsp a_read [116;111;107;101;110;61;84;49]) = [70] /\
  (* http: 204 grants as the supplied user, 401 denies without asking (a user name came), an excluded request is granted
     as "" without any POST *)
  authenticate_http (fun _ _ => false) (fun _ => Some 204) [] (ex_req [] [] p_rtsp a_read []) = Granted [117] /\
  authenticate_http (fun _ _ => false) (fun _ => Some 401) [] (ex_req [] [] p_rtsp a_read []) = Denied false /\
  authenticate_http (fun _ _ => false) (fun _ => None) [{| p_action := a_read; p_path := [] |}] (ex_req [] [] p_rtsp a_read []) = Granted [] /\
  http_posted (fun _ _ => false) [{| p_action := a_read; p_path := [] |}] (ex_req [] [] p_rtsp a_read []) = None /\
  (* jwt: a verifying token whose claim (string form) grants read on p is granted as its subject; publish is not *)
  let parse := fun t : list Z => if list_eqb t [84] then Some ([115], Some [34; 65; 34]) else None in
  let decp := fun raw : list Z => if list_eqb raw [65] then Some [{| p_action := a_read; p_path := [112] |}] else None in
  let decs := fun raw : list Z => if list_eqb raw [34; 65; 34] then Some [65] else None in
  authenticate_jwt (fun _ _ => false) parse decp decs [] true None (ex_req [84] [] p_rtsp a_read []) = Granted [115] /\
  authenticate_jwt (fun _ _ => false) parse decp decs [] true None (ex_req [84] [] p_rtsp a_publish []) = Denied false /\
  authenticate_jwt (fun _ _ => false) parse decp decs [] true None (ex_req [85] [] p_rtsp a_read []) = Denied false /\
  authenticate_jwt (fun _ _ => false) parse decp decs [] false None (ex_req [84] [] p_rtsp a_read []) = Denied false /\
  (* issuer "I" and audience "A" both configured: token T (iss I, aud [X; A]) is granted, token U (iss I, aud X), token V
     (iss I, no aud), token W (iss J, aud A) and token Y (no iss, aud A) are not; with only the issuer configured U and V
     are granted, with only the audience configured W and Y are; with neither all five are *)
  let claims := fun iss aud => {| jc_sub := [115]; jc_iss := iss; jc_aud := aud; jc_raw := Some [34; 65; 34] |} in
  let verify := fun t : list Z =>
    if list_eqb t [84] then Some (claims [73] [[88]; [65]]) else if list_eqb t [85] then Some (claims [73] [[88]])
    else if list_eqb t [86] then Some (claims [73] []) else if list_eqb t [87] then Some (claims [74] [[65]])
    else if list_eqb t [89] then Some (claims [] [[65]]) else None in
  let cfgrun := fun iss aud t => authenticate_jwt_cfg (fun _ _ => false) verify decp decs iss aud [] true None (ex_req t [] p_rtsp a_read []) in
  map (cfgrun [73] [65]) [[84]; [85]; [86]; [87]; [89]] = [Granted [115]; Denied false; Denied false; Denied false; Denied false] /\
  map (cfgrun [73] []) [[84]; [85]; [86]; [87]; [89]] = [Granted [115]; Granted [115]; Granted [115]; Denied false; Denied false] /\
  map (cfgrun [] [65]) [[84]; [85]; [86]; [87]; [89]] = [Granted [115]; Denied false; Denied false; Granted [115]; Granted [115]] /\
  map (cfgrun [] []) [[84]; [85]; [86]; [87]; [89]] = repeat (Granted [115]) 5 /\
  parser_opts [73] [65] = [WithIssuer [73]; WithAudience [65]] /\
  (* a session: key set 1 verifies token T, key set 2 verifies token U. Served 1: T granted; the server switches to 2: T still
     granted from the cache and U denied; after RefreshJWTJWKS T is denied and U granted; after the period passed with a
     dead server both are denied; an excluded request is granted meanwhile; the server back with 1: T granted *)
  let kverify := fun (k : Z) (t : list Z) =>
    if ((k =? 1) && list_eqb t [84]) || ((k =? 2) && list_eqb t [85]) then Some (claims [] []) else None in
  let rq := fun t => ex_req t [] p_rtsp a_read [] in
  snd (run Z (fun _ _ => false) kverify decp decs [] [] [{| p_action := a_publish; p_path := [] |}] None (js_init Z)
         [EAuth Z (Some 1) (rq [84]); EAuth Z (Some 2) (rq [84]); EAuth Z (Some 2) (rq [85]); ERefresh Z;
          EAuth Z (Some 2) (rq [84]); EAuth Z (Some 2) (rq [85]); EExpire Z; EAuth Z None (rq [84]); EAuth Z None (rq [85]);
          EAuth Z None (ex_req [] [] p_rtsp a_publish []); EAuth Z (Some 1) (rq [84])]) =
  [Granted [115]; Granted [115]; Denied false; Denied false; Granted [115]; Denied false; Denied false; Granted [];
   Granted [115]].
Proof. vm_compute. repeat split. Qed.
