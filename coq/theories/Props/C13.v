(* C13 — Hot reload applies every changed parameter to running components.
   core_table / pointer_fields are generated from internal/core/core.go and internal/conf/conf.go on this run. *)
From Coq Require Import List String ZArith Bool.
Require Import MTX.Model.C13_Reload MTX.Proofs.C13_Reload MTX.Proofs.C13_Live MTXGen.C13_CoreDeps.
Import ListNotations.
Local Open Scope string_scope.
Local Open Scope list_scope.

(* --- for every table and every pair (old, new) of configurations --- *)

Theorem C13_applied : forall tbl ptrs old new, incomplete tbl = [] -> ptr_wf old new ->
  forall r f, In r tbl -> In f (params r) -> changed old new f ->
  Closes tbl ptrs old new (comp r) \/ In f (reloads r).
Proof. exact applied. Qed.
Print Assumptions C13_applied.

Theorem C13_dependents : forall tbl ptrs old new, dangling tbl = [] ->
  forall r d, In r tbl -> In d (refs r) -> Closes tbl ptrs old new d -> Closes tbl ptrs old new (comp r).
Proof. exact dependents. Qed.
Print Assumptions C13_dependents.

Theorem C13_minimal : forall tbl ptrs old new, loose tbl ptrs = [] ->
  forall c, Closes tbl ptrs old new c ->
  exists r f, In r tbl /\ RefDep tbl c (comp r) /\ In f (params r) /\ changed old new f.
Proof. exact minimal. Qed.
Print Assumptions C13_minimal.

(* the straight-line Go evaluation order computes exactly the predicates the theorems speak about *)
Theorem C13_eval_correct : forall ptrs old new tbl c, well_ordered [] tbl = true ->
  (closes_eval tbl ptrs old new c = true <-> Closes tbl ptrs old new c).
Proof. exact closes_eval_correct. Qed.
Print Assumptions C13_eval_correct.

(* --- the table of the current source satisfies the three decidable side conditions --- *)

Theorem C13_core_well_ordered : well_ordered [] core_table = true.
Proof. vm_compute. reflexivity. Qed.
Print Assumptions C13_core_well_ordered.

(* every component is closed or reloaded for every parameter it is built from *)
Theorem C13_core_complete : incomplete core_table = [].
Proof. vm_compute. reflexivity. Qed.
Print Assumptions C13_core_complete.

(* every component is closed when a component it holds is closed *)
Theorem C13_core_dependents : dangling core_table = [].
Proof. vm_compute. reflexivity. Qed.
Print Assumptions C13_core_dependents.

(* no predicate compares a parameter the component is not built from, or a pointer by identity *)
Theorem C13_core_tight : loose core_table pointer_fields = [].
Proof. vm_compute. reflexivity. Qed.
Print Assumptions C13_core_tight.

(* --- the running components, for every table, every oracle for the guard atoms and every history of reloads ---
   Inv atomv tbl n cur s: for every row r of the table,
     s (comp r) = None  <->  the creation condition of r is false in cur          (absent iff disabled)
     and if s (comp r) = Some i:  0 < gen i < n,
        hval i f = val (cur f)  for every field f the construction block of r reads    (runs with the current values)
        href i d = gen_of (s d) for every component d handed to the constructor        (no stale reference)        *)

(* New (createResources on an empty Core) establishes it *)
Theorem C13_invariant_established : forall atomv tbl, well_ordered [] tbl = true -> misordered [] tbl = [] ->
  forall c0, Inv atomv tbl 2 c0 (start atomv tbl c0).
Proof. intros atomv tbl Hwo Hord c0. exact (Inv_start atomv tbl Hwo Hord c0). Qed.
Print Assumptions C13_invariant_established.

(* every successful reloadConf (closeResources with its in-place reloads, conf.Store, createResources) preserves it *)
Theorem C13_invariant_preserved : forall atomv tbl ptrs, well_ordered [] tbl = true -> incomplete tbl = [] ->
  dangling tbl = [] -> unguarded tbl = [] -> misordered [] tbl = [] ->
  forall old new, ptr_wf old new -> forall n s, (0 < n)%Z ->
  Inv atomv tbl n old s -> Inv atomv tbl (n + 1) new (reload atomv n tbl ptrs old new s).
Proof. intros atomv tbl ptrs Hwo Hinc Hdang Hung Hord old new Hwf n s.
       exact (Inv_step atomv tbl ptrs Hwo Hinc Hdang Hung Hord old new Hwf n s). Qed.
Print Assumptions C13_invariant_preserved.

(* hence after ANY history of reloads every running component runs with the values of the last configuration *)
Theorem C13_history : forall atomv tbl ptrs, well_ordered [] tbl = true -> incomplete tbl = [] ->
  dangling tbl = [] -> unguarded tbl = [] -> misordered [] tbl = [] ->
  forall c0 hist, chain_wf c0 hist ->
  Inv atomv tbl (2 + Z.of_nat (List.length hist)) (last hist c0) (run atomv 2 tbl ptrs c0 (start atomv tbl c0) hist).
Proof. intros atomv tbl ptrs Hwo Hinc Hdang Hung Hord. exact (history atomv tbl ptrs Hwo Hinc Hdang Hung Hord). Qed.
Print Assumptions C13_history.

(* a component none of whose parameters changed keeps running: same instance, same held components *)
Theorem C13_keeps_running : forall atomv tbl ptrs, well_ordered [] tbl = true ->
  forall old new n s r i, In r tbl -> s (comp r) = Some i -> ~ Closes tbl ptrs old new (comp r) ->
  exists i', reload atomv n tbl ptrs old new s (comp r) = Some i' /\ gen i' = gen i /\ href i' = href i.
Proof. intros atomv tbl ptrs Hwo old new. exact (keeps_running atomv tbl ptrs Hwo old new). Qed.
Print Assumptions C13_keeps_running.

(* a closed component is a new instance built from the new configuration, or absent because it is now disabled *)
Theorem C13_recreated_fresh : forall atomv tbl ptrs, well_ordered [] tbl = true ->
  forall old new n s r, In r tbl -> Closes tbl ptrs old new (comp r) ->
  match reload atomv n tbl ptrs old new s (comp r) with
  | Some i' => gen i' = n /\ forall f, hval i' f = val (new f)
  | None => enabled atomv r new = false
  end.
Proof. intros atomv tbl ptrs Hwo old new. exact (recreated_fresh atomv tbl ptrs Hwo old new). Qed.
Print Assumptions C13_recreated_fresh.

(* the creation condition of every component only reads fields its close predicate compares *)
Theorem C13_core_guarded : unguarded core_table = [].
Proof. vm_compute. reflexivity. Qed.
Print Assumptions C13_core_guarded.

(* createResources constructs the components in the order of the table, every component after those handed to it *)
Theorem C13_core_create_order : misordered [] core_table = [] /\ map comp core_table = create_order.
Proof. vm_compute. split; reflexivity. Qed.
Print Assumptions C13_core_create_order.

(* non-vacuity: the table is not empty and a changed ReadTimeout closes the API server *)
Example C13_example :
  (16 <=? List.length core_table)%nat = true /\
  closes_eval core_table pointer_fields (fun _ => {| val := 0; addr := 0 |})
    (fun f => {| val := if String.eqb f "ReadTimeout" then 1 else 0; addr := 0 |}) "api" = true /\
  closes_eval core_table pointer_fields (fun _ => {| val := 0; addr := 0 |})
    (fun f => {| val := if String.eqb f "HLSSegmentCount" then 1 else 0; addr := 0 |}) "rtspServer" = false.
Proof. vm_compute. repeat split. Qed.

(* non-vacuity of the history theorem on the generated table: RTSP switched off, then on again (atoms: a boolean
   field is true when its abstract value is even, a constant test when it is 0) *)
Example C13_history_example :
  let atomv := fun (f t : string) (v : Z) => if String.eqb t "" then Z.even v else Z.eqb v 0 in
  let c0 : conf := fun _ => {| val := 0; addr := 0 |} in
  let c1 : conf := fun f => {| val := if String.eqb f "RTSP" then 1 else 0; addr := 0 |} in
  let s1 := run atomv 2 core_table pointer_fields c0 (start atomv core_table c0) [c1] in
  let s2 := run atomv 2 core_table pointer_fields c0 (start atomv core_table c0) [c1; c0] in
  (gen_of (start atomv core_table c0 "rtspServer"), gen_of (s1 "rtspServer"), gen_of (s2 "rtspServer")) = (1, 0, 3)%Z /\
  (gen_of (s1 "hlsServer"), gen_of (s1 "api"), gen_of (s2 "api"), gen_of (s2 "hlsServer")) = (1, 2, 3, 1)%Z /\
  match s2 "api" with Some i => href i "rtspServer" | None => 0%Z end = 3%Z.
Proof. vm_compute. repeat split. Qed.
