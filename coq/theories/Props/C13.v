(* C13 — Hot reload applies every changed parameter to running components.
   core_table / pointer_fields are generated from internal/core/core.go and internal/conf/conf.go on this run. *)
From Coq Require Import List String ZArith Bool.
Require Import MTX.Model.C13_Reload MTX.Proofs.C13_Reload MTXGen.C13_CoreDeps.
Import ListNotations.
Local Open Scope string_scope.
Local Open Scope list_scope.

(* --- for every table and every pair (old, new) of configurations --- *)

Theorem C13_applied : forall tbl ptrs old new, incomplete tbl = [] -> ptr_wf old new ->
  forall r f, In r tbl -> In f (params r) -> changed old new f ->
  Closes tbl ptrs old new (comp r) \/ In f (reloads r).
Proof. exact applied. Qed.
Print Assumptions C13_applied.

Theorem C13_dependents : forall tbl ptrs old new, dangling tbl = [] ->
  forall r d, In r tbl -> In d (refs r) -> Closes tbl ptrs old new d -> Closes tbl ptrs old new (comp r).
Proof. exact dependents. Qed.
Print Assumptions C13_dependents.

Theorem C13_minimal : forall tbl ptrs old new, loose tbl ptrs = [] ->
  forall c, Closes tbl ptrs old new c ->
  exists r f, In r tbl /\ RefDep tbl c (comp r) /\ In f (params r) /\ changed old new f.
Proof. exact minimal. Qed.
Print Assumptions C13_minimal.

(* the straight-line Go evaluation order computes exactly the predicates the theorems speak about *)
Theorem C13_eval_correct : forall ptrs old new tbl c, well_ordered [] tbl = true ->
  (closes_eval tbl ptrs old new c = true <-> Closes tbl ptrs old new c).
Proof. exact closes_eval_correct. Qed.
Print Assumptions C13_eval_correct.

(* --- the table of the current source satisfies the three decidable side conditions --- *)

Theorem C13_core_well_ordered : well_ordered [] core_table = true.
Proof. vm_compute. reflexivity. Qed.
Print Assumptions C13_core_well_ordered.

(* every component is closed or reloaded for every parameter it is built from *)
Theorem C13_core_complete : incomplete core_table = [].
Proof. vm_compute. reflexivity. Qed.
Print Assumptions C13_core_complete.

(* every component is closed when a component it holds is closed *)
Theorem C13_core_dependents : dangling core_table = [].
Proof. vm_compute. reflexivity. Qed.
Print Assumptions C13_core_dependents.

(* no predicate compares a parameter the component is not built from, or a pointer by identity *)
Theorem C13_core_tight : loose core_table pointer_fields = [].
Proof. vm_compute. reflexivity. Qed.
Print Assumptions C13_core_tight.

(* non-vacuity: the table is not empty and a changed ReadTimeout closes the API server *)
Example C13_example :
  (16 <=? List.length core_table)%nat = true /\
  closes_eval core_table pointer_fields (fun _ => {| val := 0; addr := 0 |})
    (fun f => {| val := if String.eqb f "ReadTimeout" then 1 else 0; addr := 0 |}) "api" = true /\
  closes_eval core_table pointer_fields (fun _ => {| val := 0; addr := 0 |})
    (fun f => {| val := if String.eqb f "HLSSegmentCount" then 1 else 0; addr := 0 |}) "rtspServer" = false.
Proof. vm_compute. repeat split. Qed.
