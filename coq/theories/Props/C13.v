(* C13 — Hot reload applies every changed parameter to running components.
   core_table / pointer_fields are generated from internal/core/core.go and internal/conf/conf.go on this run. *)
From Coq Require Import List String ZArith Bool.
Require Import MTX.Model.C13_Reload MTX.Proofs.C13_Reload MTX.Proofs.C13_Live MTXGen.C13_CoreDeps.
Require Import MTX.Model.C13_Push MTX.Proofs.C13_Push.
Import ListNotations.
Local Open Scope string_scope.
Local Open Scope list_scope.

(* --- for every table and every pair (old, new) of configurations --- *)

Theorem C13_applied : forall tbl ptrs old new, incomplete tbl = [] -> ptr_wf old new ->
  forall r f, In r tbl -> In f (params r) -> changed old new f ->
  Closes tbl ptrs old new (comp r) \/ In f (reloads r).
Proof. exact applied. Qed.
Print Assumptions C13_applied.

Theorem C13_dependents : forall tbl ptrs old new, dangling tbl = [] ->
  forall r d, In r tbl -> In d (refs r) -> Closes tbl ptrs old new d -> Closes tbl ptrs old new (comp r).
Proof. exact dependents. Qed.
Print Assumptions C13_dependents.

Theorem C13_minimal : forall tbl ptrs old new, loose tbl ptrs = [] ->
  forall c, Closes tbl ptrs old new c ->
  exists r f, In r tbl /\ RefDep tbl c (comp r) /\ In f (params r) /\ changed old new f.
Proof. exact minimal. Qed.
Print Assumptions C13_minimal.

(* the straight-line Go evaluation order computes exactly the predicates the theorems speak about *)
Theorem C13_eval_correct : forall ptrs old new tbl c, well_ordered [] tbl = true ->
  (closes_eval tbl ptrs old new c = true <-> Closes tbl ptrs old new c).
Proof. exact closes_eval_correct. Qed.
Print Assumptions C13_eval_correct.

(* --- the table of the current source satisfies the three decidable side conditions --- *)

Theorem C13_core_well_ordered : well_ordered [] core_table = true.
Proof. vm_compute. reflexivity. Qed.
Print Assumptions C13_core_well_ordered.

(* every component is closed or reloaded for every parameter it is built from *)
Theorem C13_core_complete : incomplete core_table = [].
Proof. vm_compute. reflexivity. Qed.
Print Assumptions C13_core_complete.

(* every component is closed when a component it holds is closed *)
Theorem C13_core_dependents : dangling core_table = [].
Proof. vm_compute. reflexivity. Qed.
Print Assumptions C13_core_dependents.

(* no predicate compares a parameter the component is not built from, or a pointer by identity *)
Theorem C13_core_tight : loose core_table pointer_fields = [].
Proof. vm_compute. reflexivity. Qed.
Print Assumptions C13_core_tight.

(* --- the running components, for every table, every oracle for the guard atoms and every history of reloads ---
   Inv atomv tbl n cur s: for every row r of the table,
     s (comp r) = None  <->  the creation condition of r is false in cur          (absent iff disabled)
     and if s (comp r) = Some i:  0 < gen i < n,
        hval i f = val (cur f)  for every field f the construction block of r reads    (runs with the current values)
        href i d = gen_of (s d) for every component d handed to the constructor        (no stale reference)        *)

(* New (createResources on an empty Core) establishes it *)
Theorem C13_invariant_established : forall atomv tbl, well_ordered [] tbl = true -> misordered [] tbl = [] ->
  forall c0, Inv atomv tbl 2 c0 (start atomv tbl c0).
Proof. intros atomv tbl Hwo Hord c0. exact (Inv_start atomv tbl Hwo Hord c0). Qed.
Print Assumptions C13_invariant_established.

(* every successful reloadConf (closeResources with its in-place reloads, conf.Store, createResources) preserves it *)
Theorem C13_invariant_preserved : forall atomv tbl ptrs, well_ordered [] tbl = true -> incomplete tbl = [] ->
  dangling tbl = [] -> unguarded tbl = [] -> misordered [] tbl = [] ->
  forall old new, ptr_wf old new -> forall n s, (0 < n)%Z ->
  Inv atomv tbl n old s -> Inv atomv tbl (n + 1) new (reload atomv n tbl ptrs old new s).
Proof. intros atomv tbl ptrs Hwo Hinc Hdang Hung Hord old new Hwf n s.
       exact (Inv_step atomv tbl ptrs Hwo Hinc Hdang Hung Hord old new Hwf n s). Qed.
Print Assumptions C13_invariant_preserved.

(* hence after ANY history of reloads every running component runs with the values of the last configuration *)
Theorem C13_history : forall atomv tbl ptrs, well_ordered [] tbl = true -> incomplete tbl = [] ->
  dangling tbl = [] -> unguarded tbl = [] -> misordered [] tbl = [] ->
  forall c0 hist, chain_wf c0 hist ->
  Inv atomv tbl (2 + Z.of_nat (List.length hist)) (last hist c0) (run atomv 2 tbl ptrs c0 (start atomv tbl c0) hist).
Proof. intros atomv tbl ptrs Hwo Hinc Hdang Hung Hord. exact (history atomv tbl ptrs Hwo Hinc Hdang Hung Hord). Qed.
Print Assumptions C13_history.

(* a component none of whose parameters changed keeps running: same instance, same held components *)
Theorem C13_keeps_running : forall atomv tbl ptrs, well_ordered [] tbl = true ->
  forall old new n s r i, In r tbl -> s (comp r) = Some i -> ~ Closes tbl ptrs old new (comp r) ->
  exists i', reload atomv n tbl ptrs old new s (comp r) = Some i' /\ gen i' = gen i /\ href i' = href i.
Proof. intros atomv tbl ptrs Hwo old new. exact (keeps_running atomv tbl ptrs Hwo old new). Qed.
Print Assumptions C13_keeps_running.

(* a closed component is a new instance built from the new configuration, or absent because it is now disabled *)
Theorem C13_recreated_fresh : forall atomv tbl ptrs, well_ordered [] tbl = true ->
  forall old new n s r, In r tbl -> Closes tbl ptrs old new (comp r) ->
  match reload atomv n tbl ptrs old new s (comp r) with
  | Some i' => gen i' = n /\ forall f, hval i' f = val (new f)
  | None => enabled atomv r new = false
  end.
Proof. intros atomv tbl ptrs Hwo old new. exact (recreated_fresh atomv tbl ptrs Hwo old new). Qed.
Print Assumptions C13_recreated_fresh.

(* the creation condition of every component only reads fields its close predicate compares *)
Theorem C13_core_guarded : unguarded core_table = [].
Proof. vm_compute. reflexivity. Qed.
Print Assumptions C13_core_guarded.

(* createResources constructs the components in the order of the table, every component after those handed to it *)
Theorem C13_core_create_order : misordered [] core_table = [] /\ map comp core_table = create_order.
Proof. vm_compute. split; reflexivity. Qed.
Print Assumptions C13_core_create_order.

(* non-vacuity: the table is not empty and a changed ReadTimeout closes the API server *)
Example C13_example :
  (16 <=? List.length core_table)%nat = true /\
  closes_eval core_table pointer_fields (fun _ => {| val := 0; addr := 0 |})
    (fun f => {| val := if String.eqb f "ReadTimeout" then 1 else 0; addr := 0 |}) "api" = true /\
  closes_eval core_table pointer_fields (fun _ => {| val := 0; addr := 0 |})
    (fun f => {| val := if String.eqb f "HLSSegmentCount" then 1 else 0; addr := 0 |}) "rtspServer" = false.
Proof. vm_compute. repeat split. Qed.

(* non-vacuity of the history theorem on the generated table: RTSP switched off, then on again (atoms: a boolean
   field is true when its abstract value is even, a constant test when it is 0) *)
Example C13_history_example :
  let atomv := fun (f t : string) (v : Z) => if String.eqb t "" then Z.even v else Z.eqb v 0 in
  let c0 : conf := fun _ => {| val := 0; addr := 0 |} in
  let c1 : conf := fun f => {| val := if String.eqb f "RTSP" then 1 else 0; addr := 0 |} in
  let s1 := run atomv 2 core_table pointer_fields c0 (start atomv core_table c0) [c1] in
  let s2 := run atomv 2 core_table pointer_fields c0 (start atomv core_table c0) [c1; c0] in
  (gen_of (start atomv core_table c0 "rtspServer"), gen_of (s1 "rtspServer"), gen_of (s2 "rtspServer")) = (1, 0, 3)%Z /\
  (gen_of (s1 "hlsServer"), gen_of (s1 "api"), gen_of (s2 "api"), gen_of (s2 "hlsServer")) = (1, 2, 3, 1)%Z /\
  match s2 "api" with Some i => href i "rtspServer" | None => 0%Z end = 3%Z.
Proof. vm_compute. repeat split. Qed.

(* --- the in-place reload statements of closeResources, each with its own guard (core_pushes is generated from core.go:
   `if !close<G> && [p.<T> != nil &&] changed(F) { p.<T>.Reload…(newConf.F) }` as (G, T, F)) --- *)

(* for EVERY table, statement list, pair of configurations and state: when every statement is guarded by the close variable
   of the component it pushes into (misguarded = []) and every `reloads` entry has its statement (unpushed = []), the
   statements as written behave as the rows say, so that every theorem above (stated on `reload`) is about them *)
Theorem C13_pushes_as_rows : forall tbl pushes ptrs old new s,
  misguarded tbl pushes = [] -> unpushed tbl pushes = [] ->
  st_eq (close_pass_g tbl pushes ptrs old new s) (close_pass tbl ptrs old new s).
Proof. exact close_pass_g_equiv. Qed.
Print Assumptions C13_pushes_as_rows.

(* … and directly: whatever else changes in the same reload (old, new arbitrary), a standing component that this reload does
   not close is afterwards the same instance, holds the same components, and holds the NEW value of a changed field that
   its row pushes in place (path configurations -> path manager / playback server / record cleaner, internal users) *)
Theorem C13_pushed_whenever : forall atomv tbl pushes ptrs n old new s r i f,
  well_ordered [] tbl = true -> misguarded tbl pushes = [] -> unpushed tbl pushes = [] ->
  In r tbl -> s (comp r) = Some i -> closes_eval tbl ptrs old new (comp r) = false ->
  mem f (reloads r) = true -> val (old f) <> val (new f) ->
  exists j, reload_g atomv n tbl pushes ptrs old new s (comp r) = Some j /\ gen j = gen i /\ hval j f = val (new f)
            /\ (forall d, href j d = href i d).
Proof. exact pushed_whenever. Qed.
Print Assumptions C13_pushed_whenever.

(* the generated statements: each guarded by its own component's close variable, one per `reloads` entry (a failing
   instance prints the offending statements) *)
Theorem C13_core_pushes_guarded : misguarded core_table core_pushes = [] /\ unpushed core_table core_pushes = [].
Proof. vm_compute. split; reflexivity. Qed.
Print Assumptions C13_core_pushes_guarded.

(* a guard copied from another component is wrong (two-row witness: playback address and path configurations change in
   one reload; the path manager survives holding the old path configurations) and invisible to one-change reloads *)
Theorem C13_guard_of_another_component_refuted :
  w_gen w_bad (w_c 1 10) (w_c 2 11) "pathManager" = 1%Z /\ w_held w_bad (w_c 1 10) (w_c 2 11) "pathManager" "Paths" = 10%Z /\
  w_gen w_good (w_c 1 10) (w_c 2 11) "pathManager" = 1%Z /\ w_held w_good (w_c 1 10) (w_c 2 11) "pathManager" "Paths" = 11%Z /\
  misguarded w_tbl w_bad = [("playbackServer", "pathManager", "Paths")] /\ misguarded w_tbl w_good = [] /\ unpushed w_tbl w_good = [].
Proof. exact guard_of_another_component_refuted. Qed.
Print Assumptions C13_guard_of_another_component_refuted.

(* the same on the generated table: PlaybackAddress and Paths change in one reload. With the generated statements the
   playback server is recreated (generation 2), the path manager stays (1) and holds the new Paths (7); with the path
   manager's statement re-guarded by closePlaybackServer it keeps the old Paths (0) and the check names the statement *)
Example C13_pair_example :
  let atomv := fun (f t : string) (v : Z) => if String.eqb t "" then Z.even v else Z.eqb v 0 in
  let c0 : conf := fun _ => {| val := 0; addr := 0 |} in
  let c1 : conf := fun f => {| val := if String.eqb f "PlaybackAddress" then 2 else if String.eqb f "Paths" then 7 else 0; addr := 0 |} in
  let seeded := map (fun p => if String.eqb (pt p) "pathManager" then ("playbackServer", pt p, pf p) else p) core_pushes in
  let s1 := reload_g atomv 2 core_table core_pushes pointer_fields c0 c1 (start atomv core_table c0) in
  let s2 := reload_g atomv 2 core_table seeded pointer_fields c0 c1 (start atomv core_table c0) in
  (gen_of (s1 "playbackServer"), gen_of (s1 "pathManager"), match s1 "pathManager" with Some i => hval i "Paths" | None => (-1)%Z end) = (2, 1, 7)%Z /\
  (gen_of (s2 "playbackServer"), gen_of (s2 "pathManager"), match s2 "pathManager" with Some i => hval i "Paths" | None => (-1)%Z end) = (2, 1, 0)%Z /\
  misguarded core_table seeded = [("playbackServer", "pathManager", "Paths")].
Proof. vm_compute. repeat split. Qed.
