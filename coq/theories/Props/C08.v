(* C08 — configuration survives encode/decode round trips (statements; proofs in Proofs/C08_*.v). *)
From Coq Require Import List ZArith.
Require Import MTX.Lib.IntWrap MTX.Model.C08_Scalars.
Import ListNotations.
Local Open Scope Z_scope.
