(* C08 — configuration survives encode/decode round trips.
   Only statements here; every proof is `exact <lemma of Proofs/C08_*.v>`. *)
From Coq Require Import List ZArith Bool.
Require Import MTX.Lib.IntWrap MTX.Lib.Utf8 MTX.Model.C08_Scalars MTX.Proofs.C08_Dec MTX.Proofs.C08_Codecs MTX.Proofs.C08_Duration.
Require Import MTX.Model.C08_Net6 MTX.Proofs.C08_Net6.
Require Import MTX.Model.C08_Schema MTX.Model.C08_ConfCodecs MTX.Proofs.C08_Schema MTX.Proofs.C08_ConfCodecs.
Require Import MTXGen.C08_ConfSchema MTX.Proofs.C08_ConfInstance.
Import ListNotations.
Local Open Scope Z_scope.

(* ---- Duration: unmarshalInternal (marshalInternal d) = d for every int64 but the minimum.
   dur_marshal / dur_unmarshal transliterate duration.go together with time.Duration.String and
   time.ParseDuration (leadingInt, leadingFraction with its float64 scale, unit table, overflow checks). *)
Theorem C08_duration_roundtrip : forall d, - two63 < d < two63 -> dur_unmarshal (dur_marshal d) = Some d.
Proof. exact dur_roundtrip. Qed.
Print Assumptions C08_duration_roundtrip.

(* time.ParseDuration (time.Duration.String u) = u, and with a leading '-' *)
Theorem C08_parse_duration_string : forall u, 0 < u < two63 ->
  parse_duration (dur_format_u u) = Some u /\ parse_duration (45 :: dur_format_u u) = Some (- u).
Proof. exact parse_duration_format. Qed.
Print Assumptions C08_parse_duration_string.

(* the excluded value: Duration(-2^63) is written as "--23h47m16.854775808s", which is rejected *)
Theorem C08_duration_min_int64_refuted :
  dur_marshal (- two63) = [45;45;50;51;104;52;55;109;49;54;46;56;53;52;55;55;53;56;48;56;115] /\
  dur_unmarshal (dur_marshal (- two63)) = None.
Proof. exact dur_min_int64_refuted. Qed.
Print Assumptions C08_duration_min_int64_refuted.

Example C08_duration_examples :
  dur_marshal 0 = [] /\ dur_marshal 1500000 = [49;46;53;109;115] /\
  dur_marshal (- (3 * t_day + t_hour + 1)) = [45;51;100;49;104;48;109;48;46;48;48;48;48;48;48;48;48;49;115] /\
  dur_unmarshal [45;51;100;49;104;48;109;48;46;48;48;48;48;48;48;48;48;49;115] = Some (- (3 * t_day + t_hour + 1)) /\
  dur_unmarshal [49;46;53;104] = Some 5400000000000 /\ dur_unmarshal [53] = None.
Proof. exact dur_examples. Qed.

(* ---- StringSize.  The repaired MarshalJSON/UnmarshalJSON round-trip for every uint64, whatever the
   library formatter (bytefmt.ByteSize) and parser (bytefmt.ToBytes) do. *)
Theorem C08_size_roundtrip : forall (bytesize : Z -> list Z) (tobytes : list Z -> tb_result) n,
  0 <= n < two64 -> parse_size tobytes (size_marshal bytesize tobytes n) = TBVal n.
Proof. exact size_roundtrip. Qed.
Print Assumptions C08_size_roundtrip.

(* instance on the byte-exact models of the two library functions *)
Theorem C08_size_roundtrip_model : forall n, 0 <= n < two64 -> size_unmarshal_m (size_marshal_m n) = TBVal n.
Proof. exact size_roundtrip_model. Qed.
Print Assumptions C08_size_roundtrip_model.

(* the text written before the repair is kept whenever it decodes to the same size *)
Theorem C08_size_marshal_keeps : forall n,
  tb_eqb (size_unmarshal_m (byte_size n)) n = true -> size_marshal_m n = byte_size n.
Proof. exact size_marshal_keeps. Qed.
Print Assumptions C08_size_marshal_keeps.

(* the faithful model of the code before the repair (ByteSize / ToBytes) does not round-trip *)
Theorem C08_size_roundtrip_refuted :
  exists n, 0 <= n < two64 /\ size_unmarshal_old (size_marshal_old n) <> TBVal n.
Proof. exact size_roundtrip_old_refuted. Qed.
Print Assumptions C08_size_roundtrip_refuted.

Example C08_size_examples :
  size_marshal_old 1537 = [49; 46; 53; 75] /\ size_unmarshal_old [49; 46; 53; 75] = TBVal 1536 /\
  size_unmarshal_old (size_marshal_old 123456789) = TBVal 123417395 /\
  size_unmarshal_old (size_marshal_old (2 ^ 53 + 1)) = TBVal (2 ^ 53) /\
  size_marshal_m 1537 = [49; 53; 51; 55; 66] /\ size_marshal_m 1536 = [49; 46; 53; 75] /\
  size_marshal_m (two64 - 1) = C08_Scalars.dec (two64 - 1) ++ [66].
Proof. exact size_old_witnesses. Qed.

(* ---- enum-like types: every value a decoder can return is written as a text that decodes to it *)
Theorem C08_enum_roundtrip : forall e v,
  In v (enum_values e) -> enum_unmarshal e (enum_marshal e v) = Some v.
Proof. exact enum_roundtrip. Qed.
Print Assumptions C08_enum_roundtrip.

(* ... and enum_values is exactly the set of decodable values *)
Theorem C08_enum_values_complete : forall e s v, enum_unmarshal e s = Some v -> In v (enum_values e).
Proof. exact enum_values_complete. Qed.
Print Assumptions C08_enum_values_complete.

Theorem C08_transports_roundtrip : forall s : pset,
  transports_unmarshal (transports_marshal s) (false, false, false) = Some s.
Proof. exact transports_roundtrip. Qed.
Print Assumptions C08_transports_roundtrip.

Example C08_enum_examples :
  enum_unmarshal EEncryption s_yes = Some (EStr s_strict) /\ enum_marshal ELogLevel (EInt 3) = s_warn /\
  enum_unmarshal ERTSPTransport s_automatic = Some ENone /\ length (flat_map enum_values all_enums) = 39%nat.
Proof. exact enum_examples. Qed.

(* ---- IPv4 networks (4 address bytes with the host bits clear, prefix length 0..32) *)
Theorem C08_ipnet_roundtrip : forall ip ones,
  ipnet4_wf ip ones = true -> ipnet_unmarshal (ipnet4_string ip ones) = NVal ip ones.
Proof. exact ipnet4_roundtrip. Qed.
Print Assumptions C08_ipnet_roundtrip.

Example C08_ipnet_example :
  ipnet4_wf [10; 1; 0; 0] 16 = true /\ ipnet4_string [10; 1; 0; 0] 16 = [49;48;46;49;46;48;46;48;47;49;54] /\
  ipnet_unmarshal [49;48;46;49;46;50;46;51;47;49;54] = NVal [10; 1; 0; 0] 16 /\
  ipnet4_wf [10; 1; 2; 3] 16 = false.
Proof. exact ipnet4_example. Qed.

(* ---- IPv6.  ip6_string transliterates netip.Addr.appendTo6 (what net.IP.String prints for a 16-byte
   address that is not IPv4-mapped: the longest run of >= 2 zero groups, leftmost on ties, becomes "::",
   groups in lower-case hex without leading zeros); parse_ipv6 transliterates netip.parseIPv6 (hex groups,
   one "::", embedded dotted quad; a zone is an error for both callers).  For EVERY 128-bit address: *)
Theorem C08_ip6_parse_string : forall ip,
  length ip = 16%nat -> Forall (fun b => 0 <= b <= 255) ip -> parse_ipv6 (ip6_string ip) = Some ip.
Proof. intros ip Hl Hb. exact (proj1 (ip6_parse_string ip Hl Hb)). Qed.
Print Assumptions C08_ip6_parse_string.

(* IPNetwork.UnmarshalJSON (IPNetwork.MarshalJSON n) = n for every IPv6 network the decoder can hold:
   16 bytes, not IPv4-mapped, prefix length 0..128, host bits clear (ParseCIDR applies the mask) *)
Theorem C08_ipnet6_roundtrip : forall ip ones,
  net6_wf ip ones = true -> ipnet_unmarshal_full (ipnet6_string ip ones) = NF6 ip ones.
Proof. exact ipnet6_roundtrip_full. Qed.
Print Assumptions C08_ipnet6_roundtrip.

(* a 16-byte IPv4-mapped network (never stored by the decoder, but constructible in Go) prints as the
   dotted-quad network and decodes to the 4-byte form of the same network *)
Theorem C08_ipnet6_mapped : forall ip ones,
  length ip = 16%nat -> forallb (fun b => (0 <=? b) && (b <=? 255)) ip = true -> is4in6 ip = true ->
  96 <= ones <= 128 -> apply_mask ip ones = ip ->
  ipnet6_string ip ones = ipnet4_string (skipn 12 ip) (ones - 96) /\
  ipnet_unmarshal_full (ipnet6_string ip ones) = NF4 (skipn 12 ip) (ones - 96).
Proof. exact ipnet6_mapped. Qed.
Print Assumptions C08_ipnet6_mapped.

Example C08_ipnet6_examples :
  ip6_string [32;1;13;184;0;0;0;0;0;0;0;0;0;0;0;1] = [50;48;48;49;58;100;98;56;58;58;49] (* 2001:db8::1 *) /\
  ip6_string (repeat 0 16) = [58;58] /\
  (* two runs of equal length: the leftmost is compressed;  1:0:0:2:0:0:3:4 -> 1::2:0:0:3:4 *)
  ip6_string [0;1;0;0;0;0;0;2;0;0;0;0;0;3;0;4] = [49;58;58;50;58;48;58;48;58;51;58;52] /\
  (* a single zero group is not compressed *)
  ip6_string [0;1;0;0;0;2;0;3;0;4;0;5;0;6;0;7] = [49;58;48;58;50;58;51;58;52;58;53;58;54;58;55] /\
  net6_wf [32;1;13;184;0;0;0;0;0;0;0;0;0;0;0;0] 32 = true /\
  ipnet_unmarshal_full [50;48;48;49;58;100;98;56;58;58;49;47;51;50] = NF6 [32;1;13;184;0;0;0;0;0;0;0;0;0;0;0;0] 32 /\
  (* ::ffff:1.2.3.4/120 is stored as 1.2.3.0/24 *)
  ipnet_unmarshal_full [58;58;102;102;102;102;58;49;46;50;46;51;46;52;47;49;50;48] = NF4 [1;2;3;0] 24 /\
  ipnet_unmarshal_full [102;101;56;48;58;58;49;37;101;116;104;48;47;54;52] = NFErr.
Proof. exact net6_examples. Qed.

(* ---- AlwaysAvailableTrack: no MarshalJSON (plain struct encoding of codec / sampleRate / channelCount /
   muLaw), UnmarshalJSON = jsonwrapper on the alias struct + validate().  Every track that validate()
   accepts round-trips; the decoder returns only such tracks. *)
Theorem C08_track_roundtrip : forall c r n m,
  valid_utf8 c = true -> int64_lo <= r <= int64_hi -> int64_lo <= n <= int64_hi -> track_valid c r n = true ->
  track_dec (track_enc c r n m) = Some (XTrack c r n m) /\ track_enc c r n m <> JNull.
Proof. exact track_roundtrip. Qed.
Print Assumptions C08_track_roundtrip.

Theorem C08_track_dec_valid : forall j c r n m, track_dec j = Some (XTrack c r n m) -> track_valid c r n = true.
Proof. exact track_dec_valid. Qed.
Print Assumptions C08_track_dec_valid.

Example C08_track_examples :
  track_enc s_MPEG4Audio 44100 2 false =
    JObj [(s_codec, JStr s_MPEG4Audio); (s_sampleRate, JInt 44100); (s_channelCount, JInt 2); (s_muLaw, JBool false)] /\
  track_dec (track_enc s_MPEG4Audio 44100 2 false) = Some (XTrack s_MPEG4Audio 44100 2 false) /\
  track_dec (track_enc s_H264 44100 0 false) = None /\
  track_dec (JObj [(s_codec, JStr s_G711); (s_sampleRate, JInt 8000); (s_channelCount, JInt 1)]) = Some (XTrack s_G711 8000 1 false) /\
  track_dec (JObj [(s_codec, JStr s_G711); (s_sampleRate, JInt 8000); (s_channelCount, JInt 1); ([120], JInt 1)]) = None /\
  track_dec JNull = None.
Proof. exact track_examples. Qed.

(* ---- schema-generic theorem: for any codec table, any type of the universe (bool / int kinds / float as
   an opaque token / string / codec types / slices / pointers / maps / structs with omitempty) whose codecs
   round-trip, decoding (jsonwrapper: unknown fields rejected, null slices rejected, absent fields zero)
   what encoding/json wrote gives the value back.  Structural induction on the type.
   Maps: [wf] of a map value includes [no_dup_keys] (C08_map_no_dup_keys below) - the decoder model keeps
   duplicate keys apart where Go keeps the last one, so the theorem speaks of maps with distinct keys. *)
Theorem C08_schema_roundtrip :
  forall (codec cval : Type) (cenc : codec -> cval -> json) (cdec : codec -> json -> option cval)
         (cwf : codec -> cval -> Prop) (czero : codec -> cval) (t : ty codec),
  ty_ok codec t = true -> codecs_ok codec cval cenc cdec cwf t ->
  forall v, wf codec cval cwf t v -> dec codec cval cdec czero t (enc codec cval cenc t v) = Some v.
Proof. exact schema_roundtrip. Qed.
Print Assumptions C08_schema_roundtrip.

Theorem C08_map_no_dup_keys : forall (codec cval : Type) (cwf : codec -> cval -> Prop) t m,
  wf codec cval cwf (TMap t) (VMap m) -> no_dup_keys cval m.
Proof. exact wf_map_no_dup_keys. Qed.
Print Assumptions C08_map_no_dup_keys.

(* ---- instance on coq/gen/C08_ConfSchema.v, regenerated on every run by reflection over the real
   conf.Conf / conf.Path / optional types.  The codecs are the byte-exact models above (durations, sizes,
   IP networks of both families, enums, transports, AlwaysAvailableTrack); the one oracle left is
   Credential.validate (any predicate). *)
Theorem C08_conf_roundtrip :
  forall (cred_valid : list Z -> bool),
  forall t, In t [global_ty; path_ty; opt_global_ty; opt_path_ty] ->
  forall v, wf codec cval (cwf cred_valid) t v ->
  dec codec cval (cdec cred_valid) czero t (enc codec cval cenc t v) = Some v.
Proof. exact conf_roundtrip. Qed.
Print Assumptions C08_conf_roundtrip.

(* GET then PATCH: what Conf.Global() / a Path encodes, decoded into the optional (all-pointer) view and
   copied back field by field (copyStructFields), is the configuration one started from *)
Theorem C08_api_roundtrip :
  forall (cred_valid : list Z -> bool),
  forall t t', In (t, t') [(global_ty, opt_global_ty); (path_ty, opt_path_ty)] ->
  forall vs, wf codec cval (cwf cred_valid) t (VStruct vs) ->
  dec codec cval (cdec cred_valid) czero t' (enc codec cval cenc t (VStruct vs)) = Some (lift codec cval t (VStruct vs)) /\
  patch codec cval t (VStruct vs) (lift codec cval t (VStruct vs)) = VStruct vs.
Proof. exact api_roundtrip. Qed.
Print Assumptions C08_api_roundtrip.

(* the decode targets built by reflect.StructOf are the optional views of the encoded structs; every
   type with JSON methods met in the schema has a codec model; omitempty sits on pointer fields only;
   struct keys are unique (ty_ok); the struct reflected from AlwaysAvailableTrack is the one the CTrack
   codec models; no map type occurs, so the map restriction (no_dup_keys) is discharged vacuously *)
Theorem C08_schema_facts :
  (schema_ok global_ty = true /\ schema_ok path_ty = true /\ schema_ok opt_global_ty = true /\ schema_ok opt_path_ty = true) /\
  (opt_global_ty = optionalize codec global_ty /\ opt_path_ty = optionalize codec path_ty /\
   global_ty = TStruct (fields_of global_ty) /\ path_ty = TStruct (fields_of path_ty)) /\
  track_ty = track_ty_model /\
  (has_map codec global_ty = false /\ has_map codec path_ty = false /\
   has_map codec opt_global_ty = false /\ has_map codec opt_path_ty = false).
Proof. exact (conj schemas_ok (conj optional_views (conj track_schema schemas_no_map))). Qed.
Print Assumptions C08_schema_facts.

Example C08_schema_nonvacuous :
  length (fields_of global_ty) = length (fields_of opt_global_ty) /\ length (fields_of path_ty) = length (fields_of opt_path_ty) /\
  (100 <= length (fields_of global_ty))%nat /\ (100 <= length (fields_of path_ty))%nat.
Proof. exact schema_sizes. Qed.
