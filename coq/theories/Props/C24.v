(* C24 — Timestamp scaling is exact.
   The sites are the definitions translated from /repo on this run (gen/C24_Sites.v). *)
From Coq Require Import ZArith List.
Require Import MTX.Lib.IntWrap MTX.Model.C24_MulDiv MTX.Proofs.C24_MulDiv MTX.Proofs.C24_Sites MTXGen.C24_Sites.
Import ListNotations.
Local Open Scope Z_scope.

(* the shared shape: exact product-then-quotient truncated toward zero for every int64 v, whenever the exact
   result is representable; m, d in 1..2^32 with one of them time.Second (what every call site passes) *)
Theorem C24_muldiv_exact : forall v m d, scale_ok m d -> in_int64 v -> in_int64 (Z.quot (v * m) d) ->
  muldiv_w v m d = Z.quot (v * m) d.
Proof. exact muldiv_exact. Qed.
Print Assumptions C24_muldiv_exact.

(* every three-argument helper in the tree (multiplyAndDivide, multiplyAndDivide2: all copies) *)
Theorem C24_sites_muldiv : Forall exact3 sites_muldiv3.
Proof. exact sites_muldiv3_exact. Qed.
Print Assumptions C24_sites_muldiv.

(* timestampToDuration (all copies), durationMp4ToGo: t * 10^9 / rate *)
Theorem C24_sites_to_nanos : Forall exact_to_nanos sites_to_nanos.
Proof. exact sites_to_nanos_exact. Qed.
Print Assumptions C24_sites_to_nanos.

(* durationToTimestamp, durationGoToMp4: d * rate / 10^9 *)
Theorem C24_sites_from_nanos : Forall exact_from_nanos sites_from_nanos.
Proof. exact sites_from_nanos_exact. Qed.
Print Assumptions C24_sites_from_nanos.

Theorem C24_sites_found : sites_muldiv3 <> [] /\ sites_to_nanos <> [] /\ sites_from_nanos <> [] /\
  Z.of_nat (length sites_muldiv3 + length sites_to_nanos + length sites_from_nanos) = site_count.
Proof. exact sites_nonempty. Qed.
Print Assumptions C24_sites_found.

(* the side condition is needed: with both factors only bounded by 2^32 the helper overflows *)
Theorem C24_general_refuted : exists v m d,
  1 <= m <= two32 /\ 1 <= d <= two32 /\ in_int64 v /\ in_int64 (Z.quot (v * m) d) /\
  muldiv_w v m d <> Z.quot (v * m) d.
Proof. exact muldiv_general_refuted. Qed.
Print Assumptions C24_general_refuted.

Example C24_example : muldiv_w 9223372036854775807 90000 nanos = 830103483316929
  /\ muldiv_w (-9223372036854775807) 90000 nanos = -830103483316929
  /\ muldiv_w 8301034833169 nanos 90000 = 92233720368544444.
Proof. vm_compute. repeat split. Qed.
