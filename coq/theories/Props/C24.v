(* C24 — Timestamp scaling is exact.
   The sites are the definitions translated from /repo on this run (gen/C24_Sites.v). *)
From Coq Require Import ZArith List Bool.
Require Import MTX.Lib.IntWrap MTX.Model.C24_MulDiv MTX.Proofs.C24_MulDiv MTX.Proofs.C24_Sites MTXGen.C24_Sites.
Require Import MTX.Model.C24_Inline MTX.Proofs.C24_Inline MTXGen.C24_Inline.
Import ListNotations.
Local Open Scope bool_scope.
Local Open Scope Z_scope.

(* the shared shape: exact product-then-quotient truncated toward zero for every int64 v, whenever the exact
   result is representable; m, d in 1..2^32 with one of them time.Second (what every call site passes) *)
Theorem C24_muldiv_exact : forall v m d, scale_ok m d -> in_int64 v -> in_int64 (Z.quot (v * m) d) ->
  muldiv_w v m d = Z.quot (v * m) d.
Proof. exact muldiv_exact. Qed.
Print Assumptions C24_muldiv_exact.

(* every three-argument helper in the tree (multiplyAndDivide, multiplyAndDivide2: all copies) *)
Theorem C24_sites_muldiv : Forall exact3 sites_muldiv3.
Proof. exact sites_muldiv3_exact. Qed.
Print Assumptions C24_sites_muldiv.

(* timestampToDuration (all copies), durationMp4ToGo: t * 10^9 / rate *)
Theorem C24_sites_to_nanos : Forall exact_to_nanos sites_to_nanos.
Proof. exact sites_to_nanos_exact. Qed.
Print Assumptions C24_sites_to_nanos.

(* durationToTimestamp, durationGoToMp4: d * rate / 10^9 *)
Theorem C24_sites_from_nanos : Forall exact_from_nanos sites_from_nanos.
Proof. exact sites_from_nanos_exact. Qed.
Print Assumptions C24_sites_from_nanos.

Theorem C24_sites_found : sites_muldiv3 <> [] /\ sites_to_nanos <> [] /\ sites_from_nanos <> [] /\
  Z.of_nat (length sites_muldiv3 + length sites_to_nanos + length sites_from_nanos) = site_count.
Proof. exact sites_nonempty. Qed.
Print Assumptions C24_sites_found.

(* the side condition is needed: with both factors only bounded by 2^32 the helper overflows *)
Theorem C24_general_refuted : exists v m d,
  1 <= m <= two32 /\ 1 <= d <= two32 /\ in_int64 v /\ in_int64 (Z.quot (v * m) d) /\
  muldiv_w v m d <> Z.quot (v * m) d.
Proof. exact muldiv_general_refuted. Qed.
Print Assumptions C24_general_refuted.

(* ---- inline scaling expressions  a * b / c  that are not one of the named helpers (gen/C24_Inline.v) ---- *)

(* every inline site found in /repo/internal on this run: for ALL operands in the site's ranges (range of the Go type of
   the operand, value of a constant, or a library range fact re-validated by the driver) and a non-zero divisor, if the
   exact result is representable in the type of the expression then the expression, with every conversion and both
   operations wrapping at their Go width, equals the exact product-then-quotient truncated toward zero *)
Theorem C24_inline_sites_exact : Forall inline_exact sites_inline.
Proof. exact sites_inline_exact. Qed.
Print Assumptions C24_inline_sites_exact.

Theorem C24_inline_sites_counted : Z.of_nat (length sites_inline) = inline_site_count.
Proof. exact sites_inline_counted. Qed.
Print Assumptions C24_inline_sites_counted.

(* the sites that rely on a range fact do need it: with the ranges of the Go types alone the plain a * b / c form
   overflows although the exact result is representable (not reachable on the real code: the producers are bounded) *)
Theorem C24_inline_typeonly_refuted : Forall inline_overflows sites_inline_typeonly.
Proof. exact sites_inline_typeonly_overflow. Qed.
Print Assumptions C24_inline_typeonly_refuted.

Theorem C24_inline_overflows_not_exact : forall s, inline_overflows s -> ~ inline_exact s.
Proof. exact overflows_not_exact. Qed.
Print Assumptions C24_inline_overflows_not_exact.

(* the plain form at each width: exact iff the intermediate product is representable ... *)
Theorem C24_inline_int64_exact : forall a b c,
  in_int64 (a * b) -> in_int64 (Z.quot (a * b) c) -> inl_w wrap64 a b c = Z.quot (a * b) c.
Proof. exact inl_w64_exact. Qed.
Print Assumptions C24_inline_int64_exact.

Theorem C24_inline_uint64_exact : forall a b c,
  0 <= a * b < two64 -> 0 <= Z.quot (a * b) c < two64 -> inl_w wrapu64 a b c = Z.quot (a * b) c.
Proof. exact inl_wu64_exact. Qed.
Print Assumptions C24_inline_uint64_exact.

Theorem C24_inline_uint32_exact : forall a b c,
  0 <= a * b < two32 -> 0 <= Z.quot (a * b) c < two32 -> inl_w wrapu32 a b c = Z.quot (a * b) c.
Proof. exact inl_wu32_exact. Qed.
Print Assumptions C24_inline_uint32_exact.

(* ... and not on the whole range of the type (why new inline sites need operand ranges, or the helper) *)
Theorem C24_inline_int64_type_range_refuted : exists a b c,
  in_int64 a /\ in_int64 b /\ in_int64 c /\ c <> 0 /\ in_int64 (Z.quot (a * b) c) /\ inl_w wrap64 a b c <> Z.quot (a * b) c.
Proof. exact inl_w64_type_range_refuted. Qed.
Print Assumptions C24_inline_int64_type_range_refuted.

Theorem C24_inline_uint64_type_range_refuted : exists a b c,
  0 <= a < two64 /\ 0 <= b < two64 /\ 0 < c < two64 /\ 0 <= Z.quot (a * b) c < two64 /\ inl_w wrapu64 a b c <> Z.quot (a * b) c.
Proof. exact inl_wu64_type_range_refuted. Qed.
Print Assumptions C24_inline_uint64_type_range_refuted.

Theorem C24_inline_uint32_type_range_refuted : exists a b c,
  0 <= a < two32 /\ 0 <= b < two32 /\ 0 < c < two32 /\ 0 <= Z.quot (a * b) c < two32 /\ inl_w wrapu32 a b c <> Z.quot (a * b) c.
Proof. exact inl_wu32_type_range_refuted. Qed.
Print Assumptions C24_inline_uint32_type_range_refuted.

Theorem C24_inline_int64_rate_refuted : exists a c,
  in_int64 a /\ 1 <= c <= two32 /\ in_int64 (Z.quot (a * 90000) c) /\ inl_w wrap64 a 90000 c <> Z.quot (a * 90000) c.
Proof. exact inl_w64_rate_refuted. Qed.
Print Assumptions C24_inline_int64_rate_refuted.

(* non-vacuity: the hypotheses of inline_exact are satisfiable at the extreme operands of a uint32 * 10^9 / uint32 site
   (the largest product, 4294967295 * 10^9 < 2^63, is still representable) *)
Example C24_inline_example :
  let s := mk_inline_site (fun a _ c => wrap64 (Z.quot (wrap64 (wrap64 a * 1000000000)) (wrap64 c)))
             (0, 4294967295) (1000000000, 1000000000) (0, 4294967295) rng_int64 in
  in_rngb 4294967295 (is_ra s) && in_rngb 1 (is_rc s) && in_rngb (Z.quot (4294967295 * 1000000000) 1) (is_res s)
  && (is_f s 4294967295 1000000000 1 =? 4294967295000000000) && (is_f s 4294967295 1000000000 4294967295 =? 1000000000)
  && (is_f s 90000 1000000000 90000 =? 1000000000) = true.
Proof. vm_compute. reflexivity. Qed.

Example C24_example : muldiv_w 9223372036854775807 90000 nanos = 830103483316929
  /\ muldiv_w (-9223372036854775807) 90000 nanos = -830103483316929
  /\ muldiv_w 8301034833169 nanos 90000 = 92233720368544444.
Proof. vm_compute. repeat split. Qed.

(* ---------------- call-site layer: WHAT is converted (Model/C24_TsOut.v, Proofs/C24_TsOut.v) ---------------- *)
Require Import MTX.Model.C24_TsOut MTX.Proofs.C24_TsOut.

(* rate-to-rate calls (90000 and a clock rate; neither factor is time.Second, scale_ok does not hold for them):
   exact for every int64 value whose exact result is representable *)
Theorem C24_muldiv_exact_rates : forall v m d, scale_rates m d -> in_int64 v -> in_int64 (Z.quot (v * m) d) ->
  muldiv_w v m d = Z.quot (v * m) d.
Proof. exact muldiv_exact_rates. Qed.
Print Assumptions C24_muldiv_exact_rates.

(* the MPEG-TS writer path (mpegts.FromStream over the multiplyAndDivide translated from the sources on this run): for every
   branch, every clock rate its format can have, every unit timestamp and every frame index, the timestamp handed to the
   MPEG-TS writer is the exact conversion to 90 kHz of the position of that frame = unit timestamp + i frame lengths *)
Theorem C24_ts_written_exact : forall k rate pts i,
  branch_rate_ok k rate = true -> 0 <= i -> in_int64 pts -> in_int64 (i * branch_spf k) ->
  in_int64 (frame_pos k pts i) -> in_int64 (conv (frame_pos k pts i) rate ts_rate) ->
  ts_written protocols_mpegts__multiplyAndDivide k rate pts i = conv (frame_pos k pts i) rate ts_rate.
Proof. exact ts_written_exact. Qed.
Print Assumptions C24_ts_written_exact.

(* the MPEG-TS recorder has its own copy of the branches over its own multiplyAndDivide *)
Theorem C24_ts_recorded_exact : forall k rate pts i,
  branch_rate_ok k rate = true -> 0 <= i -> in_int64 pts -> in_int64 (i * branch_spf k) ->
  in_int64 (frame_pos k pts i) -> in_int64 (conv (frame_pos k pts i) rate ts_rate) ->
  ts_written recorder__multiplyAndDivide k rate pts i = conv (frame_pos k pts i) rate ts_rate.
Proof. exact ts_written_exact. Qed.
Print Assumptions C24_ts_recorded_exact.

(* RTMP writer path, branches with one timestamp per frame (AC-3, MPEG-4 Audio, Opus): the message timestamp is the exact
   conversion to nanoseconds of the frame's position = unit timestamp + lengths of the earlier frames *)
Theorem C24_rtmp_frame_exact : forall rate pts adv,
  1 <= rate <= two32 -> in_int64 (pts + adv) -> in_int64 (conv (pts + adv) rate nanos) ->
  protocols_rtmp__timestampToDuration (wrap64 (pts + adv)) rate = conv (pts + adv) rate nanos.
Proof. exact dur_frame_exact. Qed.
Print Assumptions C24_rtmp_frame_exact.

Example C24_ts_written_example :
  ts_written protocols_mpegts__multiplyAndDivide TsAC3 44100 (-1099511627776 - 777) 3 = -2243901273357 /\
  conv (frame_pos TsAC3 (-1099511627776 - 777) 3) 44100 ts_rate = -2243901273357.
Proof. exact ts_written_example. Qed.

(* later frames never get an earlier timestamp *)
Theorem C24_conv_monotone : forall v w rate, 0 < rate -> v <= w -> conv v rate ts_rate <= conv w rate ts_rate.
Proof. exact conv_monotone. Qed.
Print Assumptions C24_conv_monotone.

(* conversion of a sum is not the sum of conversions: converting the unit timestamp and the frame length once and adding
   (loop hoisting) writes AC-3 frame 2 of a 44.1 kHz unit one tick early *)
Theorem C24_hoisted_conversion_refuted : exists rate pts i,
  branch_rate_ok TsAC3 rate = true /\ 0 <= i /\
  hoisted_written muldiv_w ac3_spf rate pts i <> conv (frame_pos TsAC3 pts i) rate ts_rate /\
  hoisted_written muldiv_w ac3_spf rate pts i = conv (frame_pos TsAC3 pts i) rate ts_rate - 1.
Proof. exact hoisted_refuted. Qed.
Print Assumptions C24_hoisted_conversion_refuted.

(* accumulating the truncated frame length drifts: 693 ticks after 1000 AC-3 frames at 44.1 kHz *)
Theorem C24_accumulated_conversion_refuted :
  conv (frame_pos TsAC3 0 1000) 44100 ts_rate - accumulated_written muldiv_w ac3_spf 44100 0 1000 = 693.
Proof. exact accumulated_refuted. Qed.
Print Assumptions C24_accumulated_conversion_refuted.

(* how far apart the two can be for one addition: at most one tick *)
Theorem C24_conv_sum_bounds : forall a b rate, 0 < rate -> 0 <= a -> 0 <= b ->
  conv a rate ts_rate + conv b rate ts_rate <= conv (a + b) rate ts_rate <= conv a rate ts_rate + conv b rate ts_rate + 1.
Proof. exact conv_sum_le. Qed.
Print Assumptions C24_conv_sum_bounds.

(* ---------------- call-site inventory (Model/C24_CallSites.v tied to gen/C24_Calls.v) ---------------- *)
From Coq Require Import String.
Require Import MTX.Model.C24_CallSites MTX.Proofs.C24_CallSites MTXGen.C24_Calls.

(* the model's table IS the list of helper calls of the current sources (value, source rate, destination rate of each) *)
Theorem C24_call_sites_tied : map cs_key call_table = call_sites /\ Z.of_nat (List.length call_table) = call_site_count.
Proof. split; [exact call_table_tied | exact call_table_counted]. Qed.
Print Assumptions C24_call_sites_tied.

(* every row: the call's result is the exact conversion of the quantity the row names *)
Theorem C24_call_sites_exact : Forall (fun s => forall x y i spf to from,
  scale_ok to from \/ scale_rates to from ->
  in_int64 x -> in_int64 (i * spf) -> in_int64 (qty_value (cs_qty s) x y i spf) ->
  in_int64 (Z.quot (qty_value (cs_qty s) x y i spf * to) from) ->
  site_result muldiv_w (cs_qty s) x y i spf to from = Z.quot (qty_value (cs_qty s) x y i spf * to) from) call_table.
Proof. exact call_table_rows_exact. Qed.
Print Assumptions C24_call_sites_exact.

(* the rows that derive per-frame timestamps *)
Theorem C24_call_sites_per_frame :
  map (fun s => (cs_where s, cs_callee s)) (filter (fun s => is_frame (cs_qty s)) call_table) = per_frame_sites.
Proof. exact call_table_frame_sites. Qed.
Print Assumptions C24_call_sites_per_frame.

(* converting the parts of a row's quantity separately is not the conversion of the quantity *)
Theorem C24_frame_row_split_refuted : exists x i spf to from,
  scale_rates to from /\
  wrap64 (muldiv_w x to from + wrap64 (i * muldiv_w spf to from)) <> Z.quot (qty_value (QFrame "") x 0 i spf * to) from.
Proof. exact frame_row_split_refuted. Qed.
Print Assumptions C24_frame_row_split_refuted.

Theorem C24_diff_row_split_refuted : exists x y to from,
  scale_ok to from /\
  muldiv_w x to from - muldiv_w y to from <> Z.quot (qty_value QDiff x y 0 0 * to) from.
Proof. exact diff_row_split_refuted. Qed.
Print Assumptions C24_diff_row_split_refuted.
