(* C04 — Administrative HTTP endpoints enforce their permission.
   generated_tables (routes_api, routes_metrics, routes_pprof, routes_playback) are regenerated from internal/api/api.go,
   internal/metrics/metrics.go, internal/pprof/pprof.go, internal/playback/server.go and their handlers on this run. *)
From Coq Require Import List String ZArith Bool.
Require Import MTX.Model.C04_HttpAuth MTX.Proofs.C04_HttpAuth MTXGen.C04_Routes.
Import ListNotations.
Local Open Scope string_scope.
Local Open Scope list_scope.

(* --- for EVERY registration table, every admit oracle, every path-name oracle, every request --- *)

(* data or a state change only for a client admitted for the server's action (playback: on the requested path) *)
Theorem C04_guarded : forall auth valid_path tbl, tbl_ok tbl = true -> forall req,
  carries_data (serve auth valid_path tbl req) = true -> admitted auth tbl req = true.
Proof. exact guarded. Qed.
Print Assumptions C04_guarded.

Theorem C04_refused_no_data : forall auth valid_path tbl, tbl_ok tbl = true -> forall req,
  admitted auth tbl req = false -> carries_data (serve auth valid_path tbl req) = false.
Proof. exact refused_no_data. Qed.
Print Assumptions C04_refused_no_data.

(* on tables of today's shape a refused request gets exactly: 204 (preflight), else 401; playback: 400 for an invalid
   path name, 404 where no route matches; and no data *)
Theorem C04_401_empty : forall auth valid_path tbl, tbl_strict tbl = true -> forall req,
  admitted auth tbl req = false ->
  carries_data (serve auth valid_path tbl req) = false /\
  status (serve auth valid_path tbl req) = denied_status valid_path tbl req.
Proof. exact refused_exact. Qed.
Print Assumptions C04_401_empty.

(* preflight requests are answered 204 without data and without even consulting the authentication manager *)
Theorem C04_preflight_no_data : forall auth valid_path tbl, pre_ok tbl = true -> forall req, is_preflight req = true ->
  carries_data (serve auth valid_path tbl req) = false /\ status (serve auth valid_path tbl req) = 204%Z /\
  trace (serve auth valid_path tbl req) = [].
Proof. exact preflight_no_data. Qed.
Print Assumptions C04_preflight_no_data.

(* per-path servers: Authenticate is only ever asked about (action, the REQUESTED path) and only after the path name
   was validated; the store is only accessed for that path, after it was validated and admitted *)
Theorem C04_playback_path : forall auth valid_path tbl, tbl_path_ok tbl = true -> forall req e,
  In e (trace (serve auth valid_path tbl req)) ->
  match e with
  | EvAuth a p => a = t_action tbl /\ p = Some (q_path req) /\ valid_path (q_path req) = true
  | EvAccess p => p = Some (q_path req) /\ valid_path (q_path req) = true /\
                  auth (t_action tbl) (Some (q_path req)) (q_creds req) (q_ip req) = true
  end.
Proof. exact playback_path. Qed.
Print Assumptions C04_playback_path.

(* --- the client address: only a configured trusted proxy is believed about it --- *)

(* if Initialize hands the configured proxy list to the engine (proxies_ok), data is only produced for a client admitted
   at the address the server is ENTITLED to believe: the forwarded one when the peer is a configured trusted proxy,
   else the peer's own *)
Theorem C04_guarded_wire : forall auth valid_path tbl, tbl_ok tbl = true -> proxies_ok tbl = true ->
  forall trusted w req, carries_data (serve_wire auth valid_path tbl trusted w req) = true ->
  auth (t_action tbl) (if t_withpath tbl then Some (q_path req) else None) (q_creds req) (believed trusted w) = true.
Proof. exact guarded_wire. Qed.
Print Assumptions C04_guarded_wire.

Theorem C04_401_empty_wire : forall auth valid_path tbl, tbl_strict tbl = true -> proxies_ok tbl = true ->
  forall trusted w req,
  auth (t_action tbl) (if t_withpath tbl then Some (q_path req) else None) (q_creds req) (believed trusted w) = false ->
  carries_data (serve_wire auth valid_path tbl trusted w req) = false /\
  status (serve_wire auth valid_path tbl trusted w req) = denied_status valid_path tbl req.
Proof. exact refused_exact_wire. Qed.
Print Assumptions C04_401_empty_wire.

(* non-interference: the whole response to a peer that is not a configured trusted proxy is independent of the
   X-Forwarded-For / X-Real-Ip headers it sends *)
Theorem C04_forwarded_ignored_when_untrusted : forall auth valid_path tbl, proxies_ok tbl = true ->
  forall trusted peer f1 f2 req, trusted peer = false ->
  serve_wire auth valid_path tbl trusted {| w_peer := peer; w_forwarded := f1 |} req =
  serve_wire auth valid_path tbl trusted {| w_peer := peer; w_forwarded := f2 |} req.
Proof. exact forwarded_ignored_when_untrusted. Qed.
Print Assumptions C04_forwarded_ignored_when_untrusted.

(* --- the tables of the current source --- *)

(* every Initialize calls SetTrustedProxies(<configured list>) exactly once, unconditionally *)
Theorem C04_routes_proxies_set : forallb proxies_ok generated_tables = true.
Proof. vm_compute. reflexivity. Qed.
Print Assumptions C04_routes_proxies_set.

Theorem C04_routes_ok : forallb tbl_ok generated_tables = true.
Proof. vm_compute. reflexivity. Qed.
Print Assumptions C04_routes_ok.

Theorem C04_routes_preflight_ok : forallb pre_ok generated_tables = true.
Proof. vm_compute. reflexivity. Qed.
Print Assumptions C04_routes_preflight_ok.

Theorem C04_routes_strict : forallb tbl_strict generated_tables = true.
Proof. vm_compute. reflexivity. Qed.
Print Assumptions C04_routes_strict.

Theorem C04_routes_playback_path_ok : tbl_path_ok routes_playback = true.
Proof. vm_compute. reflexivity. Qed.
Print Assumptions C04_routes_playback_path_ok.

(* the translator saw the four servers, with their actions, and routes under each *)
Theorem C04_routes_present :
  map (fun t => (t_server t, t_action t, t_withpath t)) generated_tables =
    [("api", "API", false); ("metrics", "Metrics", false); ("pprof", "Pprof", false); ("playback", "Playback", true)] /\
  forallb (fun t => let c := compile t in negb (Nat.eqb (List.length (c_routes c) + List.length (c_externs c)) 0)) generated_tables = true.
Proof. vm_compute. split; reflexivity. Qed.
Print Assumptions C04_routes_present.

(* --- non-vacuity and sensitivity --- *)

Definition ex_creds : creds := {| c_user := []; c_pass := []; c_token := [] |}.
Definition ex_req (m pat : string) : request :=
  {| q_method := m; q_pattern := pat; q_listed := false; q_acrm := false; q_creds := ex_creds; q_ip := [];
     q_path := [99; 97; 109]%Z; q_other := [] |}.

(* an admitted client gets data, a refused one 401, on the generated API table *)
Example C04_example_api :
  carries_data (serve (fun _ _ _ _ => true) (fun _ => true) routes_api (ex_req "GET" "/v3/paths/list")) = true /\
  status (serve (fun _ _ _ _ => false) (fun _ => true) routes_api (ex_req "GET" "/v3/paths/list")) = 401%Z /\
  status (serve (fun _ _ _ _ => true) (fun _ => true) routes_api (ex_req "PUT" "/v3/paths/list")) = 404%Z /\
  status (serve (fun _ _ _ _ => false) (fun _ => false) routes_playback (ex_req "GET" "/list")) = 400%Z.
Proof. vm_compute. repeat split. Qed.

(* order matters: a route registered BEFORE router.Use(auth) is not under it *)
Definition ex_auth : elem := {| e_name := "middlewareAuth"; e_body := [HAuth "API" PNone true true] |}.
Definition ex_handler : elem := {| e_name := "onInfo"; e_body := [HAccess PNone] |}.
Definition ex_table (regs : list reg) : table :=
  {| t_server := "api"; t_action := "API"; t_withpath := false; t_root := "router"; t_proxies_set := true; t_regs := regs |}.

Example C04_order_matters :
  tbl_ok (ex_table [RUse "router" ex_auth; RRoute "router" "GET" "/info" ex_handler]) = true /\
  tbl_ok (ex_table [RRoute "router" "GET" "/info" ex_handler; RUse "router" ex_auth]) = false /\
  carries_data (serve (fun _ _ _ _ => false) (fun _ => true)
                  (ex_table [RRoute "router" "GET" "/info" ex_handler; RUse "router" ex_auth]) (ex_req "GET" "/info")) = true.
Proof. vm_compute. repeat split. Qed.

(* Abort matters: a middleware that answers 401 without aborting lets the handler run *)
Example C04_abort_matters :
  let t := ex_table [RUse "router" {| e_name := "middlewareAuth"; e_body := [HAuth "API" PNone false true] |};
                     RRoute "router" "GET" "/info" ex_handler] in
  tbl_ok t = false /\
  carries_data (serve (fun _ _ _ _ => false) (fun _ => true) t (ex_req "GET" "/info")) = true /\
  status (serve (fun _ _ _ _ => false) (fun _ => true) t (ex_req "GET" "/info")) = 401%Z.
Proof. vm_compute. repeat split. Qed.

(* SetTrustedProxies matters: an engine that was not told the (empty) proxy list believes the headers of anybody.
   auth admits only address [1]; the peer is [7] and trusted by nobody; the headers name [1] *)
Definition ex_noproxy_table : table :=
  {| t_server := "api"; t_action := "API"; t_withpath := false; t_root := "router"; t_proxies_set := false;
     t_regs := [RUse "router" ex_auth; RRoute "router" "GET" "/info" ex_handler] |}.
Definition ex_only_from_1 : string -> option (list Z) -> creds -> list Z -> bool :=
  fun _ _ _ ip => match ip with [1%Z] => true | _ => false end.

Example C04_proxies_matter :
  let spoof := {| w_peer := [7%Z]; w_forwarded := Some [1%Z] |} in
  let good := ex_table [RUse "router" ex_auth; RRoute "router" "GET" "/info" ex_handler] in
  tbl_ok ex_noproxy_table = true /\ proxies_ok ex_noproxy_table = false /\
  carries_data (serve_wire ex_only_from_1 (fun _ => true) ex_noproxy_table (fun _ => false) spoof (ex_req "GET" "/info")) = true /\
  status (serve_wire ex_only_from_1 (fun _ => true) good (fun _ => false) spoof (ex_req "GET" "/info")) = 401%Z /\
  (* a configured trusted proxy is believed *)
  carries_data (serve_wire ex_only_from_1 (fun _ => true) good (fun _ => true) spoof (ex_req "GET" "/info")) = true.
Proof. vm_compute. repeat split. Qed.
