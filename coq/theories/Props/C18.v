(* C18 — Reader limits hold and readers are torn down when the stream goes away. Only statements here. *)
From Coq Require Import List ZArith.
Require Import MTX.Lib.Trace MTX.Model.PathSM MTX.Proofs.PathSM MTX.Proofs.PathSM_Thms MTX.Proofs.PathSM_Teardown.
Import ListNotations.
Local Open Scope Z_scope.

(* after every history (including held readers consumed when the stream becomes ready) *)
Theorem C18_bounded : forall cf ops,
  conf_ok cf = true -> c_maxr cf <> 0 ->
  Z.of_nat (length (s_readers (final step (init_state cf) ops))) <= Z.max 0 (c_maxr cf).
Proof. exact (c18_bounded true). Qed.
Print Assumptions C18_bounded.

Theorem C18_no_double_count : forall cf ops,
  conf_ok cf = true -> NoDup (s_readers (final step (init_state cf) ops)).
Proof. exact (c18_nodup true). Qed.
Print Assumptions C18_no_double_count.

(* re-adding an attached reader answers the stream and leaves the state unchanged *)
Theorem C18_readd_unchanged : forall s q r g,
  s_closed s = false -> s_stream s = Some g -> In r (s_readers s) ->
  step s (AddReader q r) = (s, [EAnswer q (AStream g)]).
Proof. exact (c18_readd_unchanged true). Qed.
Print Assumptions C18_readd_unchanged.

(* no reader is attached to a path without stream *)
Theorem C18_readers_need_stream : forall cf ops,
  conf_ok cf = true ->
  let s := final step (init_state cf) ops in s_stream s = None -> s_readers s = [].
Proof. exact (c18_readers_need_stream true). Qed.
Print Assumptions C18_readers_need_stream.

(* teardown: from any state reached by a history (Inv), a step that leaves the path without stream has closed
   every attached reader (except one removed by this very RemoveReader) and leaves no reader attached *)
Theorem C18_teardown : forall s o,
  Inv true s -> s_stream (fst (step s o)) = None ->
  s_readers (fst (step s o)) = [] /\
  forall r, In r (s_readers s) -> o <> RemoveReader r -> In (EReaderClosed r) (snd (step s o)).
Proof. exact (c18_teardown true). Qed.
Print Assumptions C18_teardown.

(* ... and Inv holds after every history *)
Theorem C18_inv_reachable : forall cf ops, conf_ok cf = true -> Inv true (final step (init_state cf) ops).
Proof. exact (PathSM_List.inv_run true). Qed.
Print Assumptions C18_inv_reachable.

(* an attached reader stays attached or is closed: it is never dropped silently *)
Theorem C18_no_silent_drop : forall s o r,
  In r (s_readers s) -> o <> RemoveReader r ->
  In r (s_readers (fst (step s o))) \/ In (EReaderClosed r) (snd (step s o)).
Proof. exact (td_step true). Qed.
Print Assumptions C18_no_silent_drop.

(* alwaysAvailable paths: the stream does not go away when the publisher leaves, and no reader is detached *)
Theorem C18_always_available_publisher_leaves : forall s p,
  s_closed s = false -> c_aa (s_conf s) = true ->
  let s' := fst (step s (RemovePublisher p)) in
  s_stream s' = s_stream s /\ s_readers s' = s_readers s.
Proof. exact (c18_aa_publisher_leaves true). Qed.
Print Assumptions C18_always_available_publisher_leaves.
