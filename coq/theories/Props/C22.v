(* C22 — Remuxing preserves media and injects current parameters at keyframes.
   Only statements here; every proof is `exact <lemma of Proofs/C22_Remux.v>`.

   h264_write / h265_write / mpeg4_write / av1_remux are the transliterations (Model/C22_Remux.v) of
   formatUpdater* followed by unitRemuxer* in the order subStreamFormat.writeUnitInner calls them; they
   return the delivered unit, the parameter sets the format (= the published description) holds
   afterwards, and whether updateOutDesc was called. `no_empty au` (no NAL unit of the access unit is
   empty) is a real precondition: the code indexes nalu[0] and panics otherwise (C22_*_panic_iff).
   State after the fix: commits 34d1d30, 2aaff84 of the repository. *)
From Coq Require Import List ZArith Bool.
Require Import MTX.Model.C22_Remux MTX.Proofs.C22_Remux.
Import ListNotations.
Local Open Scope Z_scope.

(* ---- H.264: SPS = 7, PPS = 8, AUD = 9, IDR = 5 ---- *)

Theorem C22_h264 : forall st au, no_empty au ->
  let st' := {| h4_sps := last_or st.(h4_sps) (filter (h264_is 7) au);
                h4_pps := last_or st.(h4_pps) (filter (h264_is 8) au) |} in
  exists desc_updated,
    h264_write st au =
      Ok ((if h264_has_idr au && h264_known st' then [slice_of st'.(h4_sps); slice_of st'.(h4_pps)] else [])
          ++ filter (fun n => negb (h264_param n || h264_aud n)) au,
          st', desc_updated)
    /\ (desc_updated = false -> st' = st).
Proof. exact h264_write_spec. Qed.
Print Assumptions C22_h264.

(* last_or prev l: the last element of l, prev when there is none *)
Theorem C22_last_or_meaning : forall prev,
  last_or prev [] = prev /\ forall l x, last_or prev (l ++ [x]) = Some x.
Proof. exact last_or_meaning. Qed.
Print Assumptions C22_last_or_meaning.

(* all access-unit sequences: unit k is delivered as above w.r.t. the parameters accumulated over units 1..k,
   which is also what the description reports after unit k *)
Theorem C22_h264_seq : forall aus st, Forall no_empty aus -> h264_run st aus = Ok (h264_spec_run st aus).
Proof. exact h264_run_spec. Qed.
Print Assumptions C22_h264_seq.

Theorem C22_h264_panic_iff : forall st au, h264_write st au = Panic <-> In [] au.
Proof. exact h264_write_panic_iff. Qed.
Print Assumptions C22_h264_panic_iff.

(* whatever the format holds (including empty, non-nil parameter sets from a malformed SDP), the delivered
   unit never contains an empty NAL unit *)
Theorem C22_h264_out_no_empty : forall st au, no_empty au -> no_empty (h264_out_spec st au).
Proof. exact h264_out_no_empty. Qed.
Print Assumptions C22_h264_out_no_empty.

(* ---- H.265: VPS = 32, SPS = 33, PPS = 34, AUD = 35; random access = IDR_W_RADL 19, IDR_N_LP 20, CRA 21 ---- *)

Theorem C22_h265 : forall st au, no_empty au ->
  let st' := {| h5_vps := last_or st.(h5_vps) (filter (h265_is 32) au);
                h5_sps := last_or st.(h5_sps) (filter (h265_is 33) au);
                h5_pps := last_or st.(h5_pps) (filter (h265_is 34) au) |} in
  exists desc_updated,
    h265_write st au =
      Ok ((if h265_has_irap au && h265_known st'
           then [slice_of st'.(h5_vps); slice_of st'.(h5_sps); slice_of st'.(h5_pps)] else [])
          ++ filter (fun n => negb (h265_param n || h265_aud n)) au,
          st', desc_updated)
    /\ (desc_updated = false -> st' = st).
Proof. exact h265_write_spec. Qed.
Print Assumptions C22_h265.

Theorem C22_h265_seq : forall aus st, Forall no_empty aus -> h265_run st aus = Ok (h265_spec_run st aus).
Proof. exact h265_run_spec. Qed.
Print Assumptions C22_h265_seq.

Theorem C22_h265_panic_iff : forall st au, h265_write st au = Panic <-> In [] au.
Proof. exact h265_write_panic_iff. Qed.
Print Assumptions C22_h265_panic_iff.

Theorem C22_h265_out_no_empty : forall st au, no_empty au -> no_empty (h265_out_spec st au).
Proof. exact h265_out_no_empty. Qed.
Print Assumptions C22_h265_out_no_empty.

(* ---- MPEG-4 Video: a frame that starts with the visual-object-sequence start code (00 00 01 B0) and has a
   group-of-VOP start code (00 00 01 B3) at offset >= 4 carries the configuration conf = everything before the
   first such GOV; it becomes the format's configuration and the frame is delivered unchanged (stripped, then
   the same bytes prepended). Any other frame gets the current configuration prepended iff it contains a GOV
   start code, and is otherwise unaltered. ---- *)
Theorem C22_mpeg4v : forall cfg frame,
  let '(out, cfg', desc_updated) := mpeg4_write cfg frame in
  (desc_updated = false -> cfg' = cfg) /\
  match mpeg4_inband frame with
  | Some (conf, body) =>
      frame = conf ++ body /\ has_prefix vos_code frame = true /\ has_prefix gov_code body = true
      /\ (4 <= length conf)%nat
      /\ (forall j, (4 + j < length conf)%nat -> has_prefix gov_code (skipn (4 + j) frame) = false)
      /\ cfg' = conf /\ out = frame
  | None =>
      cfg' = cfg /\ out = (if contains gov_code frame then cfg ++ frame else frame)
  end.
Proof. exact mpeg4_write_spec. Qed.
Print Assumptions C22_mpeg4v.

Theorem C22_mpeg4v_seq : forall frames cfg, mpeg4_run cfg frames = mpeg4_spec_run cfg frames.
Proof. exact mpeg4_run_spec. Qed.
Print Assumptions C22_mpeg4v_seq.

(* ---- AV1: temporal delimiters (OBU type 2) removed, order kept ---- *)
Theorem C22_av1 : forall tu, no_empty tu -> av1_remux tu = Ok (filter (fun o => negb (av1_td o)) tu).
Proof. exact av1_remux_spec. Qed.
Print Assumptions C22_av1.

Theorem C22_av1_panic_iff : forall tu, av1_remux tu = Panic <-> In [] tu.
Proof. exact av1_remux_panic_iff. Qed.
Print Assumptions C22_av1_panic_iff.

(* ---- every other format ---- *)
Theorem C22_other_identity : forall (A : Type) (p : A), other_write p = p.
Proof. exact other_identity. Qed.
Print Assumptions C22_other_identity.

(* non-vacuity: parameters only in-band at the second unit; changed SPS; key frame before any parameter *)
Example C22_example_h264 :
  let sps1 := [103; 1] in let sps2 := [103; 2] in let pps := [104; 9] in
  let aus := [ [[101; 0]];                          (* IDR, nothing known: delivered as is *)
               [[9; 240]; sps1; pps; [101; 1]];     (* AUD SPS PPS IDR *)
               [[65; 2]];                           (* non-IDR *)
               [sps1; sps2; [6; 5]; [101; 3]] ] in  (* two SPS: the last one wins *)
  Forall no_empty aus /\
  h264_run {| h4_sps := None; h4_pps := None |} aus =
  Ok [ ([[101; 0]], {| h4_sps := None; h4_pps := None |});
       ([sps1; pps; [101; 1]], {| h4_sps := Some sps1; h4_pps := Some pps |});
       ([[65; 2]], {| h4_sps := Some sps1; h4_pps := Some pps |});
       ([sps2; pps; [6; 5]; [101; 3]], {| h4_sps := Some sps2; h4_pps := Some pps |}) ].
Proof.
  split; [repeat constructor; intros H; simpl in H; repeat (destruct H as [H|H]; [discriminate H|]); exact H
         |vm_compute; reflexivity].
Qed.

Example C22_example_h265 :
  let vpsA := [64; 1; 10] in let vpsB := [64; 1; 11] in let sps := [66; 1] in let pps := [68; 1] in
  no_empty [vpsB; vpsA; [70; 1]; [38; 1]] /\
  h265_write {| h5_vps := Some vpsA; h5_sps := Some sps; h5_pps := Some pps |} [vpsB; vpsA; [70; 1]; [38; 1]] =
  Ok ([vpsA; sps; pps; [38; 1]], {| h5_vps := Some vpsA; h5_sps := Some sps; h5_pps := Some pps |}, true).
Proof.
  split; [intros H; simpl in H; repeat (destruct H as [H|H]; [discriminate H|]); exact H|vm_compute; reflexivity].
Qed.

Example C22_example_mpeg4v_av1 :
  mpeg4_write [9] [0; 0; 1; 176; 7; 0; 0; 1; 179; 5] = ([0; 0; 1; 176; 7; 0; 0; 1; 179; 5], [0; 0; 1; 176; 7], true)
  /\ mpeg4_write [0; 0; 1; 176; 7] [0; 0; 1; 179; 6] = ([0; 0; 1; 176; 7; 0; 0; 1; 179; 6], [0; 0; 1; 176; 7], false)
  /\ mpeg4_write [0; 0; 1; 176; 7] [0; 0; 1; 182; 6] = ([0; 0; 1; 182; 6], [0; 0; 1; 176; 7], false)
  /\ av1_remux [[16]; [8; 1]; [16]; [50; 3]] = Ok [[8; 1]; [50; 3]]
  /\ av1_remux [[16]; []] = Panic.
Proof. vm_compute. repeat split. Qed.
