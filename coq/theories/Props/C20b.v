(* C20b - second half of C20 (hooks fire in well-formed start/stop pairs): runOnRead/runOnUnread per reader,
   runOnConnect/runOnDisconnect per connection, runOnInit.  (The path-level pairs are Props/C20.v.)
   Only statements here; every proof is `exact <lemma of Proofs/C20b_SessionHooks.v>` or a closed computation. *)
From Coq Require Import List Bool ZArith.
Require Import MTX.Lib.Trace MTX.Model.C20b_SiteTypes MTX.Model.C20b_SessionHooks MTX.Proofs.C20b_SessionHooks.
Require Import MTX.Model.C20b_HlsMux.
Require MTX.Proofs.C20b_HlsMux.
Require Import MTXGen.C20_HookSites.
Import ListNotations.

(* ---- shape (a): x := hooks.OnX(..); defer x()  /  x := hooks.OnX(..); ...; x() ---------------------------------------
   any execution "open; body; close" whose body does not touch this hook: one start, one stop, start first, stop last,
   pair closed.  The deferred form gives this trace on every execution, the straight-line form on every execution whose
   body does not panic. *)
Theorem C20b_bracket_pairs : forall (E : Type) (cls : E -> option bool) (o c : E) (body : list E),
  cls o = Some true -> cls c = Some false -> Forall (fun e => cls e = None) body ->
  alternates_closed cls (bracket o c body) /\
  count_cls cls true (bracket o c body) = 1%nat /\
  count_cls cls false (bracket o c body) = 1%nat /\
  last (bracket o c body) o = c /\
  hd_error (bracket o c body) = Some o.
Proof. exact bracket_pairs. Qed.
Print Assumptions C20b_bracket_pairs.

Theorem C20b_shape_a_is_bracket : forall (E : Type) (cls : E -> option bool) sh (o c : E) body panics,
  cls o = Some true -> cls c = Some false -> Forall (fun e => cls e = None) body ->
  sh = ShDefer \/ panics = false ->
  exec_shape_a sh o c body panics = bracket o c body.
Proof. exact shape_a_pairs. Qed.
Print Assumptions C20b_shape_a_is_bracket.

(* partial: runOnInit (path.run, straight-line form) stays open when the body panics - the process dies with it *)
Theorem C20b_straight_panic_open_partial : forall (E : Type) (cls : E -> option bool) (o c : E) body,
  cls o = Some true -> Forall (fun e => cls e = None) body ->
  mon_run (alt_mon cls) false (exec_shape_a ShStraight o c body true) = Some true.
Proof. exact shape_straight_panic_open. Qed.
Print Assumptions C20b_straight_panic_open_partial.

Example C20b_bracket_nonvacuous :
  bracket HStart HStop [HPanic; HPanic] = [HStart; HPanic; HPanic; HStop] /\ hcls HStart = Some true /\
  hcls HStop = Some false /\ Forall (fun e => hcls e = None) [HPanic; HPanic].
Proof. repeat split; repeat constructor. Qed.

(* ---- shape (b), RTSP reader (session.onUnreadHook): ALL request sequences ---------------------------------------------
   gs_trace ops = the OnRead constructor / closure calls of internal/servers/rtsp/session.go when gortsplib (state
   machine `gortsplib`, transliterated from server_session.go) serves the requests `ops`; OClose = the library ends the
   session.  For every sequence over {announce, setup, play, record, pause, close} (handler outcomes included): the calls
   alternate start/stop beginning with a start, no nil closure is called, the pair is closed once the session has
   ended; the same for the log lines under every configuration of runOnRead / runOnUnread. *)
Theorem C20_reader_pairs : forall ops : list op,
  alternates hcls (gs_trace ops) /\
  ~ In HPanic (gs_trace ops) /\
  (In OClose ops -> alternates_closed hcls (gs_trace ops)) /\
  (forall start_on stop_on,
     alternates lcls (log_trace start_on stop_on (gs_trace ops)) /\
     (In OClose ops -> alternates_closed lcls (log_trace start_on stop_on (gs_trace ops)))).
Proof. exact reader_pairs_all_sequences. Qed.
Print Assumptions C20_reader_pairs.

Example C20_reader_pairs_nonvacuous :
  gs_trace [OSetup true; OPlay; OPlay; OPause; OPause; OPlay; OSetup true; OClose; OPlay] = [HStart; HStop; HStart; HStop] /\
  gs_trace [OAnnounce true; OSetup true; ORecord true false; OPlay; OPause; OClose] = [] /\
  gs_trace [OSetup true; OPlay] = [HStart].
Proof. vm_compute. repeat split. Qed.

(* the same for ANY library behaviour that keeps `lib_contract` (the five facts about Play / PrePlay the handlers rely
   on): the library's state after each request is an input of the execution *)
Theorem C20b_reader_pairs_any_library :
  forall (lib : hkind -> lstate -> bool -> lstate -> bool),
    (forall h pre ok post, lib h pre ok post = true -> lib_contract h pre ok post = true) ->
    forall cs : list call,
      rt_valid lib rst0 cs = true ->
      alternates hcls (rt_trace rst0 cs) /\
      ~ In HPanic (rt_trace rst0 cs) /\
      ((exists c, In c cs /\ c_h c = HkClose) -> alternates_closed hcls (rt_trace rst0 cs)).
Proof. exact reader_pairs_any_library. Qed.
Print Assumptions C20b_reader_pairs_any_library.

Theorem C20b_gortsplib_keeps_contract : forall h pre ok post,
  gortsplib h pre ok post = true -> lib_contract h pre ok post = true.
Proof. exact gortsplib_keeps_contract. Qed.
Print Assumptions C20b_gortsplib_keeps_contract.

(* the contract is not vacuous and not trivial *)
Example C20b_contract_examples :
  lib_contract HkPlay LPrePlay true LPlay = true /\ lib_contract HkPlay LPrePlay true LPrePlay = false /\
  lib_contract HkSetup LPlay true LPrePlay = false /\ lib_contract HkPause LPlay true LPrePlay = true /\
  rt_valid gortsplib rst0 [mk_call HkSetup true false LPrePlay; mk_call HkPlay true false LPlay;
                           mk_call HkClose true false LPlay] = true.
Proof. vm_compute. repeat split. Qed.

(* ---- RTSP reader with the API kick: refuted, and the part that holds ------------------------------------------------
   Server.APISessionsKick runs session.onClose on the caller's goroutine while the library session keeps serving
   requests until it notices the cancelled context: a PAUSE served after (or overlapping) the kick calls the closure a
   second time; a PLAY served after a kick in PrePlay dereferences the nil s.path.  Replayed on the real server by the
   driver (scripted case "kick-during-pause"). *)
Theorem C20b_reader_pairs_kick_refuted :
  ks_trace kick_witness = [HStart; HStop; HStop] /\ pairs_okb false (ks_trace kick_witness) = false /\
  ks_trace kick_witness2 = [HPanic] /\ pairs_okb false (ks_trace kick_witness2) = false.
Proof. exact rtsp_kick_refuted. Qed.
Print Assumptions C20b_reader_pairs_kick_refuted.

Theorem C20b_reader_pairs_kick_partial : forall ops : list kop,
  quiet_after_kick ops = true ->
  alternates hcls (ks_trace ops) /\ ~ In HPanic (ks_trace ops) /\
  (existsb kop_ends ops = true -> alternates_closed hcls (ks_trace ops)).
Proof. exact kick_pairs_partial. Qed.
Print Assumptions C20b_reader_pairs_kick_partial.

Example C20b_kick_partial_nonvacuous :
  quiet_after_kick [KOp (OSetup true); KOp OPlay; KOp OPause; KOp OPlay; KKick; KOp OClose; KKick] = true /\
  ks_trace [KOp (OSetup true); KOp OPlay; KOp OPause; KOp OPlay; KKick; KOp OClose; KKick] = [HStart; HStop; HStart; HStop] /\
  quiet_after_kick kick_witness = false.
Proof. vm_compute. repeat split. Qed.

(* ---- RTSP connection (conn.onDisconnectHook) ---------------------------------------------------------------------- *)
Theorem C20b_conn_pairs : forall ops : list cop,
  cn_valid ops = true ->
  alternates hcls (cn_trace ops) /\ ~ In HPanic (cn_trace ops) /\
  (In CClose ops -> alternates_closed hcls (cn_trace ops)).
Proof. exact conn_pairs. Qed.
Print Assumptions C20b_conn_pairs.

Example C20b_conn_nonvacuous :
  cn_valid [COpen; CRequest; CRequest; CClose] = true /\ cn_trace [COpen; CRequest; CRequest; CClose] = [HStart; HStop] /\
  cn_valid [CRequest; COpen] = false /\ cn_valid [COpen; CClose; CClose] = false.
Proof. vm_compute. repeat split. Qed.

(* ---- HLS reader (session.onUnreadHook of internal/servers/hls): refuted, and the part that holds ----------------------
   The session is registered in the muxer (addSession) before its hook field is assigned, and the final loop of
   muxer.run leaves the sessions in sessionsBySecret: close2 can run before the hook exists (nil closure) and twice. *)
Theorem C20b_hls_reader_pairs_refuted :
  hl_program_order hls_witness_early = true /\ hl_trace false hls_witness_early = [HPanic; HStart] /\
  pairs_okb true (hl_trace false hls_witness_early) = false /\
  hl_program_order hls_witness_double = true /\ hl_trace false hls_witness_double = [HStart; HStop; HStop] /\
  pairs_okb false (hl_trace false hls_witness_double) = false.
Proof. exact hls_reader_pairs_refuted. Qed.
Print Assumptions C20b_hls_reader_pairs_refuted.

Theorem C20b_hls_reader_pairs_partial : forall cdn (pre post : list hop),
  forallb hop_other pre = true -> forallb hop_other post = true -> hl_destroy_last post = true ->
  let t := hl_trace cdn (pre ++ [HReg; HSetHook] ++ post) in
  alternates hcls t /\ ~ In HPanic t /\ (existsb hl_closes post = true -> alternates_closed hcls t).
Proof. exact hls_pairs_partial. Qed.
Print Assumptions C20b_hls_reader_pairs_partial.

Example C20b_hls_partial_nonvacuous :
  hl_trace false ([HKick; HRemove] ++ [HReg; HSetHook] ++ [HRemove; HKick; HDestroy]) = [HStart; HStop] /\
  hl_destroy_last [HRemove; HKick; HDestroy] = true /\ hl_destroy_last [HDestroy; HKick] = false.
Proof. vm_compute. repeat split. Qed.

(* ---- HLS front end at the level of the muxer: which sessions the muxer can still reach --------------------------------
   Model/C20b_HlsMux.v (module HX): requests for the multivariant playlist (ordinary / CDN) pass the HTTP handler's
   checks (MArrive), wait in pathManager.AddReader for as long as the path manager likes - so several CDN requests may
   all have seen "no CDN session yet" - and are registered one by one (MProceed); idle expiry, API kick, and every way
   the muxer drops all its sessions.  For ALL schedules and every session s: the calls of s's reader hook are well-formed
   start/stop pairs, the pair is open exactly while the muxer can reach s, and nothing is open once the muxer has dropped
   its sessions (later requests that are not admitted change nothing).  addSession replacing the CDN session without
   closing it is refuted by the schedule "two concurrent first CDN requests". *)
Theorem C20b_hls_mux_pairs : forall (ops : list HX.mop) (s : nat),
  pairs_okb false (HX.proj s (HX.mtrace true ops)) = true /\
  mon_run (alt_mon hcls) false (HX.proj s (HX.mtrace true ops)) = Some (HX.reach (HX.mfinal true ops) s).
Proof. intros ops s. split; [apply MTX.Proofs.C20b_HlsMux.hls_mux_pairs_okb|apply MTX.Proofs.C20b_HlsMux.hls_mux_pairs]. Qed.
Print Assumptions C20b_hls_mux_pairs.

Theorem C20b_hls_mux_closed_after_close : forall (pre post : list HX.mop) (s : nat),
  forallb (fun o => match o with HX.MProceed _ true => false | _ => true end) post = true ->
  pairs_okb true (HX.proj s (HX.mtrace true (pre ++ HX.MCloseAll :: post))) = true.
Proof. exact MTX.Proofs.C20b_HlsMux.hls_mux_closed_after_close. Qed.
Print Assumptions C20b_hls_mux_closed_after_close.

Theorem C20b_hls_mux_replace_without_close_refuted :
  let w := [HX.MArrive true; HX.MArrive true; HX.MProceed 0 true; HX.MProceed 1 true; HX.MCloseAll] in
  HX.mtrace false w = [(0, HStart); (1, HStart); (1, HStop)] /\
  pairs_okb true (HX.proj 0 (HX.mtrace false w)) = false /\
  HX.mtrace true w = [(0, HStart); (0, HStop); (1, HStart); (1, HStop)] /\
  pairs_okb true (HX.proj 0 (HX.mtrace true w)) = true.
Proof. exact MTX.Proofs.C20b_HlsMux.hls_mux_replace_without_close_refuted. Qed.
Print Assumptions C20b_hls_mux_replace_without_close_refuted.

Example C20b_hls_mux_nonvacuous :
  HX.mtrace true [HX.MArrive false; HX.MArrive true; HX.MProceed 1 true; HX.MArrive true; HX.MProceed 0 true;
                  HX.MKick 1; HX.MArrive true; HX.MProceed 3 true; HX.MExpire [0; 3]; HX.MCloseAll]
  = [(1, HStart); (0, HStart); (1, HStop); (3, HStart); (0, HStop); (3, HStop)].
Proof. vm_compute. reflexivity. Qed.

(* ---- tie to the sources: every hooks.OnXxx mention of the current tree is of a modelled shape ------------------------ *)
Theorem C20b_sites_classified : forallb site_ok hook_sites = true.
Proof. vm_compute. reflexivity. Qed.
Print Assumptions C20b_sites_classified.

Theorem C20b_sites_complete : sites_okb hook_sites hook_mentions_textual = true.
Proof. vm_compute. reflexivity. Qed.
Print Assumptions C20b_sites_complete.
