(* C12 — API configuration edits are exact and atomic.
   Only statements here; every proof is `exact <lemma of Proofs/C12_ApiEdit.v>`.

   The model (Model/C12_ApiEdit.v) keeps the running configuration in a memory of cells (one per optional path, as
   conf.Conf does through OptionalPath.Values); an edit is  Clone ; conf method ; Validate ; publish-or-discard  as in
   Core.doAPIConfig*. [valid] is Conf.Validate, an arbitrary function of the candidate configuration: every theorem
   holds whatever Validate accepts. [abs w] is what the API reads: global fields, path defaults, and for each path
   the fields that are set; [effective] is conf.Paths[name]. [patch_val f p] is the value the request gives to field f
   (None = field absent from the request = nil pointer in the optional struct). *)
From Coq Require Import List ZArith Bool.
Require Import MTX.Model.C12_ApiEdit MTX.Proofs.C12_ApiEdit MTX.Model.C12_FileReload MTX.Proofs.C12_FileReload.
Require Import MTX.Model.C12_Reads MTX.Proofs.C12_Reads.
Import ListNotations.
Local Open Scope Z_scope.

(* PATCH of one path: present fields take the given value, all other fields of that path, all other paths, the
   global fields and the path defaults keep theirs *)
Theorem C12_patch_exact : forall valid w n p w', wf w -> edit valid Deep w (Patch n p) = (w', OOk) ->
  exists c c', pget n (vp (abs w)) = Some c /\ pget n (vp (abs w')) = Some c' /\
    (forall f, get f c' = match patch_val f p with Some v => Some v | None => get f c end) /\
    (forall n', n' <> n -> pget n' (vp (abs w')) = pget n' (vp (abs w))) /\
    vg (abs w') = vg (abs w) /\ vd (abs w') = vd (abs w).
Proof. exact patch_exact. Qed.
Print Assumptions C12_patch_exact.

Theorem C12_patch_global_exact : forall valid w p w', wf w -> edit valid Deep w (PatchGlobal p) = (w', OOk) ->
  (forall f, get f (vg (abs w')) = match patch_val f p with Some v => Some v | None => get f (vg (abs w)) end) /\
  vd (abs w') = vd (abs w) /\ vp (abs w') = vp (abs w).
Proof. exact patch_global_exact. Qed.
Print Assumptions C12_patch_global_exact.

Theorem C12_patch_defaults_exact : forall valid w p w', wf w -> edit valid Deep w (PatchDefaults p) = (w', OOk) ->
  (forall f, get f (vd (abs w')) = match patch_val f p with Some v => Some v | None => get f (vd (abs w)) end) /\
  vg (abs w') = vg (abs w) /\ vp (abs w') = vp (abs w).
Proof. exact patch_defaults_exact. Qed.
Print Assumptions C12_patch_defaults_exact.

Theorem C12_patch_missing_fails : forall valid w n p w' out, wf w -> pget n (vp (abs w)) = None ->
  edit valid Deep w (Patch n p) = (w', out) -> out = ONotFound /\ abs w' = abs w.
Proof. exact patch_missing_fails. Qed.
Print Assumptions C12_patch_missing_fails.

(* ADD: fails on an existing name; otherwise the new path has exactly the given fields *)
Theorem C12_add_existing_fails : forall valid w n p w' out, wf w -> pmem n (vp (abs w)) = true ->
  edit valid Deep w (Add n p) = (w', out) -> out = OExists /\ abs w' = abs w.
Proof. exact add_existing_fails. Qed.
Print Assumptions C12_add_existing_fails.

Theorem C12_add_exact : forall valid w n p w', wf w -> edit valid Deep w (Add n p) = (w', OOk) ->
  pget n (vp (abs w)) = None /\
  (exists c', pget n (vp (abs w')) = Some c' /\ forall f, get f c' = patch_val f p) /\
  (forall n', n' <> n -> pget n' (vp (abs w')) = pget n' (vp (abs w))) /\
  vg (abs w') = vg (abs w) /\ vd (abs w') = vd (abs w).
Proof. exact add_exact. Qed.
Print Assumptions C12_add_exact.

(* REPLACE: the path has exactly the given fields afterwards, so in its effective configuration every field
   absent from the request is back at the path default (and "name" is the path's own name) *)
Theorem C12_replace_exact : forall valid name_f w n p w', wf w -> edit valid Deep w (Replace n p) = (w', OOk) ->
  (exists c', pget n (vp (abs w')) = Some c' /\ forall f, get f c' = patch_val f p) /\
  (exists e, effective name_f (abs w') n = Some e /\ get name_f e = Some n /\
     forall f, f <> name_f -> get f e = match patch_val f p with Some v => Some v | None => get f (vd (abs w)) end) /\
  (forall n', n' <> n -> pget n' (vp (abs w')) = pget n' (vp (abs w))) /\
  vg (abs w') = vg (abs w) /\ vd (abs w') = vd (abs w).
Proof. exact replace_exact. Qed.
Print Assumptions C12_replace_exact.

(* DELETE: fails on a missing name; otherwise removes that path only *)
Theorem C12_delete_missing_fails : forall valid w n w' out, wf w -> pmem n (vp (abs w)) = false ->
  edit valid Deep w (Delete n) = (w', out) -> out = ONotFound /\ abs w' = abs w.
Proof. exact delete_missing_fails. Qed.
Print Assumptions C12_delete_missing_fails.

Theorem C12_delete_exact : forall valid w n w', wf w -> edit valid Deep w (Delete n) = (w', OOk) ->
  pmem n (vp (abs w)) = true /\ pget n (vp (abs w')) = None /\
  (forall n', n' <> n -> pget n' (vp (abs w')) = pget n' (vp (abs w))) /\
  vg (abs w') = vg (abs w) /\ vd (abs w') = vd (abs w).
Proof. exact delete_exact. Qed.
Print Assumptions C12_delete_exact.

(* every path's effective configuration (conf.Paths): set fields over the current defaults *)
Theorem C12_effective_exact : forall name_f v n e, effective name_f v n = Some e ->
  exists c, pget n (vp v) = Some c /\ get name_f e = Some n /\
    forall f, f <> name_f -> get f e = match patch_val f c with Some x => Some x | None => get f (vd v) end.
Proof. exact effective_exact. Qed.
Print Assumptions C12_effective_exact.

(* ATOMIC: any edit that is not answered OK (invalid configuration, existing/missing name, undecodable request)
   leaves everything the API can read unchanged. This needs the clone to be independent of the running
   configuration (C11): with the deepClone that did not clone interface values it is false. *)
Theorem C12_invalid_unchanged : forall valid w o w' out, wf w -> edit valid Deep w o = (w', out) -> out <> OOk ->
  abs w' = abs w.
Proof. exact invalid_unchanged. Qed.
Print Assumptions C12_invalid_unchanged.

Theorem C12_invalid_unchanged_needs_deep_clone :
  exists valid w o w', edit valid ShallowIface w o = (w', OInvalid) /\ wf w /\ abs w' <> abs w.
Proof. exact shallow_clone_refuted. Qed.
Print Assumptions C12_invalid_unchanged_needs_deep_clone.

(* an accepted edit commits exactly the candidate that Validate accepted *)
Theorem C12_commit_is_candidate : forall valid w o w', wf w -> edit valid Deep w o = (w', OOk) ->
  spec_apply (abs w) o = inl (abs w') /\ valid (abs w') = true.
Proof. exact edit_ok_candidate. Qed.
Print Assumptions C12_commit_is_candidate.

(* READ YOUR WRITE, with the request loop of Core.run made explicit: an edit is answered (LEdit) before the new
   configuration becomes the running one (LReload), and API reads (LRead) may come at any moment in between. For
   every schedule the loop allows, starting from any loaded configuration, the answers and the configurations
   returned by the reads are those of a client talking to the plain map specification: each read returns the
   result of all edits answered before it. *)
Theorem C12_read_your_write : forall valid v ls s' evs,
  crun valid Deep FromPublished (core_init (load v)) ls = Some (s', evs) -> evs = spec_events valid v ls.
Proof. exact reads_from_load. Qed.
Print Assumptions C12_read_your_write.

(* before bd1ba7f reads returned the running configuration: a read between the answer and the reload is stale *)
Theorem C12_read_your_write_running_refuted :
  exists valid v ls s' evs, crun valid Deep FromRunning (core_init (load v)) ls = Some (s', evs) /\
    evs <> spec_events valid v ls.
Proof. exact running_read_refuted. Qed.
Print Assumptions C12_read_your_write_running_refuted.

(* HISTORY FORM: for every sequence of edits (valid or not), what the API reads and what every request is answered
   are those of the specification on plain finite maps *)
Theorem C12_refines : forall valid ops w w' outs, wf w -> run valid Deep w ops = (w', outs) ->
  wf w' /\ (abs w', outs) = spec_run valid (abs w) ops.
Proof. exact run_refines. Qed.
Print Assumptions C12_refines.

Theorem C12_refines_from_load : forall valid v ops,
  let '(w', outs) := run valid Deep (load v) ops in (abs w', outs) = spec_run valid v ops.
Proof. exact refines_from_load. Qed.
Print Assumptions C12_refines_from_load.

(* the hypothesis [wf] is not vacuous: every readable configuration is that of a well-formed memory (the one a
   file load produces: one cell per path), and [wf] is preserved by every edit (C12_refines) *)
Theorem C12_load_wf : forall v, wf (load v) /\ abs (load v) = v.
Proof. exact (fun v => conj (load_wf v) (load_abs v)). Qed.
Print Assumptions C12_load_wf.

(* non-vacuity: a history with accepted and rejected edits of every kind; Validate here rejects any
   configuration in which some path sets field 2 to 99 *)
Definition ex_valid (v : view) : bool := forallb (fun e => negb (match get 2 (snd e) with Some 99 => true | _ => false end)) (vp v).
Example C12_example :
  let v0 := {| vg := [(1, 10)]; vd := [(0, 0); (2, 20); (3, 30)]; vp := [(100, [(2, 21)])] |} in
  let '(w, outs) := run ex_valid Deep (load v0)
      [Patch 100 [(3, 31)]; Patch 100 [(2, 99)]; Add 100 []; Add 101 [(2, 22)]; Replace 100 [(3, 33)]; Delete 102;
       PatchDefaults [(2, 25)]; Bad; Delete 101; PatchGlobal [(1, 11)]] in
  outs = [OOk; OInvalid; OExists; OOk; OOk; ONotFound; OOk; OInvalid; OOk; OOk] /\
  abs w = {| vg := [(1, 11)]; vd := [(0, 0); (2, 25); (3, 30)]; vp := [(100, [(3, 33)])] |} /\
  effective 0 (abs w) 100 = Some [(0, 100); (2, 25); (3, 33)].
Proof. vm_compute. repeat split. Qed.

Example C12_example_reads :
  let v0 := {| vg := []; vd := []; vp := [] |} in
  exists s, crun (fun _ => true) Deep FromPublished (core_init (load v0)) [LRead; LEdit (Add 7 [(1, 2)]); LRead; LReload; LRead]
  = Some (s, [ERead v0; EReply OOk; ERead {| vg := []; vd := []; vp := [(7, [(1, 2)])] |};
              ERead {| vg := []; vd := []; vp := [(7, [(1, 2)])] |}]).
Proof. eexists. vm_compute. reflexivity. Qed.

(* ==== reloads of the configuration file interleaved with API edits (Model/C12_FileReload.v) =========================
   Core.run: on the watcher's signal  conf.Load(file) ; reloadConf(newConf)  (which stores newConf in p.conf and
   p.apiConf); an API edit starts from p.conf.Load().Clone() and is never written to the file.  [HFile (FLoaded v
   started)]: conf.Load gave the configuration v, createResources succeeded or not; [HFile FBroken]: conf.Load failed;
   [HApi o started]: an API edit.  State None = Core.run has left its loop (the server shuts down). ==== *)

(* after a successful file reload the live configuration is the file's *)
Theorem C12_file_reload_replaces : forall valid w v, wf w ->
  exists w', hstep valid (Some w) (HFile (FLoaded v true)) = (Some w', HReloaded) /\ abs w' = v /\ wf w'.
Proof. exact file_reload_replaces. Qed.
Print Assumptions C12_file_reload_replaces.

(* ... WHATEVER came before it (API edits accepted or rejected, other reloads): the file wins entirely, API edits are
   not persisted; the only other possibility is that the server had already terminated *)
Theorem C12_file_wins : forall valid hops w st' outs v, wf w ->
  hrun valid (Some w) (hops ++ [HFile (FLoaded v true)]) = (st', outs) ->
  match st' with
  | Some w' => abs w' = v /\ wf w' /\ exists outs0, outs = outs0 ++ [HReloaded]
  | None => exists outs0, outs = outs0 ++ [HDead]
  end.
Proof. exact file_wins. Qed.
Print Assumptions C12_file_wins.

(* [file reload ; API edit]: the edit is applied to the file's configuration *)
Theorem C12_edit_after_file : forall valid w v o st' out, wf w ->
  hrun valid (Some w) [HFile (FLoaded v true); HApi o true] = (st', [HReloaded; HAnswer out]) ->
  exists w', st' = Some w' /\ (abs w', out) = spec_step valid v o.
Proof. exact edit_after_file. Qed.
Print Assumptions C12_edit_after_file.

(* OBSERVATION (what the code does; the property's statement is about API edits and does not say what must happen):
   a configuration file that does not load makes Core.run log the error and LEAVE ITS LOOP: the server shuts down,
   nothing is served afterwards. The running configuration is not "left unchanged": it is gone. *)
Theorem C12_failed_file_reload : forall valid st hops,
  hrun valid st (HFile FBroken :: hops) =
  (None, (match st with Some _ => HExit | None => HDead end) :: map (fun _ => HDead) hops).
Proof. exact failed_file_reload. Qed.
Print Assumptions C12_failed_file_reload.

(* OBSERVATION: so does an API edit that Validate ACCEPTS (the request is answered OK) when the resources of the new
   configuration cannot be created (reloadConf fails: Core.run logs and leaves its loop) *)
Theorem C12_accepted_edit_failed_start : forall valid w o w', edit valid Deep w o = (w', OOk) ->
  hstep valid (Some w) (HApi o false) = (None, HAnswer OOk).
Proof. exact failed_start. Qed.
Print Assumptions C12_accepted_edit_failed_start.

(* HISTORY FORM with file reloads: for every sequence of API edits and file reloads (loadable or not, resources
   created or not) the readable configuration, whether the server is still running, and every answer are those of the
   specification in which the configuration is a plain value that a file reload REPLACES *)
Theorem C12_refines_files : forall valid hops st st' outs, wf_opt st -> hrun valid st hops = (st', outs) ->
  wf_opt st' /\ (abs_opt st', outs) = hspec_run valid (abs_opt st) hops.
Proof. exact hrun_refines. Qed.
Print Assumptions C12_refines_files.

(* READ YOUR WRITE with file reloads: in the request loop (answer before reload, reads at any moment) a file reload is
   taken only when no reload is outstanding; every read returns the result of all edits answered and all file
   reloads handled before it *)
Theorem C12_read_your_write_files : forall valid v ls s' evs,
  fcrun valid (core_init (load v)) ls = Some (s', evs) -> evs = fspec_events valid v ls.
Proof. exact freads_from_load. Qed.
Print Assumptions C12_read_your_write_files.

(* non-vacuity: [API edit ; file reload] and [file reload ; API edit]; then a broken file *)
Example C12_example_files :
  let v0 := {| vg := [(1, 10)]; vd := [(2, 20)]; vp := [(100, [(2, 21)])] |} in
  let fv := {| vg := [(1, 12)]; vd := [(2, 20)]; vp := [(200, [])] |} in
  let '(st, outs) := hrun ex_valid (Some (load v0))
      [HApi (Add 101 [(2, 22)]) true; HFile (FLoaded fv true); HApi (Patch 101 [(2, 23)]) true;
       HApi (Patch 200 [(2, 23)]) true; HFile FBroken; HApi (Add 5 []) true] in
  outs = [HAnswer OOk; HReloaded; HAnswer ONotFound; HAnswer OOk; HExit; HDead] /\ st = None /\
  let '(st2, _) := hrun ex_valid (Some (load v0))
      [HApi (Add 101 [(2, 22)]) true; HFile (FLoaded fv true); HApi (Patch 200 [(2, 23)]) true] in
  abs_opt st2 = Some {| vg := [(1, 12)]; vd := [(2, 20)]; vp := [(200, [(2, 23)])] |}.
Proof. vm_compute. repeat split. Qed.

(* ---- READS are part of the histories (Model/C12_Reads.v) ---------------------------------------------------------------
   A GET handler (global/get, pathdefaults/get, paths/list, paths/get/name) works on a copy of the snapshot and WRITES
   into that copy (redactCredentials). [wr_g wr_d wr_c] are those writes, arbitrary functions: whatever a handler that
   works on Conf.Clone() writes, for every endpoint, the read step is the identity on the running configuration (its
   memory stays well-formed) and the answer is the running configuration with those writes. *)
Theorem C12_read_is_identity : forall name_f wr_g wr_d wr_c w e w' r, wf w ->
  read_world name_f Deep wr_g wr_d wr_c w e = (w', r) ->
  wf w' /\ abs w' = abs w /\ r = project name_f (written wr_g wr_d wr_c (abs w)) e.
Proof. exact read_world_deep. Qed.
Print Assumptions C12_read_is_identity.

(* ... and this needs the deep clone: a handler whose copy shares the path cells changes the running configuration
   by answering a GET *)
Theorem C12_read_shared_cells_refuted : forall name_f,
  exists w e (f : fmap -> fmap), wf w /\
    abs (fst (read_world name_f ShallowIface (fun m => m) (fun m => m) f w e)) <> abs w.
Proof. exact read_world_shallow_refuted. Qed.
Print Assumptions C12_read_shared_cells_refuted.

(* values behind slices / pointers of the global part (the backing array of AuthInternalUsers, the pointees of
   PathDefaults.PublishPass / ReadPass): redacting a Conf.Clone() in place leaves every credential of the running
   configuration as it was ... *)
Theorem C12_read_keeps_credentials : forall red empty s locs, (forall a, In a locs -> (a < length s)%nat) ->
  creds (fst (read_creds CClone red empty s locs)) locs = creds s locs.
Proof. exact read_creds_clone. Qed.
Print Assumptions C12_read_keeps_credentials.

(* ... while redacting a struct copy (`c := *snapshot`: the slice shares its backing array) overwrites them *)
Theorem C12_read_struct_copy_refuted :
  exists red empty s locs, (forall a, In a locs -> (a < length s)%nat) /\
    creds (fst (read_creds CStruct red empty s locs)) locs <> creds s locs.
Proof. exact read_creds_struct_refuted. Qed.
Print Assumptions C12_read_struct_copy_refuted.

(* HISTORY REFINEMENT with reads: for every history of API edits, file reloads and GETs of any endpoint, the readable
   configuration, every answer to an edit and every answer to a GET are those of the specification in which the
   configuration is a plain value that a read does not touch *)
Theorem C12_refines_reads : forall name_f wr_g wr_d wr_c valid ops st st' outs, wf_opt st ->
  rrun name_f Deep wr_g wr_d wr_c valid st ops = (st', outs) ->
  wf_opt st' /\ (abs_opt st', outs) = rspec_run name_f wr_g wr_d wr_c valid (abs_opt st) ops.
Proof. exact rrun_refines. Qed.
Print Assumptions C12_refines_reads.

(* non-vacuity: [edit; GET list; GET get of the new path; GET get of a missing path] *)
Example C12_example_get_steps :
  let v := {| vg := [(10, 1)]; vd := [(20, 2); (0, 99)]; vp := [(5, [(21, 3)])] |} in
  snd (rrun 0 Deep (fun m => m) (fun m => m) (fun m => m) (fun _ => true) (Some (load v))
         [RH (HApi (Add 6 [(20, 7)]) true); RRead EList; RRead (EGet 6); RRead (EGet 8); RRead EGlobal]) =
  [ROut (HAnswer OOk);
   RResp (RItems [(5, [(20, 2); (0, 5); (21, 3)]); (6, [(20, 7); (0, 6)])]);
   RResp (RFields [(20, 7); (0, 6)]); RResp RNotFound; RResp (RFields [(10, 1)])].
Proof. vm_compute. reflexivity. Qed.
