(* C06 — Path names cannot escape the recording tree.
   Only statements here; every proof is `exact <lemma of Proofs/C06_PathName.v or Lib/PathClean.v>`.
   Strings are lists of byte values; 47 = '/', 46 = '.', 37 = '%', 92 = '\'. *)
From Coq Require Import List ZArith Bool.
Require Import MTX.Lib.PathClean MTX.Model.C26_RecPath MTX.Model.C06_PathName MTX.Proofs.C06_PathName.
Import ListNotations.
Local Open Scope Z_scope.

(* IsValidPathName accepts exactly: non-empty, allowed alphabet, no leading/trailing slash, and no "." or
   ".." among its segments, the segments being THE non-empty list of '/'-free strings whose join is n *)
Theorem C06_valid_shape : forall n,
  valid n = true <->
  n <> [] /\ (forall c, In c n -> allowed c) /\ hd 0 n <> 47 /\ last n 0 <> 47
  /\ (forall segs, segs <> [] -> Forall no47 segs -> join47 segs = n -> ~ In [46] segs /\ ~ In [46; 46] segs).
Proof. exact valid_shape. Qed.
Print Assumptions C06_valid_shape.

(* the one-pass ".." detector used below is the segment-wise one *)
Theorem C06_dotdot_segments : forall s, has_dd s = existsb is_dd (split47 s).
Proof. exact has_dd_split. Qed.
Print Assumptions C06_dotdot_segments.

(* lexical cleaning: appending "/e" with no ".." segment in e stays under the cleaned prefix *)
Theorem C06_clean_under : forall x e, rooted x = true -> has_dd e = false ->
  path_under (clean x) (clean (x ++ 47 :: e)) = true.
Proof. exact clean_under. Qed.
Print Assumptions C06_clean_under.

(* the file the recorder creates (pathFormat2 + Path.Encode, ten sequential ReplaceAll passes) for a
   valid name, any instant, either container format, lies under the absolute common path of the
   record path format -- component-wise *)
Theorem C06_containment : forall cwd f ts n t,
  valid n = true -> format_ok f = true -> cwd_ok cwd = true ->
  path_under (abs cwd (common_path f)) (abs cwd (segment_file f ts n t)) = true.
Proof. exact containment_file. Qed.
Print Assumptions C06_containment.

(* ... hence also as a string prefix (the form the API guard tests) *)
Theorem C06_containment_prefix : forall cwd f ts n t,
  valid n = true -> format_ok f = true -> cwd_ok cwd = true ->
  is_prefix (abs cwd (common_path f)) (abs cwd (segment_file f ts n t)) = true.
Proof. intros. apply path_under_prefix. now apply containment_file. Qed.
Print Assumptions C06_containment_prefix.

(* the record path FindSegments / the API compute before walking or encoding *)
Theorem C06_containment_record_path : forall cwd f ts n,
  valid n = true -> format_ok f = true -> cwd_ok cwd = true ->
  path_under (abs cwd (common_path f)) (find_record_path cwd f ts n) = true.
Proof. exact containment_expand. Qed.
Print Assumptions C06_containment_record_path.

(* every file FindSegments returns (playback get/list, the cleaner, the API recording list): any file
   name v, wherever the walk found it, that Decode accepts for an accepted name *)
Theorem C06_containment_find : forall loff cwd f ts n v,
  format_ok f = true -> cwd_ok cwd = true ->
  find_candidate loff cwd f ts n v = true -> path_under (abs cwd (common_path f)) v = true.
Proof. exact containment_find. Qed.
Print Assumptions C06_containment_find.

(* FindSegments' double check *)
Theorem C06_find_refuses_invalid : forall loff cwd f ts n v, valid n = false -> find_candidate loff cwd f ts n v = false.
Proof. intros loff cwd f ts n v H. unfold find_candidate. now rewrite H. Qed.
Print Assumptions C06_find_refuses_invalid.

(* absolutePathInside: what it returns is the cleaned absolute candidate and has the cleaned absolute base
   as a string prefix (no hypothesis on the inputs) *)
Theorem C06_inside_guard : forall cwd base cand p, inside cwd base cand = Some p ->
  p = abs cwd (clean cand) /\ is_prefix (abs cwd (clean base)) p = true.
Proof. exact inside_guard. Qed.
Print Assumptions C06_inside_guard.

(* onRecordingDeleteSegment removes a file only for a valid, configured name and only below (as a string)
   the cleaned absolute common path, for every record path format *)
Theorem C06_delete_guarded : forall cwd f ts found n t p, delete_segment cwd f ts found n t = DRemove p ->
  valid n = true /\ found = true /\ is_prefix (abs cwd (clean (common_path f))) p = true.
Proof. exact delete_guarded. Qed.
Print Assumptions C06_delete_guarded.

(* the path manager entry points (after fix 0d7105d) accept valid names only *)
Theorem C06_entry_points_validate : forall n resolves, pm_accepts n resolves = true -> valid n = true.
Proof. exact pm_accepts_valid. Qed.
Print Assumptions C06_entry_points_validate.

(* ---- non-vacuity and necessity of the hypotheses ---- *)

Definition nm (s : list Z) := s.
Definition cwd_w : list Z := [47; 119].                                  (* /w *)
Definition t0 : instant := mkI 1700000000 123456000 3600.

(* the default format is covered; "cam/a.b_1" and "..." are valid names; the file is where expected *)
Example C06_example :
  format_ok default_format = true /\ cwd_ok cwd_w = true
  /\ valid [99;97;109;47;97;46;98;95;49] = true /\ valid [46;46;46] = true
  /\ common_path default_format = [46;47;114;101;99;111;114;100;105;110;103;115]
  /\ abs cwd_w (segment_file default_format false [97;47;98] t0)
     = [47;119;47;114;101;99;111;114;100;105;110;103;115;47;97;47;98;47;
        50;48;50;51;45;49;49;45;49;52;95;50;51;45;49;51;45;50;48;45;49;50;51;52;53;54;46;109;112;52].
Proof. vm_compute. repeat split. Qed.

(* the names the old entry points let through: tilde, three times "../", then a regexp group (bytes below) is not valid, and with it the recorder's
   file is outside the recording tree (this is the witness of the finding fixed by 0d7105d) *)
Example C06_regex_key_name_escapes :
  let n := [126;46;46;47;46;46;47;46;46;47;40;46;42;41] in
  valid n = false /\
  path_under (abs cwd_w (common_path default_format)) (abs cwd_w (segment_file default_format false n t0)) = false.
Proof. vm_compute. split; reflexivity. Qed.

(* a format with ".." after its common prefix is not covered, and does escape *)
Example C06_format_needs_ok :
  let f := [114;47;37;112;97;116;104;47;46;46;47;46;46;47;37;115] in     (* r/%path/../../%s *)
  format_ok f = false /\
  path_under (abs cwd_w (common_path f)) (abs cwd_w (segment_file f false [97] t0)) = false.
Proof. vm_compute. split; reflexivity. Qed.

(* CommonPath("/%path/%s") is "" (not "/"): such a format is outside format_ok; the API guard then
   refuses every deletion (it compares with the working directory) *)
Example C06_root_format_quirk :
  let f := [47;37;112;97;116;104;47;37;115] in
  common_path f = [] /\ format_ok f = false /\ delete_segment cwd_w f false true [97] t0 = DEscapes1.
Proof. vm_compute. repeat split. Qed.

(* the guard is textual: it accepts a sibling directory whose name extends the base's name
   (harmless here because C06_containment gives component-wise containment before the guard is reached) *)
Example C06_guard_is_textual :
  inside cwd_w [47;97;47;114;101;99] [47;97;47;114;101;99;50;47;120] = Some [47;97;47;114;101;99;50;47;120]
  /\ path_under [47;97;47;114;101;99] [47;97;47;114;101;99;50;47;120] = false.
Proof. vm_compute. split; reflexivity. Qed.

(* the guard restated with filepath.Abs alone: Abs(Clean(x)) = Abs(x) for every path x *)
Theorem C06_abs_clean : forall cwd p, rooted cwd = true -> abs cwd (clean p) = abs cwd p.
Proof. exact abs_clean. Qed.
Print Assumptions C06_abs_clean.

Theorem C06_inside_guard_abs : forall cwd base cand p, rooted cwd = true -> inside cwd base cand = Some p ->
  p = abs cwd cand /\ is_prefix (abs cwd base) p = true.
Proof. exact inside_guard_abs. Qed.
Print Assumptions C06_inside_guard_abs.

(* the guard never refuses the record path of an accepted name under a covered format *)
Theorem C06_guard_passes : forall cwd f ts n, valid n = true -> format_ok f = true -> cwd_ok cwd = true ->
  inside cwd (common_path f) (expand_path f ts n) = Some (find_record_path cwd f ts n).
Proof. exact guard_passes. Qed.
Print Assumptions C06_guard_passes.
