(* C06 — Path names cannot escape the recording tree.
   Only statements here; every proof is `exact <lemma of Proofs/C06_PathName.v or Lib/PathClean.v>`.
   Strings are lists of byte values; 47 = '/', 46 = '.', 37 = '%', 92 = '\'. *)
From Coq Require Import List ZArith Bool.
Require Import MTX.Lib.PathClean MTX.Model.C26_RecPath MTX.Model.C06_PathName MTX.Proofs.C06_PathName.
Require Import MTX.Model.C06_Listing MTX.Proofs.C06_Listing.
Import ListNotations.
Local Open Scope Z_scope.

(* IsValidPathName accepts exactly: non-empty, allowed alphabet, no leading/trailing slash, and no "." or
   ".." among its segments, the segments being THE non-empty list of '/'-free strings whose join is n *)
Theorem C06_valid_shape : forall n,
  valid n = true <->
  n <> [] /\ (forall c, In c n -> allowed c) /\ hd 0 n <> 47 /\ last n 0 <> 47
  /\ (forall segs, segs <> [] -> Forall no47 segs -> join47 segs = n -> ~ In [46] segs /\ ~ In [46; 46] segs).
Proof. exact valid_shape. Qed.
Print Assumptions C06_valid_shape.

(* the one-pass ".." detector used below is the segment-wise one *)
Theorem C06_dotdot_segments : forall s, has_dd s = existsb is_dd (split47 s).
Proof. exact has_dd_split. Qed.
Print Assumptions C06_dotdot_segments.

(* lexical cleaning: appending "/e" with no ".." segment in e stays under the cleaned prefix *)
Theorem C06_clean_under : forall x e, rooted x = true -> has_dd e = false ->
  path_under (clean x) (clean (x ++ 47 :: e)) = true.
Proof. exact clean_under. Qed.
Print Assumptions C06_clean_under.

(* the file the recorder creates (pathFormat2 + Path.Encode, ten sequential ReplaceAll passes) for a
   valid name, any instant, either container format, lies under the absolute common path of the
   record path format -- component-wise *)
Theorem C06_containment : forall cwd f ts n t,
  valid n = true -> format_ok f = true -> cwd_ok cwd = true ->
  path_under (abs cwd (common_path f)) (abs cwd (segment_file f ts n t)) = true.
Proof. exact containment_file. Qed.
Print Assumptions C06_containment.

(* ... hence also as a string prefix (the form the API guard tests) *)
Theorem C06_containment_prefix : forall cwd f ts n t,
  valid n = true -> format_ok f = true -> cwd_ok cwd = true ->
  is_prefix (abs cwd (common_path f)) (abs cwd (segment_file f ts n t)) = true.
Proof. intros. apply path_under_prefix. now apply containment_file. Qed.
Print Assumptions C06_containment_prefix.

(* the record path FindSegments / the API compute before walking or encoding *)
Theorem C06_containment_record_path : forall cwd f ts n,
  valid n = true -> format_ok f = true -> cwd_ok cwd = true ->
  path_under (abs cwd (common_path f)) (find_record_path cwd f ts n) = true.
Proof. exact containment_expand. Qed.
Print Assumptions C06_containment_record_path.

(* every file FindSegments returns (playback get/list, the cleaner, the API recording list): any file
   name v, wherever the walk found it, that Decode accepts for an accepted name *)
Theorem C06_containment_find : forall loff cwd f ts n v,
  format_ok f = true -> cwd_ok cwd = true ->
  find_candidate loff cwd f ts n v = true -> path_under (abs cwd (common_path f)) v = true.
Proof. exact containment_find. Qed.
Print Assumptions C06_containment_find.

(* FindSegments' double check *)
Theorem C06_find_refuses_invalid : forall loff cwd f ts n v, valid n = false -> find_candidate loff cwd f ts n v = false.
Proof. intros loff cwd f ts n v H. unfold find_candidate. now rewrite H. Qed.
Print Assumptions C06_find_refuses_invalid.

(* absolutePathInside: what it returns is the cleaned absolute candidate and has the cleaned absolute base
   as a string prefix (no hypothesis on the inputs) *)
Theorem C06_inside_guard : forall cwd base cand p, inside cwd base cand = Some p ->
  p = abs cwd (clean cand) /\ is_prefix (abs cwd (clean base)) p = true.
Proof. exact inside_guard. Qed.
Print Assumptions C06_inside_guard.

(* onRecordingDeleteSegment removes a file only for a valid, configured name and only below (as a string)
   the cleaned absolute common path, for every record path format *)
Theorem C06_delete_guarded : forall cwd f ts found n t p, delete_segment cwd f ts found n t = DRemove p ->
  valid n = true /\ found = true /\ is_prefix (abs cwd (clean (common_path f))) p = true.
Proof. exact delete_guarded. Qed.
Print Assumptions C06_delete_guarded.

(* the path manager entry points (after fix 0d7105d) accept valid names only *)
Theorem C06_entry_points_validate : forall n resolves, pm_accepts n resolves = true -> valid n = true.
Proof. exact pm_accepts_valid. Qed.
Print Assumptions C06_entry_points_validate.

(* ---- non-vacuity and necessity of the hypotheses ---- *)

Definition nm (s : list Z) := s.
Definition cwd_w : list Z := [47; 119].                                  (* /w *)
Definition t0 : instant := mkI 1700000000 123456000 3600.

(* the default format is covered; "cam/a.b_1" and "..." are valid names; the file is where expected *)
Example C06_example :
  format_ok default_format = true /\ cwd_ok cwd_w = true
  /\ valid [99;97;109;47;97;46;98;95;49] = true /\ valid [46;46;46] = true
  /\ common_path default_format = [46;47;114;101;99;111;114;100;105;110;103;115]
  /\ abs cwd_w (segment_file default_format false [97;47;98] t0)
     = [47;119;47;114;101;99;111;114;100;105;110;103;115;47;97;47;98;47;
        50;48;50;51;45;49;49;45;49;52;95;50;51;45;49;51;45;50;48;45;49;50;51;52;53;54;46;109;112;52].
Proof. vm_compute. repeat split. Qed.

(* the names the old entry points let through: tilde, three times "../", then a regexp group (bytes below) is not valid, and with it the recorder's
   file is outside the recording tree (this is the witness of the finding fixed by 0d7105d) *)
Example C06_regex_key_name_escapes :
  let n := [126;46;46;47;46;46;47;46;46;47;40;46;42;41] in
  valid n = false /\
  path_under (abs cwd_w (common_path default_format)) (abs cwd_w (segment_file default_format false n t0)) = false.
Proof. vm_compute. split; reflexivity. Qed.

(* a format with ".." after its common prefix is not covered, and does escape *)
Example C06_format_needs_ok :
  let f := [114;47;37;112;97;116;104;47;46;46;47;46;46;47;37;115] in     (* r/%path/../../%s *)
  format_ok f = false /\
  path_under (abs cwd_w (common_path f)) (abs cwd_w (segment_file f false [97] t0)) = false.
Proof. vm_compute. split; reflexivity. Qed.

(* CommonPath("/%path/%s") is "" (not "/"): such a format is outside format_ok; the API guard then
   refuses every deletion (it compares with the working directory) *)
Example C06_root_format_quirk :
  let f := [47;37;112;97;116;104;47;37;115] in
  common_path f = [] /\ format_ok f = false /\ delete_segment cwd_w f false true [97] t0 = DEscapes1.
Proof. vm_compute. repeat split. Qed.

(* the guard is textual: it accepts a sibling directory whose name extends the base's name
   (harmless here because C06_containment gives component-wise containment before the guard is reached) *)
Example C06_guard_is_textual :
  inside cwd_w [47;97;47;114;101;99] [47;97;47;114;101;99;50;47;120] = Some [47;97;47;114;101;99;50;47;120]
  /\ path_under [47;97;47;114;101;99] [47;97;47;114;101;99;50;47;120] = false.
Proof. vm_compute. split; reflexivity. Qed.

(* the guard restated with filepath.Abs alone: Abs(Clean(x)) = Abs(x) for every path x *)
Theorem C06_abs_clean : forall cwd p, rooted cwd = true -> abs cwd (clean p) = abs cwd p.
Proof. exact abs_clean. Qed.
Print Assumptions C06_abs_clean.

Theorem C06_inside_guard_abs : forall cwd base cand p, rooted cwd = true -> inside cwd base cand = Some p ->
  p = abs cwd cand /\ is_prefix (abs cwd base) p = true.
Proof. exact inside_guard_abs. Qed.
Print Assumptions C06_inside_guard_abs.

(* the guard never refuses the record path of an accepted name under a covered format *)
Theorem C06_guard_passes : forall cwd f ts n, valid n = true -> format_ok f = true -> cwd_ok cwd = true ->
  inside cwd (common_path f) (expand_path f ts n) = Some (find_record_path cwd f ts n).
Proof. exact guard_passes. Qed.
Print Assumptions C06_guard_passes.

(* ---------------------------------------------------------------------------------------------------
   The listing side: recordstore.FindAllPathsWithSegments (API recordings list, record cleaner) reads path
   NAMES back from the file names of the recording tree. `tree root` = the regular files WalkDir visits from
   root (any function: all directory contents, valid and invalid decoded names side by side); `re` = the
   configuration's regular expression as a boolean function (any); f = any record path format, in
   particular the flat layouts with %path in the file name. *)

(* regexpPathFindPathsWithSegments: every returned name was decoded from a visited file, is a valid path
   name and matches the regular expression -- per file, whatever else its directory contains *)
Theorem C06_listing_regexp_sound : forall re loff cwd f ts files p,
  In p (regexp_paths re loff cwd f ts files) ->
  valid p = true /\ re p = true /\
  exists v, In v files /\ decoded_name loff (list_record_path cwd f ts) v = Some p.
Proof. exact regexp_paths_sound. Qed.
Print Assumptions C06_listing_regexp_sound.

(* ... and no recording is hidden: a visited file whose decoded name is valid and matches is listed *)
Theorem C06_listing_regexp_complete : forall re loff cwd f ts files v p,
  In v files -> decoded_name loff (list_record_path cwd f ts) v = Some p -> valid p = true -> re p = true ->
  In p (regexp_paths re loff cwd f ts files).
Proof. exact regexp_paths_complete. Qed.
Print Assumptions C06_listing_regexp_complete.

(* FindAllPathsWithSegments lists p iff some configuration admits it: a non-regexp configuration admits its
   own name (when one of its files decodes), a regexp configuration admits the valid, matching names decoded
   from the files below its walk root *)
Theorem C06_listing_iff : forall tree loff cwd confs p,
  In p (find_all tree loff cwd confs) <-> exists c, In c confs /\ conf_admits tree loff cwd c p.
Proof. exact find_all_iff. Qed.
Print Assumptions C06_listing_iff.

(* every listed name is a valid path name (names of non-regexp configurations are validated when the
   configuration is loaded: hypothesis) ... *)
Theorem C06_listing_valid : forall tree loff cwd confs p,
  fixed_names_valid confs -> In p (find_all tree loff cwd confs) -> valid p = true.
Proof. exact find_all_valid. Qed.
Print Assumptions C06_listing_valid.

(* ... hence has the documented shape *)
Theorem C06_listing_shape : forall tree loff cwd confs p,
  fixed_names_valid confs -> In p (find_all tree loff cwd confs) ->
  p <> [] /\ (forall c, In c p -> allowed c) /\ hd 0 p <> 47 /\ last p 0 <> 47
  /\ (forall segs, segs <> [] -> Forall no47 segs -> join47 segs = p -> ~ In [46] segs /\ ~ In [46; 46] segs).
Proof. intros tree loff cwd confs p Hf Hin. apply valid_shape. eapply find_all_valid; eauto. Qed.
Print Assumptions C06_listing_shape.

(* ... and, asked back through FindSegments (what the API list and the cleaner do with a listed name), only
   yields files under the absolute common path of a covered format *)
Theorem C06_listing_then_contained : forall tree loff cwd confs p f ts v,
  fixed_names_valid confs -> In p (find_all tree loff cwd confs) ->
  format_ok f = true -> cwd_ok cwd = true ->
  match decode loff (find_record_path cwd f ts p) v with Some _ => true | None => false end = true ->
  find_candidate loff cwd f ts p v = true /\ path_under (abs cwd (common_path f)) v = true.
Proof. exact listed_then_contained. Qed.
Print Assumptions C06_listing_then_contained.

(* non-vacuity, and why the check has to be made per FILE: flat layout "rec/%path_%s", working directory /w,
   the files /w/rec/cam1_1700000000.mp4 and "/w/rec/zz bad_1700000000.mp4" side by side, all_others (every
   name matches): the code lists cam1 only; the variant that decides once per directory (first file of the
   directory decides) lists the invalid name "zz bad" too *)
Example C06_listing_flat_layout :
  let f := [114;101;99;47;37;112;97;116;104;95;37;115] in
  let files := [[47;119;47;114;101;99;47;99;97;109;49;95;49;55;48;48;48;48;48;48;48;48;46;109;112;52]; [47;119;47;114;101;99;47;122;122;32;98;97;100;95;49;55;48;48;48;48;48;48;48;48;46;109;112;52]] in
  let re := fun _ : list Z => true in
  find_all (fun _ => files) 0 cwd_w [LRegexp re f false] = [[99;97;109;49]]
  /\ fixed_names_valid [LRegexp re f false]
  /\ decoded_name 0 (list_record_path cwd_w f false) [47;119;47;114;101;99;47;122;122;32;98;97;100;95;49;55;48;48;48;48;48;48;48;48;46;109;112;52] = Some [122;122;32;98;97;100] /\ valid [122;122;32;98;97;100] = false
  /\ regexp_paths_dircache re 0 cwd_w f false [] files = [[99;97;109;49]; [122;122;32;98;97;100]].
Proof.
  cbv zeta. split; [vm_compute; reflexivity|]. split; [intros name f ts [H|[]]; discriminate H|].
  vm_compute. repeat split.
Qed.
