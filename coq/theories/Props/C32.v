(* C32 — MoQ wire codecs round-trip and reject malformed input safely.
   Only statements here; every proof is `exact <lemma of Proofs/C32_*.v>`.
   Model: Model/C32_Moq.v (byte strings are lists of Z; decoders return Ok v rest | Err | Panic |
   Overalloc n, see the header of that file). *)
From Coq Require Import List ZArith Bool.
Require Import MTX.Lib.IntWrap MTX.Model.C32_Moq MTX.Proofs.C32_Varint MTX.Proofs.C32_Types
  MTX.Proofs.C32_Msg MTX.Proofs.C32_Subgroup MTX.Proofs.C32_Top.
Import ListNotations.
Local Open Scope Z_scope.

(* ---- varint: all 2^64 values, both decoders (Unmarshal on a buffer, Read on a stream) ---- *)
Theorem C32_varint_roundtrip : forall v rest, 0 <= v < 2 ^ 64 ->
  dec_varint (enc_varint v ++ rest) = Ok v rest.
Proof. exact varint_roundtrip_Z. Qed.
Print Assumptions C32_varint_roundtrip.

Theorem C32_varint_read_roundtrip : forall v rest, 0 <= v < 2 ^ 64 ->
  read_varint (enc_varint v ++ rest) = Ok v rest.
Proof. exact varint_read_roundtrip. Qed.
Print Assumptions C32_varint_read_roundtrip.

(* Marshal writes MarshalSize bytes, and no byte string that decodes to v is shorter *)
Theorem C32_varint_canonical_size : forall v, 0 <= v < 2 ^ 64 ->
  len (enc_varint v) = varint_len v /\
  forall buf rest, Forall (fun b => 0 <= b < 256) buf -> dec_varint buf = Ok v rest ->
                   varint_len v <= len buf - len rest.
Proof. exact varint_canonical_Z. Qed.
Print Assumptions C32_varint_canonical_size.

(* ---- composite types, each under its boolean well-formedness predicate ---- *)
(* wf_nsb: at most 32 fields (each shorter than 2^63 bytes) *)
Theorem C32_namespace_roundtrip : forall ns rest, wf_nsb ns = true ->
  dec_namespace (enc_namespace ns ++ rest) = Ok ns rest.
Proof. exact namespace_roundtrip. Qed.
Print Assumptions C32_namespace_roundtrip.

(* wf_paramsb: every token has alias type USE_VALUE (3), a 64-bit token type *)
Theorem C32_parameters_roundtrip : forall ps rest, wf_paramsb ps = true ->
  dec_parameters (len ps) (enc_parameters ps ++ rest) = Ok ps rest.
Proof. exact parameters_roundtrip. Qed.
Print Assumptions C32_parameters_roundtrip.

(* wf_propsb: 64-bit timestamps; Properties.Unmarshal consumes its whole buffer *)
Theorem C32_properties_roundtrip : forall ts, wf_propsb ts = true ->
  dec_properties (enc_properties ts) = Ok ts [].
Proof. exact properties_roundtrip. Qed.
Print Assumptions C32_properties_roundtrip.

(* control messages: FULL statement (every well-formed message reads back) is false of the code:
   the 16-bit length field is written without a check *)
Theorem C32_message_roundtrip_refuted :
  exists m, wf_msgb m = true /\ len (enc_payload m) = 65536 /\ read_msg (enc_msg m) = Err.
Proof. exact msg_roundtrip_refuted. Qed.
Print Assumptions C32_message_roundtrip_refuted.

(* ... and holds for all nine message types whenever the payload fits the length field *)
Theorem C32_message_roundtrip_partial : forall m rest,
  wf_msgb m = true -> (len (enc_payload m) <? 2 ^ 16) = true ->
  read_msg (enc_msg m ++ rest) = Ok m rest.
Proof. exact msg_roundtrip_guarded. Qed.
Print Assumptions C32_message_roundtrip_partial.

(* sub-group stream: header, exactly one object with a non-empty payload <= 10 MiB, properties
   only when the header bit is set and <= 128 KiB encoded (wf_subgroupb) *)
Theorem C32_subgroup_roundtrip : forall h objs rest, wf_subgroupb h objs = true ->
  read_subgroup (enc_subgroup h objs ++ rest) = Ok (h, objs) rest.
Proof. exact subgroup_roundtrip. Qed.
Print Assumptions C32_subgroup_roundtrip.

(* ---- arbitrary input: every decoder of the family, every byte string (a Go slice is shorter
   than 2^63) ---- *)
Theorem C32_no_panic : forall d bytes,
  Forall (fun b => 0 <= b < 256) bytes -> len bytes < 2 ^ 63 -> run_decoder d bytes <> CPanic.
Proof. exact no_panic. Qed.
Print Assumptions C32_no_panic.

(* no make() is reached with a size above the limit written at that point of the model:
   8 (varint.Read), 32 (namespace fields), 65535 (control payload), 128 KiB (object properties),
   10 MiB (object payload) *)
Theorem C32_alloc_bound : forall d bytes n,
  Forall (fun b => 0 <= b < 256) bytes -> len bytes < 2 ^ 63 -> run_decoder d bytes <> COveralloc n.
Proof. exact alloc_bound. Qed.
Print Assumptions C32_alloc_bound.

(* ---- non-vacuity ---- *)
Definition ex_publish : msg :=
  MPublish 300 [[108;105;118;101]; [99;97;109]] [118;105;100;101;111] (2 ^ 40)
           [mkTok 3 1 [115;101;99;114;101;116]; mkTok 3 (2 ^ 63) []] [1000; 2 ^ 64 - 1].

Example C32_example_message :
  wf_msgb ex_publish = true /\ (len (enc_payload ex_publish) <? 2 ^ 16) = true
  /\ read_msg (enc_msg ex_publish ++ [7; 7]) = Ok ex_publish [7; 7].
Proof. vm_compute. repeat split. Qed.

Example C32_example_subgroup :
  let h := mkHdr true false 5 (2 ^ 56) in
  let o := mkObj 3 [123456789] [104;101;108;108;111] in
  wf_subgroupb h [o] = true
  /\ enc_subgroup h [o] = [49; 5; 255;1;0;0;0;0;0;0;0; 3; 5; 6; 231;91;205;21; 5; 104;101;108;108;111; 0; 0; 0; 3]
  /\ read_subgroup (enc_subgroup h [o]) = Ok (h, [o]) [].
Proof. vm_compute. repeat split. Qed.

Example C32_example_varint_classes :
  map enc_varint [127; 128; 2 ^ 14; 2 ^ 56 - 1; 2 ^ 56; 2 ^ 64 - 1]
  = [[127]; [128; 128]; [192; 64; 0]; [254; 255;255;255;255;255;255;255];
     [255; 1;0;0;0;0;0;0;0]; [255; 255;255;255;255;255;255;255;255]]
  /\ dec_varint [128; 1] = Ok 1 []          (* non-canonical encodings are accepted *)
  /\ dec_varint [255; 1; 2; 3] = Err
  /\ dec_namespace (enc_varint 33 ++ repeat 0 33) = Err
  /\ run_decoder DecSubgroup [48; 1; 0; 0; 240; 160; 0; 1; 0; 1] = CErr.  (* payload length 10 MiB + 1 *)
Proof. vm_compute. repeat split. Qed.
