(* C30 — Retention deletes only expired segments of the right path.
   Only statements here; every proof is `exact <lemma of Proofs/C30_Cleaner.v>`.
   Model: Model/C30_Cleaner.v (one Cleaner.doRun pass over a directory tree) on top of Path.Decode
   (Model/C26_RecPath.v, after fix 2b44fe1 and the re-encode comparison) and the substituted path format
   (Model/C31_DeleteSeg.v). Every theorem holds for all oracles `rematch` (the configurations' regular
   expressions) and `resolve` (conf.FindPathConf), all local zones L (C26's `lzone`: any pair of functions
   "offset time.Date subtracts for a reading" / "offset in force at an instant" - fixed offsets fixed_lz loff
   and zone-database zones lz_of_zone z included), configuration lists, instants `now` and trees. *)
From Coq Require Import List ZArith.
Require Import MTX.Lib.Civil MTX.Model.C26_RecPath MTX.Proofs.C26_RecPath MTX.Model.C26_Zone MTX.Proofs.C26_Zone
               MTX.Model.C31_DeleteSeg MTX.Model.C30_Cleaner MTX.Proofs.C30_Cleaner
               MTX.Model.C30_Owner MTX.Proofs.C30_Owner.
Import ListNotations.
Local Open Scope Z_scope.

(* A deleted entry is a non-directory of the tree; there is a path name pn, reported by
   FindAllPathsWithSegments, that FindPathConf resolves to a configuration c with deleteAfter <> 0, such that the
   entry lies at or below the common path of c's format for pn, its name decodes under that format, and the
   decoded start is <= now - deleteAfter. *)
Theorem C30_only_expired : forall L rematch resolve confs now tree e,
  In e (deleted L rematch resolve confs now tree) ->
  In e tree /\ snd e = KOther /\
  exists pn j c p u n,
    In pn (path_names L rematch confs tree) /\ resolve pn = Some j /\ nth_error confs j = Some c /\
    pc_da c <> 0 /\ valid_path_name pn = true /\
    under (common_path (seg_format c pn)) (fst e) = true /\
    decode_lz L (seg_format c pn) (fst e) = Some (p, u, n) /\ start_ns u n <= now - pc_da c.
Proof. exact only_expired. Qed.
Print Assumptions C30_only_expired.

(* ... whose whole name is the literals of that format with well-shaped fields in between (C26):
   x.mp4.bak, prefixed or nested look-alikes are never deleted *)
Theorem C30_deleted_whole_name : forall L rematch resolve confs now tree e,
  In e (deleted L rematch resolve confs now tree) ->
  exists pn j c caps, resolve pn = Some j /\ nth_error confs j = Some c /\
    fst e = fill (tokenize (seg_format c pn)) caps /\ forallb cap_shape caps = true.
Proof. exact deleted_whole_name. Qed.
Print Assumptions C30_deleted_whole_name.

(* the reported path names: the name of a static configuration that has a segment, or a valid name captured
   from a file under a regular-expression configuration's format and matched by that expression *)
Theorem C30_path_names : forall L rematch confs tree pn,
  In pn (path_names L rematch confs tree) ->
  exists i c, nth_error confs i = Some c /\
    ((pc_regex c = false /\ pn = pc_name c /\
      exists e r, In e tree /\ recognises L (seg_format c (pc_name c)) e = Some r)
     \/ (pc_regex c = true /\ valid_path_name pn = true /\ rematch i pn = true /\
         exists e u n, In e tree /\ recognises L (pc_rp c ++ pc_ext c) e = Some (pn, u, n))).
Proof. exact path_names_sound. Qed.
Print Assumptions C30_path_names.

(* Converse: every expired segment (under the configuration's common path) of a reported path is deleted. *)
Theorem C30_all_expired : forall L rematch resolve confs now tree e pn j c p u n,
  In e tree -> snd e = KOther -> In pn (path_names L rematch confs tree) ->
  resolve pn = Some j -> nth_error confs j = Some c -> pc_da c <> 0 -> valid_path_name pn = true ->
  under (common_path (seg_format c pn)) (fst e) = true ->
  decode_lz L (seg_format c pn) (fst e) = Some (p, u, n) -> start_ns u n <= now - pc_da c ->
  In e (deleted L rematch resolve confs now tree).
Proof. exact all_expired. Qed.
Print Assumptions C30_all_expired.

(* a static configuration's path is reported as soon as the segment exists *)
Theorem C30_all_expired_static : forall L rematch resolve confs now tree e j c p u n,
  In e tree -> snd e = KOther -> nth_error confs j = Some c -> pc_regex c = false ->
  resolve (pc_name c) = Some j -> pc_da c <> 0 -> valid_path_name (pc_name c) = true ->
  under (common_path (seg_format c (pc_name c))) (fst e) = true ->
  decode_lz L (seg_format c (pc_name c)) (fst e) = Some (p, u, n) -> start_ns u n <= now - pc_da c ->
  In e (deleted L rematch resolve confs now tree).
Proof. exact all_expired_static. Qed.
Print Assumptions C30_all_expired_static.

(* a segment the recorder wrote (C26's Encode) for a path resolving to a regular-expression configuration that
   matches it is reported through its own name (C26_roundtrip) and deleted once expired *)
Theorem C30_all_expired_recorded : forall L rematch resolve confs now tree e pn j c t,
  let F := pc_rp c ++ pc_ext c in
  let g := seg_format c pn in
  In e tree -> snd e = KOther -> fst e = encode_go F pn t ->
  resolve pn = Some j -> nth_error confs j = Some c -> pc_regex c = true -> rematch j pn = true ->
  pc_da c <> 0 -> valid_path_name pn = true -> name_ok pn = true -> Forall (fun x => x <> 37) (pc_ext c) ->
  no_stray (tokenize (pc_rp c)) = true ->
  wf_format F = true -> identifies (tokenize F) = true -> encodable_lz L (tokenize F) t = true ->
  no_stray (tokenize g) = true -> no_path (tokenize g) = true -> identifies (tokenize g) = true ->
  encodable_lz L (tokenize g) t = true ->
  under (common_path F) (fst e) = true -> under (common_path g) (fst e) = true ->
  start_ns (fst (trunc_start (tokenize g) t)) (snd (trunc_start (tokenize g) t)) <= now - pc_da c ->
  In e (deleted L rematch resolve confs now tree).
Proof. exact all_expired_recorded. Qed.
Print Assumptions C30_all_expired_recorded.

(* a deleted file's name IS what Encode writes for the path and start Decode reports (C26_whole_name, full
   strength since the re-encode comparison) *)
Theorem C30_deleted_is_encoding : forall L rematch resolve confs now tree e,
  In e (deleted L rematch resolve confs now tree) ->
  exists pn j c p u n off, resolve pn = Some j /\ nth_error confs j = Some c /\
    decode_lz L (seg_format c pn) (fst e) = Some (p, u, n) /\
    fst e = encode_go (seg_format c pn) p (mkI u n off) /\ start_ns u n <= now - pc_da c.
Proof. exact deleted_is_encoding. Qed.
Print Assumptions C30_deleted_is_encoding.

(* In a zone-database zone (Model/C26_Zone.v; DST zones included) the hypothesis "time.Date maps the reading
   back" of C30_all_expired_recorded is not needed: EVERY segment the recorder wrote is recognised and is
   deleted once the start the listing reports for it has expired; that start is the recorded instant outside
   the repeated hours and at most 2B away from it (one clock change) inside one. *)
Theorem C30_all_expired_recorded_zone : forall B z rematch resolve confs now tree e pn j c u n,
  zone_ok B z = true ->
  let t := local_instant z u n in
  let F := pc_rp c ++ pc_ext c in
  let g := seg_format c pn in
  In e tree -> snd e = KOther -> fst e = encode_go F pn t ->
  resolve pn = Some j -> nth_error confs j = Some c -> pc_regex c = true -> rematch j pn = true ->
  pc_da c <> 0 -> valid_path_name pn = true -> name_ok pn = true -> Forall (fun x => x <> 37) (pc_ext c) ->
  no_stray (tokenize (pc_rp c)) = true ->
  wf_format F = true -> identifies (tokenize F) = true -> enc_ranges (tokenize F) t = true ->
  no_stray (tokenize g) = true -> no_path (tokenize g) = true -> identifies (tokenize g) = true ->
  enc_ranges (tokenize g) t = true ->
  under (common_path F) (fst e) = true -> under (common_path g) (fst e) = true ->
  start_ns (decoded_unix (lz_of_zone z) (tokenize g) t) (snd (trunc_start (tokenize g) t)) <= now - pc_da c ->
  In e (deleted (lz_of_zone z) rematch resolve confs now tree).
Proof. exact all_expired_recorded_zone. Qed.
Print Assumptions C30_all_expired_recorded_zone.

Theorem C30_listed_start_exact_zone : forall B z ts u n, zone_ok B z = true -> in_repeat (lookup z) u = false ->
  decoded_unix (lz_of_zone z) ts (local_instant z u n) = u.
Proof. exact decoded_exact_zone. Qed.
Print Assumptions C30_listed_start_exact_zone.

Theorem C30_listed_start_near_zone : forall B z ts u n, zone_ok B z = true ->
  Z.abs (decoded_unix (lz_of_zone z) ts (local_instant z u n) - u) <= 2 * B.
Proof. exact decoded_near_zone. Qed.
Print Assumptions C30_listed_start_near_zone.

(* ---- literal bytes of the record path stand for themselves (regexp metacharacters - the dots of cam.1, v1.0/
   and .mp4 - included): look-alike siblings and layouts where %path is part of the file name.

   One owner: under a record path whose only variable-width group is %path (single_owner_format: every '%'
   starts a placeholder, %path once, no %z - every documented layout, flat ones like rec/%path_%Y-%m-%d_%H-%M-%S-%f
   included) a file name is a segment of at most one path name, whatever bytes the two names are made of
   (cam.1 / camA1 / cam11; names are only required not to contain '%', which no valid path name does). *)
Theorem C30_one_owner : forall L rp ext pn pn' v r r',
  single_owner_format rp = true ->
  Forall (fun x => x <> 37) pn -> Forall (fun x => x <> 37) pn' -> Forall (fun x => x <> 37) ext ->
  decode_lz L (path_format rp ext pn) v = Some r -> decode_lz L (path_format rp ext pn') v = Some r' ->
  pn = pn'.
Proof. exact one_owner_format. Qed.
Print Assumptions C30_one_owner.

(* ... so when all configurations share such a record path (pathDefaults), a deleted file that is a segment of
   path name pn' was deleted under the retention of the configuration pn' itself resolves to (deleteAfter <> 0,
   start <= now - deleteAfter) - never under the retention of a sibling whose name looks like pn' *)
Theorem C30_sibling_own_retention : forall L rematch resolve confs now tree e rp ext pn' r',
  Forall (fun c => pc_rp c = rp /\ pc_ext c = ext) confs ->
  single_owner_format rp = true -> Forall (fun x => x <> 37) ext ->
  In e (deleted L rematch resolve confs now tree) ->
  Forall (fun x => x <> 37) pn' -> decode_lz L (path_format rp ext pn') (fst e) = Some r' ->
  exists j c p u n, resolve pn' = Some j /\ nth_error confs j = Some c /\ pc_da c <> 0 /\
    decode_lz L (seg_format c pn') (fst e) = Some (p, u, n) /\ start_ns u n <= now - pc_da c.
Proof. exact sibling_own_retention_format. Qed.
Print Assumptions C30_sibling_own_retention.

(* the converse for ANY record path (several %path, any literal bytes): once some file e' makes a
   regular-expression configuration report pn, every expired segment of pn is deleted *)
Theorem C30_all_expired_discovered : forall L rematch resolve confs now tree e e' pn i ci u' n' j c p u n,
  In e' tree -> nth_error confs i = Some ci -> pc_regex ci = true ->
  recognises L (pc_rp ci ++ pc_ext ci) e' = Some (pn, u', n') -> rematch i pn = true ->
  In e tree -> snd e = KOther -> resolve pn = Some j -> nth_error confs j = Some c -> pc_da c <> 0 ->
  valid_path_name pn = true -> under (common_path (seg_format c pn)) (fst e) = true ->
  decode_lz L (seg_format c pn) (fst e) = Some (p, u, n) -> start_ns u n <= now - pc_da c ->
  In e (deleted L rematch resolve confs now tree).
Proof. exact all_expired_discovered. Qed.
Print Assumptions C30_all_expired_discovered.

(* Finding (KNOWN_FINDINGS multi-path-ambiguous-name; C26 degenerate-format): with %path twice the report can
   fail for the recorder's own file - /r/%path.%path_%s, path cam.1: the first lazy group stops at the dot
   inside the name, the re-encode comparison rejects the file, the path is never reported and its expired
   segment stays (C30_all_expired_recorded asks for wf_format: %path once). *)
Theorem C30_multi_path_refuted :
  exists L rematch resolve confs now tree e pn c t,
    nth_error confs 0 = Some c /\ pc_regex c = true /\ pc_da c <> 0 /\ resolve pn = Some 0%nat /\
    rematch 0%nat pn = true /\ valid_path_name pn = true /\ In e tree /\ snd e = KOther /\
    fst e = encode_go (pc_rp c ++ pc_ext c) pn t /\ start_ns (i_unix t) (i_ns t) <= now - pc_da c /\
    deleted L rematch resolve confs now tree = [].
Proof. exact multi_path_refuted. Qed.
Print Assumptions C30_multi_path_refuted.

(* doRun processes the paths one after the other on the shrinking tree: what is left is exactly the
   complement of `deleted` (the order of the path names does not matter) *)
Theorem C30_sequential_pass : forall L rematch resolve confs now tree e,
  In e (run_seq L rematch resolve confs now tree) <->
  In e tree /\ ~ In e (deleted L rematch resolve confs now tree).
Proof. exact run_seq_complement. Qed.
Print Assumptions C30_sequential_pass.

(* non-vacuity: static path "a" (1 h) and a catch-all (deleteAfter 0) sharing /rec/%path/%Y-%m-%d_%H-%M-%S-%f;
   tree with an expired and a fresh segment of a, a look-alike, a segment of a/b, a directory named like a segment *)
Definition rp_default : list Z :=   (* /rec/%path/%Y-%m-%d_%H-%M-%S-%f *)
  [47;114;101;99;47; 37;112;97;116;104; 47; 37;89;45;37;109;45;37;100;95;37;72;45;37;77;45;37;83;45;37;102].
Definition mp4 : list Z := [46;109;112;52].
Definition seg (name : list Z) (u : Z) : list Z := encode_go (rp_default ++ mp4) name (mkI u 0 0).
Example C30_example :
  let confs := [mkPC [97] false rp_default mp4 3600000000000; mkPC [97;108;108] true rp_default mp4 0] in
  let rematch := fun (_ : nat) (_ : list Z) => true in
  let resolve := fun p : list Z => match p with [97] => Some 0%nat | _ => Some 1%nat end in
  let now := 1704103200 * 1000000000 in   (* 2024-01-01T10:00:00Z *)
  let old := seg [97] 1704096000 in       (* 08:00:00: expired *)
  let fresh := seg [97] 1704101400 in     (* 09:30:00 *)
  let tree := [([47;114;101;99], KDir); ([47;114;101;99;47;97], KDir); (old, KOther); (fresh, KOther);
               (old ++ [46;98;97;107], KOther); (seg [97;47;98] 1600000000, KOther);
               (seg [97] 1500000000, KDir)] in
  common_path (seg_format (mkPC [97] false rp_default mp4 0) [97]) = [47;114;101;99;47;97] /\
  map fst (deleted (fixed_lz 0) rematch resolve confs now tree) = [old] /\
  path_names (fixed_lz 0) rematch confs tree = [[97]; [97]; [97]; [97;47;98]] /\
  length (run_seq (fixed_lz 0) rematch resolve confs now tree) = 6%nat.
Proof. vm_compute. repeat split. Qed.

(* non-vacuity of the sibling theorems: flat layout /rec/%path_%s shared by static cam.1 (10 s), static camA1
   (deleteAfter 0) and a catch-all (1 h); same starts for cam.1, camA1 and cam11: only cam.1's old segment and
   cam11's (catch-all, older than 1 h) go - camA1's, the fresh ones, cam.1_..._mp4 and cam#1 stay *)
Definition rp_flat : list Z := [47;114;101;99;47; 37;112;97;116;104; 95; 37;115].   (* /rec/%path_%s *)
Definition fseg (name : list Z) (u : Z) : list Z := encode_go (rp_flat ++ mp4) name (mkI u 0 0).
Example C30_example_flat :
  let cam_1 := [99;97;109;46;49] in let camA1 := [99;97;109;65;49] in let cam11 := [99;97;109;49;49] in
  let confs := [mkPC cam_1 false rp_flat mp4 10000000000; mkPC camA1 false rp_flat mp4 0;
                mkPC [97;108;108] true rp_flat mp4 3600000000000] in
  let rematch := fun (_ : nat) (_ : list Z) => true in
  let resolve := fun p : list Z => if bytes_eqb p cam_1 then Some 0%nat else if bytes_eqb p camA1 then Some 1%nat else Some 2%nat in
  let now := 1704103200 * 1000000000 in
  let old := 1704096000 in let fresh := 1704103195 in
  let tree := [([47;114;101;99], KDir); (fseg cam_1 old, KOther); (fseg cam_1 fresh, KOther);
               (fseg camA1 old, KOther); (fseg cam11 old, KOther); (fseg cam11 1704101400, KOther);
               (removelast (removelast (removelast (removelast (fseg cam_1 old)))) ++ [95;109;112;52], KOther);
               (fseg [99;97;109;35;49] old, KOther)] in
  single_owner_format rp_flat = true /\
  map fst (deleted (fixed_lz 0) rematch resolve confs now tree) = [fseg cam_1 old; fseg cam11 old].
Proof. vm_compute. split; reflexivity. Qed.
