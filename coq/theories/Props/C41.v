(* C41 — TLS fingerprint pinning accepts exactly the pinned certificate.
   The decision takes only the fingerprint and the SHA-256 of the leaf certificate (an input here: `digest`);
   chain validity, names and dates are not inputs of `verify` at all. *)
From Coq Require Import List ZArith Bool.
Require Import MTX.Model.C41_Tls MTX.Proofs.C41_Tls.
Import ListNotations.
Local Open Scope Z_scope.

Theorem C41_accept_iff : forall fp digest, Forall is_byte digest ->
  (verify fp digest = true <-> fold_eq fp (hex_encode digest)).
Proof. exact verify_iff. Qed.
Print Assumptions C41_accept_iff.

Theorem C41_hex_lower : forall bs, Forall is_byte bs -> to_lower (hex_encode bs) = hex_encode bs.
Proof. exact hex_lower. Qed.
Print Assumptions C41_hex_lower.

Theorem C41_exactly_pinned : forall fp d1 d2, Forall is_byte d1 -> Forall is_byte d2 ->
  verify fp d1 = true -> verify fp d2 = true -> d1 = d2.
Proof. exact verify_unique. Qed.
Print Assumptions C41_exactly_pinned.

Theorem C41_length : forall fp digest, verify fp digest = true -> length fp = (2 * length digest)%nat.
Proof. exact verify_length. Qed.
Print Assumptions C41_length.

Example C41_example :
  verify [65; 98; 48; 70] [171; 15] = true /\ verify [97; 98; 48; 102] [171; 15] = true /\
  verify [97; 98; 48; 101] [171; 15] = false /\ verify [97; 98; 48] [171; 15] = false /\ pinned [] = false.
Proof. vm_compute. repeat split. Qed.
