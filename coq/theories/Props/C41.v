(* C41 — TLS fingerprint pinning accepts exactly the pinned certificate.
   The decision takes only the fingerprint and the SHA-256 of the leaf certificate (an input here: `digest`);
   chain validity, names and dates are not inputs of `verify` at all. *)
From Coq Require Import List ZArith Bool.
Require Import MTX.Model.C41_Tls MTX.Proofs.C41_Tls MTX.Model.C41_Sites MTX.Proofs.C41_Sites.
Import ListNotations.
Local Open Scope Z_scope.

Theorem C41_accept_iff : forall fp digest, Forall is_byte digest ->
  (verify fp digest = true <-> fold_eq fp (hex_encode digest)).
Proof. exact verify_iff. Qed.
Print Assumptions C41_accept_iff.

Theorem C41_hex_lower : forall bs, Forall is_byte bs -> to_lower (hex_encode bs) = hex_encode bs.
Proof. exact hex_lower. Qed.
Print Assumptions C41_hex_lower.

Theorem C41_exactly_pinned : forall fp d1 d2, Forall is_byte d1 -> Forall is_byte d2 ->
  verify fp d1 = true -> verify fp d2 = true -> d1 = d2.
Proof. exact verify_unique. Qed.
Print Assumptions C41_exactly_pinned.

Theorem C41_length : forall fp digest, verify fp digest = true -> length fp = (2 * length digest)%nat.
Proof. exact verify_length. Qed.
Print Assumptions C41_length.

(* ---- the road from MakeConfig to the handshake (Model/C41_Sites.v) ------------------------------------------------
   every user of MakeConfig (packetdumper.DialTLSContext.Do, the sources' and forwarders' clients, net/http, the MoQ
   dialers) is a sequence of field writes on a private copy of the configuration; crypto/tls then decides from
   InsecureSkipVerify, ServerName + ordinary verification (`ca_ok`, any function) and VerifyConnection. *)

(* for ANY consumer made of pin-neutral writes, of any length: the callback alone decides *)
Theorem C41_neutral_consumer_decides : forall ops fp digest ca_ok,
  fp <> [] -> Forall (fun o => neutral o = true) ops ->
  tls_accepts (run ops (start (make_config fp))) digest ca_ok = verify fp digest.
Proof. exact neutral_consumer_decides. Qed.
Print Assumptions C41_neutral_consumer_decides.

(* every modelled call site is such a consumer ... *)
Theorem C41_sites_neutral : forall s was_nil host, Forall (fun o => neutral o = true) (site_ops s was_nil host).
Proof. exact site_ops_neutral. Qed.
Print Assumptions C41_sites_neutral.

(* ... so at every call site, for every URL host, every digest and every outcome of ordinary verification, the
   connection succeeds iff the fingerprint is the hex SHA-256 of the leaf up to ASCII case *)
Theorem C41_sites_accept_iff : forall s fp host digest ca_ok, fp <> [] -> Forall is_byte digest ->
  (connect s fp host digest ca_ok = true <-> fold_eq fp (hex_encode digest)).
Proof. exact connect_iff. Qed.
Print Assumptions C41_sites_accept_iff.

(* regardless of the chain's validity (and of the name it is checked for) *)
Theorem C41_sites_chain_irrelevant : forall s fp host digest ca1 ca2 host2, fp <> [] ->
  connect s fp host digest ca1 = connect s fp host2 digest ca2.
Proof. exact connect_chain_irrelevant. Qed.
Print Assumptions C41_sites_chain_irrelevant.

(* exactly the pinned certificate, across call sites *)
Theorem C41_sites_exactly_pinned : forall s1 s2 fp h1 h2 d1 d2 ca1 ca2,
  fp <> [] -> Forall is_byte d1 -> Forall is_byte d2 ->
  connect s1 fp h1 d1 ca1 = true -> connect s2 fp h2 d2 ca2 = true -> d1 = d2.
Proof. exact connect_exactly_pinned. Qed.
Print Assumptions C41_sites_exactly_pinned.

(* without a fingerprint no call site weakens anything: ordinary verification for the URL host decides *)
Theorem C41_sites_unpinned_ordinary : forall s host digest ca_ok, host <> [] ->
  connect s [] host digest ca_ok = ca_ok host.
Proof. exact connect_unpinned. Qed.
Print Assumptions C41_sites_unpinned_ordinary.

(* the neutrality hypothesis is not decoration: a consumer that replaces a configuration whose ServerName is empty
   (MakeConfig's always is) accepts a certificate that is not the pinned one and rejects the pinned one *)
Theorem C41_replacing_consumer_refuted :
  exists fp host d_pinned d_other ca_ok,
    fp <> [] /\ verify fp d_pinned = true /\ verify fp d_other = false /\
    tls_accepts (run (pd_do_merged_ops host) (start (make_config fp))) d_other ca_ok = true /\
    tls_accepts (run (pd_do_merged_ops host) (start (make_config fp))) d_pinned (fun _ => false) = false.
Proof. exact merged_consumer_refuted. Qed.
Print Assumptions C41_replacing_consumer_refuted.

Example C41_sites_example :
  connect (Src RTSP true) [65; 98] [104] [171] (fun _ => false) = true /\
  connect (Src HLS true) [65; 98] [104] [172] (fun _ => true) = false /\
  connect MoqQuic [97; 66] [104] [171] (fun _ => false) = true /\
  connect AuthJWKS [] [104] [171] (fun _ => false) = false /\
  connect FwdWHIP [] [104] [172] (fun n => bytes_eqb n [104]) = true /\
  server_name (site_cfg PdDo [97] [104]) = [104] /\ key_log (site_cfg PdDo [97] [104]) = true /\
  server_name (site_cfg MoqWT [97] [104]) = [] /\ server_name (site_cfg MoqWT [] [104]) = [104].
Proof. vm_compute. repeat split. Qed.

Example C41_example :
  verify [65; 98; 48; 70] [171; 15] = true /\ verify [97; 98; 48; 102] [171; 15] = true /\
  verify [97; 98; 48; 101] [171; 15] = false /\ verify [97; 98; 48] [171; 15] = false /\ pinned [] = false.
Proof. vm_compute. repeat split. Qed.
