(* C34 — Client-supplied descriptors parse faithfully.
   Only statements here; every proof is `exact <lemma of Proofs/C34_Descriptors.v or Lib/Base64.v>`.
   Strings are byte strings (list Z); `is_byte` hypotheses appear only where base64 is involved. *)
From Coq Require Import List ZArith Bool String.
Require Import MTX.Lib.Base64 MTX.Model.C34_Descriptors MTX.Proofs.C34_Descriptors.
Import ListNotations.
Local Open Scope Z_scope.

(* ---- SRT stream id, legacy syntax  action:path[:user:pass][:query] ---------------------------------------------
   strings.Split is used, so NO field may contain ':' (not even the last one: `_colon_refuted`); the last field
   written loses one trailing "#feedbackplay" (`_feedbackplay_refuted`), so it must not end with it. *)
Theorem C34_streamid_legacy : forall m p u s q,
  no_colon p -> no_colon u -> no_colon s -> no_colon q ->
  ends_with s_feedbackplay (legacy_last p u s q) = false ->
  stream_id_unmarshal (print_legacy m p u s q) = SidOk (mkSid m p q u s).
Proof. exact streamid_legacy. Qed.
Print Assumptions C34_streamid_legacy.

(* without the condition on the suffix: exactly one "#feedbackplay" is removed from the last field, nothing else *)
Theorem C34_streamid_legacy_general : forall m p u s q,
  no_colon p -> no_colon u -> no_colon s -> no_colon q ->
  stream_id_unmarshal (print_legacy m p u s q) =
  (let t := trim_suffix s_feedbackplay in
   SidOk (if is_nil q
          then (if is_nil u && is_nil s then mkSid m (t p) [] [] [] else mkSid m p [] u (t s))
          else (if is_nil u && is_nil s then mkSid m p (t q) [] [] else mkSid m p (t q) u s))).
Proof. exact streamid_legacy_general. Qed.
Print Assumptions C34_streamid_legacy_general.

(* a player appending "#feedbackplay" to any legacy id: all fields come back exactly *)
Theorem C34_streamid_legacy_feedbackplay : forall m p u s q,
  no_colon p -> no_colon u -> no_colon s -> no_colon q ->
  stream_id_unmarshal (print_legacy m p u s q ++ s_feedbackplay) = SidOk (mkSid m p q u s).
Proof. exact streamid_legacy_feedbackplay. Qed.
Print Assumptions C34_streamid_legacy_feedbackplay.

Theorem C34_streamid_legacy_colon_refuted :
  exists m p u s q, no_colon p /\ no_colon u /\ no_colon s /\ ~ no_colon q /\
    stream_id_unmarshal (print_legacy m p u s q) <> SidOk (mkSid m p q u s).
Proof. exact streamid_legacy_colon_refuted. Qed.
Print Assumptions C34_streamid_legacy_colon_refuted.

Theorem C34_streamid_legacy_feedbackplay_refuted :
  exists m p u s q, no_colon p /\ no_colon u /\ no_colon s /\ no_colon q /\
    stream_id_unmarshal (print_legacy m p u s q) <> SidOk (mkSid m p q u s).
Proof. exact streamid_legacy_feedbackplay_refuted. Qed.
Print Assumptions C34_streamid_legacy_feedbackplay_refuted.

(* malformed legacy ids: accepted iff 2..5 colon-separated parts and the first is "read" or "publish" *)
Theorem C34_streamid_legacy_accept_iff : forall raw, has_prefix s_std_prefix raw = false ->
  ((exists s, stream_id_unmarshal raw = SidOk s) <->
   (2 <= Z.of_nat (List.length (split_on c_colon raw)) <= 5 /\
    legacy_action (hd [] (split_on c_colon raw)) <> None)).
Proof. exact legacy_accept_iff. Qed.
Print Assumptions C34_streamid_legacy_accept_iff.

Theorem C34_streamid_unknown_action : forall raw, has_prefix s_std_prefix raw = false ->
  legacy_action (hd [] (split_on c_colon raw)) = None -> stream_id_unmarshal raw = SidErr ErrSyntax.
Proof. exact legacy_unknown_action. Qed.
Print Assumptions C34_streamid_unknown_action.

(* ---- SRT stream id, standard syntax  #!::m=…,r=…,u=…,s=…  (values free of ','; they may contain '=' and ':') ---- *)
Theorem C34_streamid_std : forall m r u s, no_comma r -> no_comma u -> no_comma s ->
  stream_id_unmarshal (print_std m r u s) = SidOk (mkSid m r [] u s).
Proof. exact streamid_std. Qed.
Print Assumptions C34_streamid_std.

(* any list of key=value items (any keys, any order, repetitions): the result is the left-to-right reading
   `std_pairs` — later items win, unknown keys are ignored, an unknown mode is an error *)
Theorem C34_streamid_std_items : forall items, items <> [] -> Forall item_ok items ->
  stream_id_unmarshal (print_std_items items) = std_pairs items sid_zero.
Proof. exact streamid_std_items. Qed.
Print Assumptions C34_streamid_std_items.

Theorem C34_streamid_std_reordered : forall m r u s, no_comma r -> no_comma u -> no_comma s ->
  stream_id_unmarshal (print_std_items [(k_s, s); (k_u, u); (k_r, r); (k_m, mode_str m)]) = SidOk (mkSid m r [] u s).
Proof. exact streamid_std_reordered. Qed.
Print Assumptions C34_streamid_std_reordered.

Theorem C34_streamid_std_bad_mode : forall v rest, no_comma v -> v <> s_request -> v <> s_publish ->
  Forall item_ok rest ->
  stream_id_unmarshal (print_std_items ((k_m, v) :: rest)) = SidErr ErrUnsupportedMode.
Proof. exact streamid_std_bad_mode. Qed.
Print Assumptions C34_streamid_std_bad_mode.

Theorem C34_streamid_std_missing_eq : forall item tail, no_eq item -> no_comma item ->
  (tail = [] \/ exists t, tail = c_comma :: t) ->
  stream_id_unmarshal (s_std_prefix ++ item ++ tail) = SidErr ErrInvalidValue.
Proof. exact streamid_std_missing_eq. Qed.
Print Assumptions C34_streamid_std_missing_eq.

(* ---- WHIP/WHEP Link header ------------------------------------------------------------------------------------ *)

(* EVERY byte string survives quoting and reading back, in front of any rest *)
Theorem C34_quote_roundtrip : forall s rest,
  read_quoted ([c_dquote] ++ quote_credential s ++ [c_dquote] ++ rest) = Some (s, rest).
Proof. exact quote_roundtrip. Qed.
Print Assumptions C34_quote_roundtrip.

(* precondition only on the URL (no '>'); usernames and credentials are arbitrary byte strings.
   link_normal: a server without username is written as its URL only (its credential is not transmitted). *)
Theorem C34_link_roundtrip : forall l, Forall (fun s => no_byte c_gt (ice_url s) = true) l ->
  link_unmarshal (link_marshal l) = Some (map link_normal l).
Proof. exact link_roundtrip. Qed.
Print Assumptions C34_link_roundtrip.

Theorem C34_link_roundtrip_creds : forall url user cred, no_byte c_gt url = true -> user <> [] ->
  link_unmarshal [link_marshal1 (mkIce url user (Some cred))] = Some [mkIce url user (Some cred)].
Proof. exact link_roundtrip_creds. Qed.
Print Assumptions C34_link_roundtrip_creds.

Theorem C34_link_url_refuted : exists s, link_unmarshal1 (link_marshal1 s) <> Some (link_normal s).
Proof. exact link_url_refuted. Qed.
Print Assumptions C34_link_url_refuted.

(* malformed quoted strings are rejected: no opening quote; never closed (whatever the content) *)
Theorem C34_quote_needs_quote : forall c r, c <> c_dquote -> read_quoted (c :: r) = None.
Proof. exact read_quoted_needs_quote. Qed.
Print Assumptions C34_quote_needs_quote.

Theorem C34_quote_unterminated : forall s, read_quoted (c_dquote :: quote_credential s) = None.
Proof. exact read_quoted_unterminated. Qed.
Print Assumptions C34_quote_unterminated.

(* ---- HTTP Authorization --------------------------------------------------------------------------------------- *)

Theorem C34_base64_roundtrip : forall s, Forall is_byte s -> b64_decode (b64_encode s) = Some s.
Proof. exact b64_decode_encode. Qed.
Print Assumptions C34_base64_roundtrip.

(* Basic: must be the FIRST Authorization value (Request.BasicAuth reads only that one), no value may start with
   "Bearer "; the user has no ':' (RFC 7617), the password is arbitrary *)
Theorem C34_http_basic : forall u p others, Forall is_byte u -> Forall is_byte p -> no_colon u ->
  http_bearer others = None ->
  http_credentials (print_basic u p :: others) = mkCred u p [].
Proof. exact http_basic. Qed.
Print Assumptions C34_http_basic.

(* Bearer user:pass — the first value starting with "Bearer " decides, wherever it stands *)
Theorem C34_http_bearer_pair : forall pre post u p, http_bearer pre = None -> no_colon u -> no_colon p ->
  http_credentials (pre ++ print_bearer_pair u p :: post) = mkCred u p [].
Proof. exact http_bearer_pair. Qed.
Print Assumptions C34_http_bearer_pair.

(* Bearer token: returned exactly unless it contains exactly one ':' (then it IS the user:pass form) *)
Theorem C34_http_bearer_token : forall pre post t, http_bearer pre = None -> count_byte c_colon t <> 1 ->
  http_credentials (pre ++ print_bearer_token t :: post) = mkCred [] [] t.
Proof. exact http_bearer_token. Qed.
Print Assumptions C34_http_bearer_token.

(* ---- RTSP Authorization (gortsplib parses; Basic branch modelled, Digest branch oracle) -------------------------- *)

(* full strength — any password — is false: gortsplib splits the decoded pair on every ':' *)
Theorem C34_rtsp_basic_refuted : exists d u p, Forall is_byte u /\ Forall is_byte p /\ no_colon u /\
  rtsp_credentials (rtsp_header_unmarshal d (rtsp_print_basic u p)) <> mkCred u p [].
Proof. exact rtsp_basic_refuted. Qed.
Print Assumptions C34_rtsp_basic_refuted.

Theorem C34_rtsp_basic_partial : forall d u p, Forall is_byte u -> Forall is_byte p -> no_colon u -> no_colon p ->
  rtsp_credentials (rtsp_header_unmarshal d (rtsp_print_basic u p)) = mkCred u p [].
Proof. exact rtsp_basic_partial. Qed.
Print Assumptions C34_rtsp_basic_partial.

Theorem C34_rtsp_digest_user : forall u x, rtsp_credentials (RAuth RDigest u x) = mkCred u [] [].
Proof. exact rtsp_digest_user. Qed.
Print Assumptions C34_rtsp_digest_user.

(* ---- non-vacuity ------------------------------------------------------------------------------------------------ *)
Local Open Scope string_scope.

Example C34_ex_streamid :
  stream_id_unmarshal (B "publish:cam/1:joe:s3cret:k=v") = SidOk (mkSid MPublish (B "cam/1") (B "k=v") (B "joe") (B "s3cret"))
  /\ print_legacy MPublish (B "cam/1") (B "joe") (B "s3cret") (B "k=v") = B "publish:cam/1:joe:s3cret:k=v"
  /\ stream_id_unmarshal (B "read:cam#feedbackplay") = SidOk (mkSid MRead (B "cam") [] [] [])
  /\ print_std MRead (B "cam") (B "joe") (B "a:b=c") = B "#!::m=request,r=cam,u=joe,s=a:b=c"
  /\ stream_id_unmarshal (B "#!::m=request,r=cam,u=joe,s=a:b=c") = SidOk (mkSid MRead (B "cam") [] (B "joe") (B "a:b=c"))
  /\ stream_id_unmarshal (B "#!::r=cam,zz=1,h=host,t=stream") = SidOk (mkSid MRead (B "cam") [] [] [])
  /\ stream_id_unmarshal (B "#!::m=bidirectional,r=cam") = SidErr ErrUnsupportedMode
  /\ stream_id_unmarshal (B "#!::r=cam,") = SidErr ErrInvalidValue
  /\ stream_id_unmarshal (B "#!::") = SidErr ErrInvalidValue
  /\ stream_id_unmarshal (B "play:cam") = SidErr ErrSyntax
  /\ stream_id_unmarshal (B "read") = SidErr ErrSyntax
  /\ stream_id_unmarshal (B "read:a:b:c:d:e") = SidErr ErrSyntax.
Proof. vm_compute. repeat split. Qed.

Example C34_ex_link :
  link_marshal1 (mkIce (B "turn:h:3478") (B "a""b\") (Some (B ";>,")))
    = B "<turn:h:3478>; rel=""ice-server""; username=""a\""b\\""; credential="";>,""; credential-type=""password"""
  /\ link_unmarshal [B "<turn:h:3478>; rel=""ice-server""; username=""a\""b\\""; credential="";>,""; credential-type=""password"""]
    = Some [mkIce (B "turn:h:3478") (B "a""b\") (Some (B ";>,"))]
  /\ link_unmarshal [B "<stun:h>; rel=""ice-server"""] = Some [mkIce (B "stun:h") [] None]
  /\ link_unmarshal [B "<stun:h>; rel=""ice-server""; username=""""; credential=""x""; credential-type=""password"""] = None
  /\ link_unmarshal [B "<stun:h>; rel=""ice-server""; username=""a\x""; credential=""x""; credential-type=""password"""] = None
  /\ link_unmarshal [B "stun:h"] = None.
Proof. vm_compute. repeat split. Qed.

Example C34_ex_http :
  print_basic (B "Aladdin") (B "open sesame") = B "Basic QWxhZGRpbjpvcGVuIHNlc2FtZQ=="
  /\ http_credentials [B "Basic QWxhZGRpbjpvcGVuIHNlc2FtZQ=="] = mkCred (B "Aladdin") (B "open sesame") []
  /\ http_credentials [B "bAsIc dTpwOnE="] = mkCred (B "u") (B "p:q") []
  /\ http_credentials [B "Bearer joe:pw"] = mkCred (B "joe") (B "pw") []
  /\ http_credentials [B "Bearer a.b.c"] = mkCred [] [] (B "a.b.c")
  /\ http_credentials [B "Bearer a:b:c"] = mkCred [] [] (B "a:b:c")
  (* a Bearer value anywhere wins over Basic; Basic counts only as the first value *)
  /\ http_credentials [B "Basic dTpw"; B "Bearer tok"] = mkCred [] [] (B "tok")
  /\ http_credentials [B "Negotiate x"; B "Basic dTpw"] = cred_empty
  /\ http_credentials [B "Basic dTpw="] = cred_empty
  /\ http_credentials [B "bearer tok"] = cred_empty.
Proof. vm_compute. repeat split. Qed.

Example C34_ex_rtsp :
  rtsp_credentials (rtsp_header_unmarshal RErr [B "Basic dTpw"]) = mkCred (B "u") (B "p") []
  /\ rtsp_credentials (rtsp_header_unmarshal RErr [B "Basic dTpwOnE="]) = cred_empty
  /\ rtsp_credentials (rtsp_header_unmarshal (RAuth RDigest (B "joe") []) [B "Digest username=""joe"", ..."]) = mkCred (B "joe") [] [].
Proof. vm_compute. repeat split. Qed.
