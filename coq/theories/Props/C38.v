(* C38 — The configuration watcher never loses the final file content.
   Quantification: every finite sequence of operations Event(t, cur, hit) / Tick(t, cur) — any timing, any
   interleaving of file-system events with expiries of the deferred timer, any resolved path (symlink swaps,
   deletion = 0, re-creation). `dirty` is a ghost field: the time of the oldest change of the existing file that
   has not been followed by a signal yet. *)
From Coq Require Import List ZArith Bool.
Require Import MTX.Model.C38_Watcher MTX.Proofs.C38_Watcher.
Import ListNotations.
Local Open Scope Z_scope.

Theorem C38_final_notified : forall p ops s' sigs T,
  run true (init p) ops = (s', sigs) -> dirty s' = Some T ->
  armed s' = true /\
  forall t cur, cur <> 0 ->
    step true s' (Tick t cur) =
      ({| last_called := Some (t + additional_wait); prev := cur; armed := false; dirty := None |}, [t + additional_wait]).
Proof. exact final_notified. Qed.
Print Assumptions C38_final_notified.

Theorem C38_cleared_only_by_signal : forall b s o s' sig T,
  step b s o = (s', sig) -> dirty s = Some T -> dirty s' = None ->
  sig <> [] \/ (match o with Event _ cur _ => cur | Tick _ cur => cur end) = 0.
Proof. exact cleared_by_signal. Qed.
Print Assumptions C38_cleared_only_by_signal.

Theorem C38_spaced_immediate : forall b s t cur hit,
  (match last_called s with Some l => t <=? l | None => false end) = false ->
  within s t = false -> changed s cur hit = true ->
  snd (step b s (Event t cur hit)) = [t + additional_wait] /\ dirty (fst (step b s (Event t cur hit))) = None.
Proof. exact spaced_immediate. Qed.
Print Assumptions C38_spaced_immediate.

(* the pinned snapshot dropped events inside the interval: writes at 100 ms and 500 ms give one signal (110 ms) and
   the second change stays unnotified with nothing armed — the final content is never loaded *)
Theorem C38_final_notified_refuted : exists ops s' sigs T,
  run false (init 1) ops = (s', sigs) /\ dirty s' = Some T /\ armed s' = false /\ sigs = [110].
Proof. exact final_notified_refuted. Qed.
Print Assumptions C38_final_notified_refuted.

Example C38_example :
  run_auto true (init 1) 1 [(100, 1, true); (500, 1, true); (3000, 0, false); (3200, 2, true); (3300, 2, true)]
  = [110; 1120; 3210; 4220]
  /\ run_auto false (init 1) 1 [(100, 1, true); (500, 1, true)] = [110].
Proof. vm_compute. split; reflexivity. Qed.
