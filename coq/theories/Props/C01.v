(* C01 - Internal authentication decides exactly per configured users.
   Only statements here; every proof is `exact <lemma of Proofs/C01_Auth.v>`.

   Model (Model/C01_Auth.v): authenticate sha argon rx users req is Manager.Authenticate with Method = internal;
   authenticate_internal / first_match / authenticate_with_user / matches_permission / cred_check / net_contains
   transliterate authenticateInternal, its loop, authenticateWithUser, matchesPermission, Credential.Check and
   net.IPNet.Contains (byte-wise `nn[i]&m[i] == ip[i]&m[i]` after To4). sha, argon, rx are the oracles
   (base64(sha256 .), argon2 VerifyEncoded, regexp Compile+MatchString), quantified over in every theorem.

   Declarative readings (Proofs/C01_Auth.v):
     contains_spec n ones ip : the client address (::ffff:a.b.c.d read as IPv4 a.b.c.d) has the family of network n and
                               the same top `ones` bits as its address
     ip_ok    u r : u has no IP list, or some network of the list contains_spec the client address
     perm_ok  u r : some permission of u has the request's action and - for publish/read/playback only - an empty path,
                    or a path "~pat" with rx pat path = true, or a path not starting with '~' equal to the request's
     cred_ok  u r : u's user is "any", or the custom verifier accepts (u.user, u.pass), or - without custom verifier -
                    both u.user and u.pass cred_matches the supplied user / password
     cred_matches d g : d = "sha256:"++h and h = sha g; or d = "argon2:"++e and argon e g; or d is neither and is empty
                    or equal to g   (an EMPTY configured credential accepts anything: this is Credential.Check for the
                    password as the statement says, and equally for the user name, which conf.Validate forbids to be empty)
     wf_user ones u : every network of u is as conf.IPNetwork.UnmarshalJSON builds it (4-byte address + 4-byte CIDR mask,
                    or 16-byte non-v4-mapped address + 16-byte CIDR mask) with prefix length `ones n` *)
From Coq Require Import List ZArith Bool.
Require Import MTX.Lib.Utf8 MTX.Model.C01_Auth MTX.Proofs.C01_Auth.
Import ListNotations.
Local Open Scope Z_scope.

(* admitted as user u  <->  u is the supplied user name and some configured entry passes all three tests *)
Theorem C01_admit_iff : forall sha argon rx ones us r u,
  Forall (wf_user ones) us -> bytes (r_ip r) ->
  (authenticate_internal sha argon rx us r = Some u <->
   u = r_user r /\ exists usr, In usr us /\ ip_ok ones usr r /\ perm_ok rx usr r /\ cred_ok sha argon usr r).
Proof. exact admit_iff. Qed.
Print Assumptions C01_admit_iff.

(* the entry that decides is the first one, in configuration order, that passes the three tests *)
Theorem C01_first_match : forall sha argon rx ones us r k,
  Forall (wf_user ones) us -> bytes (r_ip r) ->
  (first_match sha argon rx us r 0 = Some k <->
   exists usr, nth_error us k = Some usr /\ user_admits sha argon rx ones usr r /\
               forall j u', (j < k)%nat -> nth_error us j = Some u' -> ~ user_admits sha argon rx ones u' r).
Proof. exact first_match_least. Qed.
Print Assumptions C01_first_match.

(* the full outcome of Authenticate: granted with the supplied user name, or denied with the AskCredentials flag *)
Theorem C01_outcome : forall sha argon rx ones us r,
  Forall (wf_user ones) us -> bytes (r_ip r) ->
  (authenticate sha argon rx us r = Granted (r_user r) /\ exists usr, In usr us /\ user_admits sha argon rx ones usr r) \/
  (authenticate sha argon rx us r = Denied (r_ask r && list_eqb (r_user r) [] && list_eqb (r_pass r) []) /\
   ~ exists usr, In usr us /\ user_admits sha argon rx ones usr r).
Proof. exact outcome_iff. Qed.
Print Assumptions C01_outcome.

(* net.IPNet.Contains on a network built by UnmarshalJSON = same family and equal top `ones` bits, for every address
   byte string (4 bytes, 16 bytes incl. v4-mapped, or any other length) *)
Theorem C01_contains_prefix : forall n ones ip, wf_net n ones -> bytes ip ->
  (net_contains (n_ip n) (n_mask n) ip = true <->
   exists is4 v, ip_view ip = Some (is4, v) /\ is4 = net_is4 n /\
                 v / 2 ^ (net_bits n - ones) = be (n_ip n) / 2 ^ (net_bits n - ones)).
Proof. exact net_contains_prefix. Qed.
Print Assumptions C01_contains_prefix.

(* the byte-wise masked comparison under a CIDR mask is equality of the top `ones` bits of the big-endian values *)
Theorem C01_masked_eq_cidr : forall nn ip ones, length nn = length ip -> bytes nn -> bytes ip ->
  0 <= ones <= 8 * Z.of_nat (length nn) ->
  (masked_eq nn (cidr_mask (length nn) ones) ip = true <->
   be nn / 2 ^ (8 * Z.of_nat (length nn) - ones) = be ip / 2 ^ (8 * Z.of_nat (length nn) - ones)).
Proof. exact masked_eq_cidr. Qed.
Print Assumptions C01_masked_eq_cidr.

(* Credential.Check is the declarative matching relation (prefix dispatch, empty credential accepts anything) *)
Theorem C01_cred_check : forall sha argon d g, cred_check sha argon d g = true <-> cred_matches sha argon d g.
Proof. exact cred_check_iff. Qed.
Print Assumptions C01_cred_check.

(* matchesPermission *)
Theorem C01_permission : forall rx ps action path,
  matches_permission rx ps action path = true <-> exists p, In p ps /\ perm_allows rx p action path.
Proof. exact matches_permission_iff. Qed.
Print Assumptions C01_permission.

(* rejected requests ask for credentials exactly when asking is enabled and neither user nor password was supplied *)
Theorem C01_ask_iff : forall sha argon rx us r a, authenticate sha argon rx us r = Denied a ->
  (a = true <-> r_ask r = true /\ r_user r = [] /\ r_pass r = []).
Proof. exact ask_iff. Qed.
Print Assumptions C01_ask_iff.

(* the token field is never consulted by the internal method *)
Theorem C01_token_irrelevant : forall sha argon rx us r t,
  authenticate sha argon rx us (with_token r t) = authenticate sha argon rx us r.
Proof. exact token_irrelevant. Qed.
Print Assumptions C01_token_irrelevant.

(* non-vacuity: three users with overlapping permissions - an "any" user limited to an IPv6 /32, a sha256 user with a
   regex path on 10.0.0.0/8, a plain user with an empty password; requests hitting each, and near misses *)
Example C01_example :
  let auth := authenticate ex_sha (fun _ _ => false) ex_rx ex_users in
  auth (ex_req [] [] ex_v6 a_read [122] true) = Granted [] /\                       (* "any" user, inside 2001:db8::/32 *)
  auth (ex_req [] [] ex_v6_out a_read [122] true) = Denied true /\                  (* outside the /32: asks *)
  auth (ex_req [120] [] ex_v6_out a_read [122] true) = Denied false /\              (* a user name was supplied *)
  auth (ex_req [98] [115] ex_mapped a_publish [99; 97] false) = Granted [98] /\     (* sha256 user, ::ffff:10.9.8.7, ~^c *)
  auth (ex_req [98] [115] [11;9;8;7] a_publish [99; 97] false) = Denied false /\    (* 11.9.8.7 not in 10/8 *)
  auth (ex_req [98] [116] [10;9;8;7] a_publish [99; 97] false) = Denied false /\    (* wrong password *)
  auth (ex_req [98] [115] [10;9;8;7] a_publish [100] false) = Denied false /\       (* regex does not match *)
  auth (ex_req [99] [1;2;3] [1;2;3;4] a_api [7;7] false) = Granted [99] /\          (* empty configured password; api ignores paths *)
  auth (ex_req [99] [] [1;2;3;4] a_read [99] false) = Granted [99] /\
  first_match ex_sha (fun _ _ => false) ex_rx ex_users (ex_req [99] [] [1;2;3;4] a_read [99] false) 0 = Some 2%nat.
Proof. vm_compute. repeat split. Qed.

Example C01_example_wf : Forall (wf_user (fun n => if (length (n_ip n) =? 4)%nat then 8 else 32)) ex_users.
Proof. exact ex_users_wf. Qed.
