(* C39 — Forward destinations reconcile with configuration. *)
From Coq Require Import List ZArith Bool.
Require Import MTX.Model.C39_Forward MTX.Proofs.C39_Forward.
Import ListNotations.
Local Open Scope Z_scope.

(* After ANY history of ReloadConf / Start / Stop in which Start and Stop alternate (the path starts the manager when
   its stream becomes available and stops it when the stream goes away): one handler per configured destination in
   configuration order, with distinct identities; the set of running forwarders is exactly that list while the
   stream is available and empty otherwise (so nothing leaks and nothing runs twice). *)
Theorem C39_running_iff : forall fwd0 ops s' evs,
  alternating false ops = true -> run (init fwd0) ops = (s', evs) ->
  map hconf (handlers s') = configured fwd0 ops /\ NoDup (ids (handlers s')) /\ NoDup (live s') /\
  (forall x, In x (live s') <-> started s' = true /\ In x (ids (handlers s'))).
Proof. exact history_running. Qed.
Print Assumptions C39_running_iff.

(* One reload in any reachable state, position by position: an unchanged destination keeps its handler and sees
   no start/stop; a changed or removed one is stopped (when running) and its handler is gone; every handler in the
   new list is either the old one at that position or a fresh one that was started (when running). *)
Theorem C39_reload_positions : forall s fwd s' ev, Inv s -> step s (Reload fwd) = (s', ev) ->
  (forall i h, nth_error (handlers s) i = Some h -> nth_error fwd i = Some (hconf h) ->
     nth_error (handlers s') i = Some h /\ ~ In (EStop (hid h)) ev /\ ~ In (EStart (hid h)) ev) /\
  (forall i h, nth_error (handlers s) i = Some h -> nth_error fwd i <> Some (hconf h) ->
     (started s = true -> In (EStop (hid h)) ev) /\ ~ In (hid h) (ids (handlers s'))) /\
  (forall i h', nth_error (handlers s') i = Some h' ->
     nth_error (handlers s) i = Some h' \/
     (next_id s <= hid h' /\ (started s = true -> In (EStart (hid h')) ev))).
Proof. exact reload_positions. Qed.
Print Assumptions C39_reload_positions.

Theorem C39_reachable_inv : forall ops s s' evs, Inv s -> alternating (started s) ops = true -> run s ops = (s', evs) ->
  Inv s' /\ map hconf (handlers s') = configured (map hconf (handlers s)) ops.
Proof. exact run_inv. Qed.
Print Assumptions C39_reachable_inv.

Example C39_example :
  let '(s, evs) := run (init [10; 20; 30]) [Start; Reload [10; 21; 30; 40]; Reload [10]; Stop; Reload [11; 12]; Start] in
  map hid (handlers s) = [5; 6] /\ live s = [5; 6] /\
  evs = [[EStart 0; EStart 1; EStart 2]; [EStart 3; EStart 4; EStop 1]; [EStop 3; EStop 2; EStop 4]; [EStop 0]; [];
         [EStart 5; EStart 6]].
Proof. vm_compute. repeat split. Qed.
