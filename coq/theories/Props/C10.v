(* C10 — Loading any configuration input never panics; validated configurations satisfy the
   documented constraints. Only statements here; every proof is `exact <lemma of Proofs/C10_Load.v>`.
   Partial by design: what is proved is (1) the in-tree decryption and environment map step cannot
   panic (for ALL byte strings / keys, whatever base64 and secretbox return), (2) the modelled part
   of Conf.Validate / Path.validate only accepts documented configurations, (3) the bit-level
   power-of-two test is exact. Panic-freedom of goccy/go-yaml, encoding/json, secretbox, regexp
   and url parsing is exercised by the correspondence run, not proved. *)
From Coq Require Import List ZArith Bool.
Require Import MTX.Model.C10_Load MTX.Proofs.C10_Load.
Import ListNotations.
Local Open Scope Z_scope.

(* decrypt.Decrypt after the fix: no input, key, base64 or secretbox behaviour leads to a panic *)
Theorem C10_decrypt_no_panic : forall b64 sopen key byts, decrypt true b64 sopen key byts <> DPanic.
Proof. exact decrypt_no_panic. Qed.
Print Assumptions C10_decrypt_no_panic.

(* the same through loadFromFile: legacy key, new key, both, none *)
Theorem C10_decrypt_file_no_panic : forall b64 sopen k1 k2 byts, decrypt_file true b64 sopen k1 k2 byts <> DPanic.
Proof. exact decrypt_file_no_panic. Qed.
Print Assumptions C10_decrypt_file_no_panic.

(* and a successful decryption used nonce = first 24 decoded bytes, box = the rest, key padded to 32 *)
Theorem C10_decrypt_ok_shape : forall b64 sopen key byts p,
  decrypt true b64 sopen key byts = DOk p ->
  exists enc, b64 byts = Some enc /\ (24 <= length enc)%nat /\
              sopen (key32 key) (firstn 24 enc) (skipn 24 enc) = Some p.
Proof. exact decrypt_ok_inv. Qed.
Print Assumptions C10_decrypt_ok_shape.

(* the pinned code: EVERY input whose base64 decoding is shorter than 24 bytes panics *)
Theorem C10_decrypt_no_panic_refuted : forall b64 sopen key byts enc,
  b64 byts = Some enc -> (length enc < 24)%nat -> decrypt false b64 sopen key byts = DPanic.
Proof. exact decrypt_pinned_panics. Qed.
Print Assumptions C10_decrypt_no_panic_refuted.

(* environment loader, map entry step: after the fix no state of the entry panics; before, a
   present-but-nil entry (a path written with an empty body) did *)
Theorem C10_env_map_no_panic : forall e, env_map_step true e <> EnvPanic.
Proof. exact env_map_step_no_panic. Qed.
Print Assumptions C10_env_map_no_panic.

Theorem C10_env_map_no_panic_refuted : exists e, env_map_step false e = EnvPanic.
Proof. exact env_map_step_pinned_refuted. Qed.
Print Assumptions C10_env_map_no_panic_refuted.

(* environment loader, "empty variable = empty list": no panic whether or not the list sits behind a
   nil pointer (after the fix); before, every list parameter of an optional path panicked *)
Theorem C10_env_empty_list_no_panic : forall b, env_empty_list_step true b <> EnvPanic.
Proof. exact env_empty_list_no_panic. Qed.
Print Assumptions C10_env_empty_list_no_panic.

Theorem C10_env_empty_list_no_panic_refuted : exists b, env_empty_list_step false b = EnvPanic.
Proof. exact env_empty_list_pinned_refuted. Qed.
Print Assumptions C10_env_empty_list_no_panic_refuted.

(* environment loader, a variable that only extends the name of a parameter with its own UnmarshalEnv:
   no nil receiver after the fix; before, every optional such parameter panicked *)
Theorem C10_env_subkey_no_panic : forall b, env_subkey_step true b <> EnvPanic.
Proof. exact env_subkey_no_panic. Qed.
Print Assumptions C10_env_subkey_no_panic.

Theorem C10_env_subkey_no_panic_refuted : exists b, env_subkey_step false b = EnvPanic.
Proof. exact env_subkey_pinned_refuted. Qed.
Print Assumptions C10_env_subkey_no_panic_refuted.

(* the test `x > 0 && x & (x-1) == 0` of Conf.Validate is exactly "x is a power of two" (all of Z) *)
Theorem C10_pow2_test_sound : forall x, 0 < x -> Z.land x (x - 1) = 0 -> exists k, 0 <= k /\ x = 2 ^ k.
Proof. exact land_pred_pow2. Qed.
Print Assumptions C10_pow2_test_sound.

Theorem C10_pow2_test_complete : forall k, 0 <= k -> Z.land (2 ^ k) (2 ^ k - 1) = 0.
Proof. exact pow2_land_pred. Qed.
Print Assumptions C10_pow2_test_complete.

(* validated configurations satisfy the documented constraints (write queue size is a Go int) *)
Theorem C10_validated_constraints_partial : forall g o,
  validate g = Ok o ->
  (match g_read_buffer_count g with Some x => x | None => g_wqs g end) < 2 ^ 63 ->
  documented_b o = true.
Proof. exact validate_documented. Qed.
Print Assumptions C10_validated_constraints_partial.

(* ... and this is what the boolean says, in words *)
Theorem C10_documented_meaning : forall g, documented_b g = true ->
  0 < g_read_to g /\ 0 < g_write_to g /\
  (exists k, 0 <= k /\ g_wqs g = 2 ^ k) /\
  g_udp g <= 1472 /\
  (length (filter (fun p => is_alias (p_name p)) (g_paths g)) <= 1)%nat /\
  NoDup (sec_cams (g_paths g)) /\
  forall p, In p (g_paths g) ->
    (p_regex p = true <-> (p_name p = s_all \/ p_name p = s_all_others \/ exists r, p_name p = 126 :: r)) /\
    has ph_path (p_record_path p) /\
    (has (ph 115) (p_record_path p) \/
     (has (ph 89) (p_record_path p) /\ has (ph 109) (p_record_path p) /\ has (ph 100) (p_record_path p) /\
      has (ph 72) (p_record_path p) /\ has (ph 77) (p_record_path p) /\ has (ph 83) (p_record_path p))) /\
    (g_playback g = true -> has (ph 102) (p_record_path p)) /\
    p_seg p <= day_ns /\ (p_del p = 0 \/ p_seg p <= p_del p) /\
    (p_regex p = true -> p_source p <> SPublisher -> p_source p <> SRedirect -> p_on_demand p = true) /\
    (p_on_demand p = true -> p_source p <> SPublisher) /\
    (p_source p = SRpi -> p_secondary p = false -> (primaries_with (p_cam p) (g_paths g) <= 1)%nat) /\
    (p_source p = SRpi -> p_secondary p = true -> (1 <= primaries_with (p_cam p) (g_paths g))%nat) /\
    (forall t, In t (p_tracks p) -> track_ok t = true).
Proof. exact documented_meaning. Qed.
Print Assumptions C10_documented_meaning.

(* non-vacuity: a configuration with a regex path on demand, a primary/secondary camera pair and the
   deprecated readBufferCount is accepted; breaking one constraint at a time is rejected *)
Definition ex_rp : list Z := [46;47;37;112;97;116;104;47;37;89;45;37;109;45;37;100;95;37;72;45;37;77;45;37;83;45;37;102].
Definition ex_path (name : list Z) (s : src) (od : bool) (cam : Z) (sec : bool) : pathc :=
  {| p_name := name; p_name_ok := true; p_regex := false; p_source := s; p_on_demand := od;
     p_srt_pub := 0; p_srt_read := 12; p_redirect := false; p_redirect_ok := true; p_cam := cam;
     p_secondary := sec; p_rpi_ok := true; p_other_ok := true; p_aa := false; p_aa_src_ok := false;
     p_abs_ts := false; p_run_init := false; p_run_demand := false; p_record_path := ex_rp;
     p_seg := 3600000000000; p_del := 86400000000000; p_tracks := [(0, 0, 0); (1, 48000, 2)] |}.
Definition ex_conf (wqs : Z) (od : bool) (cam2 : Z) : gconf :=
  {| g_read_to := 10000000000; g_write_to := 10000000000; g_wqs := 3; g_read_buffer_count := Some wqs;
     g_udp := 1452; g_playback := true; g_other_ok := true;
     g_paths := [ex_path [99;97;109] SPublisher false 0 false;
                 ex_path [114;112;105] SRpi false 0 false;
                 ex_path [114;112;105;50] SRpi false cam2 true;
                 ex_path [126;94;120] (SStatic true) od 0 false] |}.

Example C10_example :
  match validate (ex_conf 512 true 0) with
  | Ok o => (g_wqs o =? 512) && documented_b o &&
            forallb (fun bb => Bool.eqb (fst bb) (snd bb)) (combine (map p_regex (g_paths o)) [false; false; false; true])
  | Err => false
  end = true /\
  validate (ex_conf 500 true 0) = Err /\          (* not a power of two *)
  validate (ex_conf 512 false 0) = Err /\         (* regex path, static source, not on demand *)
  validate (ex_conf 512 true 1) = Err /\          (* secondary camera without primary *)
  decrypt true (fun _ => Some [1;2;3]) (fun _ _ _ => None) [107] [65;65;65;65] = DErr /\
  decrypt false (fun _ => Some [1;2;3]) (fun _ _ _ => None) [107] [65;65;65;65] = DPanic.
Proof. vm_compute. repeat split. Qed.
