(* C10 — Loading any configuration input never panics; validated configurations satisfy the
   documented constraints. Only statements here; every proof is `exact <lemma of Proofs/C10_Load.v>`.
   Partial by design: what is proved is (1) the in-tree decryption and environment map step cannot
   panic (for ALL byte strings / keys, whatever base64 and secretbox return), (2) the modelled part
   of Conf.Validate / Path.validate only accepts documented configurations, (3) the bit-level
   power-of-two test is exact. Panic-freedom of goccy/go-yaml, encoding/json, secretbox, regexp
   and url parsing is exercised by the correspondence run, not proved. *)
From Coq Require Import String.
From Coq Require Import List ZArith Bool.
Require Import MTX.Model.C10_Load MTX.Model.C10_Sites MTX.Proofs.C10_Load MTX.Proofs.C10_Validate MTX.Proofs.C10_Sites MTXGen.C10_ErrSites.
Import ListNotations.
Local Open Scope Z_scope.

(* decrypt.Decrypt after the fix: no input, key, base64 or secretbox behaviour leads to a panic *)
Theorem C10_decrypt_no_panic : forall b64 sopen key byts, decrypt true b64 sopen key byts <> DPanic.
Proof. exact decrypt_no_panic. Qed.
Print Assumptions C10_decrypt_no_panic.

(* the same through loadFromFile: legacy key, new key, both, none *)
Theorem C10_decrypt_file_no_panic : forall b64 sopen k1 k2 byts, decrypt_file true b64 sopen k1 k2 byts <> DPanic.
Proof. exact decrypt_file_no_panic. Qed.
Print Assumptions C10_decrypt_file_no_panic.

(* and a successful decryption used nonce = first 24 decoded bytes, box = the rest, key padded to 32 *)
Theorem C10_decrypt_ok_shape : forall b64 sopen key byts p,
  decrypt true b64 sopen key byts = DOk p ->
  exists enc, b64 byts = Some enc /\ (24 <= length enc)%nat /\
              sopen (key32 key) (firstn 24 enc) (skipn 24 enc) = Some p.
Proof. exact decrypt_ok_inv. Qed.
Print Assumptions C10_decrypt_ok_shape.

(* the pinned code: EVERY input whose base64 decoding is shorter than 24 bytes panics *)
Theorem C10_decrypt_no_panic_refuted : forall b64 sopen key byts enc,
  b64 byts = Some enc -> (length enc < 24)%nat -> decrypt false b64 sopen key byts = DPanic.
Proof. exact decrypt_pinned_panics. Qed.
Print Assumptions C10_decrypt_no_panic_refuted.

(* environment loader, map entry step: after the fix no state of the entry panics; before, a
   present-but-nil entry (a path written with an empty body) did *)
Theorem C10_env_map_no_panic : forall e, env_map_step true e <> EnvPanic.
Proof. exact env_map_step_no_panic. Qed.
Print Assumptions C10_env_map_no_panic.

Theorem C10_env_map_no_panic_refuted : exists e, env_map_step false e = EnvPanic.
Proof. exact env_map_step_pinned_refuted. Qed.
Print Assumptions C10_env_map_no_panic_refuted.

(* environment loader, "empty variable = empty list": no panic whether or not the list sits behind a
   nil pointer (after the fix); before, every list parameter of an optional path panicked *)
Theorem C10_env_empty_list_no_panic : forall b, env_empty_list_step true b <> EnvPanic.
Proof. exact env_empty_list_no_panic. Qed.
Print Assumptions C10_env_empty_list_no_panic.

Theorem C10_env_empty_list_no_panic_refuted : exists b, env_empty_list_step false b = EnvPanic.
Proof. exact env_empty_list_pinned_refuted. Qed.
Print Assumptions C10_env_empty_list_no_panic_refuted.

(* environment loader, a variable that only extends the name of a parameter with its own UnmarshalEnv:
   no nil receiver after the fix; before, every optional such parameter panicked *)
Theorem C10_env_subkey_no_panic : forall b, env_subkey_step true b <> EnvPanic.
Proof. exact env_subkey_no_panic. Qed.
Print Assumptions C10_env_subkey_no_panic.

Theorem C10_env_subkey_no_panic_refuted : exists b, env_subkey_step false b = EnvPanic.
Proof. exact env_subkey_pinned_refuted. Qed.
Print Assumptions C10_env_subkey_no_panic_refuted.

(* the test `x > 0 && x & (x-1) == 0` of Conf.Validate is exactly "x is a power of two" (all of Z) *)
Theorem C10_pow2_test_sound : forall x, 0 < x -> Z.land x (x - 1) = 0 -> exists k, 0 <= k /\ x = 2 ^ k.
Proof. exact land_pred_pow2. Qed.
Print Assumptions C10_pow2_test_sound.

Theorem C10_pow2_test_complete : forall k, 0 <= k -> Z.land (2 ^ k) (2 ^ k - 1) = 0.
Proof. exact pow2_land_pred. Qed.
Print Assumptions C10_pow2_test_complete.

(* validated configurations satisfy the documented constraints (write queue size is a Go int).
   "partial": the oracle fields stand for library calls (IsValidPathName, regexp.Compile, validateURL,
   net.SplitHostPort, checkRedirect, Forward.Validate, checkAlwaysAvailableFile, rePlainCredential, reflect.DeepEqual);
   every other check of Conf.Validate / Path.validate is a condition over plain fields in the model. *)
Theorem C10_validated_constraints_partial : forall g o,
  validate g = Ok o ->
  (match g_read_buffer_count g with Some x => x | None => g_wqs g end) < 2 ^ 63 ->
  documented_b o = true.
Proof. exact validate_documented. Qed.
Print Assumptions C10_validated_constraints_partial.

(* ... and this is what the boolean says, in words: the constraints the property text names *)
Theorem C10_documented_meaning : forall g, documented_b g = true ->
  0 < g_read_to g /\ 0 < g_write_to g /\
  (exists k, 0 <= k /\ g_wqs g = 2 ^ k) /\
  g_udp g <= 1472 /\
  (length (filter (fun p => is_alias (p_name p)) (g_paths g)) <= 1)%nat /\
  NoDup (sec_cams (g_paths g)) /\
  forall p, In p (g_paths g) ->
    (p_regex p = true <-> (p_name p = s_all \/ p_name p = s_all_others \/ exists r, p_name p = 126 :: r)) /\
    has ph_path (p_record_path p) /\
    (has (ph 115) (p_record_path p) \/
     (has (ph 89) (p_record_path p) /\ has (ph 109) (p_record_path p) /\ has (ph 100) (p_record_path p) /\
      has (ph 72) (p_record_path p) /\ has (ph 77) (p_record_path p) /\ has (ph 83) (p_record_path p))) /\
    (g_playback g = true -> has (ph 102) (p_record_path p)) /\
    p_seg p <= day_ns /\ (p_del p = 0 \/ p_seg p <= p_del p) /\
    (p_regex p = true -> p_source p <> SPublisher -> p_source p <> SRedirect -> p_on_demand p = true) /\
    (p_on_demand p = true -> p_source p <> SPublisher) /\
    (p_source p = SRpi -> p_secondary p = false -> (primaries_with (p_cam p) (g_paths g) <= 1)%nat) /\
    (p_source p = SRpi -> p_secondary p = true -> (1 <= primaries_with (p_cam p) (g_paths g))%nat) /\
    (forall t, In t (p_tracks p) -> track_ok t = true).
Proof. exact documented_meaning. Qed.
Print Assumptions C10_documented_meaning.

(* ... and the constraints of the checks over plain fields that were one oracle boolean before: authentication,
   listener addresses, RTSP transports / encryption / digest, WebRTC, deprecated parameters, rpiCamera parameters *)
Theorem C10_documented_meaning_ext : forall g, documented_b g = true ->
  let x := g_x g in let a := x_auth x in let r := x_rtsp x in let w := x_webrtc x in
  (a_method a = 0 -> forall u, In u (a_users a) -> u_user u <> [] /\ (u_user u = s_any -> u_pass u = [])) /\
  (a_method a = 1 -> a_http_addr a <> [] /\ (starts (bytes "http://") (a_http_addr a) \/ starts (bytes "https://") (a_http_addr a))) /\
  (a_method a = 2 -> a_jwks a <> [] /\ (starts (bytes "http://") (a_jwks a) \/ starts (bytes "https://") (a_jwks a)) /\ a_claim a <> []) /\
  (forall u, a_ext_url a = Some u -> a_method a = 1 /\ a_http_addr a = u) /\
  (x_api x = true -> s_addr (x_api_srv x) <> []) /\
  (x_metrics x = true -> s_addr (x_metrics_srv x) <> []) /\
  (x_pprof x = true -> s_addr (x_pprof_srv x) <> []) /\
  (g_playback g = true -> s_addr (x_playback_srv x) <> []) /\
  (x_rtmp x = true -> x_rtmp_addr x <> []) /\
  (x_hls x = true -> s_addr (x_hls_srv x) <> []) /\
  (w_on w = true -> s_addr (w_srv w) <> []) /\
  (m_on (x_moq x) = true -> m_quic (x_moq x) <> []) /\
  (r_on r = true ->
     (r_encryption r = 0 \/ r_encryption r = 1 ->
        r_addr r <> [] /\ (t_udp (r_transports r) = true -> r_rtp r <> [] /\ r_rtcp r <> []) /\
        (t_mc (r_transports r) = true -> r_mc_range r <> [] /\ r_mc_rtp r <> 0 /\ r_mc_rtcp r <> 0)) /\
     (r_encryption r = 1 \/ r_encryption r = 2 ->
        r_rtsps_addr r <> [] /\ (t_udp (r_transports r) = true -> r_srtp r <> [] /\ r_srtcp r <> []) /\
        (t_mc (r_transports r) = true -> r_mc_range r <> [] /\ r_mc_srtp r <> 0 /\ r_mc_srtcp r <> 0)) /\
     r_auth_methods r <> [] /\
     (In 1 (r_auth_methods r) -> a_method a = 0 /\ forall u, In u (a_users a) -> user_hashed u = false)) /\
  (w_on w = true ->
     (forall s, In s (w_ice w) -> ice_url_ok (fst (fst s)) = true) /\
     (w_local_udp w <> [] \/ w_local_tcp w <> [] \/ w_ice w <> []) /\
     (w_local_udp w <> [] \/ w_local_tcp w <> [] -> w_from_ifaces w = true \/ w_hosts w <> [])) /\
  (forall d, r_disable r = Some d -> r_on r = negb d) /\
  (forall v, r_encryption_dep r = Some v -> r_encryption r = v) /\
  (forall v, w_udp_mux w = Some v -> w_local_udp w = v) /\
  (forall v, d_path (x_rec x) = Some v -> d_pd_path (x_rec x) = v) /\
  forall p, In p (g_paths g) ->
    (p_source p = SRpi ->
       let e := p_x p in
       e_w e <> 0 /\ e_h e <> 0 /\ In (e_exposure e) l_exposure /\ In (e_awb e) l_awb /\ e_awb_gains e = 2 /\
       In (e_denoise e) l_denoise /\ In (e_metering e) l_metering /\ In (e_afmode e) l_afmode /\
       In (e_afrange e) l_afrange /\ In (e_afspeed e) l_afspeed /\ In (e_h264_profile e) l_profile4 /\
       In (e_h264_level e) l_level /\ In (e_codec e) l_codec /\
       (mjpeg_dims (p_secondary p) e = true -> e_w e < 2048 /\ e_w e mod 8 = 0 /\ e_h e < 2048 /\ e_h e mod 8 = 0) /\
       (forall v, e_jpeg_q e = Some v -> e_mjpeg_q e = v)) /\
    (p_source p = SRedirect -> p_redirect p = true) /\
    (p_aa p = true -> if e_aa_file (p_x p) then p_tracks p = [] else p_tracks p <> []) /\
    (forall v, e_on_ready (p_x p) = Some v -> e_on_available (p_x p) = v).
Proof. exact documented_meaning_ext. Qed.
Print Assumptions C10_documented_meaning_ext.

(* every `return <error>` of Conf.Validate / Path.validate found in the Go sources by tools/gen/c10sites is in the
   hand-written table Model/C10_Sites.v (as a modelled check with its constructor, or as a named oracle), as often
   as it occurs, and conversely; 89 modelled, 19 oracle sites, 1 pass-through *)
Theorem C10_error_sites_tie : sites_tie sites = true /\ (n_modelled, n_oracle) = (89, 19)%nat.
Proof. exact (conj sites_tie_ok sites_counts). Qed.
Print Assumptions C10_error_sites_tie.

(* non-vacuity: a configuration with a regex path on demand, a primary/secondary camera pair and the
   deprecated readBufferCount is accepted; breaking one constraint at a time is rejected *)
Definition ex_rp : list Z := bytes "./%path/%Y-%m-%d_%H-%M-%S-%f".
Definition ex_pext (codec exposure : list Z) (pub_pass : option (list Z)) : pext :=
  {| e_url_ok := true; e_hostport_ok := true; e_rtp_sdp := false; e_port_range := 2;
     e_dis_pub_override := Some true; e_override_publisher := true;
     e_source_protocol := Some 3; e_rtsp_transport := 0; e_source_any_port := None; e_rtsp_any_port := false;
     e_w := 1920; e_h := 1080; e_codec := codec; e_exposure := exposure; e_awb := bytes "auto"; e_awb_gains := 2;
     e_denoise := bytes "off"; e_metering := bytes "centre"; e_afmode := bytes "continuous"; e_afrange := bytes "normal";
     e_afspeed := bytes "normal"; e_profile := Some (bytes "high"); e_level := None; e_hw_profile := None; e_hw_level := None;
     e_sw_profile := None; e_sw_level := None; e_h264_profile := bytes "main"; e_h264_level := bytes "4.1";
     e_jpeg_q := Some 70; e_mjpeg_q := 60; e_aa_file := false; e_aa_file_ok := false;
     e_pub_user := None; e_pub_pass := pub_pass; e_pub_ips := None; e_read_user := None; e_read_pass := None; e_read_ips := None;
     e_on_ready := Some (bytes "echo"); e_on_available := []; e_ready_restart := None; e_available_restart := false;
     e_on_not_ready := None; e_on_unavailable := [] |}.
Definition ex_path (name src : list Z) (od : bool) (cam : Z) (sec : bool) (x : pext) : pathc :=
  {| p_name := name; p_name_ok := true; p_regex := false; p_source_str := src; p_on_demand := od;
     p_srt_pub := 0; p_srt_read := 12; p_redirect := false; p_redirect_ok := true; p_cam := cam;
     p_secondary := sec; p_forward_ok := true; p_fallback_ok := true; p_aa := false;
     p_abs_ts := false; p_run_init := false; p_run_demand := false; p_record_path := ex_rp;
     p_seg := 3600000000000; p_del := 86400000000000; p_tracks := [(0, 0, 0); (1, 48000, 2)]; p_x := x |}.
Definition ex_srv (addr : list Z) : xsrv := {| s_addr := addr; s_origin := Some (bytes "*"); s_origins := [] |}.
Definition ex_gext (api_addr : list Z) (digest : bool) : gext :=
  {| x_auth := {| a_ext_url := None; a_method := 0; a_http_addr := []; a_pd_creds := false; a_users_custom := false;
                  a_users := [{| u_user := bytes "admin"; u_pass := bytes "pw"; u_nips := 0; u_perms := [(0, [])] |}];
                  a_jwks := []; a_claim := bytes "mediamtx_permissions" |};
     x_api := true; x_api_srv := ex_srv api_addr; x_metrics := false; x_metrics_srv := ex_srv [];
     x_pprof := false; x_pprof_srv := ex_srv []; x_playback_srv := ex_srv (bytes ":9996");
     x_rtsp := {| r_disable := None; r_on := true; r_protocols := Some (true, false, true); r_transports := (true, true, true);
                  r_encryption_dep := None; r_encryption := 0;
                  r_auth_methods_dep := None; r_auth_methods := if digest then [0; 1] else [0];
                  r_cert_dep := None; r_cert := bytes "server.crt"; r_key_dep := None; r_key := bytes "server.key";
                  r_addr := bytes ":8554"; r_rtsps_addr := bytes ":8322"; r_rtp := bytes ":8000"; r_rtcp := bytes ":8001";
                  r_srtp := bytes ":8004"; r_srtcp := bytes ":8005"; r_mc_range := []; r_mc_rtp := 0; r_mc_rtcp := 0;
                  r_mc_srtp := 0; r_mc_srtcp := 0 |};
     x_rtmp_disable := Some true; x_rtmp := true; x_rtmp_addr := [];
     x_hls_disable := None; x_hls := true; x_hls_srv := ex_srv (bytes ":8888"); x_hls_secret := false; x_hls_secret_ok := false;
     x_webrtc := {| w_disable := None; w_on := true; w_srv := ex_srv (bytes ":8889");
                    w_udp_mux := Some (bytes ":8189"); w_local_udp := []; w_tcp_mux := None; w_local_tcp := [];
                    w_nat_ips := None; w_hosts := []; w_ice_dep := Some [bytes "turn:user:pass:host.example:3478"];
                    w_ice := [(bytes "stun:stun.example:19302", [], [])]; w_from_ifaces := true |};
     x_moq := {| m_on := false; m_quic := []; m_https2 := None; m_http2 := []; m_https3 := None; m_http3 := [] |};
     x_rec := {| d_record := None; d_pd_record := false; d_path := Some ex_rp; d_pd_path := []; d_format := None; d_pd_format := 0;
                 d_part := None; d_pd_part := 1000000000; d_seg := None; d_pd_seg := 3600000000000; d_del := None; d_pd_del := 0 |} |}.
Definition ex_conf (wqs : Z) (od : bool) (cam2 : Z) (x : gext) (cam_x : pext) (exposure : list Z) : gconf :=
  {| g_read_to := 10000000000; g_write_to := 10000000000; g_wqs := 3; g_read_buffer_count := Some wqs;
     g_udp := 1452; g_playback := true; g_x := x;
     g_paths := [ex_path (bytes "cam") (bytes "publisher") false 0 false cam_x;
                 ex_path (bytes "rpi") (bytes "rpiCamera") false 0 false (ex_pext (bytes "auto") exposure None);
                 ex_path (bytes "rpi2") (bytes "rpiCamera") false cam2 true (ex_pext (bytes "mjpeg") (bytes "normal") None);
                 ex_path (bytes "~^x") (bytes "rtsp://cam.example/stream") od 0 false (ex_pext (bytes "auto") (bytes "normal") None)] |}.
Definition ex_ok_x := ex_gext (bytes ":9997") false.
Definition ex_cam_x := ex_pext (bytes "auto") (bytes "normal") None.
Definition is_err {A} (r : result A) (e : verr) : Prop := r = Err e.

Definition nrm := bytes "normal".

Example C10_example :
  match validate (ex_conf 512 true 0 ex_ok_x ex_cam_x nrm) with
  | Ok o => (g_wqs o =? 512) && documented_b o &&
            forallb (fun bb => Bool.eqb (fst bb) (snd bb)) (combine (map p_regex (g_paths o)) [false; false; false; true]) &&
            (* migrations: rtmpDisable, webrtcICEUDPMuxAddress, webrtcICEServers, rpiCameraJPEGQuality, sourceProtocol *)
            negb (x_rtmp (g_x o)) && list_eqb (w_local_udp (x_webrtc (g_x o))) (bytes ":8189") &&
            list_eqb_with ice_eqb (w_ice (x_webrtc (g_x o)))
              [(bytes "stun:stun.example:19302", [], []); (bytes "turn:host.example:3478", bytes "user", bytes "pass")] &&
            forallb (fun p => (e_mjpeg_q (p_x p) =? 70) || negb (src_eqb (p_source p) SRpi)) (g_paths o) &&
            forallb (fun p => (e_rtsp_transport (p_x p) =? 3) || negb (is_rtsp_source p)) (g_paths o)
  | Err _ => false
  end = true /\
  is_err (validate (ex_conf 500 true 0 ex_ok_x ex_cam_x nrm)) E_wqs_pow2 /\
  is_err (validate (ex_conf 512 false 0 ex_ok_x ex_cam_x nrm)) E_regex_static_demand /\
  is_err (validate (ex_conf 512 true 1 ex_ok_x ex_cam_x nrm)) E_rpi_no_primary /\
  is_err (validate (ex_conf 512 true 0 (ex_gext [] false) ex_cam_x nrm)) E_api_addr /\
  is_err (validate (ex_conf 512 true 0 ex_ok_x ex_cam_x (bytes "bright"))) E_rpi_exposure /\
  (* publishPass without publishUser: deprecated credentials mode, user "any" with a password *)
  is_err (validate (ex_conf 512 true 0 ex_ok_x (ex_pext (bytes "auto") nrm (Some (bytes "secret"))) nrm)) E_dep_any_pass /\
  decrypt true (fun _ => Some [1;2;3]) (fun _ _ _ => None) [107] [65;65;65;65] = DErr /\
  decrypt false (fun _ => Some [1;2;3]) (fun _ _ _ => None) [107] [65;65;65;65] = DPanic.
Proof. vm_compute. repeat split. Qed.
