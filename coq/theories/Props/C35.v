(* C35 — No unauthenticated network input crashes the server (PARTIAL).
   What is proved: the code MediaMTX itself runs on client-controlled strings before authentication
   (Model/C35_PreAuth.v: every slice expression and index written with an explicit Panic outcome)
   cannot panic, for every input; each guard that this depends on is shown necessary by a witness
   (the `_refuted` theorems); and what each front end hands on as a path name is either refused by
   IsValidPathName or is a well-formed name. What is NOT proved (third-party stacks, Go run time) is
   exercised by the crash-oracle runs of the check and is labelled testing in the evidence.
   Second part (Model/C35_SessionConc.v): the MoQ session under CONCURRENT streams of one unauthenticated client
   (every stream has its own goroutine; a panic in any of them ends the process): no schedule of any pool of stream
   handlers, API calls and Close() reaches "close of closed channel", an out-of-range index, a fatal unlock or an
   access to a mutex-guarded field without the mutex; the mutex holder is never blocked; the statement orders next to
   the code (duplicate-SETUP test before the lock, ...) do panic under a concrete schedule.
   Only statements here; every proof is `exact <lemma of Proofs/C35_*.v>`. *)
From Coq Require Import List ZArith Bool String.
Require Import MTX.Lib.PathClean MTX.Model.C34_Descriptors MTX.Model.C35_PreAuth MTX.Proofs.C35_PreAuth.
Require Import MTX.Model.C35_SessionConc MTX.Proofs.C35_SessionConc MTX.Proofs.C35_SessionRun.
Require MTXGen.C35_SessionPaths.
Require Import MTX.Model.C35_TsIngest.
Require MTX.Proofs.C35_TsIngest.
Import ListNotations.
Local Open Scope Z_scope.

(* ---- the filter in front of every HTTP/1.1 and HTTP/2 handler ------------------------------ *)

Theorem C35_filter_no_panic : forall path, http_filter path <> Panic.
Proof. exact filter_no_panic. Qed.
Print Assumptions C35_filter_no_panic.

(* what the filter guarantees to the handlers behind it *)
Theorem C35_filter_guarantee : forall path, http_filter path = Ok true <-> exists r, path = 47 :: r.
Proof. exact filter_pass_iff. Qed.
Print Assumptions C35_filter_guarantee.

Theorem C35_filter_refuted : exists path, http_filter_unguarded path = Panic.
Proof. exists []. exact filter_unguarded_panics. Qed.
Print Assumptions C35_filter_refuted.

(* ---- HLS -------------------------------------------------------------------------------------- *)

Theorem C35_hls_dispatch_no_panic : forall is_get path,
  http_filter path = Ok true -> hls_dispatch is_get path <> Panic.
Proof. exact hls_dispatch_no_panic. Qed.
Print Assumptions C35_hls_dispatch_no_panic.

(* without the filter: URL.Path[1:] on an empty path *)
Theorem C35_hls_dispatch_refuted : exists path, hls_dispatch true path = Panic.
Proof. exists []. exact hls_dispatch_unfiltered_panics. Qed.
Print Assumptions C35_hls_dispatch_refuted.

Theorem C35_hls_front_no_panic : forall is_get path, hls_front is_get path <> Panic.
Proof. exact hls_front_no_panic. Qed.
Print Assumptions C35_hls_front_no_panic.

(* ---- WebRTC ------------------------------------------------------------------------------------ *)

(* holds with or without the filter: the handler carries its own length tests *)
Theorem C35_webrtc_dispatch_no_panic : forall m path, webrtc_dispatch m path <> Panic.
Proof. exact webrtc_dispatch_no_panic. Qed.
Print Assumptions C35_webrtc_dispatch_no_panic.

Theorem C35_webrtc_front_no_panic : forall m path, webrtc_front m path <> Panic.
Proof. exact webrtc_front_no_panic. Qed.
Print Assumptions C35_webrtc_front_no_panic.

(* the two length tests of the page switch are both needed *)
Theorem C35_page_len_guard_refuted : exists path, page_dispatch_no_len_guard path = Panic.
Proof. exists [47]. exact (proj1 page_no_len_guard_panics). Qed.
Print Assumptions C35_page_len_guard_refuted.

Theorem C35_page_publish_guard_refuted : exists path, page_dispatch_no_publish_guard path = Panic.
Proof. exists s_publish_suffix. exact page_no_publish_guard_panics. Qed.
Print Assumptions C35_page_publish_guard_refuted.

(* WHIP/WHEP endpoint names and session secrets are never empty; page names can be *)
Theorem C35_webrtc_whip_name_nonempty : forall m path n b,
  webrtc_dispatch m path = Ok (WOptions n b) \/ webrtc_dispatch m path = Ok (WPost n b) -> n <> [].
Proof. exact webrtc_whip_name_nonempty. Qed.
Print Assumptions C35_webrtc_whip_name_nonempty.

Theorem C35_webrtc_secret_nonempty : forall m path s,
  webrtc_dispatch m path = Ok (WPatch s) \/ webrtc_dispatch m path = Ok (WDelete s) -> s <> [].
Proof. exact webrtc_secret_nonempty. Qed.
Print Assumptions C35_webrtc_secret_nonempty.

Theorem C35_page_name_can_be_empty :
  page_dispatch [47; 47] = Ok (PPage [] false) /\ page_dispatch (47 :: s_publish_suffix) = Ok (PPage [] true).
Proof. exact page_name_can_be_empty. Qed.
Print Assumptions C35_page_name_can_be_empty.

(* ---- MoQ ----------------------------------------------------------------------------------------- *)

Theorem C35_moq_h2_dispatch_no_panic : forall m path hdr, moq_h2_dispatch m path hdr <> Panic.
Proof. exact moq_h2_dispatch_no_panic. Qed.
Print Assumptions C35_moq_h2_dispatch_no_panic.

Theorem C35_moq_h2_front_no_panic : forall m path hdr, moq_h2_front m path hdr <> Panic.
Proof. exact moq_h2_front_no_panic. Qed.
Print Assumptions C35_moq_h2_front_no_panic.

Theorem C35_auth_mirror_no_panic : forall hdr, auth_mirror hdr <> Panic.
Proof. exact auth_mirror_no_panic. Qed.
Print Assumptions C35_auth_mirror_no_panic.

Theorem C35_auth_mirror_refuted : exists hdr, auth_mirror_unguarded hdr = Panic.
Proof. exists []. exact auth_mirror_unguarded_panics. Qed.
Print Assumptions C35_auth_mirror_refuted.

(* WebTransport over HTTP/3: no filter stands in front of this handler. As found, an empty path
   (a CONNECT without :protocol) panicked; repaired in /repo by a fix: commit. *)
Theorem C35_moq_h3_found_refuted : exists path, moq_h3_dispatch_found MConnect path = Panic.
Proof. exists []. exact moq_h3_found_panics. Qed.
Print Assumptions C35_moq_h3_found_refuted.

Theorem C35_moq_h3_dispatch_no_panic : forall m path, moq_h3_dispatch m path <> Panic.
Proof. exact moq_h3_dispatch_no_panic. Qed.
Print Assumptions C35_moq_h3_dispatch_no_panic.

Theorem C35_moq_h3_fix_conservative : forall m path,
  http_filter path = Ok true -> moq_h3_dispatch m path = moq_h3_dispatch_found m path.
Proof. exact moq_h3_fix_conservative. Qed.
Print Assumptions C35_moq_h3_fix_conservative.

Theorem C35_moq_h3_session_name_nonempty : forall m path n, moq_h3_dispatch m path = Ok (H3Session n) -> n <> [].
Proof. exact moq_h3_session_nonempty. Qed.
Print Assumptions C35_moq_h3_session_name_nonempty.

Theorem C35_moq_quic_name_ok : forall upath n,
  moq_quic_name upath = Some n -> n <> [] /\ hd 0 n <> 47 /\ last n 0 <> 47.
Proof. exact moq_quic_name_ok. Qed.
Print Assumptions C35_moq_quic_name_ok.

(* ---- RTSP, RTMP, SRT, API ------------------------------------------------------------------------ *)

Theorem C35_rtsp_name_no_panic : forall p, rtsp_name p <> Panic.
Proof. exact rtsp_name_no_panic. Qed.
Print Assumptions C35_rtsp_name_no_panic.

Theorem C35_rtsp_name_refuted : exists p, rtsp_name_unguarded p = Panic.
Proof. exists []. exact rtsp_name_unguarded_panics. Qed.
Print Assumptions C35_rtsp_name_refuted.

Theorem C35_rtsp_name_spec : forall p n, rtsp_name p = Ok (Some n) <-> p = 47 :: n.
Proof. exact rtsp_name_spec. Qed.
Print Assumptions C35_rtsp_name_spec.

(* RECORD slices the path of the ANNOUNCE that passed the guard (that it is the same path is gortsplib's) *)
Theorem C35_rtsp_record_no_panic : forall p n, rtsp_name p = Ok (Some n) -> rtsp_record_name p = Ok n.
Proof. exact rtsp_record_after_announce. Qed.
Print Assumptions C35_rtsp_record_no_panic.

Theorem C35_rtsp_record_refuted : exists p, rtsp_record_name p = Panic.
Proof. exists []. exact rtsp_record_unguarded_panics. Qed.
Print Assumptions C35_rtsp_record_refuted.

Theorem C35_rtmp_name_no_leading_slash : forall upath, hd 0 (rtmp_name upath) <> 47.
Proof. exact rtmp_name_no_leading_slash. Qed.
Print Assumptions C35_rtmp_name_no_leading_slash.

(* streamID.unmarshal with its index points is C34's model, and never panics *)
Theorem C35_srt_unmarshal_is_c34 : forall raw, srt_unmarshal raw = Ok (stream_id_unmarshal raw).
Proof. exact srt_unmarshal_eq. Qed.
Print Assumptions C35_srt_unmarshal_is_c34.

Theorem C35_srt_unmarshal_no_panic : forall raw, srt_unmarshal raw <> Panic.
Proof. exact srt_unmarshal_no_panic. Qed.
Print Assumptions C35_srt_unmarshal_no_panic.

Theorem C35_srt_item_refuted : exists kv, srt_std_item_unguarded kv = Panic.
Proof. exists [120]. exact srt_std_item_unguarded_panics. Qed.
Print Assumptions C35_srt_item_refuted.

Theorem C35_param_name_no_panic : forall s, param_name s <> Panic.
Proof. exact param_name_no_panic. Qed.
Print Assumptions C35_param_name_no_panic.

Theorem C35_param_name_nonempty : forall s n, param_name s = Ok (Some n) -> n <> [] /\ s = 47 :: n.
Proof. exact param_name_nonempty. Qed.
Print Assumptions C35_param_name_nonempty.

(* ---- the gate every handed-over name meets first: conf.IsValidPathName ---------------------------- *)

Theorem C35_is_valid_path_name_no_panic : forall n, is_valid_path_name n <> Panic.
Proof. exact is_valid_path_name_no_panic. Qed.
Print Assumptions C35_is_valid_path_name_no_panic.

Theorem C35_is_valid_path_name_refuted : exists n, is_valid_path_name_unguarded n = Panic.
Proof. exists []. exact is_valid_path_name_unguarded_panics. Qed.
Print Assumptions C35_is_valid_path_name_refuted.

(* whatever a front end hands on (the empty name included), the gate decides without panicking, and a
   name that passes is not empty, has no '/' at either end, stays in the character class and has no
   "." or ".." segment *)
Theorem C35_gate_total : forall n, gate n <> Panic.
Proof. exact gate_no_panic. Qed.
Print Assumptions C35_gate_total.

Theorem C35_gate_passes_only_wellformed : forall n, gate n = Ok true ->
  n <> [] /\ hd 0 n <> 47 /\ last n 0 <> 47 /\ forallb path_char n = true
  /\ existsb (fun g => is_dot g || is_dd g) (split47 n) = false.
Proof. exact gate_true. Qed.
Print Assumptions C35_gate_passes_only_wellformed.

(* ---- non-vacuity: the hypotheses are met by ordinary requests, each branch is reachable ------------ *)

Local Open Scope string_scope.
Example C35_examples :
  let S := C34_Descriptors.B in
  http_filter (S "/cam/index.m3u8") = Ok true
  /\ hls_dispatch true (S "/cam/index.m3u8") = Ok (HFile KMultivariant (S "cam") (S "index.m3u8"))
  /\ hls_dispatch true (S "/a/b/seg1.mp") = Ok (HFile KSegment (S "a/b") (S "seg1.mp4"))
  /\ hls_dispatch true (S "/cam/") = Ok (HIndex (S "cam"))
  /\ hls_dispatch true (S "//") = Ok (HIndex [])
  /\ hls_dispatch true (S "/cam") = Ok HRedirect
  /\ hls_front true (S "*") = Ok None
  /\ webrtc_dispatch MPost (S "/a/b/whip") = Ok (WPost (S "a/b") true)
  /\ webrtc_dispatch MDelete (S "/a/whep/x/whip/y") = Ok (WDelete (S "x/whip/y"))
  /\ webrtc_dispatch MGet (S "/cam/publish") = Ok (WPage (S "cam") true)
  /\ webrtc_dispatch MGet (S "/publish") = Ok WRedirect
  /\ moq_h3_dispatch MConnect (S "/cam/moq") = Ok (H3Session (S "cam"))
  /\ moq_h3_dispatch MConnect (S "/moq") = Ok (H3Session (S "moq"))
  /\ moq_h3_dispatch MConnect [] = Ok H3Bad
  /\ auth_mirror (S "Basic dTpw") = Ok (AMOk (S "u") (S "p"))
  /\ rtsp_name (S "/cam") = Ok (Some (S "cam")) /\ rtsp_name [] = Ok None
  /\ srt_unmarshal (S "#!::r=cam,m=publish") = Ok (SidOk (mkSid MPublish (S "cam") [] [] []))
  /\ gate (S "cam/1") = Ok true /\ gate [] = Ok false /\ gate (S "a/../b") = Ok false.
Proof. vm_compute. repeat split. Qed.

(* ---- the MoQ session under concurrent streams (Model/C35_SessionConc.v) -------------------------------------------- *)

Local Open Scope nat_scope.

(* A session as server.go creates it (any transport, version, path-manager behaviour, initial name), any list of
   concurrent streams / API calls / Close() calls, any schedule (which goroutine runs its next statement, which select
   case fires, when bytes arrive, when the client closes a stream, when the context is cancelled, when another
   goroutine holds the mutex): the run never reaches a panic ("close of closed channel" on setupReceived or
   publishReady, setupTracks[n] out of range), a fatal "unlock of unlocked mutex", or an unprotected access; it stays
   inside the invariant `Inv`. *)
Theorem C35_session_no_panic : forall c name query ss ls,
  exists g ts, run c (init c AsFound name query ss) ls = RRun g ts /\ Inv g ts.
Proof. exact session_no_panic. Qed.
Print Assumptions C35_session_no_panic.

(* the same for ANY pool of programs that satisfies the discipline (`wf`: guarded fields only under the mutex;
   close(setupReceived) only after having seen it open under the same critical section; state written only in the
   section that saw it idle; close(publishReady) / s.stream only by the goroutine that moved the state; an index only
   after having seen it in range; nothing that waits for the client while the mutex is held) *)
Theorem C35_session_discipline_sound : forall c g ts ls,
  Inv g ts -> exists g' ts', run c (RRun g ts) ls = RRun g' ts' /\ Inv g' ts'.
Proof. exact discipline_sound. Qed.
Print Assumptions C35_session_discipline_sound.

Theorem C35_session_handlers_well_formed : forall c s,
  wf false abs0 (prog c AsFound s) = true /\ (forall alt, alt_of c AsFound s = Some alt -> wf false abs0 alt = true).
Proof. intros c s. split. exact (prog_wf c s). exact (alt_wf c s). Qed.
Print Assumptions C35_session_handlers_well_formed.

(* The same for the code itself: tools/gen/sessionpaths lists every syntactic path through every per-stream method of
   *session in internal/servers/moq/session.go as a sequence of micro-operations (coq/gen/C35_SessionPaths.v,
   regenerated on every run). All of them obey the discipline ... *)
Theorem C35_session_source_paths_well_formed :
  map fst (filter (fun p => negb (wf false abs0 (snd p))) MTXGen.C35_SessionPaths.session_paths) = [].
Proof. vm_compute. reflexivity. Qed.
Print Assumptions C35_session_source_paths_well_formed.

(* ... hence any number of goroutines, each running any of these paths (`picks`: positions in the table), under any
   schedule, never reaches a panic, a fatal unlock or an unprotected access *)
Theorem C35_session_source_paths_no_panic : forall c name query (picks : list nat) ls,
  exists g ts,
    run c (RRun (sess0 name query)
                (map thread_of (map (fun k => snd (nth k MTXGen.C35_SessionPaths.session_paths (EmptyString, []))) picks))) ls
    = RRun g ts /\ Inv g ts.
Proof. exact (table_no_panic _ C35_session_source_paths_well_formed). Qed.
Print Assumptions C35_session_source_paths_no_panic.

(* whoever holds s.mutex can run its next statement at once: a client cannot park a goroutine inside a critical
   section (apiItem, and with it the API's session list, would hang) *)
Theorem C35_session_holder_not_blocked : forall c g ts i,
  Inv g ts -> g_lock g = LThread i ->
  exists t, nth_error ts i = Some t /\ forall ch, exists g' t', step c g i t ch = XOk g' t'.
Proof. exact holder_not_blocked. Qed.
Print Assumptions C35_session_holder_not_blocked.

Theorem C35_session_finished_released : forall g ts i t,
  Inv g ts -> nth_error ts i = Some t -> t_res t <> None -> t_holds t = false /\ g_lock g <> LThread i.
Proof. exact finished_released. Qed.
Print Assumptions C35_session_finished_released.

(* the path name is written once: no later SETUP / CLIENT_SETUP changes what the path manager is asked about *)
Theorem C35_session_name_write_once : forall c ls g ts g' ts',
  run c (RRun g ts) ls = RRun g' ts' -> g_name g <> [] -> g_name g' = g_name g /\ g_query g' = g_query g.
Proof. exact name_write_once. Qed.
Print Assumptions C35_session_name_write_once.

(* the duplicate-SETUP test hoisted before s.mutex.Lock(): two SETUP streams of one client, both past the test before
   either closes the channel; sequentially the same program rejects the duplicate exactly like the code as found *)
Theorem C35_session_check_then_lock_refuted :
  (exists c name query ss ls i, run c (init c CheckThenLock name query ss) ls = RPanic i)
  /\ (exists c s, wf false abs0 (prog c CheckThenLock s) = false).
Proof.
  split.
  - exists cWT, [99%Z], [], two_setups, sched_raced_setups, 1. exact check_then_lock_panics.
  - exists cWT, (UniMsg (QSetup sm0)). exact check_then_lock_ill_formed.
Qed.
Print Assumptions C35_session_check_then_lock_refuted.

Theorem C35_session_check_then_lock_sequentially_silent :
  (match run cWT (init cWT CheckThenLock [99%Z] [] two_setups) sched_sequential with
   | RRun _ ts => map t_res ts | _ => [] end) = [Some ENil; Some EDupSetup]
  /\ (match run cWT (init cWT AsFound [99%Z] [] two_setups) sched_sequential with
      | RRun _ ts => map t_res ts | _ => [] end) = [Some ENil; Some EDupSetup].
Proof. exact check_then_lock_sequential_ok. Qed.
Print Assumptions C35_session_check_then_lock_sequentially_silent.

(* the mutex released before the test; no mutex at all *)
Theorem C35_session_unlock_then_check_refuted :
  exists c name query ss ls i, run c (init c UnlockThenCheck name query ss) ls = RPanic i.
Proof. exists cWT, [99%Z], [], two_setups, sched_unlock_then_check, 1. exact unlock_then_check_panics. Qed.
Print Assumptions C35_session_unlock_then_check_refuted.

Theorem C35_session_no_lock_refuted :
  exists c name query ss ls i, run c (init c NoLock name query ss) ls = RUnprotected i.
Proof. exists cWT, [99%Z], [], two_setups, sched_no_lock, 0. exact no_lock_unprotected. Qed.
Print Assumptions C35_session_no_lock_refuted.

(* `if s.state != idle` and `s.state = publish` in two critical sections: two PUBLISH .catalog requests close
   publishReady twice (needs a path manager that lets the client publish, as the default configuration does) *)
Theorem C35_session_split_publish_cas_refuted :
  exists c name query ss ls i, run c (init c SplitPublishCAS name query ss) ls = RPanic i.
Proof. exists cAcc, [99%Z], [], two_publishers, sched_two_publishers, 2. exact split_publish_cas_panics. Qed.
Print Assumptions C35_session_split_publish_cas_refuted.

(* `trackID > len(s.setupTracks)` *)
Theorem C35_session_index_off_by_one_refuted :
  exists c name query ss ls i, run c (init c IndexOffByOne name query ss) ls = RPanic i.
Proof. exists cAcc, [99%Z], [], subscribe_track0, sched_subscribe_track0, 2. exact index_off_by_one_panics. Qed.
Print Assumptions C35_session_index_off_by_one_refuted.

(* non-vacuity: the same pools and schedules under the code as found *)
Example C35_session_examples :
  (match run cWT (init cWT AsFound [99%Z] [] two_setups) sched_raced_setups with
   | RRun g ts => (g_setup g, map t_res ts) | _ => (false, []) end) = (true, [None; Some EDupSetup])
  /\ (match run cAcc (init cAcc AsFound [99%Z] [] two_publishers) sched_two_publishers with
      | RRun g ts => (g_ready g, map t_res ts) | _ => (false, []) end)
     = (true, [Some ENil; None; Some EUnexpectedPublish; Some ENil; Some ENil])
  /\ (match run cAcc (init cAcc AsFound [99%Z] [] subscribe_track0) sched_subscribe_track0 with
      | RRun g ts => (g_tracks g, map t_res ts) | _ => (None, []) end)
     = (Some 0, [Some ENil; Some ESubCatalogClosed; Some ETrackRange]).
Proof. exact as_found_examples. Qed.


(* ---- publisher DATA: MPEG-TS ingestion (SRT connection, RTSP MPEG-TS demuxer, MPEG-TS / SRT sources) ---------------
   Model/C35_TsIngest.v: EnhancedReader.Initialize (LATM pre-scan: per-track `done` flags, shared counter
   tracksToParse), ToStream (nil StreamMuxConfig -> ClockRate() panics), the data callbacks, the caller's read loop.
   Tracks (any number, any codecs, PIDs may repeat) and the event list (any order of PES packets of any tracks,
   decodable or not) are universally quantified; what the third-party demuxer / decoders make of bytes is data. *)
Module P := MTX.Proofs.C35_TsIngest.
Local Open Scope Z_scope.

(* when the pre-scan ends without error, EVERY LATM track has its configuration: ToStream never sees a track without *)
Theorem C35_ts_prescan_complete : forall ts evs st,
  TS.prescan TS.PvCode ts (TS.p_init ts) evs = TS.PsOk st ->
  forall t, In t ts -> TS.is_latm t = true -> TS.p_cfgs st (TS.t_pid t) <> None.
Proof. exact P.prescan_complete. Qed.
Print Assumptions C35_ts_prescan_complete.

Theorem C35_ts_to_stream_no_panic : forall ts evs st,
  TS.prescan TS.PvCode ts (TS.p_init ts) evs = TS.PsOk st -> TS.to_stream (TS.p_cfgs st) ts <> TS.TsPanic.
Proof. exact P.to_stream_no_panic. Qed.
Print Assumptions C35_ts_to_stream_no_panic.

(* the whole publisher goroutine (Initialize; ToStream; for { Read() }) never panics; the hypothesis is the
   library's guarantee that a decoded AudioSyncStream has at least one element (needed: C35_ts_empty_els_refuted) *)
Theorem C35_ts_ingest_no_panic : forall ts evs,
  forallb (TS.ev_nonempty ts) evs = true -> TS.ingest TS.PvCode ts evs <> TS.IPanic.
Proof. exact P.ingest_no_panic. Qed.
Print Assumptions C35_ts_ingest_no_panic.

(* the read loop's callbacks find the configuration too *)
Theorem C35_ts_read_loop_has_config : forall ts evs st pid i,
  TS.prescan TS.PvCode ts (TS.p_init ts) evs = TS.PsOk st -> TS.cb_of TS.is_supported ts pid = Some i ->
  TS.is_latm (TS.trk ts i) = true -> TS.p_cfgs st (TS.t_pid (TS.trk ts i)) <> None.
Proof. exact P.read_loop_has_config. Qed.
Print Assumptions C35_ts_read_loop_has_config.

(* one media per supported track *)
Theorem C35_ts_medias_count : forall cfgs ts ms, TS.to_stream_medias cfgs ts = Some ms ->
  List.length ms = List.length (filter TS.is_supported ts).
Proof. exact P.to_stream_medias_count. Qed.
Print Assumptions C35_ts_medias_count.

(* the statement orders next to the code: no `done` flag (two PES packets of one LATM track complete before the first
   of another), decrement not tied to a successful Unmarshal, loop bound off by one *)
Theorem C35_ts_no_done_refuted : exists ts evs,
  forallb (TS.ev_nonempty ts) evs = true /\ TS.ingest TS.PvNoDone ts evs = TS.IPanic /\
  exists ms r u e, TS.ingest TS.PvCode ts evs = TS.IRan ms r u e.
Proof.
  exists [P.latm 256; P.latm 257], [TS.EvData 256 [TS.ElOwn 0]; TS.EvData 256 [TS.ElOwn 0]; TS.EvData 257 [TS.ElOwn 1]].
  split; [reflexivity|]. split; [exact P.no_done_panics|]. eexists _, _, _, _. exact P.no_done_code_ok.
Qed.
Print Assumptions C35_ts_no_done_refuted.

Theorem C35_ts_dec_on_fail_refuted : exists ts evs,
  forallb (TS.ev_nonempty ts) evs = true /\ TS.ingest TS.PvDecOnFail ts evs = TS.IPanic.
Proof. exists [P.latm 256], [TS.EvData 256 [TS.ElSame [0]]; TS.EvData 256 [TS.ElOwn 0]]. split; [reflexivity|exact P.dec_on_fail_panics]. Qed.
Print Assumptions C35_ts_dec_on_fail_refuted.

Theorem C35_ts_loop_off_by_one_refuted : exists ts evs,
  forallb (TS.ev_nonempty ts) evs = true /\ TS.ingest TS.PvLoopOffByOne ts evs = TS.IPanic.
Proof. exists [P.latm 256], [TS.EvData 256 [TS.ElOwn 0]]. split; [reflexivity|exact P.loop_off_by_one_panics]. Qed.
Print Assumptions C35_ts_loop_off_by_one_refuted.

Theorem C35_ts_empty_els_refuted : exists ts evs, TS.ingest TS.PvCode ts evs = TS.IPanic.
Proof. exists [P.latm 256], [TS.EvData 256 []]. exact P.empty_els_panics. Qed.
Print Assumptions C35_ts_empty_els_refuted.

Example C35_ts_examples :
  TS.ingest TS.PvCode [P.latm 256]
    [TS.EvNone; TS.EvData 256 [TS.ElSame [0]]; TS.EvData 256 [TS.ElBad]; TS.EvData 256 [TS.ElOwn 0; TS.ElSame [0]]; TS.EvData 256 [TS.ElSame [0]]]
    = TS.IRan [Some 0] 2 1 TS.RDecode
  /\ TS.ingest TS.PvCode [P.latm 256; {| TS.t_pid := 257; TS.t_codec := TS.KOther |}]
       [TS.EvData 257 []; TS.EvData 256 [TS.ElOwn 0]; TS.EvData 256 [TS.ElOwn 1]] = TS.IRan [Some 0; None] 2 2 TS.RDynamic
  /\ TS.ingest TS.PvCode [P.latm 256; P.latm 257] [TS.EvData 256 [TS.ElOwn 0]; TS.EvData 256 [TS.ElOwn 0]] = TS.IInitErr
  /\ TS.ingest TS.PvCode [{| TS.t_pid := 256; TS.t_codec := TS.KUnsupported |}] [TS.EvData 256 []] = TS.INoCodecs
  /\ TS.ingest TS.PvCode [P.latm 256; P.latm 256] [TS.EvData 256 [TS.ElOwn 0]; TS.EvData 256 [TS.ElOwn 0]] = TS.IInitErr
  /\ forallb (TS.ev_nonempty [P.latm 256; P.latm 257])
       [TS.EvData 256 [TS.ElOwn 0]; TS.EvData 256 [TS.ElOwn 0]; TS.EvData 257 [TS.ElOwn 1]] = true.
Proof. exact P.examples. Qed.
