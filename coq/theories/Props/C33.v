(* C33 — MoQ reorderer delivers groups in order with bounded buffering.
   Only statements here; every proof is `exact <lemma of Proofs/C33_Reorderer.v>`.
   A history is any list of pushed subgroups (group id < 2^64, payload size >= 0); `run` feeds it
   to the model of Reorderer.Push from the freshly initialised state. *)
From Coq Require Import List ZArith.
Require Import MTX.Lib.IntWrap MTX.Model.C33_Reorderer MTX.Proofs.C33_Reorderer.
Import ListNotations.
Local Open Scope Z_scope.

(* the subgroups handed on, concatenated over the whole history, have strictly increasing group ids *)
Theorem C33_increasing : forall maxr maxb xs s' outs, 0 <= maxr -> 0 <= maxb ->
  Forall wf xs -> run maxr maxb init_state xs = (s', outs) -> increasing (concat outs).
Proof. exact history_increasing. Qed.
Print Assumptions C33_increasing.

(* each subgroup handed on was received, and none is handed on twice *)
Theorem C33_received_once : forall maxr maxb xs s' outs, 0 <= maxr -> 0 <= maxb ->
  Forall wf xs -> run maxr maxb init_state xs = (s', outs) ->
  incl (concat outs) xs /\ NoDup (concat outs).
Proof. exact history_received. Qed.
Print Assumptions C33_received_once.

(* in every reachable state (Inv is proved to hold after any history, see C33_reachable_inv), a subgroup
   that directly follows the last delivered one is part of the output of its own push *)
Theorem C33_next_immediate : forall maxr maxb s x,
  Inv maxr maxb s -> initialized s = true -> wf x -> gid x = cur s + 1 ->
  In x (snd (push maxr maxb s x)).
Proof. exact next_immediate. Qed.
Print Assumptions C33_next_immediate.

Theorem C33_reachable_inv : forall maxr maxb, 0 <= maxr -> 0 <= maxb -> forall xs s s' outs,
  Inv maxr maxb s -> Forall wf xs -> run maxr maxb s xs = (s', outs) -> Inv maxr maxb s'.
Proof. exact run_inv. Qed.
Print Assumptions C33_reachable_inv.

(* after every push (= after every history) no more subgroups / payload bytes are held than the limits *)
Theorem C33_bounds : forall maxr maxb xs, 0 <= maxr -> 0 <= maxb -> Forall wf xs ->
  let s := fst (run maxr maxb init_state xs) in
  Z.of_nat (length (pending s)) <= maxr /\ pbytes s <= maxb /\ pbytes s = sum_sizes (pending s).
Proof. exact history_bounds. Qed.
Print Assumptions C33_bounds.

(* non-vacuity: a history with a gap, a duplicate, a forced flush and a drain *)
Example C33_example :
  let xs := [ {| gid := 5; size := 3; tag := 0 |}; {| gid := 7; size := 4; tag := 1 |};
              {| gid := 9; size := 1; tag := 2 |}; {| gid := 7; size := 2; tag := 3 |};
              {| gid := 6; size := 5; tag := 4 |}; {| gid := 4; size := 1; tag := 5 |};
              {| gid := 8; size := 1; tag := 6 |} ] in
  Forall wf xs /\
  map (map tag) (snd (run 2 100 init_state xs)) = [[0]; []; []; []; [4; 3]; []; [6; 2]].
Proof.
  split; [repeat constructor; unfold two64; simpl; try discriminate; intros H; discriminate H|vm_compute; reflexivity].
Qed.
