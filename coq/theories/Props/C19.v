(* C19 — Every held request is answered exactly once. Only statements here. *)
From Coq Require Import List ZArith.
Require Import MTX.Lib.Trace MTX.Model.PathSM MTX.Proofs.PathSM MTX.Proofs.PathSM_Thms MTX.Proofs.PathSM_Events MTX.Proofs.PathSM_Cycle
  MTX.Proofs.PathSM_Demand MTX.Proofs.PathSM_DemandRun.
Import ListNotations.
Local Open Scope Z_scope.

(* after every history of the (repaired) loop: if a request is on hold, the path is alive, the matching
   on-demand automaton is waiting for its source, the demand (command / source) runs and the start timer
   is armed: the request will be answered by stream-ready, by the timeout or by the end of the path *)
Theorem C19_held_has_deadline : forall cf ops,
  conf_ok cf = true ->
  let s := final step (init_state cf) ops in
  held s <> [] -> s_closed s = false /\ has_deadline s.
Proof. exact c19_held_has_deadline. Qed.
Print Assumptions C19_held_has_deadline.

(* no request id is answered twice in any history whose operations carry distinct request ids, and a request
   that is still on hold has not been answered *)
Theorem C19_at_most_once : forall cf ops,
  NoDup (flat_map req_ids ops) ->
  NoDup (ak (snd (run cf ops)) ++ held (fst (run cf ops))).
Proof. exact (c19_at_most_once true). Qed.
Print Assumptions C19_at_most_once.

(* once the path has closed, the answered ids are exactly (a permutation of) the ids of the requests that
   reached the path: every one of them was answered exactly once *)
Theorem C19_exactly_once_when_closed : forall cf ops,
  conf_ok cf = true -> s_closed (fst (run cf ops)) = true ->
  Permutation.Permutation (ak (snd (run cf ops))) (all_keys true (init_state cf) ops).
Proof. exact (c19_exactly_once_closed true). Qed.
Print Assumptions C19_exactly_once_when_closed.

(* Close answers every held request with "terminated" and leaves nothing on hold *)
Theorem C19_answered_on_close : forall s q,
  s_closed s = false -> In q (held s) ->
  In (EAnswer q (AErr E_TERMINATED)) (snd (step s Close)) /\ held (fst (step s Close)) = [].
Proof. exact (c19_answered_on_close true). Qed.
Print Assumptions C19_answered_on_close.

(* the on-demand cycle of a runOnDemand path, step by step: first demand starts the command, arms the start
   timer and holds the request; ... *)
Theorem C19_cycle_start_on_demand : forall s q,
  s_closed s = false -> s_stream s = None -> od_static (s_conf s) = false -> od_pub (s_conf s) = true ->
  s_pubState s = OdInitial ->
  let s' := fst (step s (Describe q)) in
  s_pubState s' = OdWaiting /\ s_pubReadyT s' = true /\ s_hUnDemand s' = true /\
  In (EOpen HDemand) (snd (step s (Describe q))) /\ In q (held s').
Proof. exact (cycle_pub_start true). Qed.
Print Assumptions C19_cycle_start_on_demand.

(* ... the last reader leaving arms the close timer; ... *)
Theorem C19_cycle_close_after_last_reader : forall s r,
  s_closed s = false -> od_static (s_conf s) = false -> od_pub (s_conf s) = true ->
  s_pubState s = OdReady -> s_readers s = [r] ->
  let s' := fst (step s (RemoveReader r)) in
  s_pubState s' = OdClosing /\ s_pubCloseT s' = true /\ s_readers s' = [].
Proof. exact (cycle_pub_schedule_close true). Qed.
Print Assumptions C19_cycle_close_after_last_reader.

(* ... its expiry stops the command and returns to Initial, from where C19_cycle_start_on_demand applies again; *)
Theorem C19_cycle_stop_then_restartable : forall s,
  s_closed s = false -> s_pubState s = OdClosing -> s_pubCloseT s = true -> s_hUnDemand s = true ->
  let s' := fst (step s (TimerFire TPubClose)) in
  s_pubState s' = OdInitial /\ s_pubCloseT s' = false /\ s_hUnDemand s' = false /\
  In (EClose HDemand) (snd (step s (TimerFire TPubClose))).
Proof. exact (cycle_pub_stop true). Qed.
Print Assumptions C19_cycle_stop_then_restartable.

(* ... and the expiry of the start timer answers every held request with "timed out" and stops the command *)
Theorem C19_cycle_timeout : forall s q,
  s_closed s = false -> s_pubState s = OdWaiting -> s_pubReadyT s = true -> s_hUnDemand s = true ->
  In q (held s) ->
  let s' := fst (step s (TimerFire TPubReady)) in
  s_pubState s' = OdInitial /\ s_hUnDemand s' = false /\ held s' = [] /\
  In (EAnswer q (AErr E_TIMEOUT)) (snd (step s (TimerFire TPubReady))).
Proof. exact (cycle_pub_timeout true). Qed.
Print Assumptions C19_cycle_timeout.

(* the same cycle for an on-demand static source (staticsources.Handler.Start / Stop) *)
Theorem C19_cycle_static_start : forall s q,
  s_closed s = false -> s_stream s = None -> od_static (s_conf s) = true ->
  s_ssState s = OdInitial -> s_ssRunning s = false ->
  let s' := fst (step s (Describe q)) in
  s_ssState s' = OdWaiting /\ s_ssReadyT s' = true /\ s_ssRunning s' = true /\
  In ESrcStart (snd (step s (Describe q))) /\ In q (held s').
Proof. exact (cycle_static_start true). Qed.
Print Assumptions C19_cycle_static_start.

Theorem C19_cycle_static_stop : forall s g,
  s_closed s = false -> s_ssState s = OdClosing -> s_ssCloseT s = true -> s_ssRunning s = true ->
  s_stream s = Some g -> s_hUnavail s = true ->
  let s' := fst (step s (TimerFire TSSClose)) in
  s_ssState s' = OdInitial /\ s_ssCloseT s' = false /\ s_ssRunning s' = false /\ s_stream s' = None /\
  In ESrcStop (snd (step s (TimerFire TSSClose))).
Proof. exact (cycle_static_stop true). Qed.
Print Assumptions C19_cycle_static_stop.

(* ---- the demand is never stopped while a reader is attached ------------------------------------- *)
(* after every history: a close-after timer is armed (automaton `Closing`) only while no reader is attached.
   In particular a reader served out of the hold list by the ready event (doAddPublisher /
   doSourceStaticSetReady -> consumeOnHoldRequests -> addReaderPost) takes the automaton back to `Ready` and
   disarms the timer that ScheduleClose armed just before, exactly like a reader arriving later. *)
Theorem C19_close_timer_only_without_readers : forall cf ops,
  conf_ok cf = true ->
  let s := final step (init_state cf) ops in
  (s_pubCloseT s = true \/ s_ssCloseT s = true \/ s_pubState s = OdClosing \/ s_ssState s = OdClosing) ->
  s_readers s = [].
Proof. exact (c19_close_timer_no_readers true). Qed.
Print Assumptions C19_close_timer_only_without_readers.

(* every step, after every history, that takes the demand from running (runOnDemand command running =
   onUnDemandHook set; on-demand static source running) to stopped - expiry of the close-after timer, expiry of
   the start timer, the source leaving, Close - leaves no reader attached.  (That the "runOnDemand command
   stopped" line / the source's Stop appear exactly in those steps is C20_open_iff_state / C20_logs_are_expansion_of_calls.) *)
Theorem C19_demand_never_stopped_under_readers : forall cf ops o,
  conf_ok cf = true ->
  let s := final step (init_state cf) ops in
  let s' := fst (step s o) in
  demand_on s = true -> demand_on s' = false -> s_readers s' = [].
Proof. exact (c19_stop_no_readers true). Qed.
Print Assumptions C19_demand_never_stopped_under_readers.

(* non-vacuity, the class of histories of a held reader: the demand arrives as an ADD-READER request, the
   publisher serves it, the close-after timer is not armed while the reader stays (an expiry attempt does
   nothing and the command keeps running); when the reader leaves the timer is armed, and its expiry stops
   the command *)
Example C19_example_held_reader :
  let cf := mkConf false false true 0 true true true true true true false in
  let a := final step (init_state cf) [AddReader 1 1; AddPublisher 2 1 true] in
  let b := fst (step a (TimerFire TPubClose)) in
  let c := fst (step b (RemoveReader 1)) in
  let d := step c (TimerFire TPubClose) in
  (s_readers a = [1] /\ s_pubState a = OdReady /\ s_pubCloseT a = false /\ s_hUnDemand a = true) /\
  (b = a /\ snd (step a (TimerFire TPubClose)) = []) /\
  (s_pubState c = OdClosing /\ s_pubCloseT c = true) /\
  (s_hUnDemand (fst d) = false /\ In (ELogStop HDemand) (snd d)).
Proof. vm_compute. repeat split; try reflexivity. tauto. Qed.

(* the finding: before the repair (fix: commit 21d36a9 in the repository) the statement was false *)
Theorem C19_held_has_deadline_refuted :
  exists cf ops,
    conf_ok cf = true /\
    let s := final step_unfixed (init_state cf) ops in
    held s = [3] /\ s_closed s = false /\ ~ has_deadline s /\
    s_pubReadyT s = false /\ s_pubCloseT s = false /\ s_hUnDemand s = false /\
    ~ In 3 (keys (fun e => match e with EAnswer q _ => Some q | _ => None end)
                 (trace step_unfixed (init_state cf) ops)).
Proof. exact c19_held_has_deadline_refuted. Qed.
Print Assumptions C19_held_has_deadline_refuted.

Example C19_witness_repaired :
  let s := final step (init_state c19_witness_conf) c19_witness_ops in
  held s = [3] /\ s_pubState s = OdWaiting /\ s_pubReadyT s = true /\ s_hUnDemand s = true.
Proof. exact c19_witness_repaired. Qed.
