(* C09 — placeholder while the proofs are being written (plugin not ready). *)
From Coq Require Import List ZArith.
Require Import MTX.Model.C09_Env.
Import ListNotations.
Theorem C09_stub : dec 0 = [48%Z].
Proof. reflexivity. Qed.
Print Assumptions C09_stub.
