(* C09 — Environment overrides are equivalent to file values.
   Only statements here; every proof is `exact <lemma of Proofs/C09_*.v>`.

   load_env OR false t E p d   the loader (env.Load(p, &d)) of Model/C09_Env.v on a value d of type t; OR are the
                               text -> value functions of the Unmarshaler types and of strconv.ParseFloat
   env_of OR t p v             the canonical variables that spell v at prefix p
   below p E                   the variables of E named p or p_...
   wf_ty / wt / expressible / dom / field_rel : Model/C09_EnvSpec.v (booleans; what they exclude is listed in
                               design_notes/C09.md) *)
From Coq Require Import List ZArith Bool.
Require Import MTX.Model.C09_Env MTX.Model.C09_EnvSpec MTX.Model.C09_Lit.
Require Import MTX.Proofs.C09_Thms MTX.Proofs.C09_Real MTXGen.C09_EnvSchema.
Import ListNotations.
Local Open Scope Z_scope.

(* A value written as variables loads as that value: for every well-formed type, every expressible value v, every
   previous (file) value d that v dominates, and every environment whose variables below p are the canonical
   spelling of v — whatever the environment contains elsewhere. *)
Theorem C09_env_equiv : forall (OR : oracles) t E p d v,
  wf_ty t = true -> is_ptr t = false -> wt t v = true -> wt t d = true ->
  expressible OR t v = true -> dom OR t d v = true ->
  below p E = env_of OR t p v ->
  load_env OR false t E p d = Ok v.
Proof. exact env_equiv. Qed.
Print Assumptions C09_env_equiv.

Theorem C09_env_equiv_exact : forall (OR : oracles) t p d v,
  wf_ty t = true -> is_ptr t = false -> wt t v = true -> wt t d = true ->
  expressible OR t v = true -> dom OR t d v = true ->
  load_env OR false t (env_of OR t p v) p d = Ok v.
Proof. exact env_equiv_exact. Qed.
Print Assumptions C09_env_equiv_exact.

(* A variable that is set wins over the file's value, an unset one leaves the file's value: field by field of any
   struct (field_rel: per field either no variable below its name and the file's value, or the canonical
   variables of an expressible value). *)
Theorem C09_env_overrides_file : forall (OR : oracles) fs E p dvs vs,
  wf_fields fs = true -> wts fs dvs = true -> field_rel OR fs E p dvs vs ->
  load_env OR false (TStruct fs) E p (VStruct dvs) = Ok (VStruct vs).
Proof. exact struct_pointwise. Qed.
Print Assumptions C09_env_overrides_file.

Theorem C09_unset_keeps_file : forall (OR : oracles) t E p d,
  wf_ty t = true -> wt t d = true -> below p E = [] -> load_env OR false t E p d = Ok d.
Proof. exact unset_keeps_file. Qed.
Print Assumptions C09_unset_keeps_file.

(* Variables with other prefixes change nothing (for every type, environment and value, even ill-typed ones). *)
Theorem C09_unrelated_untouched : forall (OR : oracles) t E E' p d,
  below p E = below p E' -> load_env OR false t E p d = load_env OR false t E' p d.
Proof. exact unrelated_untouched. Qed.
Print Assumptions C09_unrelated_untouched.

(* The schema generated from the REAL conf.Conf on this run satisfies the side conditions ... *)
Theorem C09_real_schema_covered : wf_ty conf_ty = true.
Proof. exact real_schema_wf. Qed.
Print Assumptions C09_real_schema_covered.

(* ... so the theorems hold for conf.Load's call env.Load("MTX", conf). *)
Theorem C09_real_conf_equiv : forall (OR : oracles) E d v,
  wt conf_ty v = true -> wt conf_ty d = true -> expressible OR conf_ty v = true -> dom OR conf_ty d v = true ->
  below MTX E = env_of OR conf_ty MTX v ->
  load_env OR false conf_ty E MTX d = Ok v.
Proof. exact real_conf_equiv. Qed.
Print Assumptions C09_real_conf_equiv.

Theorem C09_real_conf_overrides_file : forall (OR : oracles) E dvs vs,
  wts f_Conf dvs = true -> field_rel OR f_Conf E MTX dvs vs ->
  load_env OR false conf_ty E MTX (VStruct dvs) = Ok (VStruct vs).
Proof. exact real_conf_pointwise. Qed.
Print Assumptions C09_real_conf_overrides_file.

(* The code as pinned (sub-key probe of an Unmarshaler parameter without the "_" separator; repaired by the fix:
   commit 9cf7e78) violated "unset keeps the file's value": MTX_AUTHMETHODS=basic made authMethod fail. *)
Theorem C09_pinned_refuted :
  exists OR t E p d, wf_ty t = true /\ wt t d = true /\ below p E = [] /\
    load_env OR true t E p d <> Ok d /\ load_env OR false t E p d = Ok d.
Proof. exact pinned_refuted. Qed.
Print Assumptions C09_pinned_refuted.

(* ---- non-vacuity: a small schema with every kind, a value, a previous value, and an environment ---- *)
Definition exO : oracles :=
  {| cparse := fun _ s => match s with [] => None | _ => Some s end; ctext := fun _ c => c; czero := fun _ => [];
     fparse := fun s => Some s; fzero := [48] |}.
Definition s (l : list Z) : str := l.
Definition ex_user : fields := fl [(s [117;115;101;114], TStr); (s [110], TInt)].                       (* user, n *)
Definition ex_path : fields := fl [(s [115;111;117;114;99;101;44;111;109;105;116;101;109;112;116;121], TPtr TStr);    (* source,omitempty *)
                                   (s [114;101;99;111;114;100;44;111;109;105;116;101;109;112;116;121], TPtr TBool)].  (* record,omitempty *)
Definition ex_fs : fields :=
  fl [(s [108;111;103;76;101;118;101;108], TCustom 0);                                                   (* logLevel *)
      (s [114;116;111;44;111;109;105;116;101;109;112;116;121], TPtr (TCustom 1));                        (* rto,omitempty *)
      (s [97;112;105], TBool); (s [104;111;115;116;115], TStrs); (s [112;111;114;116;115], TUints);     (* api hosts ports *)
      (s [103;97;105;110], TFloat);                                                                      (* gain *)
      (s [117;115;101;114;115], TStructs ex_user);                                                       (* users *)
      (s [112;97;116;104;115], TMap (THook ex_path))].                                                   (* paths *)
Definition ex_v : value :=
  VStruct (vl [VCustom [100]; VPtr (Some (VCustom [49;115])); VBool true; VStrs (Some [[97]; [98;99]]); VUints (Some [8554; 0]);
               VFloat [48;46;53];
               VStructs (Some (vl [VStruct (vl [VStr [97;44;98]; VInt (-7)]); VStruct (vl [VStr []; VInt 2147483647])]));
               VMap (Some (ml [([99;97;109], VPtr (Some (VHook (Some (vl [VPtr (Some (VStr [120])); VPtr None])))));
                               ([126;94;120], VPtr (Some (VHook (Some (vl [VPtr None; VPtr (Some (VBool false))])))))]))]).
Definition ex_d : value :=   (* a "file" value with fewer list items / map entries / optional parameters *)
  VStruct (vl [VCustom [105]; VPtr None; VBool false; VStrs None; VUints (Some [1]); VFloat [49];
               VStructs (Some (vl [VStruct (vl [VStr [122]; VInt 1])]));
               VMap (Some (ml [([99;97;109], VPtr (Some (VHook (Some (vl [VPtr (Some (VStr [111;108;100])); VPtr None])))))]))]).
Definition ex_junk : env := [([77;84;88;88;95;65;80;73], [110;111]); ([88;77;84;88;95;65;80;73], [110;111])].   (* MTXX_API=no XMTX_API=no *)

Example C09_example :
  wf_ty (TStruct ex_fs) = true /\ wt (TStruct ex_fs) ex_v = true /\ wt (TStruct ex_fs) ex_d = true /\
  expressible exO (TStruct ex_fs) ex_v = true /\ dom exO (TStruct ex_fs) ex_d ex_v = true /\
  length (env_of exO (TStruct ex_fs) MTX ex_v) = 12%nat /\
  below MTX (ex_junk ++ env_of exO (TStruct ex_fs) MTX ex_v) = env_of exO (TStruct ex_fs) MTX ex_v /\
  load_env exO false (TStruct ex_fs) (ex_junk ++ env_of exO (TStruct ex_fs) MTX ex_v) MTX ex_d = Ok ex_v /\
  load_env exO false (TStruct ex_fs) ex_junk MTX ex_d = Ok ex_d.
Proof. vm_compute. repeat split. Qed.

(* what expressible / dom exclude, on the same schema: a map key with '_', a string list with ',' in an item,
   the list [""] , an int beyond 32 bits, and a previous list that is longer than the new one *)
Example C09_exclusions :
  key_ok [109;121;95;112] = false /\ key_ok [67;97;109] = false /\
  expressible exO TStrs (VStrs (Some [[97;44;98]])) = false /\ expressible exO TStrs (VStrs (Some [[]])) = false /\
  expressible exO TInt (VInt 2147483648) = false /\
  dom exO (TStructs ex_user) (VStructs (Some (vl [VStruct (vl [VStr []; VInt 0]); VStruct (vl [VStr []; VInt 0])])))
                             (VStructs (Some (vl [VStruct (vl [VStr [97]; VInt 1])]))) = false /\
  load_env exO false (TStructs ex_user) [([80;95;48;95;85;83;69;82], [97]); ([80;95;48;95;78], [49])] [80]
           (VStructs (Some (vl [VStruct (vl [VStr []; VInt 0]); VStruct (vl [VStr [122]; VInt 5])])))
    = Ok (VStructs (Some (vl [VStruct (vl [VStr [97]; VInt 1]); VStruct (vl [VStr [122]; VInt 5])]))).
Proof. vm_compute. repeat split. Qed.
