(* C42 — Source and destination templates substitute placeholders exactly.
   Only statements here; every proof is `exact <lemma of Proofs/C42_Template.v>`.
   t: template; ms: the Go slice matches (ms[0] whole match, ms[1..] capture groups); q: the client's query;
   resolve_source / resolve_dest: the code (descending chains of strings.ReplaceAll);
   single_pass_*: the specification (one left-to-right pass, longest placeholder at each position,
   nothing inside a value looked at). Sources know $G<n> and $MTX_QUERY, destinations $G<n> and $MTX_PATH. *)
From Coq Require Import List ZArith Bool.
Require Import MTX.Model.C42_Template MTX.Proofs.C42_Template.
Require Import MTX.Model.C42_Life MTX.Proofs.C42_Life.
Require Import MTX.Model.C42_SrcConf MTX.Proofs.C42_SrcConf.
Import ListNotations.
Local Open Scope Z_scope.

(* Full strength (every template) is false of the code: a value placed after a stray dollar or directly after
   a group placeholder can complete / lengthen a placeholder that a later ReplaceAll then replaces. *)
Theorem C42_source_equals_single_pass_refuted :
  ~ (forall t ms q, Forall dollar_free ms -> resolve_source t ms q = single_pass_source t ms q).
Proof. exact source_full_statement_refuted. Qed.
Print Assumptions C42_source_equals_single_pass_refuted.

Theorem C42_dest_equals_single_pass_refuted :
  ~ (forall t path ms, dollar_free path -> Forall dollar_free ms ->
                       resolve_dest t path ms = single_pass_dest t path ms).
Proof. exact dest_full_statement_refuted. Qed.
Print Assumptions C42_dest_equals_single_pass_refuted.

(* the witnesses, with both outputs (all values are valid path names) *)
Theorem C42_witness_stray_dollar :    (* $$G1, group 1 = MTX_QUERY, query s=1 *)
  Forall dollar_free w1_ms /\ resolve_source w1_t w1_ms w1_q = [115; 61; 49] /\
  single_pass_source w1_t w1_ms w1_q = [36; 77;84;88;95;81;85;69;82;89].
Proof. exact source_refuted_stray_dollar. Qed.
Print Assumptions C42_witness_stray_dollar.

Theorem C42_witness_adjacent :        (* $G1$G11, 11 groups a..j and 0: the code answers j, the pass a0 *)
  Forall dollar_free w2_ms /\ resolve_source w2_t w2_ms [] = [106] /\
  single_pass_source w2_t w2_ms [] = [97; 48].
Proof. exact source_refuted_adjacent. Qed.
Print Assumptions C42_witness_adjacent.

Theorem C42_witness_dest_stray_dollar :   (* $$MTX_PATH, path name G1 *)
  dollar_free [71; 49] /\ Forall dollar_free w3_ms /\ resolve_dest w3_t [71; 49] w3_ms = [71; 49] /\
  single_pass_dest w3_t [71; 49] w3_ms = [36; 71; 49].
Proof. exact dest_refuted_stray_dollar. Qed.
Print Assumptions C42_witness_dest_stray_dollar.

(* Partial: on every template inside the boolean guard `template_ok` (a dollar that starts no placeholder is
   not followed by G, M or a placeholder; a group placeholder is followed by the end or by a literal non-digit),
   for every number of groups and all dollar-free group values (path names are validated: always), the chain is
   the single pass. No hypothesis on the query: it is inserted last, so nothing inside it is ever replaced. *)
Theorem C42_source_equals_single_pass_partial : forall t ms q,
  template_ok (src_cfg ms) t = true -> Forall dollar_free ms ->
  resolve_source t ms q = single_pass_source t ms q.
Proof. exact source_equals_single_pass. Qed.
Print Assumptions C42_source_equals_single_pass_partial.

Theorem C42_dest_equals_single_pass_partial : forall t path ms,
  template_ok (dst_cfg ms) t = true -> dollar_free path -> Forall dollar_free ms ->
  resolve_dest t path ms = single_pass_dest t path ms.
Proof. exact dest_equals_single_pass. Qed.
Print Assumptions C42_dest_equals_single_pass_partial.

Theorem C42_query_inert : forall ms q, Forall dollar_free ms -> resolve_source pat_query ms q = q.
Proof. exact query_inert. Qed.
Print Assumptions C42_query_inert.

(* $G<k> is group k for every k up to the number of groups: $G12 is group 12, not group 1 followed by 2 *)
Theorem C42_multidigit : forall ms q k,
  (1 <= k <= length ms - 1)%nat -> Forall dollar_free ms -> resolve_source (pat_g k) ms q = nth k ms [].
Proof. exact multidigit_source. Qed.
Print Assumptions C42_multidigit.

Theorem C42_multidigit_dest : forall ms path k,
  (1 <= k <= length ms - 1)%nat -> dollar_free path -> Forall dollar_free ms ->
  resolve_dest (pat_g k) path ms = nth k ms [].
Proof. exact multidigit_dest. Qed.
Print Assumptions C42_multidigit_dest.

(* the boolean preconditions used by the correspondence run imply the propositional ones *)
Theorem C42_dollar_freeb : forall s, dollar_freeb s = true -> dollar_free s.
Proof. exact dollar_freeb_spec. Qed.
Print Assumptions C42_dollar_freeb.

(* ------------------------------------------------------------------------------------------------
   Life cycle of the substituted values of one live path (Model/C42_Life.v): the forward destinations
   (forward.Manager), the static source (staticsources.Handler) and the hook environment (path.ExternalCmdEnv),
   under ANY history `ops` of hot reloads - each may replace the forward list and, when the path moved to
   another regexp configuration, the capture groups (more, fewer or other groups) -, of the stream coming and
   going, and of the source being started with a query, stopped, failing and being retried.
   cur_ms / cur_fwd: the groups and the forward list handed in last (read off the history, no model involved). *)

(* every destination handler has the configuration at its position, and connects to the substitution of that
   template with the groups that are current - never with the groups of an earlier configuration *)
Theorem C42_life_forward : forall name ms0 fwd0 tmpl ops,
  let s := run (init name ms0 fwd0 tmpl) ops in
  map (fun h => (fh_conf h, held name h)) (p_hs s) =
  map (fun d => (d, resolve_dest (d_dest d) name (cur_ms ms0 ops))) (cur_fwd fwd0 ops).
Proof. exact life_forward. Qed.
Print Assumptions C42_life_forward.

(* with the template theorem: inside the guard that value is the single left-to-right pass over the current groups *)
Theorem C42_life_forward_single_pass : forall name ms0 fwd0 tmpl ops i h,
  let s := run (init name ms0 fwd0 tmpl) ops in
  let ms := cur_ms ms0 ops in
  nth_error (p_hs s) i = Some h ->
  template_ok (dst_cfg ms) (d_dest (fh_conf h)) = true -> dollar_free name -> Forall dollar_free ms ->
  nth_error (cur_fwd fwd0 ops) i = Some (fh_conf h) /\
  held name h = single_pass_dest (d_dest (fh_conf h)) name ms.
Proof. exact life_forward_single_pass. Qed.
Print Assumptions C42_life_forward_single_pass.

(* The same for every test that ReloadConf could use to decide that a handler is kept, provided the test is sound:
   a kept handler has the configuration asked for and resolves to what a new handler would resolve to.
   The code's test (equal configuration and equal groups) is sound. *)
Theorem C42_life_forward_any_sound_test : forall name keep, keep_sound name keep ->
  forall ms0 fwd0 tmpl ops,
  let s := run_with keep (init name ms0 fwd0 tmpl) ops in
  map (fun h => (fh_conf h, held name h)) (p_hs s) =
  map (fun d => (d, resolve_dest (d_dest d) name (cur_ms ms0 ops))) (cur_fwd fwd0 ops).
Proof. exact life_forward_any_keep. Qed.
Print Assumptions C42_life_forward_any_sound_test.

Theorem C42_life_code_test_sound : forall name, keep_sound name keep_code.
Proof. exact keep_code_sound. Qed.
Print Assumptions C42_life_code_test_sound.

(* A test that only looks at the group indices of the OLD groups (restart when a group named by the template
   changed, for i = len(old)-1 .. 1) is not sound: cam_front under ~^(cam)_front$ then ~^(cam)_(front)$ with the
   destination /$G1/$G2 keeps /cam/$G2 where the current substitution is /cam/front (inside the guard). *)
Theorem C42_life_old_index_test_refuted :
  let s := run_with keep_old_index (init w_name w_ms1 [w_dest] None) [OReload (Some w_ms2) [w_dest]] in
  map (held w_name) (p_hs s) = [[47; 99;97;109; 47; 36;71;50]] /\
  resolve_dest (d_dest w_dest) w_name w_ms2 = [47; 99;97;109; 47; 102;114;111;110;116] /\
  template_ok (dst_cfg w_ms2) (d_dest w_dest) = true /\ ~ keep_sound w_name keep_old_index.
Proof. exact old_index_keep_refuted. Qed.
Print Assumptions C42_life_old_index_test_refuted.

(* nothing is restarted without need: an unchanged destination under unchanged groups keeps its handler *)
Theorem C42_life_forward_keeps : forall name ms0 fwd0 tmpl ops oms fwd i h,
  let s := run (init name ms0 fwd0 tmpl) ops in
  nth_error (p_hs s) i = Some h -> nth_error fwd i = Some (fh_conf h) ->
  (oms = None \/ oms = Some (cur_ms ms0 ops)) ->
  (forall h', In h' (p_hs s) -> fh_ms h' = p_fm_ms s) ->
  nth_error (p_hs (fst (step s (OReload oms fwd)))) i = Some h.
Proof. exact life_forward_keeps. Qed.
Print Assumptions C42_life_forward_keeps.

Theorem C42_life_handlers_carry_groups : forall name ms0 fwd0 tmpl ops h,
  let s := run (init name ms0 fwd0 tmpl) ops in
  In h (p_hs s) -> fh_ms h = p_fm_ms s /\ p_fm_ms s = cur_ms ms0 ops.
Proof. exact life_handlers_carry_groups. Qed.
Print Assumptions C42_life_handlers_carry_groups.

(* the static source: the handler always has the current groups (so every later start or retry resolves with
   them), and an instance that is running was given the substitution of the source template with the current
   groups and the query it was started with (a reload that changes the resolved URL restarts the instance) *)
Theorem C42_life_source : forall name ms0 fwd0 t ops x,
  p_src (run (init name ms0 fwd0 (Some t)) ops) = Some x ->
  s_tmpl x = t /\ s_ms x = cur_ms ms0 ops /\
  (s_running x && s_alive x = true -> s_cur x = resolve_source t (cur_ms ms0 ops) (s_query x)).
Proof. exact life_source. Qed.
Print Assumptions C42_life_source.

Theorem C42_life_source_events : forall name ms0 fwd0 t ops o s' evs,
  step (run (init name ms0 fwd0 (Some t)) ops) o = (s', evs) ->
  Forall (fun v => v = resolve_source t (cur_ms ms0 (ops ++ [o])) (ev_query s')) evs.
Proof. exact life_source_events. Qed.
Print Assumptions C42_life_source_events.

Theorem C42_life_source_single_pass : forall name ms0 fwd0 t ops x,
  p_src (run (init name ms0 fwd0 (Some t)) ops) = Some x ->
  s_running x && s_alive x = true ->
  template_ok (src_cfg (cur_ms ms0 ops)) t = true -> Forall dollar_free (cur_ms ms0 ops) ->
  s_cur x = single_pass_source t (cur_ms ms0 ops) (s_query x).
Proof. exact life_source_single_pass. Qed.
Print Assumptions C42_life_source_single_pass.

(* The query. trig_query ops is read off the history alone: the query of the Start request that opened the current
   period between Start and Stop (Handler.Start(onDemand, query), called by the path with the query of the describe /
   add-reader request that found the source stopped). After EVERY history of starts with any queries (empty or not, in
   any order), stops, failures, retries and reloads, the handler's query is that one, and a running instance was given
   the substitution of the template with the current groups and exactly that query: never the query of an earlier
   period, never a default. *)
Theorem C42_life_source_query : forall name ms0 fwd0 t ops x,
  p_src (run (init name ms0 fwd0 (Some t)) ops) = Some x ->
  s_running x = trig_running ops /\ s_query x = trig_query ops /\
  (s_running x && s_alive x = true -> s_cur x = resolve_source t (cur_ms ms0 ops) (trig_query ops)).
Proof. exact life_source_query. Qed.
Print Assumptions C42_life_source_query.

(* every instance created by any step (first instance of a start, restart after a change of groups, retry after a
   failure) is given the groups current after the step and the query of the request that triggered the start *)
Theorem C42_life_source_events_query : forall name ms0 fwd0 t ops o s' evs,
  step (run (init name ms0 fwd0 (Some t)) ops) o = (s', evs) ->
  Forall (fun v => v = resolve_source t (cur_ms ms0 (ops ++ [o])) (trig_query (ops ++ [o]))) evs.
Proof. exact life_source_events_query. Qed.
Print Assumptions C42_life_source_events_query.

(* every start substitutes exactly the query of the request that triggered it: after any history that leaves the
   source stopped, Start q creates one instance, given the current groups and q (whatever was stored before) *)
Theorem C42_life_source_start : forall name ms0 fwd0 t ops q,
  trig_running ops = false ->
  snd (step (run (init name ms0 fwd0 (Some t)) ops) (OSrcStart q)) = [resolve_source t (cur_ms ms0 ops) q].
Proof. exact life_source_start. Qed.
Print Assumptions C42_life_source_start.

(* ... inside the guard: the single left-to-right pass with q (no condition on q: nothing inside it is replaced) *)
Theorem C42_life_source_start_single_pass : forall name ms0 fwd0 t ops q,
  trig_running ops = false ->
  template_ok (src_cfg (cur_ms ms0 ops)) t = true -> Forall dollar_free (cur_ms ms0 ops) ->
  snd (step (run (init name ms0 fwd0 (Some t)) ops) (OSrcStart q)) = [single_pass_source t (cur_ms ms0 ops) q].
Proof. exact life_source_start_single_pass. Qed.
Print Assumptions C42_life_source_start_single_pass.

(* the rule that decides what Start stores as the query is a parameter of src_step_store; the code's rule
   (s.query = query) gives the model's step *)
Theorem C42_life_store_code : forall s o, src_step_store store_code s o = src_step s o.
Proof. exact store_code_is_step. Qed.
Print Assumptions C42_life_store_code.

(* "an empty query does not overwrite the stored one" (seed C42-c) is refuted: rtsp://$G1:8554/$G2?$MTX_QUERY,
   Start token=abc, Stop, Start "" gives rtsp://host:8554/live?token=abc where rtsp://host:8554/live? is due *)
Theorem C42_life_nonempty_store_refuted :
  let ops := [OSrcStart wq_q1; OSrcStop; OSrcStart []] in
  src_events_with (src_step_store store_nonempty) (src_init wq_t wq_ms) ops = [[wq_base ++ wq_q1]; []; [wq_base ++ wq_q1]] /\
  src_events_with src_step (src_init wq_t wq_ms) ops = [[wq_base ++ wq_q1]; []; [wq_base]] /\
  resolve_source wq_t wq_ms (trig_query ops) = wq_base /\ template_ok (src_cfg wq_ms) wq_t = true.
Proof. exact store_nonempty_refuted. Qed.
Print Assumptions C42_life_nonempty_store_refuted.

(* "the first query is kept" is refuted: Start token=abc, Stop, Start user=x *)
Theorem C42_life_first_store_refuted :
  let ops := [OSrcStart wq_q1; OSrcStop; OSrcStart wq_q2] in
  src_events_with (src_step_store store_first) (src_init wq_t wq_ms) ops = [[wq_base ++ wq_q1]; []; [wq_base ++ wq_q1]] /\
  src_events_with src_step (src_init wq_t wq_ms) ops = [[wq_base ++ wq_q1]; []; [wq_base ++ wq_q2]] /\
  resolve_source wq_t wq_ms (trig_query ops) = wq_base ++ wq_q2.
Proof. exact store_first_refuted. Qed.
Print Assumptions C42_life_first_store_refuted.

(* non-vacuity of trig: the period's query survives a failure, a retry and a reload, and ends with the Stop *)
Example C42_life_trig_example :
  trig_query [OSrcStart [97]; OSrcFail; OReload (Some w_ms2) []; OSrcRetry] = [97] /\
  trig_running [OSrcStart [97]; OSrcFail; OSrcRetry] = true /\
  trig_query [OSrcStart [97]; OSrcStop; OSrcStart []] = [] /\
  trig_running [OSrcStart [97]; OSrcStop] = false /\
  snd (step (run (init w_name w_ms1 [] (Some wq_t)) [OSrcStart wq_q1; OSrcFail; OReload (Some wq_ms) []]) OSrcRetry) =
    [wq_base ++ wq_q1].
Proof. vm_compute. repeat split. Qed.

(* the hook environment computed at any later launch: exactly G1..Gn of the current groups *)
Theorem C42_life_env : forall name ms0 fwd0 tmpl ops,
  let ms := cur_ms ms0 ops in
  let env := hook_env (p_ms (run (init name ms0 fwd0 tmpl) ops)) in
  length env = (length ms - 1)%nat /\
  forall k, (1 <= k <= length ms - 1)%nat -> nth_error env (k - 1) = Some (Z.of_nat k, nth k ms []).
Proof. exact life_env. Qed.
Print Assumptions C42_life_env.

(* non-vacuity: a history with more, then fewer groups, a changed forward list, and a source that is started,
   reloaded while running (restarted with the new URL), stopped and started again *)
Example C42_life_example :
  let g := fun l : list bytes => w_name :: l in
  let d2 := {| d_dest := [36;71;50; 45; 36;77;84;88;95;80;65;84;72]; d_fp := []; d_tok := [] |} in   (* $G2-$MTX_PATH *)
  let t := [36;71;49; 47; 36;71;50; 63; 36;77;84;88;95;81;85;69;82;89] in                             (* $G1/$G2?$MTX_QUERY *)
  let ops := [OSrcStart [113]; OReload (Some w_ms2) [w_dest; d2]; OFwdStart; OSrcStop;
              OReload (Some (g [[99]])) [w_dest; d2]; OSrcStart [114]; OReload None [d2]] in
  let s := run (init w_name w_ms1 [w_dest] (Some t)) ops in
  map (fun h => (fh_id h, held w_name h)) (p_hs s) =
    [(5, [36;71;50; 45; 99;97;109;95;102;114;111;110;116])] /\                                          (* $G2-cam_front *)
  option_map s_cur (p_src s) = Some [99; 47; 36;71;50; 63; 114] /\                                    (* c/$G2?r *)
  snd (step (run (init w_name w_ms1 [w_dest] (Some t)) [OSrcStart [113]]) (OReload (Some w_ms2) [w_dest; d2])) =
    [[99;97;109; 47; 102;114;111;110;116; 63; 113]] /\                                                 (* cam/front?q *)
  hook_env (p_ms s) = [(1, [99])].
Proof. vm_compute. repeat split. Qed.

(* ---- which configuration a source instance runs with (Model/C42_SrcConf.v) ----
   Configurations are named by their generation (k = the one of the k-th hot reload); reloads ops is read off the
   history. After EVERY history of start / stop / failure / retry / reload - reloads arriving while the instance runs,
   while the source is stopped and during retryPause - the handler holds the configuration of the latest reload and
   the effective configuration of a running instance is that one. *)
Theorem C42_srcconf_latest : forall ops,
  let s := crun cinit ops in
  c_held s = reloads ops /\ (c_run s && c_alive s = true -> c_eff s = Some (reloads ops)).
Proof. exact srcconf_latest. Qed.
Print Assumptions C42_srcconf_latest.

(* every instance created by a start or by the retry after a failure is given the configuration of the latest reload *)
Theorem C42_srcconf_created : forall ops o,
  (o = CStart \/ o = CRetry) ->
  let s := crun cinit ops in let s' := cstep s o in
  c_eff s = None -> c_eff s' <> None -> c_eff s' = Some (reloads ops).
Proof. exact srcconf_created. Qed.
Print Assumptions C42_srcconf_created.

(* the pinned code before /repo b9e674a (ReloadConf returned early while the handler was stopped) violates it:
   start, stop, reload, start runs the instance with configuration 0 *)
Theorem C42_srcconf_pinned_refuted :
  let ops := [CStart; CStop; CReload; CStart] in
  c_eff (crun_with upd_pinned cinit ops) = Some 0 /\ reloads ops = 1 /\ c_eff (crun cinit ops) = Some 1.
Proof. exact upd_pinned_refuted. Qed.
Print Assumptions C42_srcconf_pinned_refuted.

(* a chReloadConf case that is skipped during retryPause (seed C13-c) violates it: start, failure, reload, retry *)
Theorem C42_srcconf_skip_while_recreating_refuted :
  let ops := [CStart; CFail; CReload; CRetry] in
  c_eff (crun_with upd_not_recreating cinit ops) = Some 0 /\ reloads ops = 1 /\ c_eff (crun cinit ops) = Some 1.
Proof. exact upd_not_recreating_refuted. Qed.
Print Assumptions C42_srcconf_skip_while_recreating_refuted.

(* non-vacuity: rtsp://h/$G1/$G12?$MTX_QUERY with 12 groups is inside the guard *)
Example C42_example :
  let t := [114;116;115;112;58;47;47;104;47; 36;71;49; 47; 36;71;49;50; 63; 36;77;84;88;95;81;85;69;82;89] in
  let ms := [[119]; [97]; [98]; [99]; [100]; [101]; [102]; [103]; [104]; [105]; [106]; [107]; [108;108]] in
  template_ok (src_cfg ms) t = true /\
  resolve_source t ms [36;71;49] = [114;116;115;112;58;47;47;104;47; 97; 47; 108;108; 63; 36;71;49] /\
  pat_g 12 = [36;71;49;50] /\ template_ok (src_cfg w1_ms) w1_t = false /\ template_ok (src_cfg w2_ms) w2_t = false.
Proof. vm_compute. repeat split. Qed.
