(* C42 — placeholder *)
From Coq Require Import List ZArith Bool.
Require Import MTX.Model.C42_Template.
Import ListNotations.
Local Open Scope Z_scope.
Example C42_example : resolve_source [36;71;49] [[120];[121]] [] = [121].
Proof. reflexivity. Qed.
