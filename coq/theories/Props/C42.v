(* C42 — Source and destination templates substitute placeholders exactly.
   Only statements here; every proof is `exact <lemma of Proofs/C42_Template.v>`.
   t: template; ms: the Go slice matches (ms[0] whole match, ms[1..] capture groups); q: the client's query;
   resolve_source / resolve_dest: the code (descending chains of strings.ReplaceAll);
   single_pass_*: the specification (one left-to-right pass, longest placeholder at each position,
   nothing inside a value looked at). Sources know $G<n> and $MTX_QUERY, destinations $G<n> and $MTX_PATH. *)
From Coq Require Import List ZArith Bool.
Require Import MTX.Model.C42_Template MTX.Proofs.C42_Template.
Import ListNotations.
Local Open Scope Z_scope.

(* Full strength (every template) is false of the code: a value placed after a stray dollar or directly after
   a group placeholder can complete / lengthen a placeholder that a later ReplaceAll then replaces. *)
Theorem C42_source_equals_single_pass_refuted :
  ~ (forall t ms q, Forall dollar_free ms -> resolve_source t ms q = single_pass_source t ms q).
Proof. exact source_full_statement_refuted. Qed.
Print Assumptions C42_source_equals_single_pass_refuted.

Theorem C42_dest_equals_single_pass_refuted :
  ~ (forall t path ms, dollar_free path -> Forall dollar_free ms ->
                       resolve_dest t path ms = single_pass_dest t path ms).
Proof. exact dest_full_statement_refuted. Qed.
Print Assumptions C42_dest_equals_single_pass_refuted.

(* the witnesses, with both outputs (all values are valid path names) *)
Theorem C42_witness_stray_dollar :    (* $$G1, group 1 = MTX_QUERY, query s=1 *)
  Forall dollar_free w1_ms /\ resolve_source w1_t w1_ms w1_q = [115; 61; 49] /\
  single_pass_source w1_t w1_ms w1_q = [36; 77;84;88;95;81;85;69;82;89].
Proof. exact source_refuted_stray_dollar. Qed.
Print Assumptions C42_witness_stray_dollar.

Theorem C42_witness_adjacent :        (* $G1$G11, 11 groups a..j and 0: the code answers j, the pass a0 *)
  Forall dollar_free w2_ms /\ resolve_source w2_t w2_ms [] = [106] /\
  single_pass_source w2_t w2_ms [] = [97; 48].
Proof. exact source_refuted_adjacent. Qed.
Print Assumptions C42_witness_adjacent.

Theorem C42_witness_dest_stray_dollar :   (* $$MTX_PATH, path name G1 *)
  dollar_free [71; 49] /\ Forall dollar_free w3_ms /\ resolve_dest w3_t [71; 49] w3_ms = [71; 49] /\
  single_pass_dest w3_t [71; 49] w3_ms = [36; 71; 49].
Proof. exact dest_refuted_stray_dollar. Qed.
Print Assumptions C42_witness_dest_stray_dollar.

(* Partial: on every template inside the boolean guard `template_ok` (a dollar that starts no placeholder is
   not followed by G, M or a placeholder; a group placeholder is followed by the end or by a literal non-digit),
   for every number of groups and all dollar-free group values (path names are validated: always), the chain is
   the single pass. No hypothesis on the query: it is inserted last, so nothing inside it is ever replaced. *)
Theorem C42_source_equals_single_pass_partial : forall t ms q,
  template_ok (src_cfg ms) t = true -> Forall dollar_free ms ->
  resolve_source t ms q = single_pass_source t ms q.
Proof. exact source_equals_single_pass. Qed.
Print Assumptions C42_source_equals_single_pass_partial.

Theorem C42_dest_equals_single_pass_partial : forall t path ms,
  template_ok (dst_cfg ms) t = true -> dollar_free path -> Forall dollar_free ms ->
  resolve_dest t path ms = single_pass_dest t path ms.
Proof. exact dest_equals_single_pass. Qed.
Print Assumptions C42_dest_equals_single_pass_partial.

Theorem C42_query_inert : forall ms q, Forall dollar_free ms -> resolve_source pat_query ms q = q.
Proof. exact query_inert. Qed.
Print Assumptions C42_query_inert.

(* $G<k> is group k for every k up to the number of groups: $G12 is group 12, not group 1 followed by 2 *)
Theorem C42_multidigit : forall ms q k,
  (1 <= k <= length ms - 1)%nat -> Forall dollar_free ms -> resolve_source (pat_g k) ms q = nth k ms [].
Proof. exact multidigit_source. Qed.
Print Assumptions C42_multidigit.

Theorem C42_multidigit_dest : forall ms path k,
  (1 <= k <= length ms - 1)%nat -> dollar_free path -> Forall dollar_free ms ->
  resolve_dest (pat_g k) path ms = nth k ms [].
Proof. exact multidigit_dest. Qed.
Print Assumptions C42_multidigit_dest.

(* the boolean preconditions used by the correspondence run imply the propositional ones *)
Theorem C42_dollar_freeb : forall s, dollar_freeb s = true -> dollar_free s.
Proof. exact dollar_freeb_spec. Qed.
Print Assumptions C42_dollar_freeb.

(* non-vacuity: rtsp://h/$G1/$G12?$MTX_QUERY with 12 groups is inside the guard *)
Example C42_example :
  let t := [114;116;115;112;58;47;47;104;47; 36;71;49; 47; 36;71;49;50; 63; 36;77;84;88;95;81;85;69;82;89] in
  let ms := [[119]; [97]; [98]; [99]; [100]; [101]; [102]; [103]; [104]; [105]; [106]; [107]; [108;108]] in
  template_ok (src_cfg ms) t = true /\
  resolve_source t ms [36;71;49] = [114;116;115;112;58;47;47;104;47; 97; 47; 108;108; 63; 36;71;49] /\
  pat_g 12 = [36;71;49;50] /\ template_ok (src_cfg w1_ms) w1_t = false /\ template_ok (src_cfg w2_ms) w2_t = false.
Proof. vm_compute. repeat split. Qed.
