(* Correspondence cases for C26: the driver ran the real recordstore.Path.Encode / Decode. *)
From Coq Require Import List ZArith Bool.
Require Import MTX.Lib.Civil MTX.Model.C26_RecPath MTX.Model.C26_Zone MTX.Model.C26_Finder.
Import ListNotations.
Local Open Scope Z_scope.

(* observed result of Decode: None = false, Some (Path, Start.Unix(), Start.Nanosecond()) *)
Definition dres := option (list Z * Z * Z).

Inductive case :=
  (* Path{p, t}.Encode(f) = out *)
| Enc (f p : list Z) (unix ns off : Z) (out : list Z)
  (* Decode(f, v) = o with local offset loff; reenc = Path{decoded}.Encode(f) computed by the real code
     (empty when o = None) *)
| Dec (loff : Z) (f v : list Z) (o : dres) (reenc : list Z)
  (* enc = Path{p, t}.Encode(f); o = Decode(f, enc) *)
| Round (loff : Z) (f p : list Z) (unix ns off : Z) (enc : list Z) (o : dres)
  (* time.Local = a real zone whose offset changes around the instant are shipped as a table (zf, ztx):
     off = offset Go reports at unix, rep = "another instant shows the same wall-clock reading" (computed
     by the driver from Go's ZoneBounds, independently of the table), applied = reading - time.Date(reading).Unix(),
     enc = Encode, o = Decode(enc) *)
| ZRound (zf : Z) (ztx : list (Z * Z)) (f p : list Z) (unix ns off : Z) (rep : bool) (applied : Z)
         (enc : list Z) (o : dres)
  (* Decode of a candidate name (mutations, readings inside a gap) in a real zone *)
| ZDec (zf : Z) (ztx : list (Z * Z)) (f v : list Z) (o : dres) (reenc : list Z)
  (* instants start, start+step, ... around a change: runs of (count, (off, decoded - unix, rep, recognised)) *)
| ZSweep (zf : Z) (ztx : list (Z * Z)) (f p : list Z) (start step : Z) (runs : list (Z * (Z * Z * bool * bool)))
  (* Go's offset function sampled over years: runs of (count, off) *)
| ZScan (zf : Z) (ztx : list (Z * Z)) (start step : Z) (runs : list (Z * Z))
  (* the finder (segment.go) on a real directory tree: working directory cwd, recordPath f, extension ext,
     local offset loff; written = (path name, unix, ns) of every segment file created the way the recorder
     does (os.Create of Encode(ReplaceAll(f, %path, name) + ext), distinct files only); p = the name asked for;
     found = starts returned by FindSegments(conf, p, nil, nil) (empty on ErrNoSegmentsFound),
     has = fixedPathHasSegments(conf{Name: p}), listed = regexpPathFindPathsWithSegments(conf{Regexp: ^.*$}) *)
| Find (loff : Z) (cwd f ext p : list Z) (written : list (list Z * Z * Z))
       (found : list (Z * Z)) (has_any : bool) (listed : list (list Z)).

Definition dres_eqb (a b : dres) : bool :=
  match a, b with
  | None, None => true
  | Some (p, u, n), Some (p', u', n') => name_eqb p p' && (u =? u') && (n =? n')
  | _, _ => false
  end.

(* zone bound used by the driver: |offset| <= 16 h, changes more than 32 h apart *)
Definition zB : Z := 57600.

Fixpoint run_all (chk : Z -> bool) (u step : Z) (n : nat) : bool :=
  match n with O => true | S k => chk u && run_all chk (u + step) step k end.

Fixpoint sweep_all {A} (chk : A -> Z -> bool) (u step : Z) (runs : list (Z * A)) : bool :=
  match runs with
  | [] => true
  | (cnt, a) :: r => run_all (chk a) u step (Z.to_nat cnt) && sweep_all chk (u + cnt * step) step r
  end.

Definition start_eqb (a b : Z * Z) : bool := (fst a =? fst b) && (snd a =? snd b).
Definition mem_start (x : Z * Z) (l : list (Z * Z)) : bool := existsb (start_eqb x) l.
Definition same_starts (a b : list (Z * Z)) : bool :=
  (Nat.eqb (length a) (length b)) && forallb (fun x => mem_start x b) a && forallb (fun x => mem_start x a) b.
Definition same_names (a b : list (list Z)) : bool :=
  forallb (fun x => mem_name x b) a && forallb (fun x => mem_name x a) b.

Definition mismatch (c : case) : bool :=
  match c with
  | Find loff cwd f ext p written found has_any listed =>
      let L := fixed_lz loff in
      let files := dedup (map (fun w : list Z * Z * Z =>
                                 let '(q, u, n) := w in walked cwd f ext q (mkI u n loff)) written) in
      let fm := find_model L cwd f ext p files in
      negb (path_name_valid p && forallb (fun w : list Z * Z * Z => path_name_valid (fst (fst w))) written
            && Nat.eqb (length files) (length written)
            && same_starts fm found
            && Bool.eqb has_any (negb (Nat.eqb (length fm) 0))
            && same_names (list_model L cwd f ext files) listed)
  | Enc f p unix ns off out => negb (name_eqb (encode_go f p (mkI unix ns off)) out)
  | Dec loff f v o _ => negb (dres_eqb (decode loff f v) o)
  | Round loff f p unix ns off enc o =>
      negb (name_eqb (encode_go f p (mkI unix ns off)) enc && dres_eqb (decode loff f enc) o)
  | ZRound zf ztx f p unix ns off rep applied enc o =>
      let z := mkZone zf ztx in
      negb (zone_ok zB z && (offset_at z unix =? off) && Bool.eqb (in_repeat (lookup z) unix) rep
            && (go_date_off z (unix + off) =? applied)
            && name_eqb (encode_go f p (mkI unix ns off)) enc && dres_eqb (decode_zone z f enc) o)
  | ZDec zf ztx f v o _ =>
      let z := mkZone zf ztx in negb (zone_ok zB z && dres_eqb (decode_zone z f v) o)
  | ZSweep zf ztx f p start step runs =>
      let z := mkZone zf ztx in
      let ts := tokenize f in
      negb (zone_ok zB z &&
            sweep_all (fun (a : Z * Z * bool * bool) u =>
                         let '(off, delta, rep, ok) := a in
                         (offset_at z u =? off) && Bool.eqb (in_repeat (lookup z) u) rep && ok
                         && (decoded_unix (lz_of_zone z) ts (mkI u 0 off) =? u + delta))
                      start step runs)
  | ZScan zf ztx start step runs =>
      let z := mkZone zf ztx in
      negb (zone_ok zB z && sweep_all (fun off u => offset_at z u =? off) start step runs)
  end.

(* The property on the observed outputs only:
   - a name written by Encode for a well-formed format, a valid name and an instant the format
     identifies is recognised, with that path and that start (to the microsecond);
   - a recognised name is, as a whole, what Encode writes for the decoded path and start. *)
Definition round_guard (loff : Z) (f p : list Z) (t : instant) : bool :=
  let ts := tokenize f in wf_toks ts && name_ok p && identifies ts && encodable loff ts t.

Definition zguard (f p : list Z) (t : instant) : bool :=
  let ts := tokenize f in wf_toks ts && name_ok p && identifies ts && enc_ranges ts t.

Definition spec_fail (c : case) : bool :=
  match c with
  | Enc _ _ _ _ _ _ => false
  | Dec _ f v o reenc => match o with Some _ => negb (name_eqb reenc v) | None => false end
  | Round loff f p unix ns off enc o =>
      let t := mkI unix ns off in
      round_guard loff f p t &&
      negb (dres_eqb o (Some (p, fst (trunc_start (tokenize f) t), snd (trunc_start (tokenize f) t))))
  | ZRound _ _ f p unix ns off _ _ _ o =>
      (* full strength, every zone: the instant held in the local zone comes back (fails in a repeated hour
         without %z / %s: known finding dst-repeated-hour) *)
      let t := mkI unix ns off in
      zguard f p t && negb (dres_eqb o (Some (p, unix, snd (trunc_start (tokenize f) t))))
  | ZDec _ _ f v o reenc => match o with Some _ => negb (name_eqb reenc v) | None => false end
  | ZSweep _ _ f p start step runs =>
      (* every name is recognised; outside the repeated hours with the instant itself; inside one at most
         one clock change away *)
      zguard f p (mkI start 0 0) &&
      negb (forallb (fun r : Z * (Z * Z * bool * bool) =>
                       let '(_, (_, delta, rep, ok)) := r in
                       ok && (Z.abs delta <=? 2 * zB) && (rep || (delta =? 0))) runs)
  | ZScan _ _ _ _ _ => false
  | Find loff cwd f ext p written found has_any listed =>
      (* every segment the recorder wrote for a valid path name is found again under that name (and under
         every name with the same non-empty elements: same directory on disk), with its start; fixed paths
         are reported as having segments; the regexp lister reports the clean form of the name;
         nothing else is found under p *)
      let ts := tokenize (f ++ ext) in
      let mine := filter (fun w : list Z * Z * Z => name_eqb (squeeze (fst (fst w))) (squeeze p)) written in
      let ok_w := fun w : list Z * Z * Z => let '(q, u, n) := w in path_name_valid q && encodable loff ts (mkI u n loff) in
      wf_toks ts && identifies ts && path_name_valid p && forallb ok_w written &&
      negb (forallb (fun w : list Z * Z * Z =>
                       let '(q, u, n) := w in mem_start (trunc_start ts (mkI u n loff)) found) mine
            && forallb (fun w : list Z * Z * Z => mem_name (squeeze (fst (fst w))) listed) written
            && Bool.eqb has_any (negb (Nat.eqb (length mine) 0))
            && forallb (fun s => existsb (fun w : list Z * Z * Z =>
                                            let '(q, u, n) := w in start_eqb s (trunc_start ts (mkI u n loff))) mine) found)
  end.
