(* Correspondence cases for C26: the driver ran the real recordstore.Path.Encode / Decode. *)
From Coq Require Import List ZArith Bool.
Require Import MTX.Lib.Civil MTX.Model.C26_RecPath.
Import ListNotations.
Local Open Scope Z_scope.

(* observed result of Decode: None = false, Some (Path, Start.Unix(), Start.Nanosecond()) *)
Definition dres := option (list Z * Z * Z).

Inductive case :=
  (* Path{p, t}.Encode(f) = out *)
| Enc (f p : list Z) (unix ns off : Z) (out : list Z)
  (* Decode(f, v) = o with local offset loff; reenc = Path{decoded}.Encode(f) computed by the real code
     (empty when o = None) *)
| Dec (loff : Z) (f v : list Z) (o : dres) (reenc : list Z)
  (* enc = Path{p, t}.Encode(f); o = Decode(f, enc) *)
| Round (loff : Z) (f p : list Z) (unix ns off : Z) (enc : list Z) (o : dres).

Definition dres_eqb (a b : dres) : bool :=
  match a, b with
  | None, None => true
  | Some (p, u, n), Some (p', u', n') => bytes_eqb p p' && (u =? u') && (n =? n')
  | _, _ => false
  end.

Definition mismatch (c : case) : bool :=
  match c with
  | Enc f p unix ns off out => negb (bytes_eqb (encode_go f p (mkI unix ns off)) out)
  | Dec loff f v o _ => negb (dres_eqb (decode loff f v) o)
  | Round loff f p unix ns off enc o =>
      negb (bytes_eqb (encode_go f p (mkI unix ns off)) enc && dres_eqb (decode loff f enc) o)
  end.

(* The property on the observed outputs only:
   - a name written by Encode for a well-formed format, a valid name and an instant the format
     identifies is recognised, with that path and that start (to the microsecond);
   - a recognised name is, as a whole, what Encode writes for the decoded path and start. *)
Definition round_guard (loff : Z) (f p : list Z) (t : instant) : bool :=
  let ts := tokenize f in wf_toks ts && name_ok p && identifies ts && encodable loff ts t.

Definition spec_fail (c : case) : bool :=
  match c with
  | Enc _ _ _ _ _ _ => false
  | Dec _ f v o reenc => match o with Some _ => negb (bytes_eqb reenc v) | None => false end
  | Round loff f p unix ns off enc o =>
      let t := mkI unix ns off in
      round_guard loff f p t &&
      negb (dres_eqb o (Some (p, fst (trunc_start (tokenize f) t), snd (trunc_start (tokenize f) t))))
  end.
