(* C18 correspondence: the shared path-loop case (Check/PathSMCase.v) with the C18 specification. *)
Require Export MTX.Model.PathSM MTX.Check.PathSMCase.
Definition case := pcase.
Definition mismatch : case -> bool := PathSMCase.mismatch.
Definition spec_fail : case -> bool := spec_fail_c18.
