(* Correspondence cases for C10. The driver ran conf.Load (and decrypt.Decrypt, env.Load) in
   process under recover() on generated inputs. *)
From Coq Require Import List ZArith Bool.
Require Export MTX.Model.C10_Load.
Import ListNotations.
Local Open Scope Z_scope.

(* constructors for the cases files *)
Definition P (name : list Z) (name_ok regex : bool) (s : src) (on_demand : bool) (srt_pub srt_read : Z)
             (redirect redirect_ok : bool) (cam : Z) (secondary rpi_ok other_ok aa aa_src_ok abs_ts run_init run_demand : bool)
             (record_path : list Z) (seg del : Z) (tracks : list (Z * Z * Z)) : pathc :=
  {| p_name := name; p_name_ok := name_ok; p_regex := regex; p_source := s; p_on_demand := on_demand;
     p_srt_pub := srt_pub; p_srt_read := srt_read; p_redirect := redirect; p_redirect_ok := redirect_ok;
     p_cam := cam; p_secondary := secondary; p_rpi_ok := rpi_ok; p_other_ok := other_ok; p_aa := aa;
     p_aa_src_ok := aa_src_ok; p_abs_ts := abs_ts; p_run_init := run_init; p_run_demand := run_demand;
     p_record_path := record_path; p_seg := seg; p_del := del; p_tracks := tracks |}.

Definition G (read_to write_to wqs : Z) (rbc : option Z) (udp : Z) (playback other_ok : bool) (paths : list pathc) : gconf :=
  {| g_read_to := read_to; g_write_to := write_to; g_wqs := wqs; g_read_buffer_count := rbc; g_udp := udp;
     g_playback := playback; g_other_ok := other_ok; g_paths := paths |}.

Inductive obs := OLoaded (g : gconf) | OErr | OPanic.
Inductive dobs := DecErr | DecPanic | DecOk (plain : list Z).

Inductive case :=
| Load (o : obs)                                  (* any file content / key / environment *)
| Cmp (input : gconf) (o : obs)                   (* only modelled constraints exercised: model input + outcome *)
| Dec (key byts : list Z)                         (* decrypt.Decrypt called directly *)
      (b64 : option (list Z))                     (* oracle value: base64.StdEncoding.DecodeString(byts) *)
      (k32 nonce box : list Z) (opened : option (list Z))
                                                  (* oracle value: secretbox.Open(box, nonce, k32), computed by
                                                     the driver when the decoded input has >= 24 bytes *)
      (o : dobs)
| EnvMap (entry : Z) (panicked : bool)            (* env.Load on a map entry: 0 absent, 1 present-nil, 2 present *)
| EnvList (pointer_nil : bool) (panicked : bool)  (* env.Load, empty variable on a list parameter *)
| EnvSub (pointer_nil : bool) (panicked : bool).  (* env.Load, variable extending the name of an Unmarshaler parameter *)

Definition same_result (m r : gconf) : bool :=
  (g_wqs m =? g_wqs r) && (g_read_to m =? g_read_to r) && (g_udp m =? g_udp r) &&
  Nat.eqb (length (g_paths m)) (length (g_paths r)) &&
  forallb (fun pq => list_eqb (p_name (fst pq)) (p_name (snd pq)) &&
                     Bool.eqb (p_regex (fst pq)) (p_regex (snd pq)) &&
                     src_eqb (p_source (fst pq)) (p_source (snd pq)) &&
                     list_eqb (p_record_path (fst pq)) (p_record_path (snd pq)))
          (combine (g_paths m) (g_paths r)).

Definition mismatch (c : case) : bool :=
  match c with
  | Load _ => false
  | Cmp input o =>
      match validate input, o with
      | Ok m, OLoaded r => negb (same_result m r)
      | Err, OErr => false
      | _, _ => true
      end
  | Dec key byts b64 k32 nonce box opened o =>
      let sopen k n b := if list_eqb k k32 && list_eqb n nonce && list_eqb b box then opened else None in
      match decrypt true (fun _ => b64) sopen key byts, o with
      | DErr, DecErr => false
      | DPanic, DecPanic => false
      | DOk p, DecOk q => negb (list_eqb p q)
      | _, _ => true
      end
  | EnvMap e panicked =>
      let me := if e =? 0 then EAbsent else if e =? 1 then ENil else EPresent in
      match env_map_step true me with
      | EnvPanic => negb panicked
      | EnvUsesEntry _ => panicked
      end
  | EnvList nilp panicked =>
      match env_empty_list_step true nilp with
      | EnvPanic => negb panicked
      | EnvUsesEntry _ => panicked
      end
  | EnvSub nilp panicked =>
      match env_subkey_step true nilp with
      | EnvPanic => negb panicked
      | EnvUsesEntry _ => panicked
      end
  end.

(* the property on the observation alone: never a panic; a loaded configuration is documented *)
Definition obs_fail (o : obs) : bool :=
  match o with
  | OPanic => true
  | OErr => false
  | OLoaded g => negb (documented_b g)
  end.

Definition spec_fail (c : case) : bool :=
  match c with
  | Load o => obs_fail o
  | Cmp _ o => obs_fail o
  | Dec _ _ _ _ _ _ _ o => match o with DecPanic => true | _ => false end
  | EnvMap _ panicked => panicked
  | EnvList _ panicked => panicked
  | EnvSub _ panicked => panicked
  end.
