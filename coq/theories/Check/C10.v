(* Correspondence cases for C10. The driver ran conf.Load (and decrypt.Decrypt, env.Load) in
   process under recover() on generated inputs. *)
From Coq Require Import List ZArith Bool.
Require Export MTX.Model.C10_Load.
Import ListNotations.
Local Open Scope Z_scope.

(* The cases files build the model's records with their constructors, fields in declaration order:
   U (userc), PX (pext), P (pathc), XA (xauth), XS (xsrv), XR (xrtsp), XW (xwebrtc), XM (xmoq), XD (xrec), GX (gext),
   G (gconf); B = bytes of a string literal. *)
Notation B := bytes.

Inductive obs := OLoaded (g : gconf) | OErr | OPanic.
Inductive dobs := DecErr | DecPanic | DecOk (plain : list Z).

Inductive case :=
| Load (o : obs)                                  (* any file content / key / environment *)
| Cmp (input : gconf) (o : obs)                   (* only modelled constraints exercised: model input + outcome *)
| Dec (key byts : list Z)                         (* decrypt.Decrypt called directly *)
      (b64 : option (list Z))                     (* oracle value: base64.StdEncoding.DecodeString(byts) *)
      (k32 nonce box : list Z) (opened : option (list Z))
                                                  (* oracle value: secretbox.Open(box, nonce, k32), computed by
                                                     the driver when the decoded input has >= 24 bytes *)
      (o : dobs)
| EnvMap (entry : Z) (panicked : bool)            (* env.Load on a map entry: 0 absent, 1 present-nil, 2 present *)
| EnvList (pointer_nil : bool) (panicked : bool)  (* env.Load, empty variable on a list parameter *)
| EnvSub (pointer_nil : bool) (panicked : bool).  (* env.Load, variable extending the name of an Unmarshaler parameter *)

Definition same_path (m r : pathc) : bool :=
  list_eqb (p_name m) (p_name r) && Bool.eqb (p_regex m) (p_regex r) && src_eqb (p_source m) (p_source r) &&
  list_eqb (p_record_path m) (p_record_path r) &&
  (* the parameters Path.validate may rewrite *)
  Bool.eqb (e_override_publisher (p_x m)) (e_override_publisher (p_x r)) &&
  (e_rtsp_transport (p_x m) =? e_rtsp_transport (p_x r)) && Bool.eqb (e_rtsp_any_port (p_x m)) (e_rtsp_any_port (p_x r)) &&
  ostr_eqb (e_hw_profile (p_x m)) (e_hw_profile (p_x r)) && ostr_eqb (e_hw_level (p_x m)) (e_hw_level (p_x r)) &&
  (e_mjpeg_q (p_x m) =? e_mjpeg_q (p_x r)) &&
  list_eqb (e_on_available (p_x m)) (e_on_available (p_x r)) &&
  Bool.eqb (e_available_restart (p_x m)) (e_available_restart (p_x r)) &&
  list_eqb (e_on_unavailable (p_x m)) (e_on_unavailable (p_x r)).

Definition same_srv (m r : xsrv) : bool := list_eqb_with list_eqb (s_origins m) (s_origins r).

Definition same_ext (m r : gext) : bool :=
  (a_method (x_auth m) =? a_method (x_auth r)) && list_eqb (a_http_addr (x_auth m)) (a_http_addr (x_auth r)) &&
  list_eqb_with user_eqb (a_users (x_auth m)) (a_users (x_auth r)) &&
  same_srv (x_api_srv m) (x_api_srv r) && same_srv (x_metrics_srv m) (x_metrics_srv r) &&
  same_srv (x_pprof_srv m) (x_pprof_srv r) && same_srv (x_playback_srv m) (x_playback_srv r) &&
  same_srv (x_hls_srv m) (x_hls_srv r) && same_srv (w_srv (x_webrtc m)) (w_srv (x_webrtc r)) &&
  Bool.eqb (r_on (x_rtsp m)) (r_on (x_rtsp r)) && t_eqb (r_transports (x_rtsp m)) (r_transports (x_rtsp r)) &&
  (r_encryption (x_rtsp m) =? r_encryption (x_rtsp r)) &&
  list_eqb_with Z.eqb (r_auth_methods (x_rtsp m)) (r_auth_methods (x_rtsp r)) &&
  list_eqb (r_cert (x_rtsp m)) (r_cert (x_rtsp r)) && list_eqb (r_key (x_rtsp m)) (r_key (x_rtsp r)) &&
  Bool.eqb (x_rtmp m) (x_rtmp r) && Bool.eqb (x_hls m) (x_hls r) && Bool.eqb (w_on (x_webrtc m)) (w_on (x_webrtc r)) &&
  list_eqb (w_local_udp (x_webrtc m)) (w_local_udp (x_webrtc r)) &&
  list_eqb (w_local_tcp (x_webrtc m)) (w_local_tcp (x_webrtc r)) &&
  list_eqb_with list_eqb (w_hosts (x_webrtc m)) (w_hosts (x_webrtc r)) &&
  list_eqb_with ice_eqb (w_ice (x_webrtc m)) (w_ice (x_webrtc r)) &&
  list_eqb (m_http2 (x_moq m)) (m_http2 (x_moq r)) && list_eqb (m_http3 (x_moq m)) (m_http3 (x_moq r)) &&
  Bool.eqb (d_pd_record (x_rec m)) (d_pd_record (x_rec r)) && list_eqb (d_pd_path (x_rec m)) (d_pd_path (x_rec r)) &&
  (d_pd_format (x_rec m) =? d_pd_format (x_rec r)) && (d_pd_part (x_rec m) =? d_pd_part (x_rec r)) &&
  (d_pd_seg (x_rec m) =? d_pd_seg (x_rec r)) && (d_pd_del (x_rec m) =? d_pd_del (x_rec r)).

(* the model's result against the real validated configuration: everything Validate computes or rewrites *)
Definition same_result (m r : gconf) : bool :=
  (g_wqs m =? g_wqs r) && (g_read_to m =? g_read_to r) && (g_udp m =? g_udp r) &&
  Nat.eqb (length (g_paths m)) (length (g_paths r)) &&
  forallb (fun pq => same_path (fst pq) (snd pq)) (combine (g_paths m) (g_paths r)) &&
  same_ext (g_x m) (g_x r).

Definition mismatch (c : case) : bool :=
  match c with
  | Load _ => false
  | Cmp input o =>
      match validate input, o with
      | Ok m, OLoaded r => negb (same_result m r)
      | Err _, OErr => false
      | _, _ => true
      end
  | Dec key byts b64 k32 nonce box opened o =>
      let sopen k n b := if list_eqb k k32 && list_eqb n nonce && list_eqb b box then opened else None in
      match decrypt true (fun _ => b64) sopen key byts, o with
      | DErr, DecErr => false
      | DPanic, DecPanic => false
      | DOk p, DecOk q => negb (list_eqb p q)
      | _, _ => true
      end
  | EnvMap e panicked =>
      let me := if e =? 0 then EAbsent else if e =? 1 then ENil else EPresent in
      match env_map_step true me with
      | EnvPanic => negb panicked
      | EnvUsesEntry _ => panicked
      end
  | EnvList nilp panicked =>
      match env_empty_list_step true nilp with
      | EnvPanic => negb panicked
      | EnvUsesEntry _ => panicked
      end
  | EnvSub nilp panicked =>
      match env_subkey_step true nilp with
      | EnvPanic => negb panicked
      | EnvUsesEntry _ => panicked
      end
  end.

(* the property on the observation alone: never a panic; a loaded configuration is documented *)
Definition obs_fail (o : obs) : bool :=
  match o with
  | OPanic => true
  | OErr => false
  | OLoaded g => negb (documented_b g)
  end.

Definition spec_fail (c : case) : bool :=
  match c with
  | Load o => obs_fail o
  | Cmp _ o => obs_fail o
  | Dec _ _ _ _ _ _ _ o => match o with DecPanic => true | _ => false end
  | EnvMap _ panicked => panicked
  | EnvList _ panicked => panicked
  | EnvSub _ panicked => panicked
  end.
