(* Correspondence cases for C41: the real VerifyConnection callback / real TLS handshakes. *)
From Coq Require Import List ZArith Bool.
Require Export MTX.Model.C41_Tls.
Import ListNotations.
Local Open Scope Z_scope.

(* fingerprint string, SHA-256 of the presented leaf certificate (oracle, 32 bytes), was a pinning config installed,
   did the connection / callback succeed *)
Inductive case := V (fingerprint digest : list Z) (installed accepted : bool).

Definition mismatch (c : case) : bool :=
  match c with
  | V fp d installed accepted =>
      negb (Bool.eqb installed (pinned fp)) || (installed && negb (Bool.eqb accepted (verify fp d)))
  end.

(* independent statement of the property: accepted iff the fingerprint spells, in hex of either case, the digest *)
Definition hexval (c : Z) : Z :=
  if (48 <=? c) && (c <=? 57) then c - 48
  else if (97 <=? c) && (c <=? 102) then c - 87
  else if (65 <=? c) && (c <=? 70) then c - 55
  else -1.

Fixpoint spells (fp digest : list Z) : bool :=
  match fp, digest with
  | [], [] => true
  | h :: l :: fr, b :: dr => (hexval h =? b / 16) && (hexval l =? b mod 16) && spells fr dr
  | _, _ => false
  end.

Definition spec_fail (c : case) : bool :=
  match c with
  | V fp d installed accepted =>
      match fp with
      | [] => installed                       (* no fingerprint: no pinning config *)
      | _ => negb installed || negb (Bool.eqb accepted (spells fp d))
      end
  end.
