(* Correspondence cases for C41: the real VerifyConnection callback / real TLS handshakes. *)
From Coq Require Import List ZArith Bool.
Require Export MTX.Model.C41_Tls MTX.Model.C41_Sites.
Import ListNotations.
Local Open Scope Z_scope.

(* fingerprint string, SHA-256 of the presented leaf certificate (oracle, 32 bytes), was a pinning config installed,
   did the connection / callback succeed *)
Inductive case :=
| V (fingerprint digest : list Z) (installed accepted : bool)
  (* a real call site `s` run with the configured fingerprint against a local TLS / QUIC server reached as `host`:
     digest = SHA-256 of the leaf the server presents (oracle), ca = does ordinary verification (x509, system roots,
     name `host`) accept the presented chain (oracle), accepted = did the server see the handshake complete *)
| S (s : site) (fingerprint host digest : list Z) (ca accepted : bool).

Definition mismatch (c : case) : bool :=
  match c with
  | V fp d installed accepted =>
      negb (Bool.eqb installed (pinned fp)) || (installed && negb (Bool.eqb accepted (verify fp d)))
  | S s fp host d ca accepted =>
      negb (Bool.eqb accepted (connect s fp host d (fun name => bytes_eqb name host && ca)))
  end.

(* independent statement of the property: accepted iff the fingerprint spells, in hex of either case, the digest *)
Definition hexval (c : Z) : Z :=
  if (48 <=? c) && (c <=? 57) then c - 48
  else if (97 <=? c) && (c <=? 102) then c - 87
  else if (65 <=? c) && (c <=? 70) then c - 55
  else -1.

Fixpoint spells (fp digest : list Z) : bool :=
  match fp, digest with
  | [], [] => true
  | h :: l :: fr, b :: dr => (hexval h =? b / 16) && (hexval l =? b mod 16) && spells fr dr
  | _, _ => false
  end.

Definition spec_fail (c : case) : bool :=
  match c with
  | V fp d installed accepted =>
      match fp with
      | [] => installed                       (* no fingerprint: no pinning config *)
      | _ => negb installed || negb (Bool.eqb accepted (spells fp d))
      end
  | S _ fp _ d ca accepted =>
      match fp with
      | [] => negb (Bool.eqb accepted ca)     (* no fingerprint: ordinary verification decides, nothing is weakened *)
      | _ => negb (Bool.eqb accepted (spells fp d))   (* fingerprint: the leaf's digest decides, whatever the chain *)
      end
  end.
