(* Correspondence cases for C21: the driver started the real externalcmd.Cmd. *)
From Coq Require Import List ZArith Bool.
Require Export MTX.Model.C21_ExtCmd MTX.Model.C21_HookEnv.
Import ListNotations.
Local Open Scope Z_scope.

(* what was observed for one command *)
Inductive obs :=
| OSplitErr (e : Z)                 (* OnExit got shellquote's error: 0 single, 1 double, 2 escape *)
| OPanic                            (* runOSSpecific panicked (no words) *)
| OStartErr                         (* OnExit got another error: the process was not started *)
| ORan (args environ : list bytes) (reported : option Z)
                                    (* the child's argv and environ; the code OnExit reported, if called *)
| OOther.

(* the words the author of a structured template meant: literal text and whole variable references *)
Inductive xpiece := XLit (b : bytes) | XVar (name : bytes).

(* hook events of a real core.path and the commands that ran; every string is an index into the case's table *)
Inductive xev := XEv (kind : Z) (base sets : list (Z * Z)).
Inductive xcmd := XCmd (argv : list Z) (env : list (Z * Z)).

Inductive case :=
| Run (helper tmpl : bytes) (env base : list (bytes * bytes)) (exit : Z)
      (intended : option (list (list xpiece))) (o : obs)
| ExitC (st : wait_status) (restart : bool) (reported : option Z)
| HookEnv (tbl : list bytes) (arg_keys : list Z) (events : list xev) (cmds : list xcmd).

Fixpoint list_eqb {A} (eqb : A -> A -> bool) (a b : list A) : bool :=
  match a, b with
  | [], [] => true
  | x :: a', y :: b' => eqb x y && list_eqb eqb a' b'
  | _, _ => false
  end.

Definition optZ_eqb (a b : option Z) : bool :=
  match a, b with
  | None, None => true
  | Some x, Some y => x =? y
  | _, _ => false
  end.

Definition err_code (e : split_err) : Z :=
  match e with UntermSingle => 0 | UntermDouble => 1 | UntermEscape => 2 end.

(* same entries, any order (the model's list has no duplicates) *)
Definition same_set (a b : list bytes) : bool :=
  (length a =? length b)%nat && forallb (fun e => memb e b) a && forallb (fun e => memb e a) b.

(* ---- hook events: decoding, comparison of command sets ---- *)
Definition tb (tbl : list bytes) (i : Z) : bytes := nth (Z.to_nat i) tbl [].
Definition tb_pairs (tbl : list bytes) (l : list (Z * Z)) : list (bytes * bytes) :=
  map (fun p => (tb tbl (fst p), tb tbl (snd p))) l.

Definition cmd_eqb (a b : list bytes * list (bytes * bytes)) : bool :=
  list_eqb bytes_eqb (fst a) (fst b) && same_set (map entry (snd a)) (map entry (snd b)).

Definition count_cmd (x : list bytes * list (bytes * bytes)) (l : list (list bytes * list (bytes * bytes))) : nat :=
  length (filter (cmd_eqb x) l).

(* the same commands, whatever the order *)
Definition same_cmds (a b : list (list bytes * list (bytes * bytes))) : bool :=
  (length a =? length b)%nat && forallb (fun x => (count_cmd x a =? count_cmd x b)%nat) a.

Definition obs_cmds (tbl : list bytes) (cmds : list xcmd) :=
  map (fun c => match c with XCmd av ev => (map (tb tbl) av, tb_pairs tbl ev) end) cmds.

Definition model_events (tbl : list bytes) (events : list xev) : list hevent :=
  map (fun e => match e with XEv k b s => HEv (tb tbl k) (tb_pairs tbl b) (tb_pairs tbl s) end) events.

(* the model: the call sites build one map per event; the commands read after the last event *)
Definition model_cmds (keys : list bytes) (evs : list hevent) :=
  map (fun r => (hook_argv (ev_kind (nth (fst r) evs (HEv [] [] []))) keys (snd r), snd r))
      (hrun hinit (reads_last (per_event 0 evs) (length evs))).

Definition mismatch (c : case) : bool :=
  match c with
  | HookEnv tbl keys events cmds =>
      negb (same_cmds (model_cmds (map (tb tbl) keys) (model_events tbl events)) (obs_cmds tbl cmds))
  | Run helper tmpl env base exit _ o =>
      match run_launch tmpl env base, o with
      | LSplitErr e, OSplitErr k => negb (err_code e =? k)
      | LPanic, OPanic => false
      | LStartErr, OStartErr => false
      | LExec av envs, ORan args environ rep =>
          negb (list_eqb bytes_eqb av args && same_set envs environ &&
                optZ_eqb rep (run_report false (Exited exit)))
      | LExec av _, OStartErr =>
          (* a program that does not exist: only the helper does *)
          match av with a0 :: _ => bytes_eqb a0 helper | [] => true end
      | _, _ => true
      end
  | ExitC st restart rep => negb (optZ_eqb rep (run_report restart st))
  end.

(* ---- the property on the observed outputs only ---- *)

Fixpoint find_val (k : bytes) (l : list (bytes * bytes)) : option bytes :=
  match l with
  | [] => None
  | (k', v) :: r => if list_eqb Z.eqb k k' then Some v else find_val k r
  end.

Definition value_of (env base : list (bytes * bytes)) (n : bytes) : bytes :=
  match find_val n env with
  | Some v => v
  | None => match find_val n base with Some v => v | None => [] end
  end.

Definition intended_word (env base : list (bytes * bytes)) (w : list xpiece) : bytes :=
  concat (map (fun p => match p with XLit b => b | XVar n => value_of env base n end) w).

Fixpoint starts_with (p s : bytes) : bool :=
  match p, s with
  | [], _ => true
  | x :: p', y :: s' => (x =? y) && starts_with p' s'
  | _, _ => false
  end.

Definition valid_key (k : bytes) : bool :=
  negb (is_nil k) && forallb (fun c => negb (c =? 61) && negb (c =? 0)) k.

(* every (valid) key of Env appears exactly once in the child's environ, with exactly its value *)
Definition env_verbatim (env : list (bytes * bytes)) (environ : list bytes) : bool :=
  forallb (fun kv =>
             negb (valid_key (fst kv)) ||
             list_eqb (list_eqb Z.eqb) (filter (starts_with (fst kv ++ [61])) environ) [fst kv ++ 61 :: snd kv])
          env.

(* the property on the observation: every event has its command, with exactly the values of THAT event
   (later additions of the call site win over ExternalCmdEnv's), and there is no other command *)
Definition ev_value (base sets : list (bytes * bytes)) (k : bytes) : option bytes :=
  match find_val k (rev sets) with Some v => Some v | None => find_val k base end.

Fixpoint uniq_keys (l : list bytes) : list bytes :=
  match l with [] => [] | k :: r => if memb k r then uniq_keys r else k :: uniq_keys r end.

Definition expected_cmd (keys : list bytes) (kind : bytes) (base sets : list (bytes * bytes)) :=
  (kind :: map (fun k => match ev_value base sets k with Some v => v | None => [] end) keys,
   map (fun k => (k, match ev_value base sets k with Some v => v | None => [] end))
       (uniq_keys (map fst (base ++ sets)))).

Definition spec_fail (c : case) : bool :=
  match c with
  | HookEnv tbl keys events cmds =>
      negb (same_cmds
              (map (fun e => match e with XEv k b s =>
                                expected_cmd (map (tb tbl) keys) (tb tbl k) (tb_pairs tbl b) (tb_pairs tbl s) end) events)
              (obs_cmds tbl cmds))
  | Run helper tmpl env base exit intended o =>
      match o with
      | ORan args environ rep =>
          negb (env_verbatim env environ) ||
          negb (optZ_eqb rep (if exit =? 0 then None else Some exit)) ||
          match intended with
          | Some ws => negb (list_eqb (list_eqb Z.eqb) args (helper :: map (intended_word env base) ws))
          | None => false
          end
      | OOther => true
      | _ => match intended with Some _ => true | None => false end
      end
  | ExitC st restart rep =>
      match st with
      | Exited code =>
          if code =? 0 then (if restart then false else negb (optZ_eqb rep None))
          else negb (optZ_eqb rep (Some code))
      | Signaled => match rep with Some r => r =? 0 | None => true end
      end
  end.
