(* Correspondence cases for C14: the driver ran the real conf.FindPathConf on Go maps holding the
   configurations produced by the real Conf.Validate, several times and on maps filled in different orders. *)
From Coq Require Import List ZArith Bool.
Require Import MTX.Model.C14_PathConf.
Import ListNotations.
Local Open Scope Z_scope.

Inductive obs :=
| OFound (key : str) (groups : list str)   (* key under which the returned *Path is stored; groups = [] when nil *)
| OInvalid                                  (* error "invalid path name: ..." *)
| ONotConf.                                 (* error "path '...' is not configured" *)

(* one configuration of the set: its key, whether validate gave it a Regexp, whether Name = key, and
   the oracle value Regexp.FindStringSubmatch(name) (None for nil / no Regexp) *)
Inductive kinfo := K (key : str) (has_re : bool) (name_is_key : bool) (mt : option (list str)).

Definition k_key (k : kinfo) := let 'K a _ _ _ := k in a.
Definition k_re (k : kinfo) := let 'K _ a _ _ := k in a.
Definition k_nameok (k : kinfo) := let 'K _ _ a _ := k in a.
Definition k_mt (k : kinfo) := let 'K _ _ _ a := k in a.

(* ks in the insertion order of the first map; valid = (IsValidPathName(name) == nil);
   results = every call's answer (3 calls on each of 2 differently built maps) *)
Inductive case := Case (ks : list kinfo) (name : str) (valid : bool) (results : list obs).

Fixpoint strs_eqb (a b : list str) : bool :=
  match a, b with
  | [], [] => true
  | x :: a', y :: b' => str_eqb x y && strs_eqb a' b'
  | _, _ => false
  end.

Definition obs_eqb (a b : obs) : bool :=
  match a, b with
  | OFound k g, OFound k' g' => str_eqb k k' && strs_eqb g g'
  | OInvalid, OInvalid | ONotConf, ONotConf => true
  | _, _ => false
  end.

Definition obs_of (r : result unit) : obs :=
  match r with
  | Found k _ g => OFound k g
  | ErrInvalid => OInvalid
  | ErrNotConfigured => ONotConf
  end.

Fixpoint oracle_of (ks : list kinfo) (k : str) : option (list str) :=
  match ks with
  | [] => None
  | x :: r => if str_eqb (k_key x) k then k_mt x else oracle_of r k
  end.

Definition mismatch (c : case) : bool :=
  let 'Case ks name valid results := c in
  let cs := map (fun k => (k_key k, tt)) ks in
  let m := fun k (_ : str) => oracle_of ks k in
  let r1 := obs_of (find m cs name) in
  let r2 := obs_of (find m (rev cs) name) in
  negb (forallb (fun k => Bool.eqb (is_regex_key (k_key k)) (k_re k) && k_nameok k) ks
        && Bool.eqb (valid_name name) valid
        && obs_eqb r1 r2
        && match results with [] => false | _ => forallb (obs_eqb r1) results end).

(* ---- the property on the observed answers only (independent of `find`) ---- *)
Fixpoint lex_cmp (a b : str) : comparison :=
  match a, b with
  | [], [] => Eq
  | [], _ :: _ => Lt
  | _ :: _, [] => Gt
  | x :: a', y :: b' => match x ?= y with Eq => lex_cmp a' b' | o => o end
  end.

Definition same (a b : str) : bool := match lex_cmp a b with Eq => true | _ => false end.

Definition catch_all_name (k : str) : bool :=
  same k [97; 108; 108] || same k [97; 108; 108; 95; 111; 116; 104; 101; 114; 115].

(* name order, all / all_others after everything else *)
Definition comes_before (k k' : str) : bool :=
  match catch_all_name k, catch_all_name k' with
  | false, true => true
  | false, false => match lex_cmp k k' with Lt => true | _ => false end
  | true, _ => false
  end.

Definition groups_are (mt : option (list str)) (g : list str) : bool :=
  match mt with
  | Some g' => (Nat.eqb (length g) (length g')) && forallb (fun p => same (fst p) (snd p)) (combine g g')
  | None => false
  end.

Definition answer_ok (ks : list kinfo) (name : str) (valid : bool) (r : obs) : bool :=
  if existsb (fun k => same (k_key k) name) ks then
    match r with OFound k [] => same k name | _ => false end
  else if negb valid then
    match r with OFound _ _ => false | _ => true end
  else
    let cands := filter (fun k => k_re k && match k_mt k with Some _ => true | None => false end) ks in
    match r with
    | OFound k g =>
        existsb (fun c => same (k_key c) k && groups_are (k_mt c) g) cands
        && forallb (fun c => same (k_key c) k || comes_before k (k_key c)) cands
    | _ => match cands with [] => true | _ => false end
    end.

Definition spec_fail (c : case) : bool :=
  let 'Case ks name valid results := c in
  match results with
  | [] => true
  | _ => negb (forallb (answer_ok ks name valid) results)
  end.
