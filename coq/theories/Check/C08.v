(* Correspondence cases for C08: the driver ran the real codecs of internal/conf (and the bytefmt library,
   the net package) and ships inputs together with the observed outputs. *)
From Coq Require Import List ZArith Bool.
Require Import MTX.Lib.IntWrap MTX.Lib.Utf8.
Require Export MTX.Model.C08_Scalars.
Import ListNotations.
Local Open Scope Z_scope.

Inductive net_obs := NOErr | NOv6 | NOv4 (ip : list Z) (ones : Z).

Inductive case :=
(* d -> marshalInternal -> text -> unmarshalInternal -> back *)
| CDur (d : Z) (text : list Z) (back : option Z)
(* arbitrary text -> unmarshalInternal *)
| CDurParse (text : list Z) (r : option Z)
(* n -> StringSize.MarshalJSON -> text (inside the quotes) -> StringSize.UnmarshalJSON -> back *)
| CSize (n : Z) (text : list Z) (back : option Z)
(* ASCII text -> StringSize.UnmarshalJSON *)
| CSizeParse (text : list Z) (r : option Z)
(* the library by itself: bytefmt.ByteSize n, bytefmt.ToBytes text *)
| CByteSize (n : Z) (text : list Z)
| CToBytes (text : list Z) (r : option Z)
(* enum value -> json.Marshal -> text -> UnmarshalJSON -> back *)
| CEnum (e : enum_id) (v : eval) (text : list Z) (back : option eval)
| CEnumParse (e : enum_id) (text : list Z) (r : option eval)
| CTransports (s : pset) (texts : list (list Z)) (back : option pset)
(* IPv4 network -> MarshalJSON -> text -> UnmarshalJSON -> back *)
| CNet (ip : list Z) (ones : Z) (text : list Z) (back : net_obs)
| CNetParse (text : list Z) (r : net_obs)
(* observed only (no model): IPv6 network and Credential round trips; whole configurations
   (kind 0 global, 1 pathDefaults, 2 path): valid = the configuration passes Validate,
   equal = decode(encode c) applied as the API does gives a deep-equal configuration *)
| CNet6 (text : list Z) (equal : bool)
| CCred (text : list Z) (equal : bool)
| CConf (kind : Z) (valid equal : bool).

Definition optZ_eqb (a b : option Z) : bool :=
  match a, b with Some x, Some y => x =? y | None, None => true | _, _ => false end.
Definition opt_eval_eqb (a b : option eval) : bool :=
  match a, b with Some x, Some y => eval_eqb x y | None, None => true | _, _ => false end.
Definition pset_eqb (a b : pset) : bool :=
  let '(a1, a2, a3) := a in let '(b1, b2, b3) := b in Bool.eqb a1 b1 && Bool.eqb a2 b2 && Bool.eqb a3 b3.
Definition opt_pset_eqb (a b : option pset) : bool :=
  match a, b with Some x, Some y => pset_eqb x y | None, None => true | _, _ => false end.
Definition net_eqb (a b : net_obs) : bool :=
  match a, b with
  | NOErr, NOErr | NOv6, NOv6 => true
  | NOv4 i1 o1, NOv4 i2 o2 => str_eqb i1 i2 && (o1 =? o2)
  | _, _ => false
  end.
Fixpoint strs_eqb (a b : list (list Z)) : bool :=
  match a, b with
  | [], [] => true
  | x :: r, y :: s => str_eqb x y && strs_eqb r s
  | _, _ => false
  end.

(* model result vs observation; a result outside the model's domain matches anything *)
Definition tb_matches (m : tb_result) (o : option Z) : bool :=
  match m, o with
  | TBErr, None => true
  | TBVal v, Some w => v =? w
  | TBOut, _ => true
  | _, _ => false
  end.
Definition net_matches (m : net_result) (o : net_obs) : bool :=
  match m, o with
  | NErr, NOErr => true
  | NVal ip n, NOv4 ip' n' => str_eqb ip ip' && (n =? n')
  | NV6, _ => true
  | _, _ => false
  end.

Definition ascii (s : list Z) : bool := forallb (fun c => (0 <=? c) && (c <? 128)) s.

Definition mismatch (c : case) : bool :=
  match c with
  | CDur d text back => negb (str_eqb (dur_marshal d) text && optZ_eqb (dur_unmarshal text) back)
  | CDurParse text r => negb (optZ_eqb (dur_unmarshal text) r)
  | CSize n text back => negb (str_eqb (size_marshal_m n) text && tb_matches (size_unmarshal_m text) back)
  | CSizeParse text r => ascii text && negb (tb_matches (size_unmarshal_m text) r)
  | CByteSize n text => negb (str_eqb (byte_size n) text)
  | CToBytes text r => ascii text && negb (tb_matches (to_bytes text) r)
  | CEnum e v text back => negb (str_eqb (enum_marshal e v) text && opt_eval_eqb (enum_unmarshal e text) back)
  | CEnumParse e text r => negb (opt_eval_eqb (enum_unmarshal e text) r)
  | CTransports s texts back =>
      negb (strs_eqb (transports_marshal s) texts && opt_pset_eqb (transports_unmarshal texts (false, false, false)) back)
  | CNet ip ones text back => negb (str_eqb (ipnet4_string ip ones) text && net_matches (ipnet_unmarshal text) back)
  | CNetParse text r => negb (net_matches (ipnet_unmarshal text) r)
  | CNet6 _ _ | CCred _ _ | CConf _ _ _ => false
  end.

(* The property on the observed outputs only: what was decoded equals what was encoded. *)
Definition spec_fail (c : case) : bool :=
  match c with
  | CDur d _ back => negb (optZ_eqb back (Some d))
  | CSize n _ back => negb (optZ_eqb back (Some n))
  | CEnum _ v _ back => negb (opt_eval_eqb back (Some v))
  | CTransports s _ back => negb (opt_pset_eqb back (Some s))
  | CNet ip ones _ back => negb (net_eqb back (NOv4 ip ones))
  | CNet6 _ equal | CCred _ equal => negb equal
  | CConf _ valid equal => valid && negb equal
  | CDurParse _ _ | CSizeParse _ _ | CByteSize _ _ | CToBytes _ _ | CEnumParse _ _ _ | CNetParse _ _ => false
  end.
