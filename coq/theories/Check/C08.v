(* Correspondence cases for C08: the driver ran the real codecs of internal/conf (and the bytefmt library,
   the net package) and ships inputs together with the observed outputs. *)
From Coq Require Import List ZArith Bool.
Require Import MTX.Lib.IntWrap MTX.Lib.Utf8.
Require Export MTX.Model.C08_Scalars MTX.Model.C08_Net6 MTX.Model.C08_Schema MTX.Model.C08_ConfCodecs.
Require Import MTXGen.C08_ConfSchema.
Import ListNotations.
Local Open Scope Z_scope.

(* what IPNetwork.UnmarshalJSON stored: error, 4 bytes + CIDRMask(ones, 32), 16 bytes + CIDRMask(ones, 128) *)
Inductive net_obs := NOErr | NOv6 (ip : list Z) (ones : Z) | NOv4 (ip : list Z) (ones : Z).

Notation val := (value cval).

Inductive case :=
(* d -> marshalInternal -> text -> unmarshalInternal -> back *)
| CDur (d : Z) (text : list Z) (back : option Z)
(* arbitrary text -> unmarshalInternal *)
| CDurParse (text : list Z) (r : option Z)
(* n -> StringSize.MarshalJSON -> text (inside the quotes) -> StringSize.UnmarshalJSON -> back *)
| CSize (n : Z) (text : list Z) (back : option Z)
(* ASCII text -> StringSize.UnmarshalJSON *)
| CSizeParse (text : list Z) (r : option Z)
(* the library by itself: bytefmt.ByteSize n, bytefmt.ToBytes text *)
| CByteSize (n : Z) (text : list Z)
| CToBytes (text : list Z) (r : option Z)
(* enum value -> json.Marshal -> text -> UnmarshalJSON -> back *)
| CEnum (e : enum_id) (v : eval) (text : list Z) (back : option eval)
| CEnumParse (e : enum_id) (text : list Z) (r : option eval)
| CTransports (s : pset) (texts : list (list Z)) (back : option pset)
(* IPv4 network -> MarshalJSON -> text -> UnmarshalJSON -> back *)
| CNet (ip : list Z) (ones : Z) (text : list Z) (back : net_obs)
| CNetParse (text : list Z) (r : net_obs)
(* 16 address bytes -> net.IP.String -> text -> net.ParseIP -> 16 bytes back *)
| CIp6 (ip : list Z) (text : list Z) (back : option (list Z))
(* 16-byte network (ip, CIDRMask(ones, 128)) -> MarshalJSON -> text -> UnmarshalJSON -> back *)
| CNet6 (ip : list Z) (ones : Z) (text : list Z) (back : net_obs)
(* AlwaysAvailableTrack: valid = validate() passes; tree = json.Marshal parsed generically; back = UnmarshalJSON of it *)
| CTrack (c : list Z) (r n : Z) (m : bool) (valid : bool) (tree : json) (back : option (list Z * Z * Z * bool))
(* one field (index idx of schema 0 global / 1 path) of the real struct type holding value v: valid = v is a
   value the decoders can hold (no nil slice, valid tracks/credentials, canonical networks);
   key/sub = the member encoding/json wrote (None: omitted); back = jsonwrapper.Decode of those bytes;
   creds = the strings of the tree that Credential.validate accepts (oracle values) *)
| KField (schema idx : Z) (creds : list (list Z)) (valid : bool) (v : val) (key : list Z) (sub : option json)
         (back : option val)
(* a whole struct of the real type (schema 0 / 1) and everything encoding/json wrote for it *)
| KEncAll (schema : Z) (vs : list val) (tree : json)
(* a JSON tree (mutated output) decoded by jsonwrapper into the real type of schema 0..3:
   r = None if rejected, else the fields (index, value) whose keys occur in the tree *)
| KDecTree (schema : Z) (creds : list (list Z)) (tree : json) (r : option (list (Z * val)))
(* observed only (oracle): Credential round trips; whole configurations
   (kind 0 global, 1 pathDefaults, 2 path): valid = the configuration passes Validate,
   equal = decode(encode c) applied as the API does gives a deep-equal configuration *)
| CCred (text : list Z) (equal : bool)
| CConf (kind : Z) (valid equal : bool).

Definition optZ_eqb (a b : option Z) : bool :=
  match a, b with Some x, Some y => x =? y | None, None => true | _, _ => false end.
Definition opt_eval_eqb (a b : option eval) : bool :=
  match a, b with Some x, Some y => eval_eqb x y | None, None => true | _, _ => false end.
Definition pset_eqb (a b : pset) : bool :=
  let '(a1, a2, a3) := a in let '(b1, b2, b3) := b in Bool.eqb a1 b1 && Bool.eqb a2 b2 && Bool.eqb a3 b3.
Definition opt_pset_eqb (a b : option pset) : bool :=
  match a, b with Some x, Some y => pset_eqb x y | None, None => true | _, _ => false end.
Definition net_eqb (a b : net_obs) : bool :=
  match a, b with
  | NOErr, NOErr => true
  | NOv4 i1 o1, NOv4 i2 o2 | NOv6 i1 o1, NOv6 i2 o2 => str_eqb i1 i2 && (o1 =? o2)
  | _, _ => false
  end.
Fixpoint strs_eqb (a b : list (list Z)) : bool :=
  match a, b with
  | [], [] => true
  | x :: r, y :: s => str_eqb x y && strs_eqb r s
  | _, _ => false
  end.

(* model result vs observation; a result outside the model's domain matches anything *)
Definition tb_matches (m : tb_result) (o : option Z) : bool :=
  match m, o with
  | TBErr, None => true
  | TBVal v, Some w => v =? w
  | TBOut, _ => true
  | _, _ => false
  end.
Definition net_matches (m : net_full) (o : net_obs) : bool :=
  match m, o with
  | NFErr, NOErr => true
  | NF4 ip n, NOv4 ip' n' | NF6 ip n, NOv6 ip' n' => str_eqb ip ip' && (n =? n')
  | _, _ => false
  end.
Definition opt_str_eqb (a b : option (list Z)) : bool :=
  match a, b with Some x, Some y => str_eqb x y | None, None => true | _, _ => false end.

(* ---- schema-level comparison: the generated schema, the codec table with the shipped oracle values *)
Definition schema_ty (k : Z) : ty codec :=
  if k =? 0 then global_ty else if k =? 1 then path_ty else if k =? 2 then opt_global_ty else opt_path_ty.
Definition schema_fields (k : Z) : list (list Z * bool * ty codec) :=
  match schema_ty k with TStruct fs => fs | _ => [] end.
Definition cred_in (creds : list (list Z)) (s : list Z) : bool := existsb (str_eqb s) creds.
Definition m_enc := enc codec cval cenc.
Definition m_dec (creds : list (list Z)) := dec codec cval (cdec (cred_in creds)) czero.
Definition veqb := value_eqb cval cval_eqb.
Definition opt_val_eqb (a b : option val) : bool :=
  match a, b with Some x, Some y => veqb x y | None, None => true | _, _ => false end.
Definition one_field (k idx : Z) : option (ty codec) :=
  match nth_error (schema_fields k) (Z.to_nat idx) with Some f => Some (TStruct [f]) | None => None end.
Definition member (key : list Z) (sub : option json) : json :=
  JObj (match sub with Some j => [(key, j)] | None => [] end).
Definition track_obs_eqb (a : option cval) (b : option (list Z * Z * Z * bool)) : bool :=
  match a, b with
  | Some (XTrack c r n m), Some (c', r', n', m') => str_eqb c c' && (r =? r') && (n =? n') && Bool.eqb m m'
  | None, None => true
  | _, _ => false
  end.

Definition ascii (s : list Z) : bool := forallb (fun c => (0 <=? c) && (c <? 128)) s.

Definition mismatch (c : case) : bool :=
  match c with
  | CDur d text back => negb (str_eqb (dur_marshal d) text && optZ_eqb (dur_unmarshal text) back)
  | CDurParse text r => negb (optZ_eqb (dur_unmarshal text) r)
  | CSize n text back => negb (str_eqb (size_marshal_m n) text && tb_matches (size_unmarshal_m text) back)
  | CSizeParse text r => ascii text && negb (tb_matches (size_unmarshal_m text) r)
  | CByteSize n text => negb (str_eqb (byte_size n) text)
  | CToBytes text r => ascii text && negb (tb_matches (to_bytes text) r)
  | CEnum e v text back => negb (str_eqb (enum_marshal e v) text && opt_eval_eqb (enum_unmarshal e text) back)
  | CEnumParse e text r => negb (opt_eval_eqb (enum_unmarshal e text) r)
  | CTransports s texts back =>
      negb (strs_eqb (transports_marshal s) texts && opt_pset_eqb (transports_unmarshal texts (false, false, false)) back)
  | CNet ip ones text back => negb (str_eqb (ipnet4_string ip ones) text && net_matches (ipnet_unmarshal_full text) back)
  | CNetParse text r => negb (net_matches (ipnet_unmarshal_full text) r)
  | CIp6 ip text back => negb (str_eqb (ip16_string ip) text && opt_str_eqb (parse_ip16 text) back)
  | CNet6 ip ones text back => negb (str_eqb (ipnet6_string ip ones) text && net_matches (ipnet_unmarshal_full text) back)
  | CTrack c r n m valid tree back =>
      negb (Bool.eqb (track_valid c r n) valid && json_eqb (track_enc c r n m) tree && track_obs_eqb (track_dec tree) back)
  | KField k idx creds _ v key sub back =>
      match one_field k idx with
      | Some t =>
          negb (json_eqb (m_enc t (VStruct [v])) (member key sub) &&
                opt_val_eqb (m_dec creds t (member key sub)) (option_map (fun b => VStruct [b]) back))
      | None => true
      end
  | KEncAll k vs tree => negb (json_eqb (m_enc (schema_ty k) (VStruct vs)) tree)
  | KDecTree k creds tree r =>
      match m_dec creds (schema_ty k) tree, r with
      | None, None => false
      | Some (VStruct vs), Some l =>
          negb (forallb (fun iv => match nth_error vs (Z.to_nat (fst iv)) with
                                   | Some v => veqb v (snd iv)
                                   | None => false
                                   end) l)
      | _, _ => true
      end
  | CCred _ _ | CConf _ _ _ => false
  end.

(* The property on the observed outputs only: what was decoded equals what was encoded. *)
Definition spec_fail (c : case) : bool :=
  match c with
  | CDur d _ back => negb (optZ_eqb back (Some d))
  | CSize n _ back => negb (optZ_eqb back (Some n))
  | CEnum _ v _ back => negb (opt_eval_eqb back (Some v))
  | CTransports s _ back => negb (opt_pset_eqb back (Some s))
  | CNet ip ones _ back => negb (net_eqb back (NOv4 ip ones))
  | CIp6 ip _ back => negb (opt_str_eqb back (Some ip))
  (* a 16-byte IPv4-mapped network and its 4-byte form are the same network *)
  | CNet6 ip ones _ back =>
      negb (net_eqb back (if is4in6 ip then NOv4 (skipn 12 ip) (ones - 96) else NOv6 ip ones))
  | CTrack c r n m valid _ back => valid && negb (track_obs_eqb (Some (XTrack c r n m)) back)
  | KField _ _ _ valid v _ _ back => valid && negb (opt_val_eqb back (Some v))
  | CCred _ equal => negb equal
  | CConf _ valid equal => valid && negb equal
  | KEncAll _ _ _ | KDecTree _ _ _ _
  | CDurParse _ _ | CSizeParse _ _ | CByteSize _ _ | CToBytes _ _ | CEnumParse _ _ _ | CNetParse _ _ => false
  end.
