(* Correspondence cases for C06. The drivers ran the real conf.IsValidPathName, filepath.Clean/Abs,
   recordstore.CommonPath, the real recorder, recordstore.FindSegments on a real directory tree,
   the real API handler onRecordingDeleteSegment and the real path manager entry points. *)
From Coq Require Import List ZArith Bool.
Require Import MTX.Lib.PathClean MTX.Model.C26_RecPath MTX.Model.C06_PathName MTX.Model.C06_Listing.
Import ListNotations.
Local Open Scope Z_scope.

(* time.Time as the drivers ship it: Unix seconds, nanoseconds, zone offset in seconds *)
Definition inst (u ns off : Z) : instant := mkI u ns off.

Inductive del_obs := ODInvalid | ODNoConf | ODEscapes | ODRemove (p : list Z).

(* one path configuration of a FindAllPathsWithSegments call: regexp = (conf.Regexp != nil), key = conf.Name,
   f/ts = RecordPath/RecordFormat, tbl = the regexp oracle: (name, conf.Regexp matches name) for every
   name placed in the tree, decoded by the real Path.Decode or returned *)
Inductive lc_obs := LC (regexp : bool) (key f : list Z) (ts : bool) (tbl : list (list Z * bool)).

Inductive case :=
  (* IsValidPathName(n): 0 = nil, 1..5 = the five errors in source order *)
| KName (n : list Z) (err : Z)
  (* filepath.Clean(p); filepath.Abs(p) with the working directory cwd; recordstore.CommonPath(f) *)
| KClean (p out : list Z)
| KAbs (cwd p out : list Z)
| KCommon (f out : list Z)
  (* the real recorder (PathFormat f, format ts, PathName n, first sample at t) announced `file`;
     base_abs = Abs(CommonPath(f)), file_abs = Abs(file), both by the real filepath package *)
| KFile (cwd f : list Z) (ts : bool) (n : list Z) (t : instant) (file base_abs file_abs : list Z)
  (* FindSegments(conf{f, ts}, n) over a directory tree: refused = "invalid path name" error;
     files = every regular file of the tree with the flag "returned as a segment" *)
| KFind (loff : Z) (cwd f : list Z) (ts : bool) (n : list Z) (refused : bool) (base_abs : list Z)
        (files : list (list Z * bool))
  (* onRecordingDeleteSegment(path = n, start = t); found = conf.FindPathConf(paths, n) succeeded *)
| KDelete (cwd f : list Z) (ts : bool) (found : bool) (n : list Z) (t : instant) (base_abs : list Z) (o : del_obs)
  (* pathManager.{FindPathConf, Describe, AddReader, AddPublisher}(name n): resolves = conf.FindPathConf
     succeeds on the same configuration; accepted = no error from all four; created = the path name
     the manager created when it accepted *)
| KEntry (n : list Z) (resolves accepted : bool) (created : list Z)
  (* FindAllPathsWithSegments(confs) with working directory cwd over a tree whose regular files are
     `files` (sorted = WalkDir order); out = the returned names *)
| KList (loff : Z) (cwd : list Z) (confs : list lc_obs) (files : list (list Z)) (out : list (list Z)).

Definition tbl_match (tbl : list (list Z * bool)) (p : list Z) : bool :=
  existsb (fun e => bytes_eqb (fst e) p && snd e) tbl.

Definition to_lconf (c : lc_obs) : lconf :=
  match c with
  | LC true _ f ts tbl => LRegexp (tbl_match tbl) f ts
  | LC false key f ts _ => LFixed key f ts
  end.

(* the regular files WalkDir(root) visits: WalkDir("") fails at once *)
Definition walk_files (files : list (list Z)) (root : list Z) : list (list Z) :=
  match root with
  | [] => []
  | _ => filter (is_prefix (if bytes_eqb root [47] then root else root ++ [47])) files
  end.

Definition mem_name (p : list Z) (l : list (list Z)) : bool := existsb (bytes_eqb p) l.

Definition verr_code (e : option verr) : Z :=
  match e with None => 0 | Some EEmpty => 1 | Some ELead => 2 | Some ETrail => 3 | Some EChars => 4 | Some EDots => 5 end.

Definition del_obs_of (r : del_result) : del_obs :=
  match r with
  | DInvalidName => ODInvalid
  | DNoConf => ODNoConf
  | DEscapes1 | DEscapes2 => ODEscapes
  | DRemove p => ODRemove p
  end.

Definition del_obs_eqb (a b : del_obs) : bool :=
  match a, b with
  | ODInvalid, ODInvalid | ODNoConf, ODNoConf | ODEscapes, ODEscapes => true
  | ODRemove p, ODRemove q => bytes_eqb p q
  | _, _ => false
  end.

Definition mismatch (c : case) : bool :=
  match c with
  | KName n e => negb (verr_code (is_valid_path_name n) =? e)
  | KClean p out => negb (bytes_eqb (clean p) out)
  | KAbs cwd p out => negb (bytes_eqb (abs cwd p) out)
  | KCommon f out => negb (bytes_eqb (common_path f) out)
  | KFile cwd f ts n t file base_abs file_abs =>
      negb (bytes_eqb (segment_file f ts n t) file && bytes_eqb (abs cwd file) file_abs
            && bytes_eqb (abs cwd (common_path f)) base_abs)
  | KFind loff cwd f ts n refused base_abs files =>
      negb (Bool.eqb refused (negb (valid n))
            && bytes_eqb (abs cwd (common_path f)) base_abs
            && forallb (fun vf => Bool.eqb (find_candidate loff cwd f ts n (fst vf)) (snd vf)) files)
  | KDelete cwd f ts found n t base_abs o =>
      negb (del_obs_eqb (del_obs_of (delete_segment cwd f ts found n t)) o
            && bytes_eqb (abs cwd (common_path f)) base_abs)
  | KEntry n resolves accepted created =>
      negb (Bool.eqb (pm_accepts n resolves) accepted)
  | KList loff cwd confs files out =>
      let m := find_all (walk_files files) loff cwd (map to_lconf confs) in
      negb (forallb (fun p => mem_name p out) m && forallb (fun p => mem_name p m) out)
  end.

(* ---- the property, restated on the observed values only ---- *)

Definition spec_char (c : Z) : bool :=
  existsb (fun r => (fst r <=? c) && (c <=? snd r)) [(48, 57); (65, 90); (97, 122); (95, 95); (45, 45); (46, 46); (47, 47)].

(* one pass: d = Some k when the current segment consists of k dots only (k capped at 3) *)
Fixpoint dot_segment (d : option nat) (s : list Z) : bool :=
  let bad := match d with Some 1%nat | Some 2%nat => true | _ => false end in
  match s with
  | [] => bad
  | c :: r =>
      if c =? 47 then bad || dot_segment (Some O) r
      else if c =? 46 then dot_segment (match d with Some k => Some (Nat.min 3 (S k)) | None => None end) r
      else dot_segment None r
  end.

Definition shape_ok (n : list Z) : bool :=
  match n with
  | [] => false
  | c0 :: _ => negb (c0 =? 47) && negb (last n 0 =? 47) && forallb spec_char n && negb (dot_segment (Some O) n)
  end.

(* containment is claimed for formats/working directories covered by the theorem *)
Definition covered (cwd f : list Z) : bool := format_ok f && cwd_ok cwd.

Definition spec_fail (c : case) : bool :=
  match c with
  | KName n e => (e =? 0) && negb (shape_ok n)
  | KClean _ _ | KAbs _ _ _ | KCommon _ _ => false
  | KFile cwd f ts n t file base_abs file_abs =>
      negb (shape_ok n) || (covered cwd f && negb (path_under base_abs file_abs))
  | KFind loff cwd f ts n refused base_abs files =>
      existsb (fun vf => snd vf && (negb (shape_ok n) || (covered cwd f && negb (path_under base_abs (fst vf))))) files
      || (negb refused && negb (shape_ok n))
  | KDelete cwd f ts found n t base_abs o =>
      match o with
      | ODRemove p => negb (shape_ok n) || (covered cwd f && negb (path_under base_abs p))
      | _ => false
      end
  | KEntry n resolves accepted created =>
      accepted && (negb (shape_ok n) || negb (bytes_eqb created n))
  | KList loff cwd confs files out =>
      (* every listed name has the documented shape and matches one of the configurations: the key of a
         non-regexp one, or the regular expression (oracle table) of a regexp one *)
      existsb (fun p => negb (shape_ok p)
                        || negb (existsb (fun c => match c with
                                                   | LC true _ _ _ tbl => tbl_match tbl p
                                                   | LC false key _ _ _ => bytes_eqb key p
                                                   end) confs)) out
  end.
