(* Correspondence cases for C17: one schedule driven through the real stream.Stream / stream.Reader.
   A stream format is the pair (media index, format index within the media); `fmts` lists the pairs of the stream.
   A case lists the atomic steps in the order the driver made them happen, each with what was observed right after
   it on the real objects:
     - Reg r m f keys: the call r.OnData(media m, format f, cb) on a reader that was not added yet, and the pairs
       found in the Reader's own r.onDatas table after it;
     - Sto l pulled snap subs, for every other label:
       - for a ReaderPull step: the item whose callback started (NoPull: Pull answered false and the goroutine exited),
       - a snapshot (reader id, OutboundFramesDiscarded(), occupied ring slots) of every reader added so far whose
         state cannot change concurrently,
       - per stream format (same order as fmts) the readers present in streamFormat.onDatas;
   and at the end, per reader, the callbacks that returned (in order) and whether RemoveReader has returned.
   The forced "raced switch" of the driver (a WriteUnit of the current publisher waits for Stream.mutex while a new
   publisher is installed) appears as LNewSub B followed by LWrite A ...: the order Props/C17.v
   (C17_write_call_atomic) gives for the code. *)
From Coq Require Import List ZArith Bool Arith.
Require Export MTX.Model.C17_StreamSM.
Import ListNotations.
Local Open Scope Z_scope.

(* monomorphic constructors: the cases files are large and tuples/options are slow to elaborate *)
Inductive okey := K (m f : Z).                    (* (media index, format index within the media) *)
Inductive oitem := It (m f u : Z).
Inductive opull := NoPull | Pulled (m f u : Z).
Inductive osnap := Sn (r d o : Z).
Inductive ofin := Fin (r : Z) (delivered : list oitem) (joined : bool).
Inductive olabel :=
| LWrite (ss m f u : Z) | LPull (r : Z) | LDone (r : Z) (ok : bool) | LOnData (r m f : Z) | LAdd (r : Z)
| LRemBegin (r : Z) | LRemClose (r : Z) | LRemJoin (r : Z) | LNewSub (ss : Z).
(* Sto: a step with what was observed after it; Reg: an OnData call with the (media, format) pairs found in the
   Reader's own r.onDatas after it *)
Inductive ostep :=
| Sto (l : olabel) (p : opull) (snap : list osnap) (subs : list (list Z))
| Reg (r m f : Z) (keys : list okey).

Inductive case0 := Hist (fmts : list okey) (qsize : Z) (steps : list ostep) (final : list ofin).
Definition case := case0.

Definition un_key (k : okey) : fkey := match k with K m f => (m, f) end.
Definition un_item (i : oitem) : item := match i with It m f u => ((m, f), u) end.
Definition un_pull (p : opull) : option item := match p with NoPull => None | Pulled m f u => Some ((m, f), u) end.
Definition un_snap (x : osnap) : Z * Z * Z := match x with Sn r d o => (r, d, o) end.
Definition un_fin (x : ofin) : Z * list item * bool := match x with Fin r del j => (r, map un_item del, j) end.
Definition un_label (l : olabel) : label :=
  match l with
  | LWrite ss m f u => Write ss (m, f) u
  | LPull r => ReaderPull r
  | LDone r ok => ReaderDone r ok
  | LOnData r m f => OnData r m f
  | LAdd r => AddReader r
  | LRemBegin r => RemoveBegin r
  | LRemClose r => RemoveClose r
  | LRemJoin r => RemoveJoin r
  | LNewSub ss => NewSub ss
  end.

Definition item_eqb (a b : item) : bool := keyb (fst a) (fst b) && (snd a =? snd b).

Definition list_eqb {A} (eqb : A -> A -> bool) :=
  fix go (a b : list A) : bool :=
    match a, b with
    | [], [] => true
    | x :: a', y :: b' => eqb x y && go a' b'
    | _, _ => false
    end.

Definition opt_item_eqb (a b : option item) : bool :=
  match a, b with
  | Some x, Some y => item_eqb x y
  | None, None => true
  | _, _ => false
  end.

(* ---- model vs observation ------------------------------------------------------------------- *)

Definition same_set (a b : list Z) : bool :=
  (Nat.eqb (length a) (length b)) && forallb (fun x => memZ x b) a.

Definition snap_ok (s : state) (snap : list (Z * Z * Z)) : bool :=
  forallb (fun e => match e with
                    | (r, d, o) => match s_readers s r with
                                   | Some rd => (Z.of_nat (r_discarded rd) =? d) && (Z.of_nat (occupancy (r_buf rd)) =? o)
                                   | None => false
                                   end
                    end) snap.

Definition same_keys (a b : list fkey) : bool :=
  forallb (fun x => memK x b) a && forallb (fun x => memK x a) b.

Fixpoint subs_ok (s : state) (fmts : list fkey) (subs : list (list Z)) : bool :=
  match fmts, subs with
  | [], [] => true
  | f :: fr, l :: lr => same_set (s_onDatas s f) l && subs_ok s fr lr
  | _, _ => false
  end.

Definition pull_ok (s : state) (l : label) (pulled : option item) : bool :=
  match l with
  | ReaderPull r =>
      match s_readers s r with
      | Some rd => match r_go rd with
                   | Busy x => opt_item_eqb (Some x) pulled
                   | Exited => opt_item_eqb None pulled
                   | Idle => false
                   end
      | None => false
      end
  | _ => opt_item_eqb None pulled
  end.

Fixpoint steps_ok (s : state) (steps : list ostep) : option state :=
  match steps with
  | [] => Some s
  | Sto l0 p snap0 subs :: t =>
      let l := un_label l0 in let pulled := un_pull p in let snap := map un_snap snap0 in
      match step s l with
      | Some s1 => if pull_ok s1 l pulled && snap_ok s1 snap && subs_ok s1 (s_formats s1) subs
                   then steps_ok s1 t else None
      | None => None
      end
  | Reg r m f keys :: t =>
      match step s (OnData r m f) with
      | Some s1 => if same_keys (keys_of (s_prep s1 r)) (map un_key keys) then steps_ok s1 t else None
      | None => None
      end
  end.

Definition final_ok (s : state) (final : list (Z * list item * bool)) : bool :=
  forallb (fun e => match e with
                    | (r, del, joined) =>
                        match s_readers s r with
                        | Some rd => list_eqb item_eqb (r_delivered rd) del &&
                                     Bool.eqb (match r_phase rd with Joined => true | _ => false end) joined
                        | None => false
                        end
                    end) final.

Definition mismatch (c : case) : bool :=
  match c with
  | Hist fmts qsize steps final =>
      match steps_ok (init (map un_key fmts) (Z.to_nat qsize)) steps with
      | Some s => negb (final_ok s (map un_fin final))
      | None => true
      end
  end.

(* ---- the property on the observed schedule alone (does not use `step`) --------------------------- *)

Record srd := {
  sr_id : Z; sr_subs : list fkey; (* the (media, format) pairs of the reader's OnData calls *)
  sr_att : bool;          (* between AddReader and RemoveBegin *)
  sr_closed : bool;       (* RemoveClose seen *)
  sr_joined : bool;       (* RemoveJoin seen: RemoveReader has returned *)
  sr_busy : bool;         (* a callback is running *)
  sr_off : list item;     (* written for this reader by the current publisher, in write order *)
  sr_pulled : list item;  (* callbacks started, in order *)
  sr_done : nat;          (* callbacks returned *)
  sr_disc : Z; sr_occ : Z; (* last snapshot *)
}.

Definition upd_srd (f : srd -> srd) (r : Z) (rs : list srd) : list srd :=
  map (fun x => if sr_id x =? r then f x else x) rs.

Fixpoint find_srd (r : Z) (rs : list srd) : option srd :=
  match rs with [] => None | x :: t => if sr_id x =? r then Some x else find_srd r t end.

Fixpoint is_subseq (a b : list item) : bool :=
  match b with
  | [] => match a with [] => true | _ => false end
  | y :: b' => match a with
               | [] => true
               | x :: a' => if item_eqb x y then is_subseq a' b' else is_subseq a b'
               end
  end.

Fixpoint nodupb (l : list Z) : bool :=
  match l with [] => true | a :: r => negb (memZ a r) && nodupb r end.

Definition cur_is (cur : option Z) (ss : Z) : bool := match cur with Some c => c =? ss | None => false end.

(* the pairs reader r asked for so far (its OnData calls), from the list of all (reader, pair) calls *)
Definition asked_by (r : Z) (pre : list (Z * fkey)) : list fkey :=
  map snd (filter (fun e => fst e =? r) pre).

(* effect of a label on the bookkeeping + the checks that belong to the label; None = property violated.
   `pre`: the OnData calls made so far. *)
Definition spec_label (pre : list (Z * fkey)) (cur : option Z) (rs : list srd) (l : label) (pulled : option item)
  : option (option Z * list srd) :=
  match l with
  | NewSub ss => Some (Some ss, rs)
  | OnData _ _ _ => Some (cur, rs)
  | AddReader r =>
      Some (cur, rs ++ [{| sr_id := r; sr_subs := asked_by r pre; sr_att := true; sr_closed := false; sr_joined := false;
                           sr_busy := false; sr_off := []; sr_pulled := []; sr_done := 0; sr_disc := 0; sr_occ := 0 |}])
  | RemoveBegin r =>
      Some (cur, upd_srd (fun x => {| sr_id := sr_id x; sr_subs := sr_subs x; sr_att := false; sr_closed := sr_closed x;
                                      sr_joined := sr_joined x; sr_busy := sr_busy x; sr_off := sr_off x;
                                      sr_pulled := sr_pulled x; sr_done := sr_done x; sr_disc := sr_disc x;
                                      sr_occ := sr_occ x |}) r rs)
  | RemoveClose r =>
      Some (cur, upd_srd (fun x => {| sr_id := sr_id x; sr_subs := sr_subs x; sr_att := sr_att x; sr_closed := true;
                                      sr_joined := sr_joined x; sr_busy := sr_busy x; sr_off := sr_off x;
                                      sr_pulled := sr_pulled x; sr_done := sr_done x; sr_disc := sr_disc x;
                                      sr_occ := sr_occ x |}) r rs)
  | RemoveJoin r =>
      match find_srd r rs with
      | Some x =>
          if sr_busy x then None     (* RemoveReader returned while a callback of the reader is still running *)
          else Some (cur, upd_srd (fun x => {| sr_id := sr_id x; sr_subs := sr_subs x; sr_att := sr_att x;
                                      sr_closed := sr_closed x; sr_joined := true; sr_busy := sr_busy x;
                                      sr_off := sr_off x; sr_pulled := sr_pulled x; sr_done := sr_done x;
                                      sr_disc := sr_disc x; sr_occ := sr_occ x |}) r rs)
      | None => Some (cur, rs)
      end
  | Write ss f u =>
      Some (cur, map (fun x => if sr_att x && memK f (sr_subs x) && cur_is cur ss
                               then {| sr_id := sr_id x; sr_subs := sr_subs x; sr_att := sr_att x;
                                       sr_closed := sr_closed x; sr_joined := sr_joined x; sr_busy := sr_busy x;
                                       sr_off := sr_off x ++ [(f, u)]; sr_pulled := sr_pulled x;
                                       sr_done := sr_done x; sr_disc := sr_disc x; sr_occ := sr_occ x |}
                               else x) rs)
  | ReaderPull r =>
      match find_srd r rs, pulled with
      | Some x, Some it =>
          if sr_joined x then None                   (* a callback after RemoveReader returned *)
          else if negb (memK (fst it) (sr_subs x)) then None     (* foreign format *)
          else Some (cur, upd_srd (fun x => {| sr_id := sr_id x; sr_subs := sr_subs x; sr_att := sr_att x;
                                      sr_closed := sr_closed x; sr_joined := sr_joined x; sr_busy := true;
                                      sr_off := sr_off x; sr_pulled := sr_pulled x ++ [it]; sr_done := sr_done x;
                                      sr_disc := sr_disc x; sr_occ := sr_occ x |}) r rs)
      | None, Some _ => None                          (* a callback of a reader that was never added *)
      | _, None => Some (cur, rs)
      end
  | ReaderDone r ok =>
      match find_srd r rs with
      | Some x =>
          if sr_joined x then None
          else Some (cur, upd_srd (fun x => {| sr_id := sr_id x; sr_subs := sr_subs x; sr_att := sr_att x;
                                      sr_closed := sr_closed x; sr_joined := sr_joined x; sr_busy := false;
                                      sr_off := sr_off x; sr_pulled := sr_pulled x; sr_done := S (sr_done x);
                                      sr_disc := sr_disc x; sr_occ := sr_occ x |}) r rs)
      | None => None
      end
  end.

Definition is_write (l : label) : bool := match l with Write _ _ _ => true | _ => false end.

(* the checks that belong to the snapshot taken after a step *)
Fixpoint spec_snap (qsize : Z) (l : label) (rs : list srd) (snap : list (Z * Z * Z)) : option (list srd) :=
  match snap with
  | [] => Some rs
  | (r, d, o) :: t =>
      match find_srd r rs with
      | Some x =>
          let counted_ok :=
            (d =? sr_disc x) ||
            (* a unit was skipped: only in a Write, only with the queue full, counted exactly once *)
            (is_write l && (d =? sr_disc x + 1) && (sr_occ x =? qsize) && (o =? sr_occ x)) in
          let accounted :=
            sr_closed x ||
            (Z.of_nat (length (sr_off x)) =? Z.of_nat (length (sr_pulled x)) + o + d) in
          if counted_ok && accounted
          then spec_snap qsize l (upd_srd (fun x => {| sr_id := sr_id x; sr_subs := sr_subs x; sr_att := sr_att x;
                                      sr_closed := sr_closed x; sr_joined := sr_joined x; sr_busy := sr_busy x;
                                      sr_off := sr_off x; sr_pulled := sr_pulled x; sr_done := sr_done x;
                                      sr_disc := d; sr_occ := o |}) r rs) t
          else None
      | None => None
      end
  end.

Fixpoint spec_walk (qsize : Z) (pre : list (Z * fkey)) (cur : option Z) (rs : list srd) (steps : list ostep)
  : option (list srd) :=
  match steps with
  | [] => Some rs
  | Sto l0 p snap0 _ :: t =>
      let l := un_label l0 in let pulled := un_pull p in let snap := map un_snap snap0 in
      match spec_label pre cur rs l pulled with
      | Some (cur1, rs1) =>
          match spec_snap qsize l rs1 snap with
          | Some rs2 => spec_walk qsize pre cur1 rs2 t
          | None => None
          end
      | None => None
      end
  | Reg r m f _ :: t => spec_walk qsize (pre ++ [(r, (m, f))]) cur rs t    (* the reader asks for (m, f) *)
  end.

Definition spec_final (rs : list srd) (final : list (Z * list item * bool)) : bool :=
  forallb (fun x =>
             (* order, nothing twice, nothing that was not written for this reader *)
             is_subseq (sr_pulled x) (sr_off x) && nodupb (map snd (sr_pulled x)) &&
             forallb (fun it => memK (fst it) (sr_subs x)) (sr_pulled x)) rs &&
  forallb (fun e => match e with
                    | (r, del, joined) =>
                        match find_srd r rs with
                        | Some x => list_eqb item_eqb del (firstn (sr_done x) (sr_pulled x))
                        | None => match del with [] => true | _ => false end
                        end
                    end) final.

Definition spec_fail (c : case) : bool :=
  match c with
  | Hist fmts qsize steps final =>
      match spec_walk qsize [] None [] steps with
      | Some rs => negb (spec_final rs (map un_fin final))
      | None => true
      end
  end.
