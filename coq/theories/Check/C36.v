(* Correspondence cases for C36: the body of a real /metrics scrape, and the samples the entities call for. *)
From Coq Require Import List ZArith Bool.
Require Export MTX.Model.C36_Metrics.
Import ListNotations.
Local Open Scope Z_scope.

(* body; metric names the expectation list is complete for; expected (name, labels sorted by key, integer value) *)
Inductive case := Scrape (body : bytes) (covered : list bytes) (expected : list (bytes * list label * Z)).

Fixpoint beqb (a b : bytes) : bool :=
  match a, b with
  | [], [] => true
  | x :: a', y :: b' => (x =? y) && beqb a' b'
  | _, _ => false
  end.

Fixpoint labels_eqb (a b : list label) : bool :=
  match a, b with
  | [], [] => true
  | (k1, v1) :: a', (k2, v2) :: b' => beqb k1 k2 && beqb v1 v2 && labels_eqb a' b'
  | _, _ => false
  end.

Definition is_data_line (l : bytes) : bool := negb ((match l with [] => true | _ => false end) || starts_with 35 l).

(* model vs implementation: every sample line of the real body is exactly what the model renders for the sample it
   parses to (escaping, label order, separators) *)
Definition mismatch (c : case) : bool :=
  match c with
  | Scrape body _ _ =>
      match split_lines [] body with
      | None => true
      | Some ls => negb (forallb (fun l => match parse_sample l with
                                           | Some s => beqb (s_name s ++ render_tags escape_label (s_tags s) ++ [32] ++ s_value s) l
                                           | None => false end)
                                 (filter is_data_line ls))
      end
  end.

Definition matches (e : bytes * list label * Z) (s : sample) : bool :=
  let '(n, ls, v) := e in
  beqb (s_name s) n && (match s_tags s with Some l => labels_eqb l ls | None => false end) && beqb (s_value s) (format_int v).

(* the property: the body is valid exposition text; every expected sample is present with exactly the entity's
   label values and counter; and no other sample exists under the covered metric names (nothing injected) *)
Definition spec_fail (c : case) : bool :=
  match c with
  | Scrape body covered expected =>
      match parse body with
      | None => true
      | Some ss =>
          negb (forallb (fun e => existsb (matches e) ss) expected
                && forallb (fun s => negb (existsb (beqb (s_name s)) covered) || existsb (fun e => matches e s) expected) ss)
      end
  end.
