(* Correspondence cases for C36: one real /metrics scrape — what every stub server returned (all entity kinds), the
   query, the body the real onMetrics handler wrote, and the samples the driver's independent reading of the
   property calls for.

   mismatch  : the body must be, byte for byte, what the model renders for these entities and this query
               (section logic, filters, table of metric names / label keys / entity fields, tags, escaping).
   spec_fail : the property on the observed body only (parsed with the reference parser): valid exposition text,
               every expected sample present, no other sample under any known metric name. *)
From Coq Require Import List ZArith Bool.
From Coq Require Export Uint63.
Require Export MTX.Model.C36_Metrics MTX.Model.C36_Sections MTX.Model.C36_Concurrent.
Import ListNotations.
Local Open Scope Z_scope.

(* ---- compact byte strings: 7 bytes per primitive 63-bit integer (big-endian), n = number of bytes ---- *)
Definition w7 (w : int) : bytes :=
  map (fun s => Uint63.to_Z (Uint63.land (Uint63.lsr w s) 255)) [48; 40; 32; 24; 16; 8; 0]%uint63.
Definition B (n : Z) (ws : list int) : bytes := firstn (Z.to_nat n) (concat (map w7 ws)).

(* ---- what the stubs returned ---- *)
Definition E (str : list (bytes * bytes)) (num : list (bytes * Z)) (flt : list (bytes * bytes)) (readers : list bytes) : entity :=
  {| e_str := str; e_num := num; e_flt := flt; e_readers := readers |}.

(* the same with the field names of the kind given once (preamble of the cases file) *)
Definition EZ (sn nn fn : list bytes) (sv : list bytes) (nv : list Z) (fv : list bytes) (readers : list bytes) : entity :=
  E (combine sn sv) (combine nn nv) (combine fn fv) readers.

(* ---- what the property calls for ---- *)
Inductive val := VI (z : Z) | VT (tok : bytes).       (* integer counter / FormatFloat token *)
(* one entity (or the zero lines of one kind): its label set sorted by key (None: no label set) and, per metric
   name, the value *)
Inductive expent := X (tags : option (list label)) (vals : list (bytes * val)).

Definition XE (tags : option (list label)) (names : list bytes) (vals : list val) : expent := X tags (combine names vals).
Definition XZ (names : list bytes) : expent := X None (map (fun n => (n, VI 0)) names).

Inductive case :=
| Scrape (paths : option (list entity)) (fwd : list (bytes * option (list entity))) (srv : list (kind * listing))
         (q : query) (body : bytes) (covered : list bytes) (expected : list expent)
(* several scrapes of ONE Metrics instance (same servers, same entities), interleaved: `sched` lists the request
   (index into reqs) resumed at each step; a resumed request runs up to its next list call on a server. Per request:
   its query, the body it received, the samples the property calls for. *)
| Overlap (paths : option (list entity)) (fwd : list (bytes * option (list entity))) (srv : list (kind * listing))
          (covered : list bytes) (reqs : list (query * bytes * list expent)) (sched : list Z).

Fixpoint labels_eqb (a b : list label) : bool :=
  match a, b with
  | [], [] => true
  | (k1, v1) :: a', (k2, v2) :: b' => beqb k1 k2 && beqb v1 v2 && labels_eqb a' b'
  | _, _ => false
  end.
Definition tags_eqb (a b : option (list label)) : bool :=
  match a, b with
  | None, None => true
  | Some x, Some y => labels_eqb x y
  | _, _ => false
  end.

Fixpoint obodies_eqb (a : list (option bytes)) (b : list bytes) : bool :=
  match a, b with
  | [], [] => true
  | Some x :: a', y :: b' => beqb x y && obodies_eqb a' b'
  | _, _ => false
  end.

(* model vs implementation: the whole body; and the shipped float tokens satisfy the theorem's hypothesis *)
Definition mismatch (c : case) : bool :=
  match c with
  | Scrape paths fwd srv q body _ _ =>
      let st := mk_state paths fwd srv in negb (beqb body (body_of st q)) || negb (wf_stateb st)
  | Overlap paths fwd srv _ reqs sched =>
      (* the model of concurrent scrapes (per-request buffer) run under the shipped schedule, then completed: every
         request must have received exactly the body the model gives it *)
      let st := mk_state paths fwd srv in
      let qs := map (fun r => fst (fst r)) reqs in
      negb (wf_stateb st)
      || negb (obodies_eqb (CC.overlapped_bodies CC.PerRequest st qs (map Z.to_nat sched)) (map (fun r => snd (fst r)) reqs))
  end.

Definition val_tok (v : val) : bytes := match v with VI z => format_int z | VT t => t end.
Definition flat_expected (ex : list expent) : list (bytes * option (list label) * bytes) :=
  flat_map (fun x => match x with X t vs => map (fun nv => (fst nv, t, val_tok (snd nv))) vs end) ex.
Definition matches (e : bytes * option (list label) * bytes) (s : sample) : bool :=
  let '(n, t, v) := e in beqb (s_value s) v && beqb (s_name s) n && tags_eqb (s_tags s) t.

(* the property: the body is valid exposition text; every expected sample is present with exactly the entity's
   label values and value; no other sample exists under the covered metric names (nothing injected, nothing of an
   entity that does not pass the filter, nothing twice) *)
Definition body_fail (body : bytes) (covered : list bytes) (expected : list expent) : bool :=
  match parse body with
  | None => true
  | Some ss =>
      let fe := flat_expected expected in
      let cov := filter (fun s => existsb (beqb (s_name s)) covered) ss in
      negb (forallb (fun e => existsb (matches e) ss) fe
            && forallb (fun s => existsb (fun e => matches e s) fe) cov
            && (Z.of_nat (length cov) =? Z.of_nat (length fe)))
  end.

(* overlapping scrapes: the same judgement on EACH response, whatever the other requests did meanwhile *)
Definition spec_fail (c : case) : bool :=
  match c with
  | Scrape _ _ _ _ body covered expected => body_fail body covered expected
  | Overlap _ _ _ covered reqs _ => existsb (fun r => body_fail (snd (fst r)) covered (snd r)) reqs
  end.
