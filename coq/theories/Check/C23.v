(* Correspondence cases for C23: the driver pushed sequences of units through the real
   subStreamFormat.writeUnitInner (with the real newRTPEncoder / rtpDecoder of the format) and recorded,
   per unit, the incoming RTP packets, the delivered payload, the RTP packets handed to writeRTSP and
   what the format's real rtpDecoder returns for each of them.

   Since b2-c23 a case is the whole LIFE of one format of one Stream (CLife): the steps are sub stream
   initialisations (NewSub: the real subStreamFormat.initialize + initialize2 on the shared streamFormat, with the
   per-format state observed afterwards) and units, in the order they happened - on the fixture's streamFormat or on a
   real always-available Stream (Stream.Initialize / SubStream.Initialize / StartOfflineSubStream, observed by a Reader).

   mismatch  : the modelled formats - H.264 (fmt 0), H.265 (1), Opus (8), G.711 (13), LPCM (14): the glue model +
               the packetizer model must produce exactly the observed packets (or the observed error / panic),
               and the decoder model exactly the observed decoder results.
   spec_fail : every format — the property on the observed values only.
   CConf     : which udpMaxPayloadSize values the real conf.Load accepts. *)
From Coq Require Import List ZArith Bool.
From Coq Require Export Uint63.
Require Import MTX.Lib.IntWrap.
Require Export MTX.Model.C23_RtpH264 MTX.Model.C23_RtpGlue.
Require Export MTX.Model.C23_RtpH265 MTX.Model.C23_RtpAudio MTX.Model.C23_RtpGlueInst MTX.Model.C23_RtpLife.
Import ListNotations.
Local Open Scope Z_scope.

(* ---- compact byte strings: 7 bytes per primitive 63-bit integer (big-endian), n = number of bytes ---- *)
Definition w7 (w : int) : bytes :=
  map (fun s => Uint63.to_Z (Uint63.land (Uint63.lsr w s) 255)) [48; 40; 32; 24; 16; 8; 0]%uint63.
Definition B (n : Z) (ws : list int) : bytes := firstn (Z.to_nat n) (concat (map w7 ws)).
Definition P (seq ts : Z) (marker : bool) (ssrc : Z) (payload : bytes) : packet :=
  mkpkt seq ts marker ssrc payload.

(* what the real rtpDecoder of the format returned for one generated packet *)
Inductive pobs := POk (payload : list bytes) | PMore | PErr.

Inductive sres :=
| SOk (out : list packet) (dec : list pobs)
| SErr
| SPanic.

(* what the per-format state of the Stream (streamFormat.rtpEncoder / rtpTimeOffset) is after a
   subStreamFormat.initialize: Some (SSRC, the encoder's CURRENT sequence number, rtpTimeOffset), None = no encoder;
   NErr = initialize returned an error (the sub stream is not installed) *)
Inductive nres := NOk (st : option (Z * Z * Z)) | NErr.

(* Step - one unit: PTS handed to writeUnit, u.PTS as delivered to the readers (= the former + ptsOffset on an
   always-available stream), incoming packets, did the incoming rtpDecoder fail, delivered payload (canonical list of
   byte strings; None = nil payload), expected per-packet timestamp increments (Opus; [] = all zero), result.
   NewSub - a new sub stream of the same Stream was initialised (SubStream.Initialize -> subStreamFormat.initialize +
   initialize2): RTP publisher?, newRTPDecoder succeeded?, firstTimeReceived, streamFormat.ptsOffset afterwards, and
   the observed per-format state afterwards. *)
Inductive step :=
| Step (ipts pts : Z) (inp : list packet) (decerr : bool) (deliv : option (list bytes))
       (deltas : list Z) (r : sres)
| NewSub (use_rtp dec_ok first : bool) (ptsoff : Z) (r : nres).

(* fmt: 0 = H264 (modelled); 16 = FLAC (rtpEncoderEmpty: no packets by design); others differential only.
   avail: newRTPEncoder knows the format. bytejoin: the decoder returns the samples of each packet, the unit
   is their concatenation (G711, LPCM). init = (ssrc, initial sequence number, rtpTimeOffset) when the encoder
   is created by initialize (non-RTP publisher). *)
Inductive case :=
| CScen (fmt max : Z) (avail bytejoin : bool) (init : option (Z * Z * Z)) (steps : list step)
(* the same with the parameters of rtplpcm: bit depth and channel count (0 0 for the other formats) *)
| CScenP (bits chans : Z) (fmt max : Z) (avail bytejoin : bool) (init : option (Z * Z * Z)) (steps : list step)
(* the whole life of one format of one Stream: alwaysAvailable / forceRemux flags of the streamFormat, init = the
   per-format state before the first step (None = no encoder yet: the first step is the NewSub of the first sub
   stream), steps = sub stream initialisations and units in the order they happened *)
| CLife (aa fr : bool) (bits chans : Z) (fmt max : Z) (avail bytejoin : bool) (init : option (Z * Z * Z))
        (steps : list step)
(* conf.Load on "udpMaxPayloadSize: u": accepted? *)
| CConf (probes : list (Z * bool)).

(* ---- equality ---- *)
Fixpoint bytes_eqb (a b : bytes) : bool :=
  match a, b with
  | [], [] => true
  | x :: a', y :: b' => (x =? y) && bytes_eqb a' b'
  | _, _ => false
  end.
Fixpoint list_eqb {A} (eq : A -> A -> bool) (a b : list A) : bool :=
  match a, b with
  | [], [] => true
  | x :: a', y :: b' => eq x y && list_eqb eq a' b'
  | _, _ => false
  end.
Definition pkt_eqb (a b : packet) : bool :=
  (a.(p_seq) =? b.(p_seq)) && (a.(p_ts) =? b.(p_ts)) && Bool.eqb a.(p_marker) b.(p_marker)
  && (a.(p_ssrc) =? b.(p_ssrc)) && bytes_eqb a.(p_payload) b.(p_payload).

(* ---- running the models: generic in the packetizer (life_step of Model/C23_RtpLife.v = initialize / initialize2 /
   writeUnitInner) and in the decoder ---- *)
Definition pobs_eqb (a b : pobs) : bool :=
  match a, b with
  | POk x, POk y => list_eqb bytes_eqb x y
  | PMore, PMore => true
  | PErr, PErr => true
  | _, _ => false
  end.

(* the model state against the observed per-format state *)
Definition gstate_eqb (max : Z) (g : gstate) (st : option (Z * Z * Z)) : bool :=
  match g.(g_enc), st with
  | None, None => true
  | Some e, Some (ssrc, sq, off) =>
      (e.(e_ssrc) =? ssrc) && (e.(e_seq) =? sq) && (g.(g_off) =? off)
      && (e.(e_max) =? (if max =? 0 then 1450 else max))
  | _, _ => false
  end.

Section Agree.
  Variable PL : Type.
  Variable encode : enc -> PL -> res (list packet * enc) + enc.
  Variable conv : list bytes -> PL.                  (* the delivered payload as the packetizer model wants it *)
  Variable D : Type.
  Variable dstep : D -> packet -> D * option pobs.   (* None = the decoder model left its domain: not compared *)
  Variable max : Z.
  Variable avail : bool.
  Variable m : lmode.

  Fixpoint dec_agree_g (d : D) (pkts : list packet) (obs : list pobs) : bool * D :=
    match pkts, obs with
    | [], [] => (true, d)
    | p :: pr, o :: or =>
        let '(d1, mo) := dstep d p in
        match mo with
        | Some mo' => if pobs_eqb mo' o then dec_agree_g d1 pr or else (false, d1)
        | None => dec_agree_g d1 pr or
        end
    | _, _ => (false, d)
    end.

  Fixpoint agree_l (s : lstate) (d : D) (steps : list step) : bool :=
    match steps with
    | [] => true
    | NewSub use_rtp dec_ok first ptsoff r :: rest =>
        let rnd := match r with NOk (Some t) => t | _ => (0, 0, 0) end in
        match life_step PL encode max avail m s (ESub PL use_rtp dec_ok rnd first ptsoff), r with
        | (s', RSub true), NOk st => gstate_eqb max s'.(l_g) st && (s'.(l_ptsoff) =? ptsoff) && agree_l s' d rest
        | (s', RSub false), NErr => agree_l s' d rest
        | _, _ => false
        end
    | Step ipts pts inp decerr deliv _ r :: rest =>
        (life_pts m s.(l_ptsoff) ipts =? pts) &&
        match life_step PL encode max avail m s (EUnit PL ipts inp decerr (option_map conv deliv)), r with
        | (_, RPanic), SPanic => true
        | (s', RErr), SErr => agree_l s' d rest
        | (s', RPkts out), SOk out' obs =>
            list_eqb pkt_eqb out out' &&
            match s'.(l_g).(g_enc) with
            | Some _ => let '(ok, d1) := dec_agree_g d out' obs in ok && agree_l s' d1 rest
            | None => agree_l s' d rest
            end
        | _, _ => false
        end
    end.
End Agree.

(* H.264: the decoder model stops at the switch into Annex-B mode (None from then on) *)
Definition pobs_of (o : dout) : option pobs :=
  match o with
  | DOk au => Some (POk au)
  | DMore | DNoPrev => Some PMore          (* rtpDecoderH264.decode maps both to (nil, nil) *)
  | DErr => Some PErr
  | DAnnexB => None                        (* outside the model: comparison stops *)
  end.
Definition h264_dstep (d : option dec) (p : packet) : option dec * option pobs :=
  match d with
  | None => (None, None)
  | Some d0 => let '(d1, mo) := decode d0 p in
               match pobs_of mo with Some o => (Some d1, Some o) | None => (None, None) end
  end.

(* rtpDecoderH265.decode: ErrMorePacketsNeeded / ErrNonStartingPacketAndNoPrevious -> (nil, nil); an access unit
   without NAL units is a nil payload *)
Definition pobs_of5 (o : dout) : pobs :=
  match o with
  | DOk [] => PMore
  | DOk au => POk au
  | DMore | DNoPrev => PMore
  | DErr | DAnnexB => PErr
  end.
Definition pobs_simple (o : dout) : pobs := match o with DOk l => POk l | DErr => PErr | _ => PMore end.

Definition init_g (max : Z) (init : option (Z * Z * Z)) : gstate :=
  match init with
  | Some (ssrc, seq0, off) => mkg (Some (enc_init max ssrc seq0)) off
  | None => mkg None 0
  end.

Definition h264_agree (max : Z) (avail : bool) (m : lmode) (s : lstate) (steps : list step) : bool :=
  agree_l (list bytes) h264_enc_fn (fun x => x) (option dec) h264_dstep max avail m s (Some dec_init) steps.
Definition h265_agree (max : Z) (avail : bool) (m : lmode) (s : lstate) (steps : list step) : bool :=
  agree_l (list bytes) h265_encode (fun x => x) dec5
          (fun d p => let '(d1, o) := decode5 d p in (d1, Some (pobs_of5 o))) max avail m s dec5_init steps.
Definition opus_agree (max : Z) (avail : bool) (m : lmode) (s : lstate) (steps : list step) : bool :=
  agree_l (list bytes) opus_encode (fun x => x) unit
          (fun d p => (d, Some (pobs_simple (simple_decode p)))) max avail m s tt steps.
(* the delivered G.711 / LPCM payload is one byte string *)
Definition lpcm_agree (ss max : Z) (avail : bool) (m : lmode) (s : lstate) (steps : list step) : bool :=
  agree_l bytes (lpcm_encode ss) (@concat Z) unit
          (fun d p => (d, Some (pobs_simple (simple_decode p)))) max avail m s tt steps.

Definition mismatch_life (m : lmode) (bits chans fmt max : Z) (avail : bool) (init : option (Z * Z * Z))
    (steps : list step) : bool :=
  let s := mkl (init_g max init) 0 in
  if fmt =? 0 then negb (h264_agree max avail m s steps)
  else if fmt =? 1 then negb (h265_agree max avail m s steps)
  else if fmt =? 8 then negb (opus_agree max avail m s steps)
  else if (fmt =? 13) || (fmt =? 14)
       then negb (lpcm_agree (lpcm_sample_size bits chans) max avail m s steps)
  else false.

Definition mismatch (c : case) : bool :=
  match c with
  | CScen fmt max avail _ init steps =>
      if fmt =? 0 then mismatch_life (mkmode false false) 0 0 fmt max avail init steps else false
  | CScenP bits chans fmt max avail _ init steps => mismatch_life (mkmode false false) bits chans fmt max avail init steps
  | CLife aa fr bits chans fmt max avail _ init steps => mismatch_life (mkmode aa fr) bits chans fmt max avail init steps
  | CConf _ => false
  end.

(* ---- the property on the observed values only (no model function below this line) ---- *)
Definition len (b : bytes) : Z := Z.of_nat (length b).
Definition m32 (z : Z) : Z := z mod 4294967296.
Definition m16 (z : Z) : Z := z mod 65536.

Fixpoint seqs_from (next ssrc : Z) (pkts : list packet) : bool :=
  match pkts with
  | [] => true
  | p :: r => (p.(p_seq) =? next) && (p.(p_ssrc) =? ssrc) && seqs_from (m16 (next + 1)) ssrc r
  end.

(* timestamp of packet i = offset + PTS + delta_i (mod 2^32) *)
Fixpoint ts_ok (base : Z) (deltas : list Z) (pkts : list packet) : bool :=
  match pkts with
  | [] => true
  | p :: r =>
      let '(dl, dr) := match deltas with [] => (0, []) | x :: y => (x, y) end in
      (p.(p_ts) =? m32 (base + dl)) && ts_ok base dr r
  end.

Fixpoint flatten_obs (obs : list pobs) : option (list bytes) :=
  match obs with
  | [] => Some []
  | POk l :: r => match flatten_obs r with Some x => Some (l ++ x) | None => None end
  | PMore :: r => flatten_obs r
  | PErr :: _ => None
  end.

(* H.264 NAL units for which RFC 6184 packetisation is reversible by the gortsplib decoder: non-empty,
   forbidden_zero_bit clear, not one of the RTP-only types 24..29, no start code 00 00 01 inside; at most
   50 NAL units and 8 MiB per access unit *)
Fixpoint no_startcode (b : bytes) : bool :=
  match b with
  | 0 :: ((0 :: 1 :: _) as r) => false
  | _ :: r => no_startcode r
  | [] => true
  end.
Definition nal_ok (n : bytes) : bool :=
  match n with
  | [] => false
  | b :: _ => (b <? 128) && negb ((24 <=? b mod 32) && (b mod 32 <=? 29)) && no_startcode n
  end.
Definition total (au : list bytes) : Z := fold_right (fun n a => len n + a) 0 au.
Definition h264_guard (au : list bytes) : bool :=
  forallb nal_ok au && (Z.of_nat (length au) <=? 50) && (total au <=? 8388608).

(* H.265 NAL units for which RFC 7798 packetisation is reversible by the gortsplib decoder: two-byte header, not
   one of the RTP-only types 48..50, no start code 00 00 01 inside; at most 21 NAL units and 8 MiB *)
Definition nal5_okb (n : bytes) : bool :=
  match n with
  | b0 :: _ :: _ => negb ((48 <=? (b0 / 2) mod 64) && ((b0 / 2) mod 64 <=? 50)) && no_startcode n
  | _ => false
  end.
Definition h265_guard (au : list bytes) : bool :=
  forallb nal5_okb au && (Z.of_nat (length au) <=? 21) && (total au <=? 8388608).

(* the rtph265 encoder refuses ("invalid NALU") a NAL unit without its two-byte header inside an aggregation packet *)
Definition h265_short (fmt : Z) (deliv : option (list bytes)) : bool :=
  (fmt =? 1) && match deliv with Some p => existsb (fun n => len n <? 2) p | None => false end.

Definition roundtrip_ok (fmt : Z) (bytejoin : bool) (p : list bytes) (obs : list pobs) : bool :=
  if (fmt =? 0) && negb (h264_guard p) then true
  else if (fmt =? 1) && negb (h265_guard p) then true
  else match flatten_obs obs with
       | None => false
       | Some q => if bytejoin then bytes_eqb (concat q) (concat p) else list_eqb bytes_eqb q p
       end.

(* spec state: Some (ssrc, next sequence number, offset) once an encoder exists *)
(* a new sub stream of the same Stream. The per-format state persists: once the server generates the packets of a
   format it goes on doing so with the same encoder (SSRC, sequence numbers) and the same offset - the state is NOT
   taken from the observation, so the units that follow are judged against the state of the earlier sub streams.
   Without encoder so far: a non-RTP publisher, an always-available stream and a forced remux (H.264
   packetization-mode 0) make the server generate the packets from now on (the encoder's random SSRC / first
   sequence number / offset are taken as observed); a format without encoder makes the initialisation fail. *)
Definition spec_sub (aa fr avail : bool) (st : option (Z * Z * Z)) (use_rtp dec_ok : bool) (r : nres)
    : option (option (Z * Z * Z)) :=
  if use_rtp && negb dec_ok then match r with NErr => Some st | NOk _ => None end
  else
    match st with
    | Some _ => match r with NOk _ => Some st | NErr => None end
    | None =>
        if negb use_rtp || aa || fr then
          if avail then match r with NOk (Some t) => Some (Some t) | _ => None end
          else match r with NErr => Some None | NOk _ => None end
        else match r with NOk o => Some o | NErr => None end
    end.

Definition spec_step (aa fr : bool) (fmt max : Z) (avail bytejoin : bool) (st : option (Z * Z * Z)) (s : step)
    : option (option (Z * Z * Z)) :=
  match s with
  | NewSub use_rtp dec_ok _ _ r => spec_sub aa fr avail st use_rtp dec_ok r
  | Step _ pts inp decerr deliv deltas r =>
      if match inp with [] => false | _ => decerr end
      then match r with SErr => Some st | _ => None end
      else
        let trig := match st with
                    | Some _ => None
                    | None => find (fun p => len p.(p_payload) >? max) inp
                    end in
        match trig, avail with
        | Some _, false =>
            (* no encoder for this format: the unit must be dropped, never forwarded oversized *)
            match r with SErr => Some st | _ => None end
        | _, _ =>
            let st' := match trig with
                       | Some pk => Some (pk.(p_ssrc), pk.(p_seq), m32 (pk.(p_ts) - pts))
                       | None => st
                       end in
            match st', r with
            | _, SPanic => None
            | Some _, SErr => if h265_short fmt deliv then Some st' else None
            | _, SErr => None
            | None, SOk out _ =>
                (* never re-encoded so far and nothing oversized: packets are forwarded untouched *)
                if list_eqb pkt_eqb out inp then Some None else None
            | Some (ssrc, next, off), SOk out obs =>
                match deliv with
                | None => match out with [] => Some st' | _ => None end
                | Some p =>
                    if fmt =? 16 then match out with [] => Some st' | _ => None end
                    else if forallb (fun q => len q.(p_payload) <=? max) out
                            && seqs_from next ssrc out
                            && ts_ok (off + pts) deltas out
                            && roundtrip_ok fmt bytejoin p obs
                            && match out with [] => false | _ => true end
                    then Some (Some (ssrc, m16 (next + Z.of_nat (length out)), off))
                    else None
                end
            end
        end
  end.

Fixpoint spec_run (aa fr : bool) (fmt max : Z) (avail bytejoin : bool) (st : option (Z * Z * Z))
    (steps : list step) : bool :=
  match steps with
  | [] => false
  | s :: r =>
      match spec_step aa fr fmt max avail bytejoin st s with
      | None => true
      | Some st' => spec_run aa fr fmt max avail bytejoin st' r
      end
  end.

(* a configuration the server accepts must leave every packetizer at least the room its fixed headers need:
   udpMaxPayloadSize - 12 (RTP header) - 10 (SRTP tag when RTSP encryption is on) >= 4, the largest lower bound of
   the modelled packetizers (H.264 3, H.265 4); below, the encoders divide by zero *)
Definition conf_ok (pr : Z * bool) : bool := let '(u, accepted) := pr in negb accepted || (4 <=? u - 22).

Definition spec_fail (c : case) : bool :=
  match c with
  | CScen fmt max avail bytejoin init steps
  | CScenP _ _ fmt max avail bytejoin init steps => spec_run false false fmt max avail bytejoin init steps
  | CLife aa fr _ _ fmt max avail bytejoin init steps => spec_run aa fr fmt max avail bytejoin init steps
  | CConf probes => negb (forallb conf_ok probes)
  end.
