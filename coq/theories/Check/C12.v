(* Correspondence cases for C12: edit histories run against a real Core (directly through Core.APIConfig*, or over
   the HTTP Control API), with the configuration read back after every edit. *)
From Coq Require Import List ZArith Bool.
Require Export MTX.Model.C12_ApiEdit MTX.Model.C12_FileReload MTX.Model.C12_Reads.
Import ListNotations.
Local Open Scope Z_scope.

Inductive mode := Direct | Http.

(* one path as read back: the fields that are set (OptionalPaths[name]), and the effective configuration
   (Paths[name]) given as the fields that differ from the path defaults + the default fields it lacks *)
Record pobs := mkPath { pname : Z; pcell : option fmap; peff : option (fmap * list Z) }.

(* one edit: the decoded request, whether the generator knows it must be rejected, the answer, and the
   configuration afterwards (global fields / path defaults as differences to the previous read) *)
Record step := mkStep { sop : op; smust : bool; sout : outcome;
                        sgch : fmap; sgrem : list Z; sdch : fmap; sdrem : list Z; spaths : list pobs }.

(* a reload of the configuration file: [fx*] = the file's configuration as an independent conf.Load by the driver gives
   it, [fo*] = what is read back from the running Core after the watcher's signal has been handled; both as
   differences to the previous read *)
Record fstep := mkFile { fxgch : fmap; fxgrem : list Z; fxdch : fmap; fxdrem : list Z; fxpaths : list pobs;
                         fogch : fmap; fogrem : list Z; fodch : fmap; fodrem : list Z; fopaths : list pobs }.

(* a GET between edits: the answer as its differences to the RUNNING configuration (read in-package, credentials
   included: g for global/get, d for pathdefaults/get, the effective path for paths/get and each item of paths/list),
   and the running configuration after the GET as differences to the one before it ([rpaths = None]: the paths are
   identical to those before, text for text) *)
Inductive robs :=
| RDiff (ch : fmap) (rem : list Z)
| RList (items : list (Z * (fmap * list Z)))
| RMissing.
Record rdstep := mkRead { rep : endpoint; rresp : robs;
                          rgch : fmap; rgrem : list Z; rdch : fmap; rdrem : list Z; rpaths : option (list pobs) }.

Inductive hobs :=
| SRead (r : rdstep)
| SApi (st : step)
| SFile (f : fstep)
| SBroken (exited : bool)     (* the file does not load; observed: Core.run has closed p.done within the watchdog *)
| SStartFail (st : step) (exited : bool).  (* an edit that is accepted but whose resources cannot be created *)

Inductive case :=
| History (m : mode) (name_f : Z) (g d : fmap) (paths : list pobs) (steps : list step)
| Unanswered (m : mode)    (* an edit request got no answer at all (details in the case description) *)
| FileHistory (m : mode) (name_f : Z) (g d : fmap) (paths : list pobs) (steps : list hobs)
| ReadHistory (m : mode) (name_f : Z) (cred : list Z) (g d : fmap) (paths : list pobs) (steps : list hobs)
    (* histories with GETs between the steps; [cred] = the fields whose values the API redacts *)
| NotReloaded (m : mode).  (* the file was rewritten and the running configuration did not change within the watchdog *)

(* ---- helpers (own definitions: spec_fail below does not use the model) -------------------------------------- *)
Fixpoint look (k : Z) (m : list (Z * Z)) : option Z :=
  match m with [] => None | (k', v) :: r => if k' =? k then Some v else look k r end.
Definition has (k : Z) (l : list Z) : bool := existsb (Z.eqb k) l.
Definition oeq (a b : option Z) : bool :=
  match a, b with Some x, Some y => x =? y | None, None => true | _, _ => false end.
Definition sub_map (a b : list (Z * Z)) : bool := forallb (fun kv => oeq (look (fst kv) b) (Some (snd kv))) a.
Definition same_map (a b : list (Z * Z)) : bool := sub_map a b && sub_map b a && (length a =? length b)%nat.
Definition out_eqb (a b : outcome) : bool :=
  match a, b with OOk, OOk | OExists, OExists | ONotFound, ONotFound | OInvalid, OInvalid => true | _, _ => false end.

(* previous read + reported differences *)
Definition patched (m ch : list (Z * Z)) (rem : list Z) : list (Z * Z) :=
  filter (fun kv => negb (has (fst kv) rem) && negb (match look (fst kv) ch with Some _ => true | None => false end)) m ++ ch.

Fixpoint cell_of (ps : list pobs) (n : Z) : option (option fmap) :=
  match ps with [] => None | p :: r => if pname p =? n then Some (pcell p) else cell_of r n end.

(* ---- model against observation ------------------------------------------------------------------------------------ *)
Definition obs_view (g d : fmap) (ps : list pobs) : view :=
  {| vg := g; vd := d; vp := map (fun p => (pname p, match pcell p with Some c => c | None => [] end)) ps |}.

Definition eff_delta (name_f : Z) (v : view) (n : Z) : option fmap :=
  match effective name_f v n with
  | Some e => Some (filter (fun kv => negb (oeq (look (fst kv) (vd v)) (Some (snd kv)))) e)
  | None => None
  end.

Definition path_agrees (name_f : Z) (v : view) (p : pobs) : bool :=
  match pcell p, pget (pname p) (vp v), peff p, eff_delta name_f v (pname p) with
  | Some c, Some c', Some (delta, []), Some delta' => same_map c c' && same_map delta delta'
  | _, _, _, _ => false
  end.

Definition view_agrees (name_f : Z) (v : view) (g d : fmap) (ps : list pobs) : bool :=
  same_map (vg v) g && same_map (vd v) d && (length (vp v) =? length ps)%nat && forallb (path_agrees name_f v) ps.

(* the oracle: Validate's verdict on the candidate of this step is what the real Validate said *)
Definition verdict (st : step) : view -> bool := fun _ => negb (out_eqb (sout st) OInvalid).

Fixpoint run_steps (name_f : Z) (w : world) (g d : fmap) (sts : list step) : bool :=
  match sts with
  | [] => true
  | st :: r =>
      let '(w', out) := edit (verdict st) Deep w (sop st) in
      let g' := patched g (sgch st) (sgrem st) in
      let d' := patched d (sdch st) (sdrem st) in
      out_eqb out (sout st) && view_agrees name_f (abs w') g' d' (spaths st) && run_steps name_f w' g' d' r
  end.

(* histories with file reloads: the model is Model/C12_FileReload.hstep *)
(* an answer agrees with the running configuration everywhere but in the credential fields (whose redaction is
   C07's subject) *)
Definition diff_in (cred : list Z) (ch : fmap) (rem : list Z) : bool :=
  forallb (fun kv => has (fst kv) cred) ch && forallb (fun k => has k cred) rem.
Definition keys_same (a b : list Z) : bool :=
  forallb (fun k => has k b) a && forallb (fun k => has k a) b && (length a =? length b)%nat.
Definition resp_ok (cred : list Z) (e : endpoint) (r : robs) (names : list Z) : bool :=
  match e, r with
  | (EGlobal | EDefaults), RDiff ch rem => diff_in cred ch rem
  | EGet n, RDiff ch rem => has n names && diff_in cred ch rem
  | EGet n, RMissing => negb (has n names)
  | EList, RList items => keys_same (map fst items) names &&
                          forallb (fun it => diff_in cred (fst (snd it)) (snd (snd it))) items
  | _, _ => false
  end.
Definition resp_shape (r : resp) (o : robs) : bool :=
  match r, o with
  | RFields _, RDiff _ _ => true
  | RItems l, RList items => keys_same (map fst l) (map fst items)
  | RNotFound, RMissing => true
  | _, _ => false
  end.
Definition idf (m : fmap) : fmap := m.

Fixpoint run_hsteps (name_f : Z) (cred : list Z) (st : option world) (g d : fmap) (ps : list pobs) (sts : list hobs) : bool :=
  match sts with
  | [] => true
  | SRead rd :: r =>
      match st with
      | Some w =>
          let '(w', rs) := read_world name_f Deep idf idf idf w (rep rd) in
          let g' := patched g (rgch rd) (rgrem rd) in
          let d' := patched d (rdch rd) (rdrem rd) in
          let ps' := match rpaths rd with Some x => x | None => ps end in
          resp_shape rs (rresp rd) && resp_ok cred (rep rd) (rresp rd) (map fst (vp (abs w))) &&
          view_agrees name_f (abs w') g' d' ps' && run_hsteps name_f cred (Some w') g' d' ps' r
      | None => false
      end
  | SApi a :: r =>
      match hstep (verdict a) st (HApi (sop a) true) with
      | (Some w', HAnswer out) =>
          let g' := patched g (sgch a) (sgrem a) in
          let d' := patched d (sdch a) (sdrem a) in
          out_eqb out (sout a) && view_agrees name_f (abs w') g' d' (spaths a) && run_hsteps name_f cred (Some w') g' d' (spaths a) r
      | _ => false
      end
  | SFile f :: r =>
      let fv := obs_view (patched g (fxgch f) (fxgrem f)) (patched d (fxdch f) (fxdrem f)) (fxpaths f) in
      match hstep (fun _ => true) st (HFile (FLoaded fv true)) with
      | (Some w', HReloaded) =>
          let g' := patched g (fogch f) (fogrem f) in
          let d' := patched d (fodch f) (fodrem f) in
          view_agrees name_f (abs w') g' d' (fopaths f) && run_hsteps name_f cred (Some w') g' d' (fopaths f) r
      | _ => false
      end
  | SBroken exited :: r =>
      match hstep (fun _ => true) st (HFile FBroken), r with
      | (None, HExit), [] => exited
      | _, _ => false
      end
  | SStartFail a exited :: r =>
      match hstep (verdict a) st (HApi (sop a) false), r with
      | (None, HAnswer OOk), [] => out_eqb (sout a) OOk && exited
      | _, _ => false
      end
  end.

Definition mismatch (c : case) : bool :=
  match c with
  | History _ name_f g d ps sts =>
      let w := load (obs_view g d ps) in
      negb (view_agrees name_f (abs w) g d ps && run_steps name_f w g d sts)
  | Unanswered _ => true
  | FileHistory _ name_f g d ps sts =>
      let w := load (obs_view g d ps) in
      negb (view_agrees name_f (abs w) g d ps && run_hsteps name_f [] (Some w) g d ps sts)
  | ReadHistory _ name_f cred g d ps sts =>
      let w := load (obs_view g d ps) in
      negb (view_agrees name_f (abs w) g d ps && run_hsteps name_f cred (Some w) g d ps sts)
  | NotReloaded _ => true
  end.

(* ---- the property on the observations alone --------------------------------------------------------------------------- *)
(* effective configuration of a path = its set fields over the (current) defaults, and its own name *)
Definition eff_ok (name_f : Z) (d : fmap) (p : pobs) : bool :=
  match pcell p, peff p with
  | Some c, Some (delta, []) =>
      let n := pname p in
      forallb (fun kv => let '(f, v) := kv in
                 negb (oeq (look f d) (Some v)) &&
                 (if f =? name_f then v =? n else oeq (look f c) (Some v))) delta
      && forallb (fun kv => let '(f, v) := kv in
                    (f =? name_f) || oeq (look f d) (Some v) || oeq (look f delta) (Some v)) c
      && (oeq (look name_f d) (Some n) || oeq (look name_f delta) (Some n))
  | _, _ => false
  end.

Definition cells_same (a b : option (option fmap)) : bool :=
  match a, b with
  | Some (Some x), Some (Some y) => same_map x y
  | None, None => true
  | _, _ => false
  end.

(* every path of [ps] other than [n] is in [ps'] with the same set fields *)
Definition others_kept (n : Z) (ps ps' : list pobs) : bool :=
  forallb (fun p => (pname p =? n) || cells_same (cell_of ps (pname p)) (cell_of ps' (pname p))) ps.
Definition paths_same (ps ps' : list pobs) : bool :=
  (length ps =? length ps')%nat && forallb (fun p => cells_same (cell_of ps (pname p)) (cell_of ps' (pname p))) ps.
Definition present (ps : list pobs) (n : Z) : bool := match cell_of ps n with Some _ => true | None => false end.

(* patch semantics on one struct: fields of the request take the request's value, all others keep theirs *)
Definition patched_exactly (before p after : fmap) : bool :=
  sub_map p after &&
  forallb (fun kv => match look (fst kv) p with Some _ => true | None => oeq (look (fst kv) after) (Some (snd kv)) end) before &&
  forallb (fun kv => match look (fst kv) p with Some _ => true | None => oeq (look (fst kv) before) (Some (snd kv)) end) after.

Definition step_ok (name_f : Z) (g d : fmap) (ps : list pobs) (st : step) : bool :=
  let g' := patched g (sgch st) (sgrem st) in
  let d' := patched d (sdch st) (sdrem st) in
  let ps' := spaths st in
  let unchanged_g := match sgch st, sgrem st with [], [] => true | _, _ => false end in
  let unchanged_d := match sdch st, sdrem st with [], [] => true | _, _ => false end in
  forallb (eff_ok name_f d') ps' &&
  match sout st with
  | OOk =>
      negb (smust st) &&
      match sop st with
      | PatchGlobal p => patched_exactly g p g' && unchanged_d && paths_same ps ps'
      | PatchDefaults p => patched_exactly d p d' && unchanged_g && paths_same ps ps'
      | Add n p =>
          negb (present ps n) && cells_same (cell_of ps' n) (Some (Some p)) && others_kept n ps ps' &&
          (length ps' =? S (length ps))%nat && unchanged_g && unchanged_d
      | Patch n p =>
          match cell_of ps n, cell_of ps' n with
          | Some (Some c), Some (Some c') => patched_exactly c p c'
          | _, _ => false
          end && others_kept n ps ps' && (length ps' =? length ps)%nat && unchanged_g && unchanged_d
      | Replace n p =>
          cells_same (cell_of ps' n) (Some (Some p)) && others_kept n ps ps' &&
          (length ps' =? (if present ps n then length ps else S (length ps)))%nat && unchanged_g && unchanged_d
      | Delete n =>
          present ps n && negb (present ps' n) && others_kept n ps ps' && (S (length ps') =? length ps)%nat &&
          unchanged_g && unchanged_d
      | Bad => false
      end
  | rejected =>
      (* atomic: nothing changed *)
      unchanged_g && unchanged_d && paths_same ps ps' &&
      (* and the answer is the right one *)
      match sop st, rejected with
      | Add n _, OExists => present ps n
      | Add n _, OInvalid => negb (present ps n)
      | Patch n _, ONotFound => negb (present ps n)
      | Patch n _, OInvalid => present ps n
      | Delete n, ONotFound => negb (present ps n)
      | Delete n, OInvalid => present ps n
      | (PatchGlobal _ | PatchDefaults _ | Replace _ _ | Bad), OInvalid => true
      | _, _ => false
      end
  end.

Fixpoint steps_ok (name_f : Z) (g d : fmap) (ps : list pobs) (sts : list step) : bool :=
  match sts with
  | [] => true
  | st :: r => step_ok name_f g d ps st &&
               steps_ok name_f (patched g (sgch st) (sgrem st)) (patched d (sdch st) (sdrem st)) (spaths st) r
  end.

(* after a reload of the file the configuration read back IS the file's: global fields, path defaults, exactly the
   file's paths with exactly their fields (nothing an API edit did before survives) *)
Definition pobs_same (ps ps' : list pobs) : bool :=
  paths_same ps ps' && paths_same ps' ps &&
  forallb (fun p => match peff p, existsb (fun q => pname q =? pname p) ps' with
                    | Some (delta, []), true =>
                        forallb (fun q => negb (pname q =? pname p) ||
                                          match peff q with Some (delta', []) => same_map delta delta' | _ => false end) ps'
                    | _, _ => false
                    end) ps.

Definition file_ok (name_f : Z) (g d : fmap) (f : fstep) : bool :=
  let gx := patched g (fxgch f) (fxgrem f) in
  let dx := patched d (fxdch f) (fxdrem f) in
  let go := patched g (fogch f) (fogrem f) in
  let do := patched d (fodch f) (fodrem f) in
  same_map gx go && same_map dx do && pobs_same (fxpaths f) (fopaths f) && forallb (eff_ok name_f do) (fopaths f).

(* a GET does not change the running configuration (credentials included: the configuration is read in-package), and
   what it answers is the running configuration = the result of every edit answered before it *)
Definition read_ok (cred : list Z) (ps : list pobs) (rd : rdstep) : bool :=
  match rgch rd, rgrem rd, rdch rd, rdrem rd with [], [], [], [] => true | _, _, _, _ => false end &&
  match rpaths rd with None => true | Some ps' => pobs_same ps ps' end &&
  resp_ok cred (rep rd) (rresp rd) (map pname ps).

Fixpoint hsteps_ok (name_f : Z) (cred : list Z) (g d : fmap) (ps : list pobs) (sts : list hobs) : bool :=
  match sts with
  | [] => true
  | SRead rd :: r => read_ok cred ps rd &&
                     hsteps_ok name_f cred (patched g (rgch rd) (rgrem rd)) (patched d (rdch rd) (rdrem rd))
                               (match rpaths rd with Some x => x | None => ps end) r
  | SApi st :: r => step_ok name_f g d ps st &&
                    hsteps_ok name_f cred (patched g (sgch st) (sgrem st)) (patched d (sdch st) (sdrem st)) (spaths st) r
  | SFile f :: r => file_ok name_f g d f &&
                    hsteps_ok name_f cred (patched g (fogch f) (fogrem f)) (patched d (fodch f) (fodrem f)) (fopaths f) r
  (* what the server does with a file that does not load / with resources that cannot be created is not part of the
     property's statement: observed, compared with the model (mismatch), reported in the notes *)
  | SBroken _ :: r => true
  | SStartFail st _ :: r => negb (smust st)
  end.

Definition spec_fail (c : case) : bool :=
  match c with
  | History _ name_f g d ps sts => negb (forallb (eff_ok name_f d) ps && steps_ok name_f g d ps sts)
  | Unanswered _ => true
  | FileHistory _ name_f g d ps sts => negb (forallb (eff_ok name_f d) ps && hsteps_ok name_f [] g d ps sts)
  | ReadHistory _ name_f cred g d ps sts => negb (forallb (eff_ok name_f d) ps && hsteps_ok name_f cred g d ps sts)
  | NotReloaded _ => true
  end.
