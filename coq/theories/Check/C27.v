(* Correspondence cases for C27: the real recorder recorded generated streams; the driver (package playback) cut
   every recorded segment at crash points (optionally followed by zero bytes) and ran the real reader functions. *)
From Coq Require Import List ZArith Bool.
Require Import MTX.Lib.IntWrap MTX.Model.C24_MulDiv MTX.Model.C28_SegRead.
Require Export MTX.Model.C27_Fmp4Rec MTX.Model.C27_Segmenter MTX.Model.C27_Rewrite.
Import ListNotations.
Local Open Scope Z_scope.

Inductive zobs := ZOk (v : Z) | ZErr | ZPanic.

(* ---- segmenter cases: a generated sample stream and what the real fMP4 format made of it ---- *)
(* tracks (clock rate, is video), part duration, segment duration (ns), max part size,
   samples (track, dts, ntp in ms, 2 * payload size + (1 if non-sync)) in arrival order *)
Inductive stream := MkStream (tracks : list (Z * bool)) (pd sd mp : Z) (evs : list (Z * Z * Z * Z)).
Definition osmp := (Z * Z)%type.                         (* duration, 2 * size + (1 if non-sync) *)
Definition otrk := (Z * Z * list osmp)%type.             (* track, base time, samples *)
Definition oprt := (Z * list otrk)%type.                 (* sequence number, tracks sorted by id *)
(* a segment file read back: mtxi number / dts / ntp, mvhd duration (ms), parts *)
Inductive oseg := OSeg (num sdts sntp hdr : Z) (parts : list oprt).
(* outcome per formatFMP4Track.write call (0 nil, 1 nil + "discarding" warning, 2 error), the files in creation order,
   the durations given to OnSegmentComplete *)
Inductive obs := MkObs (outs : list Z) (segs : list oseg) (reported : list Z).
(* a segment file and the system calls observed on it by strace: (0,_,_) openat with O_CREAT|O_TRUNC,
   (1, offset, length) write, (2, offset, length) read, (3,_,_) close; layout read back from the finished file *)
Inductive ofile := OFile (num ftyp_len moov_len mvhd_len : Z) (parts : list (Z * Z)) (ops : list (Z * Z * Z)).

Inductive case :=
  (* a segment with an init of init_len bytes and parts of (moof length, mdat length) bytes; durs = for every part the
     elapsed time at its end (computed by the driver from mediacommon's decoding of the complete file); the image
     holds the first j bytes of the part region followed by z zero bytes; o = what the real
     segmentFMP4ReadHeader + segmentFMP4ReadDurationFromParts returned *)
| CCrash (init_len : Z) (parts : list (Z * Z)) (durs : list Z) (j z : Z) (o : zobs)
  (* segmentFMP4MuxParts on the same image with a recording muxer: samples per part, number of writeSample calls *)
| CMuxCrash (parts : list (Z * Z)) (samples : list Z) (j : Z) (calls : Z) (panicked : bool)
  (* a segment closed normally: duration reported by the recorder (OnSegmentComplete), duration read from the header *)
| CClosed (reported header : Z)
  (* first video sample of a recorded segment *)
| CSync (has_video first_video_sync : bool)
  (* two consecutive segments of a recording: stream ids equal, segment numbers, segmentFMP4CanBeConcatenated *)
| CConcat (sid_eq : bool) (n1 n2 : Z) (real : bool)
  (* samples handed to the real formatFMP4Track.write, files read back *)
| CSeg (s : stream) (o : obs)
  (* units written to a stream recorded by the real Recorder (gate included); outcomes are not observable *)
| CRec (s : stream) (o : obs)
  (* the same as CSeg in a child process under strace *)
| CStrace (s : stream) (files : list ofile)
  (* a closed recorded segment (ftyp, moov, mvhd box lengths; parts; elapsed time at the end of every part; duration
     given to OnSegmentComplete) in the state after k of the Write calls ws = (offset, length) that the real
     writeDuration makes on it; field = DurationV0 in that state (read from the bytes by the driver); o = the duration
     the real /list code (parseAndConcatenate) reports for the file *)
| CTorn (fl ml vl : Z) (parts : list (Z * Z)) (durs : list Z) (reported : Z) (ws : list (Z * Z)) (k field : Z) (o : zobs).

Definition zobs_eqb (a b : zobs) : bool :=
  match a, b with
  | ZOk v, ZOk v' => v =? v'
  | ZErr, ZErr | ZPanic, ZPanic => true
  | _, _ => false
  end.

(* ---- the model's prediction (from the layout only) ---- *)
Definition mk_part (md : Z * Z) : part :=
  {| moof_pl := repeat 0 (Z.to_nat (fst md - 8)); mdat_pl := repeat 0 (Z.to_nat (snd md - 8)) |}.

Fixpoint index_of (ps : list part) (off target : Z) (i : nat) : option nat :=
  match ps with
  | [] => None
  | p :: r => if off =? target then Some i else index_of r (off + part_len p) target (S i)
  end.

Definition predict (init_len : Z) (parts : list (Z * Z)) (durs : list Z) (j : Z) : zobs :=
  let ps := map mk_part parts in
  let last := expect_last ps init_len j (-1) in
  if last <? 0 then ZErr
  else match index_of ps init_len last O with
       | Some i => ZOk (nth i durs (-1))
       | None => ZPanic
       end.


(* ---- segmenter: the model's prediction ---- *)
Definition cfg_of (s : stream) : cfg :=
  match s with
  | MkStream tr pd sd mp _ =>
      {| c_tracks := map (fun e => {| tc_rate := fst e; tc_video := snd e |}) tr;
         c_part_dur := pd; c_seg_dur := sd; c_max_part := mp |}
  end.
Definition evs_of (s : stream) : list event :=
  match s with
  | MkStream _ _ _ _ evs =>
      map (fun e => match e with
                    | (t, d, n, z2) => (Z.to_nat t, {| s_dts := d; s_ntp := n * 1000000; s_nonsync := Z.odd z2;
                                                       s_size := z2 / 2 |})
                    end) evs
  end.
Fixpoint base_of (t : nat) (l : list (nat * Z)) : Z :=
  match l with
  | [] => -1
  | (u, b) :: r => if Nat.eqb u t then b else base_of t r
  end.
Definition osmp_of (w : wsmp) : osmp :=
  (w.(w_dur), 2 * w.(w_smp).(s_size) + (if w.(w_smp).(s_nonsync) then 1 else 0)).
Definition trk_view (n : nat) (p : opart) : list otrk :=
  flat_map (fun t => if has_trk t p.(o_base)
                     then [(Z.of_nat t, base_of t p.(o_base),
                            map osmp_of (filter (fun w => Nat.eqb w.(w_trk) t) p.(o_smps)))]
                     else []) (seq 0 n).
Definition oseg_of (n : nat) (f : segfile) : oseg :=
  OSeg f.(f_num) f.(f_sdts) f.(f_sntp) (match f.(f_closed) with Some d => duration_field d | None => -1 end)
       (map (fun p => (p.(o_seq), trk_view n p)) f.(f_parts)).
Definition closes (l : list sop) : list Z := flat_map (fun o => match o with SClose _ d => [d] | _ => [] end) l.
(* the file name is the start time (to the microsecond; the generated NTPs are whole milliseconds): a later file
   with the same start time truncates the earlier one (os.Create), so reading the created paths back in creation order
   shows, for each of them, the LAST file with that start time *)
Definition on_disk (fs : list segfile) : list segfile :=
  map (fun f => last (filter (fun g => g.(f_sntp) =? f.(f_sntp)) fs) f) fs.
Definition model_obs (gated : bool) (s : stream) : obs :=
  let c := cfg_of s in
  let x := if gated then run c (evs_of s) else run_raw c (evs_of s) in
  MkObs x.(x_outs) (map (oseg_of (length c.(c_tracks))) (on_disk (files_of x.(x_log)))) (closes x.(x_log)).

Fixpoint list_eqb {A B} (f : A -> B -> bool) (a : list A) (b : list B) : bool :=
  match a, b with
  | [], [] => true
  | x :: a', y :: b' => f x y && list_eqb f a' b'
  | _, _ => false
  end.
Definition osmp_eqb (a b : osmp) : bool :=
  (fst a =? fst b) && (snd a =? snd b).
Definition otrk_eqb (a b : otrk) : bool :=
  match a, b with (t, bs, l), (t', bs', l') => (t =? t') && (bs =? bs') && list_eqb osmp_eqb l l' end.
Definition oprt_eqb (a b : oprt) : bool := (fst a =? fst b) && list_eqb otrk_eqb (snd a) (snd b).
Definition oseg_eqb (a b : oseg) : bool :=
  match a, b with
  | OSeg n d t h ps, OSeg n' d' t' h' ps' =>
      (n =? n') && (d =? d') && (t =? t') && (h =? h') && list_eqb oprt_eqb ps ps'
  end.
Definition obs_eqb (with_outs : bool) (a b : obs) : bool :=
  match a, b with
  | MkObs o g r, MkObs o' g' r' =>
      (negb with_outs || list_eqb Z.eqb o o') && list_eqb oseg_eqb g g' && list_eqb Z.eqb r r'
  end.

(* ---- segmenter: the property on the files, from the input and the observed outcomes only ---- *)
(* a sample that must be in the files: (track, (duration, 2 * size + non-sync), dts in ns, end in ns) *)
Definition xsmp := (Z * osmp * Z * Z)%type.
Fixpoint lookup {A} (t : Z) (l : list (Z * A)) : option A :=
  match l with
  | [] => None
  | (u, a) :: r => if u =? t then Some a else lookup t r
  end.
Definition rate_of (tracks : list (Z * bool)) (t : Z) : Z := fst (nth (Z.to_nat t) tracks (1, false)).
(* the sample of a track is written when the next sample of the track arrives, with the difference of the (non
   decreasing) timestamps as duration, unless that call reported a discard (1) or failed (2) *)
Fixpoint expected_written (tracks : list (Z * bool)) (evs : list (Z * Z * Z * Z)) (outs : list Z)
         (pend : list (Z * (Z * Z))) : list xsmp :=
  match evs, outs with
  | (t, d, _, z2) :: er, o :: or =>
      match lookup t pend with
      | None => expected_written tracks er or ((t, (d, z2)) :: pend)
      | Some (pd, pz2) =>
          let d' := Z.max d pd in
          let dur := wrapu32 (d' - pd) in
          let r := rate_of tracks t in
          let item := (t, (dur, pz2), ts2dur pd r, ts2dur pd r + ts2dur dur r) in
          let rest := expected_written tracks er or ((t, (d', z2)) :: pend) in
          if o =? 0 then item :: rest else rest
      end
  | _, _ => []
  end.
Definition x_trk_of (x : xsmp) : Z := match x with (t, _, _, _) => t end.
Definition x_osmp (x : xsmp) : osmp := match x with (_, o, _, _) => o end.
Definition x_dts (x : xsmp) : Z := match x with (_, _, d, _) => d end.
Definition x_end (x : xsmp) : Z := match x with (_, _, _, e) => e end.
Definition x_size (x : xsmp) : Z := snd (x_osmp x) / 2.
Definition xspan (l : list xsmp) : Z :=
  match l with
  | [] => 0
  | x :: _ => fold_left Z.max (map x_end l) 0 - x_dts x
  end.
Definition otrk_count (p : oprt) : nat := fold_right (fun tr n => (length (snd tr) + n)%nat) O (snd p).
(* one part against the next samples that must be in the files: every track list is the track's samples of the
   chunk in order, base time = offset of the track's first sample in the segment, the part's bounds *)
Definition part_fail (tracks : list (Z * bool)) (pd mp sdts : Z) (is_last : bool) (p : oprt) (chunk : list xsmp) : bool :=
  negb (Nat.eqb (length chunk) (otrk_count p))
  || existsb (fun tr => match tr with (t, bs, l) =>
                negb (list_eqb osmp_eqb l (map x_osmp (filter (fun x => x_trk_of x =? t) chunk)))
                || match filter (fun x => x_trk_of x =? t) chunk with
                   | x :: _ => negb (bs =? muldiv_w (x_dts x - sdts) (rate_of tracks t) nanos) || (x_dts x - sdts <? 0)
                   | [] => true
                   end end) (snd p)
  || (fold_right Z.add 0 (map x_size chunk) >? mp)
  || ((2 <=? Z.of_nat (length chunk)) && (pd <=? xspan (removelast chunk)))
  || (negb is_last && (xspan chunk <? pd)).
Fixpoint parts_fail (tracks : list (Z * bool)) (pd mp sdts : Z) (seq : Z) (ps : list oprt) (exp : list xsmp)
  : bool * list xsmp :=
  match ps with
  | [] => (false, exp)
  | p :: r =>
      let n := otrk_count p in
      let bad := negb (fst p =? seq)
                 || part_fail tracks pd mp sdts (match r with [] => true | _ => false end) p (firstn n exp) in
      let '(bad', rest) := parts_fail tracks pd mp sdts (seq + 1) r (skipn n exp) in
      (bad || bad', rest)
  end.
Fixpoint segs_fail (tracks : list (Z * bool)) (pd mp : Z) (num : Z) (gs : list oseg) (exp : list xsmp) : bool :=
  match gs with
  | [] => match exp with [] => false | _ => true end              (* an accepted sample is in no file *)
  | OSeg n sdts _ _ ps :: r =>
      let '(bad, rest) := parts_fail tracks pd mp sdts 0 ps exp in
      negb (n =? num) || match ps with [] => true | _ => false end || bad || segs_fail tracks pd mp (num + 1) r rest
  end.
(* ---- the durations recorded at close (mvhd header, OnSegmentComplete) against the TRUE duration of each file:
        (the end of the sample that ends last among the samples that must be in the file) - (segment start); with
        several tracks interleaved in any order this is not the end of the sample written last; a sample that a failing
        call was writing is not in the file and does not count. No model function. ---- *)
Definition u32_ms (d : Z) : Z := (d / 1000000) mod 4294967296.        (* uint32(d / time.Millisecond) *)
Definition dur_ok (hdr rep d : Z) : bool := (rep =? d) && (hdr =? u32_ms d).
Fixpoint durs_fail (tracks : list (Z * bool)) (pd mp : Z) (gs : list oseg) (reps : list Z) (exp : list xsmp) : bool :=
  match gs with
  | [] => false
  | OSeg _ sdts _ hdr ps :: r =>
      let '(_, rest) := parts_fail tracks pd mp sdts 0 ps exp in
      let used := firstn (length exp - length rest) exp in
      let e := fold_left Z.max (map x_end used) sdts in
      match reps with
      | [] => true
      | rep :: reps' => negb (dur_ok hdr rep (e - sdts)) || durs_fail tracks pd mp r reps' rest
      end
  end.
(* recordings through Recorder + Stream (outcomes not observable): the true duration is read off the file itself -
   per part and track, base time + sample durations = the end of the track's last sample of the part, in time scale
   units from the segment start; maximum over parts and tracks; the base time is rounded down to a time scale unit,
   so the comparison allows one unit of the coarsest track (+ a few ns of rounding) *)
Definition otrk_end (tracks : list (Z * bool)) (tr : otrk) : Z :=
  match tr with (t, bs, l) => ts2dur (bs + fold_right Z.add 0 (map fst l)) (rate_of tracks t) end.
Definition file_media_end (tracks : list (Z * bool)) (ps : list oprt) : Z :=
  fold_left Z.max (flat_map (fun p => map (otrk_end tracks) (snd p)) ps) 0.
Definition unit_tol (tracks : list (Z * bool)) : Z :=
  fold_left Z.max (map (fun tr => nanos / Z.max 1 (fst tr) + 4) tracks) 4.
Fixpoint rec_durs_fail (tracks : list (Z * bool)) (gs : list oseg) (reps : list Z) : bool :=
  match gs, reps with
  | [], _ => false
  | _ :: _, [] => true
  | OSeg _ _ _ hdr ps :: r, rep :: reps' =>
      negb ((Z.abs (rep - file_media_end tracks ps) <=? unit_tol tracks) && (hdr =? u32_ms rep))
      || rec_durs_fail tracks r reps'
  end.
(* with one video track whose first sample is a random access sample (the gate), every file's first sample of that
   track is a random access sample *)
Fixpoint first_of_track (t : Z) (ps : list oprt) : option osmp :=
  match ps with
  | [] => None
  | p :: r =>
      match lookup t (map (fun tr => match tr with (u, _, l) => (u, l) end) (snd p)) with
      | Some (x :: _) => Some x
      | _ => first_of_track t r
      end
  end.
Fixpoint video_tracks (tracks : list (Z * bool)) (i : Z) : list Z :=
  match tracks with
  | [] => []
  | (_, v) :: r => if v then i :: video_tracks r (i + 1) else video_tracks r (i + 1)
  end.
Fixpoint first_ev_sync (t : Z) (evs : list (Z * Z * Z * Z)) : bool :=
  match evs with
  | [] => true
  | (u, _, _, z2) :: r => if u =? t then negb (Z.odd z2) else first_ev_sync t r
  end.
Definition sync_fail (gated : bool) (s : stream) (gs : list oseg) : bool :=
  match s with
  | MkStream tracks _ _ _ evs =>
      match video_tracks tracks 0 with
      | [v] => (gated || first_ev_sync v evs)
               && existsb (fun g => match g with
                                    | OSeg _ _ _ _ ps => match first_of_track v ps with
                                                         | Some (_, z2) => Z.odd z2
                                                         | None => false
                                                         end
                                    end) gs
      | _ => false
      end
  end.
Definition seg_spec_fail (s : stream) (o : obs) : bool :=
  match s, o with
  | MkStream tracks pd _ mp evs, MkObs outs gs rep =>
      segs_fail tracks pd mp 0 gs (expected_written tracks evs outs [])
      || negb (Nat.eqb (length rep) (length gs))
      || durs_fail tracks pd mp gs rep (expected_written tracks evs outs [])
      || sync_fail false s gs
  end.
(* the recorder run: outcomes are not observable; the files must start on a sync sample, be numbered consecutively,
   and record (header and OnSegmentComplete) the true duration of the media they hold *)
Fixpoint nums_fail (num : Z) (gs : list oseg) : bool :=
  match gs with
  | [] => false
  | OSeg n _ _ _ ps :: r => negb (n =? num) || match ps with [] => true | _ => false end || nums_fail (num + 1) r
  end.
Definition rec_spec_fail (s : stream) (o : obs) : bool :=
  match s, o with
  | MkStream tracks _ _ _ _, MkObs _ gs rep =>
      nums_fail 0 gs || negb (Nat.eqb (length rep) (length gs)) || sync_fail true s gs || rec_durs_fail tracks gs rep
  end.

(* ---- strace: the system calls on a segment file against the write log ---- *)
Definition zeros (n : Z) : bytes := repeat 0 (Z.to_nat n).
(* the appending writes of write_log as (offset, length) *)
Fixpoint wlog_shape (off : Z) (l : list wop) : list (Z * Z) :=
  match l with
  | [] => []
  | WWrite b :: r => (off, len b) :: wlog_shape (off + len b) r
  | WRewrite o b :: r => (o, len b) :: wlog_shape off r
  end.
Definition file_wlog (f : ofile) : list wop :=
  match f with
  | OFile _ fl ml vl parts _ =>
      (* writeDuration seeks to the payload of the mvhd box (moov header + mvhd header skipped) and marshals it *)
      write_log (zeros (fl - 8)) (zeros (ml - 8)) (map mk_part parts) (fl + 16) (zeros (vl - 8))
  end.
Definition writes_of (ops : list (Z * Z * Z)) : list (Z * Z) :=
  flat_map (fun o => match o with (k, a, b) => if k =? 1 then [(a, b)] else [] end) ops.
Definition pair_eqb (a b : Z * Z) : bool := (fst a =? fst b) && (snd a =? snd b).
(* observed: open, one write per appending entry of the log at the log's offsets, then the rewrite as ONE write,
   close last *)
Definition file_mismatch (f : ofile) : bool :=
  match f with
  | OFile _ _ _ _ parts ops =>
      let sh := wlog_shape 0 (file_wlog f) in
      let n := S (length parts) in
      let ws := writes_of ops in
      negb (list_eqb pair_eqb (firstn n ws) (firstn n sh)
            && list_eqb pair_eqb (skipn n ws) (skipn n sh)        (* the rewrite: ONE write (fix in /repo) *)
            && match ops with (0, _, _) :: _ => true | _ => false end
            && match rev ops with (3, _, _) :: _ => true | _ => false end)
  end.
(* the property's write model on the observed calls alone: the header and every part are ONE write each at the
   current end of the file (append only); what is written afterwards is ONE write that stays inside the moov box (so
   that between system calls the header is either the old or the new one); nothing follows the close *)
Fixpoint appends_fail (endpos : Z) (lens : list Z) (ws : list (Z * Z)) : bool * list (Z * Z) :=
  match lens with
  | [] => (false, ws)
  | n :: r =>
      match ws with
      | (a, m) :: ws' => if (a =? endpos) && (m =? n) then appends_fail (endpos + n) r ws' else (true, ws')
      | [] => (true, [])
      end
  end.
Definition file_spec_fail (f : ofile) : bool :=
  match f with
  | OFile _ fl ml _ parts ops =>
      let '(bad, rest) := appends_fail 0 ((fl + ml) :: map (fun md => fst md + snd md) parts) (writes_of ops) in
      bad || existsb (fun w => (fst w <? fl + 8) || (fl + ml <? fst w + snd w)) rest
      || match rest with [_] => false | _ => true end       (* the duration rewrite is exactly one write *)
      || negb (Nat.eqb (length (filter (fun o => match o with (k, _, _) => k =? 3 end) ops)) 1)
      || match rev ops with (3, _, _) :: _ => false | _ => true end
  end.
(* files and parts per file that the segmenter model predicts *)
Definition strace_mismatch (s : stream) (files : list ofile) : bool :=
  let c := cfg_of s in
  let x := run_raw c (evs_of s) in
  negb (list_eqb (fun (f : segfile) (o : ofile) =>
                    match o with OFile n _ _ _ parts _ => (f.(f_num) =? n) && Nat.eqb (length f.(f_parts)) (length parts) end)
                 (files_of x.(x_log)) files)
  || existsb file_mismatch files.

(* ---- the duration rewrite cut between its Write calls ---- *)
(* the log of the repaired code for the observed layout (payload bytes are irrelevant: zeros; timescale irrelevant) *)
Definition torn_log (fl ml vl : Z) (parts : list (Z * Z)) (reported : Z) : list wop :=
  close_log (zeros (fl - 8)) (zeros 8) (zeros 16) (zeros (vl - 28)) (zeros (ml - 8 - vl)) (map mk_part parts) reported.
Definition torn_mismatch (fl ml vl : Z) (parts : list (Z * Z)) (durs : list Z) (reported : Z) (ws : list (Z * Z))
           (k field : Z) (o : zobs) : bool :=
  let lg := torn_log fl ml vl parts reported in
  let n := S (length parts) in
  (* the observed Write calls of the rewrite are the log's: one, at the mvhd payload, of its length *)
  negb (list_eqb pair_eqb ws (skipn n (wlog_shape 0 lg)))
  (* the duration field after k of them *)
  || negb (field =? field_at (file_after (firstn (n + Z.to_nat k) lg)) (fl + 32))
  (* what /list reports: the parts are scanned iff the header duration is 0 *)
  || negb (zobs_eqb o (ZOk (if duration_read field =? 0 then last durs (-1) else duration_read field))).

Definition mismatch (c : case) : bool :=
  match c with
  | CCrash init_len parts durs j z o =>
      negb (zobs_eqb (predict init_len parts durs j) o && forallb (fun md => (8 <=? fst md) && (8 <=? snd md)) parts)
  | CClosed reported header => negb (duration_read (duration_field reported) =? header)
  | CConcat sid_eq n1 n2 real =>
      negb (Bool.eqb (can_concat false (Some (0, n1)) (Some ((if sid_eq then 0 else 1), n2))) real)
  | CMuxCrash _ _ _ _ _ | CSync _ _ => false
  | CSeg s o => negb (obs_eqb true (model_obs false s) o)
  | CRec s o => negb (obs_eqb false (model_obs true s) o)
  | CStrace s files => strace_mismatch s files
  | CTorn fl ml vl parts durs reported ws k field o => torn_mismatch fl ml vl parts durs reported ws k field o
  end.

(* ---- the property on the observed outputs only ---- *)
Fixpoint ncomplete (ps : list (Z * Z)) (j : Z) : nat :=
  match ps with
  | [] => O
  | (m, d) :: r => if m + d <=? j then S (ncomplete r (j - (m + d))) else O
  end.
Definition sum (l : list Z) : Z := fold_right Z.add 0 l.

Definition spec_fail (c : case) : bool :=
  match c with
  | CCrash _ parts durs j _ o =>
      let n := ncomplete parts j in
      match o with
      | ZPanic => true
      | ZErr => negb (Nat.eqb n 0)                    (* a complete part is on disk but nothing is served *)
      | ZOk v =>                                       (* the last complete part, or the one after it *)
          negb ((match n with O => false | S n' => v =? nth n' durs (-1) end)
                || ((Nat.ltb n (length durs)) && (v =? nth n durs (-1))))
      end
  | CMuxCrash parts samples j calls panicked =>
      panicked || (calls <? sum (firstn (ncomplete parts j) samples))
  | CClosed reported header =>
      negb ((0 <=? reported) && (header =? reported / 1000000 * 1000000))
  | CSync has_video first_sync => has_video && negb first_sync
  | CConcat _ _ _ real => negb real
  | CSeg s o => seg_spec_fail s o
  | CRec s o => rec_spec_fail s o
  | CStrace _ files => existsb file_spec_fail files
  | CTorn _ _ _ _ durs reported _ _ _ o =>
      (* every part of the file is complete and on disk: the listed duration reaches the end of the last part (to the
         millisecond), or it is the duration recorded at close (CClosed: reported truncated to a millisecond);
         otherwise complete parts on disk are not reported *)
      match o with
      | ZOk v => (v <? last durs 0 / 1000000 * 1000000) && negb (v =? reported / 1000000 * 1000000)
      | ZErr | ZPanic => true
      end
  end.
