(* Correspondence cases for C27: the real recorder recorded generated streams; the driver (package playback) cut
   every recorded segment at crash points (optionally followed by zero bytes) and ran the real reader functions. *)
From Coq Require Import List ZArith Bool.
Require Import MTX.Lib.IntWrap MTX.Model.C24_MulDiv MTX.Model.C28_SegRead.
Require Export MTX.Model.C27_Fmp4Rec.
Import ListNotations.
Local Open Scope Z_scope.

Inductive zobs := ZOk (v : Z) | ZErr | ZPanic.

Inductive case :=
  (* a segment with an init of init_len bytes and parts of (moof length, mdat length) bytes; durs = for every part the
     elapsed time at its end (computed by the driver from mediacommon's decoding of the complete file); the image
     holds the first j bytes of the part region followed by z zero bytes; o = what the real
     segmentFMP4ReadHeader + segmentFMP4ReadDurationFromParts returned *)
| CCrash (init_len : Z) (parts : list (Z * Z)) (durs : list Z) (j z : Z) (o : zobs)
  (* segmentFMP4MuxParts on the same image with a recording muxer: samples per part, number of writeSample calls *)
| CMuxCrash (parts : list (Z * Z)) (samples : list Z) (j : Z) (calls : Z) (panicked : bool)
  (* a segment closed normally: duration reported by the recorder (OnSegmentComplete), duration read from the header *)
| CClosed (reported header : Z)
  (* first video sample of a recorded segment *)
| CSync (has_video first_video_sync : bool)
  (* two consecutive segments of a recording: stream ids equal, segment numbers, segmentFMP4CanBeConcatenated *)
| CConcat (sid_eq : bool) (n1 n2 : Z) (real : bool).

Definition zobs_eqb (a b : zobs) : bool :=
  match a, b with
  | ZOk v, ZOk v' => v =? v'
  | ZErr, ZErr | ZPanic, ZPanic => true
  | _, _ => false
  end.

(* ---- the model's prediction (from the layout only) ---- *)
Definition mk_part (md : Z * Z) : part :=
  {| moof_pl := repeat 0 (Z.to_nat (fst md - 8)); mdat_pl := repeat 0 (Z.to_nat (snd md - 8)) |}.

Fixpoint index_of (ps : list part) (off target : Z) (i : nat) : option nat :=
  match ps with
  | [] => None
  | p :: r => if off =? target then Some i else index_of r (off + part_len p) target (S i)
  end.

Definition predict (init_len : Z) (parts : list (Z * Z)) (durs : list Z) (j : Z) : zobs :=
  let ps := map mk_part parts in
  let last := expect_last ps init_len j (-1) in
  if last <? 0 then ZErr
  else match index_of ps init_len last O with
       | Some i => ZOk (nth i durs (-1))
       | None => ZPanic
       end.

Definition mismatch (c : case) : bool :=
  match c with
  | CCrash init_len parts durs j z o =>
      negb (zobs_eqb (predict init_len parts durs j) o && forallb (fun md => (8 <=? fst md) && (8 <=? snd md)) parts)
  | CClosed reported header => negb (duration_read (duration_field reported) =? header)
  | CConcat sid_eq n1 n2 real =>
      negb (Bool.eqb (can_concat false (Some (0, n1)) (Some ((if sid_eq then 0 else 1), n2))) real)
  | CMuxCrash _ _ _ _ _ | CSync _ _ => false
  end.

(* ---- the property on the observed outputs only ---- *)
Fixpoint ncomplete (ps : list (Z * Z)) (j : Z) : nat :=
  match ps with
  | [] => O
  | (m, d) :: r => if m + d <=? j then S (ncomplete r (j - (m + d))) else O
  end.
Definition sum (l : list Z) : Z := fold_right Z.add 0 l.

Definition spec_fail (c : case) : bool :=
  match c with
  | CCrash _ parts durs j _ o =>
      let n := ncomplete parts j in
      match o with
      | ZPanic => true
      | ZErr => negb (Nat.eqb n 0)                    (* a complete part is on disk but nothing is served *)
      | ZOk v =>                                       (* the last complete part, or the one after it *)
          negb ((match n with O => false | S n' => v =? nth n' durs (-1) end)
                || ((Nat.ltb n (length durs)) && (v =? nth n durs (-1))))
      end
  | CMuxCrash parts samples j calls panicked =>
      panicked || (calls <? sum (firstn (ncomplete parts j) samples))
  | CClosed reported header =>
      negb ((0 <=? reported) && (header =? reported / 1000000 * 1000000))
  | CSync has_video first_sync => has_video && negb first_sync
  | CConcat _ _ _ real => negb real
  end.
