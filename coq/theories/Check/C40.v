(* Correspondence cases for C40.

   Forced: a deterministic schedule forced on a real pathManager with real paths through in-package hooks (a logger,
   an auth manager, publishers/readers whose callbacks block until released).  A scenario is a list of segments;
   a segment carries the model labels of what the driver made happen, the processes that sit in a driver hook at its
   end ("frozen"), and what the driver OBSERVED once the real system had settled: the program point of every goroutine
   (pathManager.run, every path.run, every caller, the closer), read from a goroutine dump, and the callers' results.
   The model must (1) accept the labels, (2) arrive at a state with the same program points, and (3) claim that no
   internal step is enabled there except steps of frozen processes (the real system did not move: settled).

   Soak: operation mixes from many goroutines; the events the driver can see.

   CoreForced: a deterministic schedule forced on a real Core (Model/C40_CoreLoop.v) with its real API server: handlers
   are parked inside the tracker by clients that hold back the last byte of the request body; the triggers are an API
   edit / a rewrite of the configuration file that needs a new API server, Core.Close(), an invalid configuration file.
   Observed after each segment: the program point of Core.run, of the api.Close goroutine and of every handler.

   StreamForced: a schedule forced on a real stream.Stream (Model/C40_StreamLock.v) through its own mutex: the driver
   (or an observer goroutine it has queued between the operations) holds Stream.mutex and reads, under the mutex, the
   reader table, the owners of the registered callbacks, whether hasReaders is closed, the current sub-stream, the RTSP
   stream; and which calls have returned.  The model must accept the labels, arrive at the same shared state, agree on
   who has returned, and claim that nobody but the goroutines the driver holds back can move.

   HlsForced: a schedule forced on a real pathManager with a real hls.Server attached (Model/C40_HlsLoop.v): program
   points of pathManager.run and hls.Server.run and the number of muxers that hold their mutex inside
   pathManager.AddReader, from goroutine dumps. *)
From Coq Require Import List ZArith Bool Arith.
Require Export MTX.Model.C40_Rendezvous MTX.Model.C40_CoreLoop MTX.Model.C40_StreamLock MTX.Model.C40_HlsLoop MTX.Model.C40_HlsMux.
Import ListNotations.

Inductive pmo := OPmIdle | OPmHandle | OPmAnswer | OPmWait | OPmBusy | OPmGone.
Inductive pao := OPaIdle | OPaAnswer | OPaPmCall | OPaTRemove | OPaTHeld | OPaTNotReady | OPaBusy.
(* result classes: 1 = error of the path manager, 2 = "terminated", 3 = answered by the path, 4 = reload delivered;
   observed only: 0 = returned, the call has no result (path.RemovePublisher / RemoveReader) *)
Inductive cao := OCStart | OCWaitPm | OCAtPa | OCWaitPa | OCRet (code : Z) | OCNone.
Inductive clo := OClIdle | OClWait | OClDone.

Record obs := mkObs {
  o_pm : pmo;
  o_paths : list pao;        (* one entry per live path goroutine, sorted *)
  o_callers : list cao;      (* by caller index *)
  o_closer : clo;
}.

Inductive proc := PPm | PPa (p : pid).

(* watchdog = true: something the scenario waited for (a call returning, close() returning, a hook being reached)
   did not happen within the watchdog time; stuck_call = it was a call or the shutdown that did not complete *)
Inductive seg := Seg (ls : list label) (frozen : list proc) (o : obs) (watchdog stuck_call : bool).

Inductive sev := SvStart (c : Z) (stable : bool) | SvRet (c : Z) (terminated : bool) | SvCancel | SvClosed.

(* ---- Core level ---- *)
Inductive coo := OCoIdle | OCoAnswer | OCoClosing | OCoBusy | OCoGone.
Inductive aco := OAcNone | OAcShutdown | OAcTracker.
(* handler: still reading the body / in Core.APIConfig* at the select / at <-res / the client has the response:
   1 = 200, 2 = rejected by the configuration code, 3 = "terminated", 4 = body not accepted, 5 = a GET *)
Inductive hdo := OHdBody | OHdSend | OHdWait | OHdRet (code : Z).
Record kobs := mkKObs { ko_core : coo; ko_closer : aco; ko_handlers : list hdo }.
Inductive kproc := FHd (h : hid) | FAc | FWt.
Inductive kseg := KSeg (ls : list klabel) (frozen : list kproc) (o : kobs) (watchdog stuck : bool).

(* ---- Stream level ---- *)
(* ZSection p: p executes up to and including its next Unlock / RUnlock (its critical section, whatever the code puts
   into it); ZRun p: p goes on as far as it can (until it has returned or is blocked) *)
Inductive zlab := ZSpawn (o : SL.op) | ZStep (p : nat) | ZSection (p : nat) | ZRun (p : nat).
Inductive pobs := PONot | PODone | POPanic.
Record zobs := mkZObs {
  zo_readers : list nat;     (* s.readers, sorted *)
  zo_cbs : list nat;         (* readers that own a callback in some sf.onDatas, sorted *)
  zo_closed : bool;          (* hasReaders closed *)
  zo_cur : nat;              (* s.subStream *)
  zo_rtsp : nat;             (* distinct ServerStreams seen in s.rtspStream or handed out by RTSPStream(): 0, 1 *)
  zo_procs : list pobs;      (* per call: returned / panicked / neither yet *)
}.
(* frozen: goroutines the driver itself holds back (its own lock holders); held: the driver held the write lock all the
   time since the previous observation; settled: the driver waited until nothing moved any more (the model must claim
   that nothing can); cmp: who has returned is compared too (not for an observer's snapshot in the middle of a
   hand-over chain, where goroutines that have left their section are still on their way out) *)
Inductive zseg := ZSeg (ls : list zlab) (frozen : list nat) (held settled cmp : bool) (o : zobs) (watchdog : bool).

(* ---- HLS level ---- *)
Inductive hpm := OHPmIdle | OHPmHandler | OHPmNotify.
Inductive hhs := OHHsIdle | OHHsCreate | OHHsMutex | OHHsPath.
Record hobs := mkHObs { ho_pm : hpm; ho_hs : hhs; ho_init : nat; ho_atpath : nat }.
Inductive hfroz := FPm | FHs.
(* HDo l: one step of the model; HDrain: the loops run until nothing can move (any maximal schedule ends in a
   quiescent state: C40_hls_every_operation_completes) *)
Inductive hlab := HDo (l : HL.label) | HDrain.
Inductive hseg := HSeg (ls : list hlab) (frozen : list hfroz) (o : hobs) (settled watchdog : bool).

(* ---- HLS muxer level (Model/C40_HlsMux.v) ---- *)
(* MDo l: one step of the model; MDrain: every goroutine runs until nothing can move.  Observation, made by the driver
   with deadlines: is the muxer still in the server's table (answer of the API listing, or the last known answer when the
   listing did not return), could the driver take and release the muxer's mutex (TryLock), how many of the calls it
   made (API listing / get, Server.Close) have not returned *)
Inductive mlab := MDo (l : HM.label) | MDrain.
Record mobs := mkMObs { mo_present : bool; mo_free : bool; mo_pending : nat }.
Inductive mseg := MSeg (ls : list mlab) (o : mobs) (watchdog : bool).

Inductive case :=
| MuxForced (segs : list mseg)
| Forced (segs : list seg)
| Soak (evs : list sev)
| CoreForced (segs : list kseg)
| StreamForced (segs : list zseg)
| HlsForced (segs : list hseg).

(* ---- observation of a model state ------------------------------------------------------------------------------- *)
Definition pm_obs (x : pm_pc) : pmo :=
  match x with
  | PmIdle => OPmIdle | PmHandle _ => OPmHandle | PmAnswer _ _ => OPmAnswer | PmClose _ => OPmBusy
  | PmWait _ _ => OPmWait | PmDone => OPmGone
  end.

Definition pa_obs (x : path_st) : option pao :=
  match ppc x with
  | PaRun => Some (match script x with [] => OPaIdle | AAns _ :: _ => OPaAnswer | APm _ :: _ => OPaPmCall end)
  | PaTRemove => Some OPaTRemove
  | PaTHeld => Some (match held x with [] => OPaBusy | _ => OPaTHeld end)
  | PaTNotReady => Some OPaTNotReady
  | PaDead => None
  end.

Definition res_code (r : cres) : Z :=
  match r with
  | DPmErr => 1 | DPmTerm | DPaTerm _ | DPaTermAns _ => 2 | DPaAns => 3 | DReload => 4
  end.

Definition ca_obs (x : c_pc) : cao :=
  match x with
  | CNone => OCNone | CStart _ => OCStart | CWaitPm => OCWaitPm | CAtPa _ => OCAtPa | CWaitPa _ => OCWaitPa
  | CDone r => OCRet (res_code r)
  end.

Definition cl_obs (x : cl_pc) : clo := match x with ClIdle => OClIdle | ClWait => OClWait | ClDone => OClDone end.

Definition pao_code (x : pao) : nat :=
  match x with
  | OPaIdle => 0 | OPaAnswer => 1 | OPaPmCall => 2 | OPaTRemove => 3 | OPaTHeld => 4 | OPaTNotReady => 5 | OPaBusy => 6
  end.

Fixpoint insert (x : nat) (l : list nat) : list nat :=
  match l with [] => [x] | y :: r => if x <=? y then x :: l else y :: insert x r end.
Definition sort (l : list nat) : list nat := fold_right insert [] l.

Definition path_codes (s : state) : list nat :=
  sort (flat_map (fun p => match pa_obs (paths s p) with Some o => [pao_code o] | None => [] end) (seq 0 (np s))).

Definition pmo_eqb (a b : pmo) : bool :=
  match a, b with
  | OPmIdle, OPmIdle | OPmHandle, OPmHandle | OPmAnswer, OPmAnswer | OPmWait, OPmWait | OPmBusy, OPmBusy
  | OPmGone, OPmGone => true
  | _, _ => false
  end.
Definition cao_eqb (a b : cao) : bool :=
  match a, b with
  | OCStart, OCStart | OCWaitPm, OCWaitPm | OCAtPa, OCAtPa | OCWaitPa, OCWaitPa | OCNone, OCNone => true
  | OCRet x, OCRet y => Z.eqb x y || Z.eqb y 0   (* observed 0 = a call without result (RemovePublisher...) *)
  | _, _ => false
  end.
Definition clo_eqb (a b : clo) : bool :=
  match a, b with OClIdle, OClIdle | OClWait, OClWait | OClDone, OClDone => true | _, _ => false end.

Fixpoint list_eqb {A} (e : A -> A -> bool) (a b : list A) : bool :=
  match a, b with
  | [], [] => true
  | x :: r, y :: t => e x y && list_eqb e r t
  | _, _ => false
  end.

Definition obs_matches (s : state) (o : obs) : bool :=
  pmo_eqb (pm_obs (pm s)) (o_pm o)
  && list_eqb Nat.eqb (path_codes s) (sort (map pao_code (o_paths o)))
  && list_eqb cao_eqb (map (fun c => ca_obs (callers s c)) (seq 0 (nc s))) (o_callers o)
  && clo_eqb (cl_obs (closer s)) (o_closer o).

(* ---- the model's enabledness claim ---------------------------------------------------------------------------- *)
Definition enabledb (s : state) (l : label) : bool := match step true s l with Some _ => true | None => false end.

(* one representative label per (process, kind of step); scripts / choices do not influence enabledness except
   through well-formedness, for which the empty script is the weakest requirement *)
Definition candidates (s : state) : list label :=
  [LPmHandled HErr; LPmAns; LPmCloseHd; LPmCloseEnd; LPmWaitDone; LPmStop; LClDone]
  ++ flat_map (fun c => [LPmRecv c; LPmReload c; LCEscPm c; LCEscPa c; LPaRecv c []]) (seq 0 (nc s))
  ++ flat_map (fun p => [LPaAns p; LPaPm p false; LPaPmEsc p; LPaCtx p; LPaTRemPm p; LPaTRemEsc p; LPaTAns p;
                         LPaTFin p false; LPaTNrPm p; LPaTNrEsc p]) (seq 0 (np s)).

Definition proc_eqb (a b : proc) : bool :=
  match a, b with PPm, PPm => true | PPa p, PPa q => Nat.eqb p q | _, _ => false end.

(* the path manager / path goroutines taking part in a step *)
Definition involves (s : state) (l : label) : list proc :=
  match l with
  | LPmRecv _ | LPmHandled _ | LPmAns | LPmReload _ | LPmCloseHd | LPmCloseEnd | LPmStop => [PPm]
  | LPmWaitDone => [PPm]
  | LPaRecv c _ => match callers s c with CAtPa p => [PPa p] | _ => [] end
  | LPaAns p | LPaPmEsc p | LPaCtx p | LPaTRemEsc p | LPaTAns p | LPaTFin p _ | LPaTNrEsc p => [PPa p]
  | LPaPm p _ | LPaTRemPm p | LPaTNrPm p => [PPa p; PPm]
  | _ => []
  end.

Definition settled (s : state) (frozen : list proc) : bool :=
  forallb (fun l => negb (enabledb s l) || existsb (fun q => existsb (proc_eqb q) frozen) (involves s l))
          (candidates s).

Fixpoint check_segs (s : state) (segs : list seg) : bool :=
  match segs with
  | [] => true
  | Seg ls fr o _ _ :: r =>
      match run true s ls with
      | Some s' => obs_matches s' o && settled s' fr && check_segs s' r
      | None => false
      end
  end.

(* soak rule, a consequence of theorem C40_terminated_needs_ctx + C40_pctx_only_by_close: a call on a path that the
   path manager never closes (static, not touched by any reload of the run) ends with "terminated" only after
   pathManager.close() has been called *)
Fixpoint early_terminated (stable : list Z) (evs : list sev) : bool :=
  match evs with
  | [] => false
  | SvCancel :: _ => false
  | SvStart c true :: r => early_terminated (c :: stable) r
  | SvRet c true :: r => existsb (Z.eqb c) stable || early_terminated stable r
  | _ :: r => early_terminated stable r
  end.

(* ---- Core level: observation of a model state, enabledness claim ------------------------------------------------ *)
Definition co_obs (c : co_pc) : coo :=
  match c with
  | CoIdle => OCoIdle | CoAnswer _ _ _ | CoRefuse _ _ => OCoAnswer | CoApiClosing _ => OCoClosing | CoDone => OCoGone
  | _ => OCoBusy
  end.
Definition ac_obs (a : ac_pc) : aco :=
  match a with AcShutdown => OAcShutdown | AcTracker => OAcTracker | _ => OAcNone end.
Definition hres_code (r : hres) : Z :=
  match r with RsOk => 1 | RsRej => 2 | RsRefused | RsCtx => 3 | RsBad => 4 | RsRead => 5 end%Z.
Definition hd_obs (x : hd_pc) : hdo :=
  match x with
  | HdNone => OHdRet 0 (* not a code: never matches *) | HdBody => OHdBody | HdSend => OHdSend | HdWait => OHdWait
  | HdWrite r | HdDone r => OHdRet (hres_code r)
  end.
Definition coo_eqb (a b : coo) : bool :=
  match a, b with
  | OCoIdle, OCoIdle | OCoAnswer, OCoAnswer | OCoClosing, OCoClosing | OCoBusy, OCoBusy | OCoGone, OCoGone => true
  | _, _ => false
  end.
Definition aco_eqb (a b : aco) : bool :=
  match a, b with OAcNone, OAcNone | OAcShutdown, OAcShutdown | OAcTracker, OAcTracker => true | _, _ => false end.
Definition hdo_eqb (a b : hdo) : bool :=
  match a, b with
  | OHdBody, OHdBody | OHdSend, OHdSend | OHdWait, OHdWait => true
  | OHdRet x, OHdRet y => Z.eqb x y && negb (Z.eqb x 0)
  | _, _ => false
  end.
Definition kobs_matches (s : kstate) (o : kobs) : bool :=
  coo_eqb (co_obs (co s)) (ko_core o) && aco_eqb (ac_obs (ac s)) (ko_closer o)
  && list_eqb hdo_eqb (map (fun h => hd_obs (hd s h)) (seq 0 (nh s))) (ko_handlers o).

Definition kenabledb (s : kstate) (l : klabel) : bool := match kstep true s l with Some _ => true | None => false end.

(* one representative per (process, kind of step): the boolean parameters of a label do not influence enabledness *)
Definition kcandidates (s : kstate) : list klabel :=
  [QCoAns; QCoConf true true; QCoIntr; QCoCtx; QCoExit; QCoWClosed; QCoCloseApi; QCoRefAns; QCoApiClosed;
   QCoRest true true; QAcShutdown; QAcDone; QWtTerm]
  ++ flat_map (fun h => [QHBody h true; QHEsc h; QHRet h; QCoRecv h true true; QCoRefRecv h]) (seq 0 (nh s)).

Definition kproc_eqb (a b : kproc) : bool :=
  match a, b with FHd h, FHd g => Nat.eqb h g | FAc, FAc | FWt, FWt => true | _, _ => false end.

(* the process that a driver can hold: a handler in its body read (the client holds back the last byte), api.Close in
   http.Server.Shutdown (returns when the connections are idle, at the latest after 2 s), the watcher's termination *)
Definition kinvolves (l : klabel) : list kproc :=
  match l with QHBody h _ => [FHd h] | QAcShutdown => [FAc] | QWtTerm => [FWt] | _ => [] end.

Definition ksettled (s : kstate) (frozen : list kproc) : bool :=
  forallb (fun l => negb (kenabledb s l) || existsb (fun q => existsb (kproc_eqb q) frozen) (kinvolves l))
          (kcandidates s).

Fixpoint kcheck_segs (s : kstate) (segs : list kseg) : bool :=
  match segs with
  | [] => true
  | KSeg ls fr o _ _ :: r =>
      match krun true s ls with
      | Some s' => kobs_matches s' o && ksettled s' fr && kcheck_segs s' r
      | None => false
      end
  end.

(* ---- Stream level: running the labels, observation of a model state, enabledness claim ------------------------- *)
Definition is_release (i : SL.instr) : bool := match i with SL.IUnlock | SL.IRUnlock => true | _ => false end.

Fixpoint zsection (fuel p : nat) (s : SL.state) : option SL.state :=
  match fuel with
  | 0 => None
  | S f =>
      match nth_error (SL.procs s) p with
      | Some pr =>
          match SL.p_code pr with
          | i :: _ =>
              match SL.step SL.Code s (SL.LStep p) with
              | Some s' => if is_release i then Some s' else zsection f p s'
              | None => None
              end
          | [] => None
          end
      | None => None
      end
  end.

Fixpoint zgo (fuel p : nat) (s : SL.state) : SL.state :=
  match fuel with
  | 0 => s
  | S f => match SL.step SL.Code s (SL.LStep p) with Some s' => zgo f p s' | None => s end
  end.

Definition zfuel : nat := 16.

Definition zlab_step (s : SL.state) (l : zlab) : option SL.state :=
  match l with
  | ZSpawn o => SL.step SL.Code s (SL.LSpawn o)
  | ZStep p => SL.step SL.Code s (SL.LStep p)
  | ZSection p => zsection zfuel p s
  | ZRun p => Some (zgo zfuel p s)
  end.

Fixpoint zrun (s : SL.state) (ls : list zlab) : option SL.state :=
  match ls with
  | [] => Some s
  | l :: t => match zlab_step s l with Some s' => zrun s' t | None => None end
  end.

Definition pobs_of (pr : SL.proc) : pobs := match SL.p_code pr with [] => PODone | _ => PONot end.
Definition pobs_eqb (a b : pobs) : bool :=
  match a, b with PONot, PONot | PODone, PODone | POPanic, POPanic => true | _, _ => false end.

Definition zshared_matches (s : SL.state) (o : zobs) : bool :=
  match SL.panic s with Some _ => false | None => true end
  && list_eqb Nat.eqb (sort (SL.readers (SL.g s))) (zo_readers o)
  && list_eqb Nat.eqb (sort (SL.readers (SL.g s))) (zo_cbs o)
  && Bool.eqb (SL.has_closed (SL.g s)) (zo_closed o)
  && Nat.eqb (SL.cur (SL.g s)) (zo_cur o)
  && Nat.eqb (if SL.rtsp (SL.g s) then 1 else 0) (zo_rtsp o).

Definition zprocs_match (s : SL.state) (o : zobs) : bool :=
  list_eqb pobs_eqb (map pobs_of (SL.procs s)) (zo_procs o).

Definition zenabledb (s : SL.state) (p : nat) : bool :=
  match SL.step SL.Code s (SL.LStep p) with Some _ => true | None => false end.

Definition zsettled (s : SL.state) (frozen : list nat) : bool :=
  forallb (fun p => negb (zenabledb s p) || existsb (Nat.eqb p) frozen) (seq 0 (length (SL.procs s))).

Fixpoint zcheck_segs (s : SL.state) (segs : list zseg) : bool :=
  match segs with
  | [] => true
  | ZSeg ls fr _ settled cmp o _ :: r =>
      match zrun s ls with
      | Some s' =>
          zshared_matches s' o && (negb cmp || zprocs_match s' o) && (negb settled || zsettled s' fr)
          && zcheck_segs s' r
      | None => false
      end
  end.

(* ---- HLS level ---- *)
Definition hcandidates (s : HL.state) : list HL.label :=
  [HL.LPmRecvCall; HL.LPmHandled; HL.LPmNotified false; HL.LHsDrain false; HL.LHsCreated; HL.LHsRecvList;
   HL.LHsListDone; HL.LHsRecvKick; HL.LHsKickLocked; HL.LHsKickDone]
  ++ map HL.LPmRecvNotify (seq 0 (length (HL.pas s)))
  ++ flat_map (fun m => [HL.LPmServeAdd m; HL.LPaServeAdd m false; HL.LMxExitDone m false]) (seq 0 (length (HL.mxs s))).

Definition hinvolves (l : HL.label) : list hfroz :=
  match l with
  | HL.LPmRecvCall | HL.LPmHandled | HL.LPmRecvNotify _ | HL.LPmNotified _ | HL.LPmServeAdd _ => [FPm]
  | HL.LHsDrain _ | HL.LHsCreated | HL.LHsRecvList | HL.LHsListDone | HL.LHsRecvKick | HL.LHsKickLocked
  | HL.LHsKickDone => [FHs]
  | _ => []
  end.
Definition hfroz_eqb (a b : hfroz) : bool := match a, b with FPm, FPm | FHs, FHs => true | _, _ => false end.
Definition henabledb (s : HL.state) (l : HL.label) : bool :=
  match HL.step true s l with Some _ => true | None => false end.
Definition hsettled (s : HL.state) (frozen : list hfroz) : bool :=
  forallb (fun l => negb (henabledb s l) || existsb (fun q => existsb (hfroz_eqb q) frozen) (hinvolves l))
          (hcandidates s).

Fixpoint hfirst (s : HL.state) (ls : list HL.label) : option HL.state :=
  match ls with
  | [] => None
  | l :: t => match HL.step true s l with Some s' => Some s' | None => hfirst s t end
  end.
Fixpoint hdrain (fuel : nat) (s : HL.state) : HL.state :=
  match fuel with
  | 0 => s
  | S f => match hfirst s (hcandidates s) with Some s' => hdrain f s' | None => s end
  end.

Definition hlab_step (s : HL.state) (l : hlab) : option HL.state :=
  match l with HDo x => HL.step true s x | HDrain => Some (hdrain (HL.measure s) s) end.
Fixpoint hrun (s : HL.state) (ls : list hlab) : option HL.state :=
  match ls with
  | [] => Some s
  | l :: t => match hlab_step s l with Some s' => hrun s' t | None => None end
  end.

Definition hpm_obs (x : HL.pm_pc) : hpm :=
  match x with HL.PmIdle => OHPmIdle | HL.PmHandler => OHPmHandler | HL.PmNotify _ => OHPmNotify end.
Definition hhs_obs (x : HL.hs_pc) : hhs :=
  match x with
  | HL.HsIdle => OHHsIdle | HL.HsCreate _ => OHHsCreate | HL.HsAtMutex | HL.HsKickMutex _ => OHHsMutex
  | HL.HsAtPath _ => OHHsPath
  end.
Definition hpm_eqb (a b : hpm) : bool :=
  match a, b with OHPmIdle, OHPmIdle | OHPmHandler, OHPmHandler | OHPmNotify, OHPmNotify => true | _, _ => false end.
Definition hhs_eqb (a b : hhs) : bool :=
  match a, b with
  | OHHsIdle, OHHsIdle | OHHsCreate, OHHsCreate | OHHsMutex, OHHsMutex | OHHsPath, OHHsPath => true
  | _, _ => false
  end.
Definition count_mx (f : HL.mx_pc -> bool) (s : HL.state) : nat := length (filter f (HL.mxs s)).
Definition hobs_matches (s : HL.state) (o : hobs) : bool :=
  hpm_eqb (hpm_obs (HL.pm s)) (ho_pm o) && hhs_eqb (hhs_obs (HL.hs s)) (ho_hs o)
  && Nat.eqb (count_mx (fun x => match x with HL.MxInit _ => true | _ => false end) s) (ho_init o)
  && Nat.eqb (count_mx (fun x => match x with HL.MxAtPath _ => true | _ => false end) s) (ho_atpath o).

Fixpoint hcheck_segs (s : HL.state) (segs : list hseg) : bool :=
  match segs with
  | [] => true
  | HSeg ls fr o settled _ :: r =>
      match hrun s ls with
      | Some s' => hobs_matches s' o && (negb settled || hsettled s' fr) && hcheck_segs s' r
      | None => false
      end
  end.

(* ---- HLS muxer level ---- *)
Fixpoint mfirst (s : HM.state) (ls : list HM.label) : option HM.state :=
  match ls with
  | [] => None
  | l :: t => match HM.step HM.Code s l with Some s' => Some s' | None => mfirst s t end
  end.
Fixpoint mdrain (fuel : nat) (s : HM.state) : HM.state :=
  match fuel with
  | 0 => s
  | S f => match mfirst s (HM.candidates s) with Some s' => mdrain f s' | None => s end
  end.
Definition mlab_step (s : HM.state) (l : mlab) : option HM.state :=
  match l with MDo x => HM.step HM.Code s x | MDrain => Some (mdrain (HM.measure s) s) end.
Fixpoint mrun (s : HM.state) (ls : list mlab) : option HM.state :=
  match ls with
  | [] => Some s
  | l :: t => match mlab_step s l with Some s' => mrun s' t | None => None end
  end.
Definition mobs_matches (s : HM.state) (o : mobs) : bool :=
  Bool.eqb (negb (HM.gone s)) (mo_present o) && Bool.eqb (HM.wfree s) (mo_free o)
  && Nat.eqb (length (filter (fun c => match HM.c_code c with [] => false | _ => true end) (HM.cls s))) (mo_pending o).
Fixpoint mcheck_segs (s : HM.state) (segs : list mseg) : bool :=
  match segs with
  | [] => true
  | MSeg ls o _ :: r =>
      match mrun s ls with
      | Some s' => mobs_matches s' o && HM.quiescentb s' && mcheck_segs s' r
      | None => false
      end
  end.

Definition mismatch (c : case) : bool :=
  match c with
  | MuxForced segs => negb (mcheck_segs HM.init segs)
  | HlsForced segs => negb (hcheck_segs HL.init segs)
  | Forced segs => negb (check_segs init segs)
  | Soak evs => early_terminated [] evs
  | CoreForced segs => negb (kcheck_segs kinit segs)
  | StreamForced segs => negb (zcheck_segs SL.init segs)
  end.

(* ---- the property on the observations alone: every call and the shutdown complete ------------------------------ *)
Definition all_returned (o : obs) : bool :=
  forallb (fun x => match x with OCRet _ => true | _ => false end) (o_callers o).

Fixpoint last_obs (segs : list seg) : option obs :=
  match segs with
  | [] => None
  | [Seg _ _ o _ _] => Some o
  | _ :: r => last_obs r
  end.

Fixpoint klast_obs (segs : list kseg) : option kobs :=
  match segs with
  | [] => None
  | [KSeg _ _ o _ _] => Some o
  | _ :: r => klast_obs r
  end.

Definition started (evs : list sev) : list Z :=
  flat_map (fun e => match e with SvStart c _ => [c] | _ => [] end) evs.
Definition returned (evs : list sev) (c : Z) : bool :=
  existsb (fun e => match e with SvRet d _ => Z.eqb c d | _ => false end) evs.

(* ---- Stream level, on the observations alone.  Every observation is made while holding Stream.mutex, so:
   a registered reader means hasReaders is closed (C40_stream_handshake; otherwise a second first-joiner closes the
   channel again: C40_stream_unlock_before_check_refuted), the reader table and the callback tables agree, nothing
   that the mutex guards has changed while the driver held the mutex, every RTSPStream() call got the same ServerStream,
   no call has panicked, nothing the driver
   waited for timed out, and at the end every call has returned ------------------------------------------------- *)
Definition zshared_eqb (a b : zobs) : bool :=
  list_eqb Nat.eqb (zo_readers a) (zo_readers b) && list_eqb Nat.eqb (zo_cbs a) (zo_cbs b)
  && Bool.eqb (zo_closed a) (zo_closed b) && Nat.eqb (zo_cur a) (zo_cur b) && Nat.eqb (zo_rtsp a) (zo_rtsp b).

Definition zobs_bad (o : zobs) : bool :=
  existsb (fun x => match x with POPanic => true | _ => false end) (zo_procs o)
  || (match zo_readers o with [] => false | _ => true end && negb (zo_closed o))
  || negb (list_eqb Nat.eqb (zo_readers o) (zo_cbs o))
  || (2 <=? zo_rtsp o).

Fixpoint zspec_segs (prev : option zobs) (segs : list zseg) : bool :=
  match segs with
  | [] => match prev with
          | Some o => negb (forallb (fun x => match x with PODone => true | _ => false end) (zo_procs o))
          | None => true
          end
  | ZSeg _ _ held _ _ o wd :: r =>
      wd || zobs_bad o
      || (held && match prev with Some o' => negb (zshared_eqb o' o) | None => false end)
      || zspec_segs (Some o) r
  end.

(* HLS level, on the observations alone: nothing the scenario waited for (the API listing, the callers) timed out, and
   at the end both loops are back in their selects with no muxer holding its mutex *)
Fixpoint hspec_segs (segs : list hseg) : bool :=
  match segs with
  | [] => true
  | [HSeg _ _ o _ wd] =>
      wd || negb (hpm_eqb (ho_pm o) OHPmIdle && hhs_eqb (ho_hs o) OHHsIdle && Nat.eqb (ho_init o) 0
                  && Nat.eqb (ho_atpath o) 0)
  | HSeg _ _ _ _ wd :: r => wd || hspec_segs r
  end.

(* HLS muxer level, on the observations alone: every observation is made after the driver has waited for the
   goroutines to come to rest: no call is pending, the muxer's mutex can be taken, nothing timed out; after
   Server.Close() (last segment) the muxer is gone *)
Fixpoint mspec_segs (segs : list mseg) : bool :=
  match segs with
  | [] => true
  | MSeg _ o wd :: r =>
      wd || negb (mo_free o) || negb (Nat.eqb (mo_pending o) 0)
      || match r with [] => mo_present o | _ => mspec_segs r end
  end.

Definition spec_fail (c : case) : bool :=
  match c with
  | MuxForced segs => mspec_segs segs
  | HlsForced segs => hspec_segs segs
  | Forced segs =>
      existsb (fun g => match g with Seg _ _ _ _ stuck => stuck end) segs
      || match last_obs segs with
         | Some o => negb (all_returned o && match o_pm o with OPmGone => true | _ => false end
                           && match o_paths o with [] => true | _ => false end
                           && match o_closer o with OClDone => true | _ => false end)
         | None => true
         end
  | Soak evs =>
      negb (forallb (returned evs) (started evs))
      || negb (existsb (fun e => match e with SvClosed => true | _ => false end) evs)
  | CoreForced segs =>
      (* every request got its response, every Close() returned: nothing the scenario waited for timed out, and at
         the end (after Core.Close()) Core.run has terminated and every handler has returned *)
      existsb (fun g => match g with KSeg _ _ _ _ stuck => stuck end) segs
      || match klast_obs segs with
         | Some o => negb (forallb (fun x => match x with OHdRet _ => true | _ => false end) (ko_handlers o)
                           && match ko_core o with OCoGone => true | _ => false end
                           && match ko_closer o with OAcNone => true | _ => false end)
         | None => true
         end
  | StreamForced segs => zspec_segs None segs
  end.
