(* C20b correspondence, HLS front end: runOnRead / runOnUnread lines of every hls session of one path, observed on a real
   hls.Server (in-package driver harness/inpkg/internal/servers/hls/zz_verif_c20hls_test.go: gated fake path manager,
   requests through the server's own gin handler) against Model/C20b_HlsMux.v.  One case = one server life: the
   operations driven (HX.mop) with the lines each session's logger printed during the operation; the last operation is
   Server.Close() when k_ended. *)
From Coq Require Import List Bool ZArith Arith.
Require Import MTX.Lib.Trace MTX.Model.C20b_SiteTypes.
Require Export MTX.Check.C20b MTX.Model.C20b_HlsMux.
Import ListNotations.

Record hstep := mk_hstep { hs_op : HX.mop; hs_lines : list (nat * oline) }.

Record case := mk_hcase {
  hk_read_on : bool; hk_unread_on : bool;      (* path conf: runOnRead / runOnUnread set *)
  hk_steps : list hstep;
  hk_ended : bool                              (* Server.Close() has returned *)
}.

Definition lproj (s : nat) (ls : list (nat * oline)) : list oline :=
  map snd (filter (fun e => Nat.eqb (fst e) s) ls).

Definition all_lines (c : case) : list (nat * oline) := concat (map hs_lines (hk_steps c)).
Definition n_sessions (c : case) : nat := HX.m_nxt (HX.mfinal true (map hs_op (hk_steps c))).

(* ---- model vs observation: per operation and per session ---------------------------------------------------------- *)
(* cmd_open s = the runOnRead command of session s is running (for `render`) *)
Fixpoint steps_mismatch (ron uon : bool) (n : nat) (st : HX.mst) (opened : list nat) (steps : list hstep) : bool :=
  match steps with
  | [] => false
  | sp :: r =>
      let st' := fst (HX.step true st (hs_op sp)) in
      let ev := snd (HX.step true st (hs_op sp)) in
      let opened' := map fst (filter (fun e => match snd e with HStart => true | _ => false end) ev) ++
                     filter (fun i => negb (HX.memb i (map fst ev))) opened in
      existsb (fun s => negb (olines_eqb (render ron uon (HX.memb s opened) (HX.proj s ev)) (lproj s (hs_lines sp))))
              (seq 0 n) ||
      existsb (fun e => negb (Nat.ltb (fst e) n)) (hs_lines sp) ||
      steps_mismatch ron uon n st' opened' r
  end.

Definition mismatch (c : case) : bool :=
  steps_mismatch (hk_read_on c) (hk_unread_on c) (n_sessions c) HX.mst0 [] (hk_steps c).

(* ---- the property on the observed lines alone ---------------------------------------------------------------------
   per session: start/stop lines alternate, start first, closed once the server has been closed; "launched" directly
   follows "stopped".  Ground truth shipped by the driver (MProceed _ true = this request was answered 200, i.e. a reader
   was admitted): every admitted reader has exactly one start line, and exactly one closing line after the end. *)
Definition count_line (l : oline) (ls : list oline) : nat := List.length (filter (oline_eqb l) ls).

Definition admitted (c : case) : list nat :=
  flat_map (fun sp => match hs_op sp with HX.MProceed r true => [r] | _ => [] end) (hk_steps c).

Definition sess_fail (c : case) (s : nat) : bool :=
  let ls := lproj s (all_lines c) in
  lines_bad (hk_ended c) ls ||
  (hk_read_on c && launched_bad false ls) ||
  (HX.memb s (admitted c) &&
   ((hk_read_on c && negb (Nat.eqb (count_line OStarted ls) 1)) ||
    (hk_ended c && hk_read_on c && negb (Nat.eqb (count_line OStopped ls + count_line OPanicStop ls) 1)) ||
    (hk_ended c && hk_unread_on c && negb (Nat.eqb (count_line OLaunched ls) 1)))).

Definition spec_fail (c : case) : bool := existsb (sess_fail c) (seq 0 (n_sessions c)).
