(* Correspondence cases for C38: a timed script of file operations on a real ConfWatcher and the observed signals. *)
From Coq Require Import List ZArith Bool.
Require Export MTX.Model.C38_Watcher.
Import ListNotations.
Local Open Scope Z_scope.

(* initial resolved path; events (time ms, resolved path afterwards (0 = missing), names the file with write/create);
   observed signal times (ms since script start); time of the last change that leaves the file in place *)
Inductive case := Script (p0 : Z) (events : list (Z * Z * bool)) (signals : list Z) (last_change : Z) (file_exists_at_end : bool).

Definition tol : Z := 250.

(* The real watcher may notify MORE often than the model: an operation that produces several file-system events
   (rename-over, symlink swap) leaves events behind the first signal, and whether the non-blocking drain catches them
   depends on goroutine scheduling; the left-over ones arm the deferred timer, giving one extra signal ~1 s after the
   previous one. Over-notification is harmless for the property, so the comparison allows exactly that: every model
   signal must be matched in order (within the tolerance), and every unmatched real signal must come one interval
   after the preceding real signal. *)
Fixpoint covers (model real : list Z) (prev_real : option Z) : bool :=
  match real with
  | [] => match model with [] => true | _ => false end
  | r :: real' =>
      match model with
      | m :: model' =>
          if Z.abs (r - m) <=? tol then covers model' real' (Some r)
          else match prev_real with
               | Some p => (Z.abs (r - (p + min_interval + additional_wait)) <=? tol) && covers model real' (Some r)
               | None => false
               end
      | [] => match prev_real with
              | Some p => (Z.abs (r - (p + min_interval + additional_wait)) <=? tol) && covers [] real' (Some r)
              | None => false
              end
      end
  end.

Definition mismatch (c : case) : bool :=
  match c with
  | Script p0 evs sigs _ _ => negb (covers (run_auto true (init p0) p0 evs) sigs None)
  end.

(* the property on the observation: if the file exists at the end, some signal came after its last change *)
Definition spec_fail (c : case) : bool :=
  match c with
  | Script _ _ sigs last ex => ex && negb (existsb (fun s => last <=? s) sigs)
  end.
