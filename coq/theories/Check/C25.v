(* Correspondence cases for C25: one history of Estimate calls on the real Estimator (timeNow set by the driver). *)
From Coq Require Import List ZArith Bool.
Require Import MTX.Lib.IntWrap MTX.Model.C24_MulDiv MTX.Model.C25_Ntp.
Import ListNotations.
Local Open Scope Z_scope.

(* clock rate; calls (pts, now in Unix ns); observed outputs (Unix ns) *)
Inductive case :=
| Hist (rate : Z) (calls : list (Z * Z)) (outs : list Z)
  (* the same, observed on a real Stream (delivered PTS, clock reading of the estimator, NTP carried by the unit), from
     the estimator state read when the observation started *)
| HistFrom (rate : Z) (inited : bool) (ref_ntp ref_pts : Z) (calls : list (Z * Z)) (outs : list Z).

Fixpoint eq_lists (a b : list Z) : bool :=
  match a, b with
  | [], [] => true
  | x :: a', y :: b' => (x =? y) && eq_lists a' b'
  | _, _ => false
  end.

Definition mismatch (c : case) : bool :=
  match c with
  | Hist rate calls outs => negb (eq_lists (run rate est0 calls) outs)
  | HistFrom rate i rn rp calls outs =>
      negb (eq_lists (run rate {| inited := i; ref_ntp := rn; ref_pts := rp |} calls) outs)
  end.

(* The property on the observed outputs only:
   (1) now - 5 s <= out <= now for every call;
   (2) steady stretch: see `steady` below. *)
Fixpoint windows (calls : list (Z * Z)) (outs : list Z) : bool :=
  match calls, outs with
  | [], [] => true
  | (_, now) :: c', o :: o' => (now - 5000000000 <=? o) && (o <=? now) && windows c' o'
  | _, _ => false
  end.

(* (2) steady stretch, judged without the model: for consecutive calls with p1 < p2, the candidate o1 + (p2-p1)*10^9/rate
   (exact, rational) is what the property prescribes for o2 whenever it lies inside the window of the second call
   with a margin of 2 ns (the truncation of the two scalings): a resynchronisation is legitimate only when the
   candidate leaves the window. *)
Fixpoint steady (rate : Z) (calls : list (Z * Z)) (outs : list Z) : bool :=
  match calls, outs with
  | (p1, n1) :: (((p2, n2) :: _) as c'), o1 :: ((o2 :: _) as o') =>
      (let cand := o1 * rate + (p2 - p1) * 1000000000 in
       if (p1 <? p2) && (p2 - p1 <? 4611686018427387904)
          && ((n2 - 5000000000 + 2) * rate <=? cand) && (cand <=? (n2 - 2) * rate)
       then Z.abs (rate * (o2 - o1) - (p2 - p1) * 1000000000) <? 2 * rate else true)
      && steady rate c' o'
  | _, _ => true
  end.

Definition spec_fail (c : case) : bool :=
  match c with
  | Hist rate calls outs | HistFrom rate _ _ _ calls outs => negb (windows calls outs && steady rate calls outs)
  end.
