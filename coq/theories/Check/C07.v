(* Correspondence cases for C07: the real api.redactCredentials / Control API configuration handlers on
   generated configurations, the real httpp.dumpRequest on requests parsed by net/http, and
   textproto.CanonicalMIMEHeaderKey. *)
From Coq Require Import List ZArith Bool.
Require Export MTX.Lib.Heap MTX.Model.C07_Redact MTX.Model.C07_Dump.
Require Import MTX.Model.C11_Clone.
Import ListNotations.
Local Open Scope Z_scope.

Inductive case :=
  (* h, live: the live configuration before the call (projection: users / pathDefaults / paths; cells by
     pointer identity; strings interned: 0 = "", 1 = "<redacted>").
     view, live_after: the returned view and the live configuration after the call, every reference followed.
     view_pw: the password strings read from the view. json_same: json.Marshal of the whole live
     configuration is byte-identical before and after. shared: some pointer/slice/map of the view is
     identical to one of the live configuration. leaks: tokens of the non-empty passwords found in the
     bodies answered by the real handlers config/global/get, config/pathdefaults/get, config/paths/list,
     config/paths/get/<every name> *)
| KRedact (h : heap) (live : value) (view live_after : tree) (view_pw : list Z)
          (json_same shared : bool) (leaks : list Z)
  (* dumpRequest(req) = out; secrets = the values sent in headers whose name, case-folded, is in the
     redaction set. r carries the body reader: the bytes it delivers and how the stream ends *)
| KDump (r : request) (out : list Z) (secrets : list (list Z))
  (* the real handlerLogger{inner, capturing logger}.ServeHTTP(w, req) with req.RemoteAddr = addr:
     first = the first message written to the logger, all = every message written (any level) *)
| KLog (r : request) (addr : list Z) (first : list Z) (all : list (list Z)) (secrets : list (list Z))
  (* textproto.CanonicalMIMEHeaderKey(raw) = out *)
| KCanon (raw out : list Z).

Definition depth : nat := 12.

(* long generated bodies are shipped run-length encoded: rp n u = u repeated n times *)
Fixpoint rp_nat (n : nat) (u : list Z) : list Z := match n with O => [] | S k => u ++ rp_nat k u end.
Definition rp (n : Z) (u : list Z) : list Z := rp_nat (Z.to_nat n) u.

Fixpoint tree_eqb (a b : tree) {struct a} : bool :=
  let fix all2 (l : list tree) (m : list tree) {struct l} : bool :=
      match l, m with
      | [], [] => true
      | x :: l', y :: m' => tree_eqb x y && all2 l' m'
      | _, _ => false
      end in
  match a, b with
  | TScalar x, TScalar y => x =? y
  | TNil, TNil => true
  | TCell l, TCell m => all2 l m
  | TStruct l, TStruct m => all2 l m
  | TIface None, TIface None => true
  | TIface (Some x), TIface (Some y) => tree_eqb x y
  | TCut, TCut => true
  | _, _ => false
  end.

Fixpoint contains (needle hay : list Z) : bool :=
  match hay with
  | [] => match needle with [] => true | _ => false end
  | _ :: r => has_prefix needle hay || contains needle r
  end.

Definition mismatch (c : case) : bool :=
  match c with
  | KRedact h live view live_after view_pw json_same shared leaks =>
      match redact depth h live with
      | Some (h2, cv) =>
          negb (tree_eqb (tree_of depth h2 cv) view && tree_eqb (tree_of depth h2 live) live_after
                && (length (passwords h2 cv) =? length view_pw)%nat
                && forallb (fun p => match fst p with Some z => z =? snd p | None => false end)
                           (combine (passwords h2 cv) view_pw))
      | None => true
      end
  | KDump r out secrets => negb (beq (dump r) out)
  | KLog r addr first all secrets => negb (beq (log_request addr r) first && (length all =? 2)%nat)
  | KCanon raw out => negb (beq (canon_key raw) out)
  end.

(* the property on the observed values *)
Definition spec_fail (c : case) : bool :=
  match c with
  | KRedact h live view live_after view_pw json_same shared leaks =>
      existsb (fun z => negb ((z =? 0) || (z =? 1))) view_pw
      || negb json_same || shared
      || negb (tree_eqb (tree_of depth h live) live_after)
      || negb (match leaks with [] => true | _ => false end)
  | KDump r out secrets => existsb (fun s => contains s out) secrets
  | KLog r addr first all secrets => existsb (fun s => existsb (contains s) all) secrets
  | KCanon _ _ => false
  end.
