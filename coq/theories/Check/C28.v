(* Correspondence cases for C28: the driver ran the real segmentFMP4ReadHeader, segmentFMP4ReadDurationFromParts,
   segmentFMP4MuxParts (package playback) under recover() and recorded the file, the answers of the third-party
   decoders on that file (oracle tables) and the observed outcome and heap bytes allocated. *)
From Coq Require Import List ZArith Bool String Ascii.
Require Import MTX.Lib.IntWrap MTX.Model.C24_MulDiv.
Require Export MTX.Model.C28_SegRead MTX.Model.C28_Dir.
Import ListNotations.
Local Open Scope Z_scope.

(* ---- compact byte literals ---- *)
Definition hexval (c : ascii) : Z :=
  let n := Z.of_N (N_of_ascii c) in
  if (48 <=? n) && (n <=? 57) then n - 48 else if (97 <=? n) && (n <=? 102) then n - 87 else 0.
Fixpoint hex (s : string) : bytes :=
  match s with
  | String a (String b r) => (hexval a * 16 + hexval b) :: hex r
  | _ => []
  end.
Definition rep (x n : Z) : bytes := repeat x (Z.to_nat n).
Definition cat (l : list bytes) : bytes := List.concat l.
(* edits of a base file *)
Definition slice (b : bytes) (lo hi : Z) : bytes := firstn (Z.to_nat (hi - lo)) (skipn (Z.to_nat lo) b).
Definition put8 (b : bytes) (off v : Z) : bytes :=
  firstn (Z.to_nat off) b ++ v :: skipn (Z.to_nat (off + 1)) b.
Definition put32 (b : bytes) (off v : Z) : bytes :=
  firstn (Z.to_nat off) b ++
  [v / 16777216 mod 256; v / 65536 mod 256; v / 256 mod 256; v mod 256] ++ skipn (Z.to_nat (off + 4)) b.

(* ---- observed outcomes ---- *)
Inductive hobs := HOk (tracks : list track) (d : Z) | HErr | HPanic.
Inductive zobs := ZOk (v : Z) | ZErr | ZPanic.

Definition tbl (A : Type) := list (Z * Z * A).

Inductive case :=
  (* segmentFMP4ReadHeader on data; mvhd: (offset, payload size) -> go-mp4 Unmarshal of Mvhd at that offset;
     init: (n, 0) -> fmp4.Init.Unmarshal(data[:n]) *)
| CHeader (data : bytes) (mvhd : tbl mvhd_res) (init : tbl init_res) (o : hobs) (alloc : Z)
  (* segmentFMP4ReadDurationFromParts on data with init.Tracks = tracks; tables: (payload offset, length) -> decoded *)
| CParts (data : bytes) (tracks : list track) (tfhd tfdt : tbl (option Z)) (trun : tbl (option (list Z)))
         (o : zobs) (alloc : Z)
  (* segmentFMP4MuxParts on a file of flen bytes with a recording muxer that asks for every payload:
     the events go-mp4 delivered, the result, the calls received by the muxer (most recent first, offset 0) *)
| CMux (flen : Z) (tracks : list track) (start_dts duration : Z) (events : list ev) (o : zobs)
       (calls : list mcall) (alloc : Z)
  (* the real parseSegment / seekAndMux with the real muxers on a file of flen bytes: only the outcome class *)
| CReal (kind : Z) (flen : Z) (panicked : bool) (alloc : Z)
  (* the real /list handler on a recording directory in which some files are unparsable. found = the outcome of the
     real parseSegment on each file recordstore.FindSegments selected for this window, in its order ([] = it found
     none); status = HTTP status (599 = the handler panicked), nentries = length of the JSON list of a 200 answer;
     total_len = bytes of all files of the directory *)
| CListDir (found : list (res pseg)) (start end_ : option Z) (status nentries : Z) (total_len alloc : Z)
  (* the real /get handler on such a directory. found = the outcome of the real segmentFMP4ReadHeader on each
     selected file (the outcome of muxing is not observed per file) *)
| CGetDir (found : list (res pseg)) (status : Z) (total_len alloc : Z).

(* ---- running the model ---- *)
Fixpoint lookup {A} (t : tbl A) (a b : Z) (d : A) : A :=
  match t with
  | [] => d
  | (x, y, v) :: r => if (x =? a) && (y =? b) then v else lookup r a b d
  end.

Definition track_eqb (a b : track) : bool := (fst a =? fst b) && (snd a =? snd b).
Fixpoint list_eqb {A} (e : A -> A -> bool) (a b : list A) : bool :=
  match a, b with
  | [], [] => true
  | x :: a', y :: b' => e x y && list_eqb e a' b'
  | _, _ => false
  end.

Definition hobs_eqb (a b : hobs) : bool :=
  match a, b with
  | HOk t d, HOk t' d' => list_eqb track_eqb t t' && (d =? d')
  | HErr, HErr | HPanic, HPanic => true
  | _, _ => false
  end.
Definition zobs_eqb (a b : zobs) : bool :=
  match a, b with
  | ZOk v, ZOk v' => v =? v'
  | ZErr, ZErr | ZPanic, ZPanic => true
  | _, _ => false
  end.

Definition mcall_eqb (a b : mcall) : bool :=
  match a, b with
  | SetTrack i, SetTrack j => i =? j
  | WriteSample d c n s _, WriteSample d' c' n' s' _ => (d =? d') && (c =? c') && Bool.eqb n n' && (s =? s')
  | FinalDTS d, FinalDTS d' => d =? d'
  | _, _ => false
  end.

Definition sum (l : list Z) : Z := fold_right Z.add 0 l.

Definition run_header (data : bytes) (mvhd : tbl mvhd_res) (init : tbl init_res) : hobs * Z :=
  let r := read_header repaired data (fun a b => lookup mvhd a b MvhdErr) (fun n => lookup init n 0 InitErr) in
  (match fst r with Ok (Header t d) => HOk t d | Err => HErr | Panic _ => HPanic end, sum (snd r)).

Definition run_parts (data : bytes) (tracks : list track) (tfhd tfdt : tbl (option Z)) (trun : tbl (option (list Z)))
  : zobs * Z :=
  let r := read_duration_from_parts repaired data (fun a b => lookup tfhd a b None) (fun a b => lookup tfdt a b None)
             (fun a b => lookup trun a b None) tracks in
  (match fst r with Ok v => ZOk v | Err => ZErr | Panic _ => ZPanic end, sum (snd r)).

Definition ts_ok (tracks : list track) : bool := forallb (fun t => negb (snd t =? 0)) tracks.

(* durations read from damaged headers can be astronomically large; time.Time / time.Duration saturation is not
   modelled, so the entry count is compared only when every duration is below 2^55 ns (about 1.1 years) *)
Definition sane_durs (found : list (res pseg)) : bool :=
  forallb (fun r => match r with
                    | Ok p => (- 36028797018963968 <? p.(p_dur)) && (p.(p_dur) <? 36028797018963968)
                    | _ => true end) found.

Definition mismatch (c : case) : bool :=
  match c with
  | CHeader data mvhd init o alloc =>
      let r := run_header data mvhd init in
      negb (hobs_eqb (fst r) o && (snd r <=? alloc)
            (* the assumption made on mediacommon: decoded tracks have a non-zero timescale *)
            && forallb (fun e => match snd e with InitOk t => ts_ok t | InitErr => true end) init)
  | CParts data tracks tfhd tfdt trun o alloc =>
      let r := run_parts data tracks tfhd tfdt trun in
      negb (zobs_eqb (fst r) o && (snd r <=? alloc) && ts_ok tracks)
  | CMux flen tracks s d events o calls alloc =>
      let r := mux_parts repaired flen tracks s d events in
      negb (match fst r, o with
            | Ok st, ZOk v => (st.(m_seg_dur) =? v) && list_eqb mcall_eqb st.(m_calls) calls
            | Err, ZErr => true
            | Panic _, ZPanic => true
            | _, _ => false
            end && (sum (snd r) <=? alloc) && ts_ok tracks)
  | CReal _ _ _ _ => false
  | CListDir found st en status nentries _ _ =>
      (* the answer does not depend on the completion order (C28_list_dir_answer): the identity order is run *)
      negb (match on_list_dir KeepAny found (seq 0 (List.length found)) st en with
            | Ok (L200 es) =>
                if sane_durs found then (status =? 200) && (Z.of_nat (List.length es) =? nentries)
                else (status =? 200) || (status =? 404)
            | Ok L400 => status =? 400
            | Ok L404 => if sane_durs found then status =? 404 else (status =? 200) || (status =? 404)
            | Ok L500 => status =? 500
            | Err => false
            | Panic _ => status =? 599
            end)
  | CGetDir found status _ _ =>
      (* the per-file outcome of muxing is not observed: every file is given a failing mux, which decides the class
         only as far as the first header *)
      negb (match on_get_dir (map (fun h => GF h Err) found) with
            | Ok GNotFound => status =? 404
            | Ok GBadFirst => status =? 400
            | Ok _ => (status =? 200) || (status =? 400) || (status =? 404)
            | Err => false
            | Panic _ => status =? 599
            end)
  end.

(* ---- the property on the observed outputs only (no model function is called below) ---- *)
(* heap bytes a call may allocate: linear in the file length plus a constant for decoders, readers, errors *)
Definition alloc_limit (n : Z) : Z := 8388608 + 64 * n.

Definition spec_fail (c : case) : bool :=
  match c with
  | CHeader data _ _ o alloc =>
      match o with HPanic => true | _ => false end || (alloc_limit (Z.of_nat (List.length data)) <? alloc)
  | CParts data _ _ _ _ o alloc =>
      match o with ZPanic => true | _ => false end || (alloc_limit (Z.of_nat (List.length data)) <? alloc)
  | CMux flen _ _ _ _ o _ alloc =>
      match o with ZPanic => true | _ => false end || (alloc_limit flen <? alloc)
  | CReal _ flen panicked alloc => panicked || (alloc_limit flen <? alloc)
  | CListDir _ _ _ status _ total_len alloc => (status =? 599) || (alloc_limit total_len <? alloc)
  | CGetDir _ status total_len alloc => (status =? 599) || (alloc_limit total_len <? alloc)
  end.
