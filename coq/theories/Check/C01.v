(* Correspondence cases for C01: the driver called the real auth.Manager.Authenticate (Method = internal) on a
   generated user list and request, and ships the oracle values computed by the real libraries on that input. *)
From Coq Require Import List ZArith Bool.
Require Import MTX.Lib.Utf8 MTX.Model.C01_Auth.
Import ListNotations.
Local Open Scope Z_scope.

(* what a configured credential accepts, known to the driver by construction (it hashed the plaintext itself) *)
Inductive accept := AccAny | AccOnly (plain : list Z) | AccNone.

(* a configured network: the bytes of the real conf.IPNetwork (after UnmarshalJSON of the generated string) and what the
   generated string is meant to denote: family, network number, prefix length *)
Inductive cnet := CNet (ip mask : list Z) (is4 : bool) (val ones : Z).

Inductive cuser := CUser (user pass : list Z) (uacc pacc : accept) (ips : list cnet) (perms : list (list Z * list Z)).

Inductive creq := CReq (user pass token ip action path : list Z)
                       (custom : option (list ((list Z * list Z) * bool)))   (* CustomVerifyFunc on each configured (user, pass) *)
                       (ask : bool).

Inductive oracles := Orc (sha : list (list Z * list Z))                 (* guess -> base64(sha256(guess)) *)
                         (argon : list ((list Z * list Z) * bool))      (* (encoded, guess) -> VerifyEncoded *)
                         (rx : list ((list Z * list Z) * bool)).        (* (pattern, text) -> compiles && MatchString *)

Inductive obs := OGranted (user : list Z) | ODenied (ask : bool) | OPanic.

Inductive case := Auth (users : list cuser) (req : creq) (orc : oracles) (o : obs).

(* ---- tables ---------------------------------------------------------------------------- *)

Fixpoint lookup1 {B} (t : list (list Z * B)) (k : list Z) : option B :=
  match t with
  | [] => None
  | (k', v) :: r => if list_eqb k' k then Some v else lookup1 r k
  end.

Fixpoint lookup2 {B} (t : list ((list Z * list Z) * B)) (k1 k2 : list Z) : option B :=
  match t with
  | [] => None
  | ((a, b), v) :: r => if list_eqb a k1 && list_eqb b k2 then Some v else lookup2 r k1 k2
  end.

Definition get {B} (d : B) (o : option B) : B := match o with Some v => v | None => d end.
Definition present {B} (o : option B) : bool := match o with Some _ => true | None => false end.

(* ---- model side ------------------------------------------------------------------------ *)

Definition m_net (n : cnet) : ipnet := match n with CNet ip mask _ _ _ => {| n_ip := ip; n_mask := mask |} end.
Definition m_perm (p : list Z * list Z) : perm := {| p_action := fst p; p_path := snd p |}.
Definition m_user (u : cuser) : user :=
  match u with CUser us pa _ _ ips perms =>
    {| u_user := us; u_pass := pa; u_ips := map m_net ips; u_perms := map m_perm perms |} end.
Definition m_req (q : creq) : request :=
  match q with CReq us pa tok ip act path custom ask =>
    {| r_user := us; r_pass := pa; r_token := tok; r_ip := ip; r_action := act; r_path := path;
       r_custom := match custom with Some t => Some (fun a b => get false (lookup2 t a b)) | None => None end;
       r_ask := ask |} end.

Definition obs_of (o : outcome) : obs := match o with Granted u => OGranted u | Denied a => ODenied a end.

Definition obs_eqb (a b : obs) : bool :=
  match a, b with
  | OGranted x, OGranted y => list_eqb x y
  | ODenied x, ODenied y => Bool.eqb x y
  | OPanic, OPanic => true
  | _, _ => false
  end.

(* the driver shipped every oracle value the model may consult on this case *)
Definition is_hashed (pfx d : list Z) : bool := has_prefix pfx d.
Definition oracles_complete (users : list cuser) (q : creq) (orc : oracles) : bool :=
  match q, orc with CReq qu qp _ _ _ qpath custom _, Orc sha argon rx =>
    present (lookup1 sha qu) && present (lookup1 sha qp) &&
    forallb (fun u => match u with CUser us pa _ _ _ perms =>
      (negb (is_hashed s_argon2 us) || present (lookup2 argon (skipn 7 us) qu)) &&
      (negb (is_hashed s_argon2 pa) || present (lookup2 argon (skipn 7 pa) qp)) &&
      forallb (fun p => match snd p with
                        | c :: pat => negb (c =? c_tilde) || present (lookup2 rx pat qpath)
                        | [] => true
                        end) perms &&
      match custom with Some t => present (lookup2 t us pa) | None => true end
      end) users
  end.

(* the parsed network is the canonical form of the intended one *)
Fixpoint be_bytes (n : nat) (v : Z) (acc : list Z) : list Z :=
  match n with O => acc | S k => be_bytes k (v / 256) (v mod 256 :: acc) end.

Definition net_canonical (n : cnet) : bool :=
  match n with CNet ip mask is4 val ones =>
    let len := if is4 then 4%nat else 16%nat in
    let bits := 8 * Z.of_nat len in
    (0 <=? ones) && (ones <=? bits) &&
    list_eqb ip (be_bytes len (val / 2 ^ (bits - ones) * 2 ^ (bits - ones)) []) &&
    list_eqb mask (cidr_mask len ones)
  end.

Definition mismatch (c : case) : bool :=
  match c with
  | Auth users q orc o =>
      match orc with Orc sha argon rx =>
        let f_sha := fun g => get [] (lookup1 sha g) in
        let f_argon := fun e g => get false (lookup2 argon e g) in
        let f_rx := fun p t => get false (lookup2 rx p t) in
        negb (obs_eqb (obs_of (authenticate f_sha f_argon f_rx (map m_user users) (m_req q))) o)
        || negb (oracles_complete users q orc)
        || negb (forallb (fun u => match u with CUser _ _ _ _ ips _ => forallb net_canonical ips end) users)
      end
  end.

(* ---- the property on the observed result, without the model ------------------------------
   granted iff some configured user entry has (empty IP list or a network with the client's family and the same top
   prefix bits) and (a permission for the action; for publish/read/playback: empty path, equal path, or a '~' regular
   expression that the regexp oracle finds in the path) and (is "any", or the custom verifier accepts its user/pass, or its
   user and pass accept the supplied ones: by construction of the hashes); granted requests report the supplied user;
   denied ones ask for credentials iff asking is enabled and neither user nor password was supplied. *)

Fixpoint value_of (acc : Z) (b : list Z) : Z := match b with [] => acc | x :: r => value_of (acc * 256 + x) r end.

(* family and value of the client address: a.b.c.d in 4 bytes or as ::ffff:a.b.c.d is IPv4 *)
Definition client_view (ip : list Z) : option (bool * Z) :=
  match length ip with
  | 4%nat => Some (true, value_of 0 ip)
  | 16%nat => let v := value_of 0 ip in
              if v / 2 ^ 32 =? 65535 then Some (true, v mod 2 ^ 32) else Some (false, v)
  | _ => None
  end.

Definition spec_net_contains (ip : list Z) (n : cnet) : bool :=
  match n, client_view ip with
  | CNet _ _ is4 val ones, Some (f, v) =>
      let bits := if is4 then 32 else 128 in
      Bool.eqb f is4 && (v / 2 ^ (bits - ones) =? val / 2 ^ (bits - ones))
  | _, None => false
  end.

Definition spec_path_action (a : list Z) : bool :=
  list_eqb a a_publish || list_eqb a a_read || list_eqb a a_playback.

Definition spec_perm (rx : list ((list Z * list Z) * bool)) (action path : list Z) (p : list Z * list Z) : bool :=
  list_eqb (fst p) action &&
  (negb (spec_path_action action) ||
   match snd p with
   | [] => true
   | 126 :: pat => get false (lookup2 rx pat path)
   | _ => list_eqb (snd p) path
   end).

Definition acc_ok (a : accept) (g : list Z) : bool :=
  match a with AccAny => true | AccOnly p => list_eqb p g | AccNone => false end.

Definition spec_user (q : creq) (rx : list ((list Z * list Z) * bool)) (u : cuser) : bool :=
  match q, u with CReq qu qp _ ip act path custom _, CUser us pa uacc pacc ips perms =>
    (match ips with [] => true | _ => existsb (spec_net_contains ip) ips end) &&
    existsb (spec_perm rx act path) perms &&
    (list_eqb us s_any ||
     match custom with
     | Some t => get false (lookup2 t us pa)
     | None => acc_ok uacc qu && acc_ok pacc qp
     end)
  end.

Definition spec_fail (c : case) : bool :=
  match c with
  | Auth users q orc o =>
      match q, orc with CReq qu qp _ _ _ _ _ ask, Orc _ _ rx =>
        let expected := existsb (spec_user q rx) users in
        match o with
        | OGranted u => negb (expected && list_eqb u qu)
        | ODenied a => expected || negb (Bool.eqb a (ask && list_eqb qu [] && list_eqb qp []))
        | OPanic => true
        end
      end
  end.
