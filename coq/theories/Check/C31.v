(* Correspondence cases for C31: the driver ran the real api handlers onRecordingsGet and
   onRecordingDeleteSegment against real files (names shown with the case directory replaced by "/w"). *)
From Coq Require Import List ZArith Bool.
Require Import MTX.Lib.Civil MTX.Model.C26_RecPath MTX.Model.C31_DeleteSeg.
Import ListNotations.
Local Open Scope Z_scope.

(* one DELETE /v3/recordings/deletesegment?path=..&start=<text>:
   parsed = time.Parse(RFC3339, text) as (Unix seconds, nanoseconds, offset) or None on error;
   zoff = offset of the server zone at that instant (oracle: zone database);
   ok = status 200; removed = files that disappeared *)
Record dreq := mkReq { q_text : list Z; q_parsed : option (Z * Z * Z); q_zoff : Z; q_ok : bool;
                       q_removed : list (list Z) }.

Inductive case :=
  (* a segment of path `name` recorded at (u0, n0) while the zone offset was zoff0, written as file v by
     Path{Start}.Encode of the real code; `listed` = the start GET /v3/recordings/get/<name> reports while v
     is the only file (loff = the offset time.Date applied); then, with `others` present as well, every request
     of reqs (each denotes the recorded or the listed instant, at some offset) on a restored directory *)
| Seg (rp ext name : list Z) (u0 n0 zoff0 : Z) (v : list Z) (others : list (list Z))
      (loff : Z) (listed : option (Z * Z)) (reqs : list dreq)
  (* a request whose instant is days away from every segment start (starts), or whose text / path is invalid *)
| Absent (rp ext name : list Z) (files : list (list Z)) (starts : list Z) (req : dreq).

Fixpoint bytes_eqb (a b : list Z) : bool :=
  match a, b with
  | [], [] => true
  | x :: a', y :: b' => (x =? y) && bytes_eqb a' b'
  | _, _ => false
  end.

Fixpoint names_eqb (a b : list (list Z)) : bool :=
  match a, b with
  | [], [] => true
  | x :: a', y :: b' => bytes_eqb x y && names_eqb a' b'
  | _, _ => false
  end.

Definition mem (x : list Z) (l : list (list Z)) : bool := existsb (bytes_eqb x) l.

Definition inst_eqb (i : instant) (x : Z * Z * Z) : bool :=
  let '(u, n, o) := x in (i_unix i =? u) && (i_ns i =? n) && (i_off i =? o).

(* what the model says about one request *)
Definition req_agrees (g : list Z) (files : list (list Z)) (q : dreq) : bool :=
  match q_parsed q with
  | None => negb (q_ok q) && names_eqb (q_removed q) []
  | Some (u, n, off) =>
      (match rfc3339_parse (q_text q) with Some i => inst_eqb i (u, n, off) | None => false end) &&
      let tgt := delete_target (fun _ => q_zoff q) g (mkI u n off) in
      if mem tgt files then q_ok q && names_eqb (q_removed q) [tgt]
      else negb (q_ok q) && names_eqb (q_removed q) []
  end.

Definition opt_eqb (a b : option (Z * Z)) : bool :=
  match a, b with
  | None, None => true
  | Some (u, n), Some (u', n') => (u =? u') && (n =? n')
  | _, _ => false
  end.

Definition mismatch (c : case) : bool :=
  match c with
  | Seg rp ext name u0 n0 zoff0 v others loff listed reqs =>
      let g := path_format rp ext name in
      negb (bytes_eqb (recorded_name (fun _ => zoff0) g u0 n0) v
            && opt_eqb (listed_start loff g v) listed
            && forallb (req_agrees g (v :: others)) reqs)
  | Absent rp ext name files _ q =>
      negb (match q_parsed q with
            | None => negb (q_ok q) && names_eqb (q_removed q) []
            | Some (u, n, off) =>
                let tgt := delete_target (fun _ => q_zoff q) (path_format rp ext name) (mkI u n off) in
                if mem tgt files then q_ok q && names_eqb (q_removed q) [tgt]
                else negb (q_ok q) && names_eqb (q_removed q) []
            end)
  end.

(* The property on the observed outputs only (no Encode/Decode/delete_target here):
   - the listing reports a start for the file, equal to the recorded instant at the precision of the
     format (microseconds with %f, else seconds) whenever the name pins the zone down (%z, %s, or the offset
     time.Date applied is the one in force when the segment was recorded);
   - every request denoting the recorded instant (at the format's precision) or the listed instant, whatever
     offset it is written with, succeeds and removes exactly that file;
   - a request for an instant no segment starts at, or an invalid one, removes nothing. *)
Definition prec (hasf : bool) (u n : Z) : Z * Z := (u, if hasf then n / 1000 else 0).
Definition pair_eqb (a b : Z * Z) : bool := (fst a =? fst b) && (snd a =? snd b).

Definition spec_fail (c : case) : bool :=
  match c with
  | Seg rp ext name u0 n0 zoff0 v others loff listed reqs =>
      let ts := tokenize rp in
      let hasf := has Tf ts in
      match listed with
      | None => true
      | Some (lu, ln) =>
          (((loff =? zoff0) || has Tz ts || has Ts ts)
             && negb (pair_eqb (lu, ln) (u0, if hasf then n0 / 1000 * 1000 else 0)))
          || negb (forallb (fun q =>
                      match q_parsed q with
                      | Some (u, n, _) =>
                          (pair_eqb (prec hasf u n) (prec hasf u0 n0) || pair_eqb (u, n) (lu, ln))
                          && q_ok q && names_eqb (q_removed q) [v]
                      | None => false
                      end) reqs)
      end
  | Absent _ _ _ _ starts q =>
      match q_parsed q with
      | None => q_ok q || negb (names_eqb (q_removed q) [])
      | Some (u, _, _) =>
          forallb (fun s => 172800 <=? Z.abs (u - s)) starts && (q_ok q || negb (names_eqb (q_removed q) []))
      end
  end.
