(* Correspondence cases for C29: the driver wrote a recording (fMP4 segments laid out like the recorder does),
   called the real /list or /get handler with one window and shipped the recording's facts (oracle: the real
   segment readers) together with the observed answer. *)
From Coq Require Import List ZArith Bool.
Require Import MTX.Model.C29_Playback.
Import ListNotations.
Local Open Scope Z_scope.

(* short constructors for the cases files *)
Definition Mx := mkMtxi.
Definition Sg := mkSeg.
Definition Sm := mkSample.
Definition Tf := mkTraf.
Definition G := mkGseg.
Definition O := mkO.
Definition E := mkEntry.

Inductive lobs := LO404 | LOOther (code : Z) | LOEntries (es : list entry).
Inductive gobs := GO404 | GOOther (code : Z) | GOParts (ps : list opart).

Inductive case :=
| ListCase (all : list seg) (st en : option Z) (o : lobs)
| GetCase (all : list gseg) (st dur : Z) (o : gobs).

(* ------------------------------------------------------------------ model vs observed *)

Definition entry_eqb (a b : entry) : bool := (e_start a =? e_start b) && (e_dur a =? e_dur b).
Fixpoint list_eqb {A} (eqb : A -> A -> bool) (a b : list A) : bool :=
  match a, b with
  | [], [] => true
  | x :: a', y :: b' => eqb x y && list_eqb eqb a' b'
  | _, _ => false
  end.
Definition sample_eqb (a b : sample) : bool :=
  (sm_id a =? sm_id b) && (sm_dur a =? sm_dur b) && Bool.eqb (sm_sync a) (sm_sync b) && (sm_pts a =? sm_pts b).
Definition otrack_eqb (a b : otrack) : bool :=
  (o_track a =? o_track b) && (o_base a =? o_base b) && list_eqb sample_eqb (o_samples a) (o_samples b).

Definition mismatch (c : case) : bool :=
  match c with
  | ListCase all st en o =>
      negb match on_list all st en, o with
           | LNotFound, LO404 => true
           | LBadRequest, LOOther 400 => true
           | LEntries es, LOEntries es' => list_eqb entry_eqb es es'
           | _, _ => false
           end
  | GetCase all st dur o =>
      negb match on_get all st dur, o with
           | ErrNotFound, GO404 => true
           | Ok ps, GOParts ps' => list_eqb (list_eqb otrack_eqb) ps ps'
           | _, _ => false
           end
  end.

(* ------------------------------------------------------------------ the property on the observed output *)

Definition sec : Z := 1000000000.

Fixpoint zs_eqb (a b : list (Z * Z * Z)) : bool :=
  match a, b with
  | [], [] => true
  | (x1, x2, x3) :: a', (y1, y2, y3) :: b' => (x1 =? y1) && (x2 =? y2) && (x3 =? y3) && zs_eqb a' b'
  | _, _ => false
  end.

(* "b continues a": consecutive segment numbers of one stream id; recordings without the mtxi box: same
   track table and at most one second between the end of a and the start of b *)
Definition continues (a : seg) (a_end : Z) (b : seg) : bool :=
  match s_mtxi a, s_mtxi b with
  | Some m1, Some m2 => (mx_sid m1 =? mx_sid m2) && (mx_num m2 =? (mx_num m1 + 1) mod 2 ^ 64)
  | None, None => zs_eqb (s_tracks a) (s_tracks b) && (Z.abs (s_start b - a_end) <=? sec)
  | _, _ => false
  end.

(* recorder invariant: strictly increasing starts, durations >= 0, a segment that does not continue its
   predecessor starts after the predecessor's end, one that does ends no earlier *)
Fixpoint rec_okb (l : list seg) : bool :=
  match l with
  | a :: ((b :: _) as r) =>
      (0 <=? s_dur a) && (s_start a <? s_start b)
      && (if continues a (seg_end a) b then seg_end a <=? seg_end b else seg_end a <=? s_start b)
      && rec_okb r
  | [a] => 0 <=? s_dur a
  | [] => true
  end.

(* the recorded media: one interval [first start, last end) per maximal run of continuing segments *)
Fixpoint runs_from (lo : Z) (prev : seg) (l : list seg) : list (Z * Z) :=
  match l with
  | [] => [(lo, seg_end prev)]
  | s :: r => if continues prev (seg_end prev) s then runs_from lo s r
              else (lo, seg_end prev) :: runs_from (s_start s) s r
  end.
Definition runs (l : list seg) : list (Z * Z) :=
  match l with [] => [] | s :: r => runs_from (s_start s) s r end.

Definition clip (st en : option Z) (iv : Z * Z) : Z * Z :=
  let '(a, b) := iv in
  (match st with Some s => Z.max a s | None => a end, match en with Some e => Z.min b e | None => b end).

(* canonical form of a sorted list of intervals as a set of instants: no empty interval, touching ones joined *)
Fixpoint norm (l : list (Z * Z)) : list (Z * Z) :=
  match l with
  | [] => []
  | (a, b) :: r =>
      if b <=? a then norm r
      else match norm r with
           | (c, d) :: r' => if c =? b then (a, d) :: r' else (a, b) :: (c, d) :: r'
           | [] => [(a, b)]
           end
  end.
Fixpoint ivs_eqb (a b : list (Z * Z)) : bool :=
  match a, b with
  | [], [] => true
  | (x1, x2) :: a', (y1, y2) :: b' => (x1 =? y1) && (x2 =? y2) && ivs_eqb a' b'
  | _, _ => false
  end.

Fixpoint entries_sortedb (es : list entry) : bool :=
  match es with
  | a :: ((b :: _) as r) => (0 <=? e_dur a) && (e_end a <=? e_start b) && entries_sortedb r
  | [a] => 0 <=? e_dur a
  | [] => true
  end.

(* an entry that strictly contains the start of a segment must not be the join of two unrelated segments *)
Fixpoint joins_okb (es : list entry) (l : list seg) : bool :=
  match l with
  | a :: ((b :: _) as r) =>
      (continues a (seg_end a) b
       || negb (existsb (fun e => (e_start e <? s_start b) && (s_start b <? e_end e)) es))
      && joins_okb es r
  | _ => true
  end.

Definition window_okb (st en : option Z) : bool :=
  match st, en with Some s, Some e => s <=? e | _, _ => true end.

(* an interval is empty or lies inside one interval of l *)
Definition within (iv : Z * Z) (l : list (Z * Z)) : bool :=
  (snd iv <=? fst iv) || existsb (fun j => (fst j <=? fst iv) && (snd iv <=? snd j)) l.

(* The short intervals between a segment and the one that continues it (NTP/DTS jitter) are recorded media or
   not depending on the reading, so the answer is required to lie between the two readings:
   every recorded segment clipped to the window is covered, and every span lies inside a clipped run. *)
Definition list_spec_fail (all : list seg) (st en : option Z) (o : lobs) : bool :=
  if negb (rec_okb all) then false
  else
    let hi := norm (map (clip st en) (runs all)) in
    let lo := map (fun s => clip st en (s_start s, seg_end s)) all in
    match o with
    | LOOther code => negb (negb (window_okb st en) && (code =? 400))
    | LO404 => negb (forallb (fun iv => snd iv <=? fst iv) lo)
    | LOEntries es =>
        let ne := norm (map (fun e => (e_start e, e_end e)) es) in
        negb (entries_sortedb es
              && forallb (fun iv => within iv ne) lo
              && forallb (fun iv => within iv hi) ne
              && joins_okb es all)
    end.

(* ---- /get *)

Definition to_units (v ts : Z) : Z := Z.quot v sec * ts + Z.quot (Z.rem v sec * ts) sec.
Definition to_ns (v ts : Z) : Z := Z.quot v ts * sec + Z.quot (Z.rem v ts * sec) ts.

(* end of a segment as the sum of its parts says (the instant the next legacy segment is compared with) *)
Definition parts_end (g : gseg) : Z :=
  g_start g +
  fold_left (fun acc p =>
    fold_left (fun acc tf =>
      match find_ts (tf_track tf) (s_tracks (g_seg g)) with
      | Some ts => Z.max acc (to_ns (fold_left (fun d s => d + sm_dur s) (tf_samples tf) (tf_base tf)) ts)
      | None => acc
      end) p acc) (g_parts g) 0.

(* the segment the playback starts from: the last one that starts at or before the requested start (the
   first one if the request starts before the recording), then the segments that continue it;
   each with the offset (ns) of its time zero from the requested start *)
Fixpoint anchor (st : Z) (l : list gseg) : list gseg :=
  match l with
  | a :: ((b :: _) as r) => if g_start b <=? st then anchor st r else l
  | _ => l
  end.
Fixpoint chain (first : gseg) (st : Z) (prev : gseg) (l : list gseg) : list (gseg * Z) :=
  match l with
  | [] => []
  | g :: r =>
      if continues (g_seg prev) (parts_end prev) (g_seg g)
      then (g, match s_mtxi (g_seg first), s_mtxi (g_seg g) with
               | Some m0, Some m => g_start first - st + (mx_dts m - mx_dts m0)
               | _, _ => g_start g - st
               end) :: chain first st g r
      else []
  end.

(* recorded samples of one track with their timestamps relative to the requested start, in recorded order,
   each tagged with (index of the segment in the chain, index of the part) *)
Fixpoint rows_traf (t : Z) (l : list sample) : list (sample * Z) :=
  match l with [] => [] | s :: r => (s, t) :: rows_traf (t + sm_dur s) r end.
Definition rows_seg (id ts : Z) (k : Z) (g : gseg) (off : Z) : list (sample * Z * (Z * Z)) :=
  flat_map (fun '(pi, p) =>
    flat_map (fun tf => if tf_track tf =? id
                        then map (fun x => (x, (k, pi))) (rows_traf (tf_base tf + to_units off ts) (tf_samples tf))
                        else []) p)
    (combine (map Z.of_nat (seq 0 (length (g_parts g)))) (g_parts g)).
Definition rows (id ts : Z) (ch : list (gseg * Z)) : list (sample * Z * (Z * Z)) :=
  flat_map (fun '(k, (g, off)) => rows_seg id ts k g off) (combine (map Z.of_nat (seq 0 (length ch))) ch).

(* samples since the last random-access point: the trailing part of `before` (newest last) from its last
   sync sample on (everything if there is none) *)
Fixpoint since_sync (before : list (sample * Z)) : list (sample * Z) :=
  match before with
  | [] => []
  | x :: r => if existsb (fun y => sm_sync (fst y)) r then since_sync r else before
  end.

Definition expected_track (id ts dur : Z) (ch : list (gseg * Z)) : list (Z * Z) :=
  let rs := map fst (rows id ts ch) in
  let d := to_units dur ts in
  let win := filter (fun x => (0 <=? snd x) && (snd x <? d)) rs in
  match win with
  | [] => []
  | (s0, t0) :: _ =>
      let pre := if sm_sync s0 then [] else since_sync (filter (fun x => snd x <? 0) rs) in
      map (fun x => (sm_id (fst x), t0)) pre ++ map (fun x => (sm_id (fst x), snd x)) win
  end.

Fixpoint pairs_eqb (a b : list (Z * Z)) : bool :=
  match a, b with
  | [], [] => true
  | (x1, x2) :: a', (y1, y2) :: b' => (x1 =? y1) && (x2 =? y2) && pairs_eqb a' b'
  | _, _ => false
  end.

Definition get_spec_fail (all : list gseg) (st dur : Z) (o : gobs) : bool :=
  if negb (rec_okb (map g_seg all)) then false
  else
    let l := filter (fun g => g_start g <=? st + dur) all in
    match anchor st l with
    | [] => match o with GO404 => false | _ => true end
    | g0 :: rest =>
        let ch := (g0, g_start g0 - st) :: chain g0 st g0 rest in
        let exp := map (fun '(id, ts, _) => (id, expected_track id ts dur ch)) (s_tracks (g_seg g0)) in
        match o with
        | GO404 => negb (forallb (fun x => match snd x with [] => true | _ => false end) exp)
        | GOOther _ => true
        | GOParts ps =>
            negb (forallb (fun '(id, e) =>
                    pairs_eqb (map (fun x => (sm_id (fst x), snd x)) (flat_track id ps)) e) exp)
            || forallb (fun x => match snd x with [] => true | _ => false end) exp
        end
    end.

Definition spec_fail (c : case) : bool :=
  match c with
  | ListCase all st en o => list_spec_fail all st en o
  | GetCase all st dur o => get_spec_fail all st dur o
  end.
