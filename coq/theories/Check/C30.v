(* Correspondence cases for C30: the driver ran the real Cleaner.doRun (timeNow set) on a generated
   directory tree (names shown with the case directory replaced by "/w"). *)
From Coq Require Import List ZArith Bool.
Require Import MTX.Lib.Civil MTX.Model.C26_RecPath MTX.Model.C31_DeleteSeg.
Require Export MTX.Model.C30_Cleaner.   (* the cases use mkPC, KDir, KOther *)
Import ListNotations.
Local Open Scope Z_scope.

Inductive case :=
  (* loff: offset of time.Local (fixed zone); confs: the configurations (list order = the driver's indices);
     now: timeNow() in ns; tree: every entry below the case directory before the pass, sorted by name;
     rtab: (i, p, confs[i].Regexp matches p); ftab: (p, index conf.FindPathConf(confs, p) returns);
     protected: entries the generator made as directories, foreign files or look-alikes (never to be removed);
     recorded: the generator's ground truth - (i, path name, k, u, n): the file tree[i] was written with the real
       Path.Encode for that path name under confs[k]'s record path and extension, with start (u s, n ns) as the
       format keeps it (microseconds with %f, else whole seconds);
     names: FindAllPathsWithSegments(confs) before the pass; removed: non-directories gone after doRun, sorted *)
| Pass (loff : Z) (confs : list pconf) (now : Z) (tree : list entry)
       (rtab : list (nat * list Z * bool)) (ftab : list (list Z * option nat))
       (protected : list (list Z)) (recorded : list (nat * list Z * nat * Z * Z))
       (names : list (list Z)) (removed : list (list Z)).

Definition rematch_of (rtab : list (nat * list Z * bool)) (i : nat) (p : list Z) : bool :=
  match find (fun x => Nat.eqb (fst (fst x)) i && bytes_eqb (snd (fst x)) p) rtab with
  | Some x => snd x
  | None => false
  end.

Definition resolve_of (ftab : list (list Z * option nat)) (p : list Z) : option nat :=
  match find (fun x => bytes_eqb (fst x) p) ftab with Some x => snd x | None => None end.

Fixpoint names_eqb (a b : list (list Z)) : bool :=
  match a, b with
  | [], [] => true
  | x :: a', y :: b' => bytes_eqb x y && names_eqb a' b'
  | _, _ => false
  end.

Definition mem (x : list Z) (l : list (list Z)) : bool := existsb (bytes_eqb x) l.
Definition subset (a b : list (list Z)) : bool := forallb (fun x => mem x b) a.

Definition mismatch (c : case) : bool :=
  match c with
  | Pass loff confs now tree rtab ftab _ _ names removed =>
      let rm := rematch_of rtab in
      let rs := resolve_of ftab in
      let pn := path_names (fixed_lz loff) rm confs tree in
      negb (names_eqb (map fst (deleted (fixed_lz loff) rm rs confs now tree)) removed
            && subset pn names && subset names pn
            (* the sequential pass leaves the complement *)
            && names_eqb (map fst (run_seq (fixed_lz loff) rm rs confs now tree))
                         (map fst (filter (fun e => negb (mem (fst e) removed)) tree)))
  end.

(* The property on the observed outputs only. "Segment of path p under configuration c starting at (u, n)" is
   what C26 defines: Path.Decode of the file name under c's record path with p substituted. A file must be
   removed iff it is a non-directory and, for some path name p that FindPathConf resolves to a configuration c
   with deleteAfter <> 0, it is such a segment with start <= now - deleteAfter (for "only": p ranges over every
   name FindPathConf was asked about; for "all": over the names FindAllPathsWithSegments reported).
   Independently of Decode: nothing the generator made as a directory, foreign file or look-alike is removed. *)
Definition expired_segment_of (loff : Z) (confs : list pconf) (now : Z) (ftab : list (list Z * option nat))
           (p : list Z) (f : list Z) : bool :=
  match resolve_of ftab p with
  | Some j =>
      match nth_error confs j with
      | Some c =>
          negb (pc_da c =? 0) &&
          match decode loff (path_format (pc_rp c) (pc_ext c) p) f with
          | Some (_, u, n) => u * 1000000000 + n <=? now - pc_da c
          | None => false
          end
      | None => false
      end
  | None => false
  end.

(* Ground truth, without Decode: a file the recorder's Encode wrote for path name pn under the record path of
   confs[k] must go when pn resolves to a configuration with the same record path and extension (so that the
   file is a segment of pn under it), that configuration is pn's static entry or a regular expression matching
   pn (so that the file itself makes FindAllPathsWithSegments report pn), deleteAfter <> 0 and the start the
   format keeps is <= now - deleteAfter. *)
Definition must_go (confs : list pconf) (now : Z) (rtab : list (nat * list Z * bool))
           (ftab : list (list Z * option nat)) (x : nat * list Z * nat * Z * Z) : bool :=
  let '(_, pn, k, u, n) := x in
  match resolve_of ftab pn, nth_error confs k with
  | Some j, Some ck =>
      match nth_error confs j with
      | Some c =>
          negb (pc_da c =? 0) && bytes_eqb (pc_rp c) (pc_rp ck) && bytes_eqb (pc_ext c) (pc_ext ck)
          && (if pc_regex c then rematch_of rtab j pn else bytes_eqb (pc_name c) pn)
          && (u * 1000000000 + n <=? now - pc_da c)
      | None => false
      end
  | _, _ => false
  end.

Definition rec_file (tree : list entry) (x : nat * list Z * nat * Z * Z) : list Z :=
  let '(i, _, _, _, _) := x in fst (nth i tree ([], KDir)).

Definition spec_fail (c : case) : bool :=
  match c with
  | Pass loff confs now tree rtab ftab protected recorded names removed =>
      let files := map fst (filter (fun e => match snd e with KOther => true | KDir => false end) tree) in
      negb (forallb (fun f => mem f files && negb (mem f protected)
                              && existsb (fun x => expired_segment_of loff confs now ftab (fst x) f) ftab) removed
            && forallb (fun f => negb (existsb (fun p => expired_segment_of loff confs now ftab p f) names)
                                 || mem f removed) files
            && forallb (fun x => negb (must_go confs now rtab ftab x) || mem (rec_file tree x) removed) recorded)
  end.
