(* Correspondence cases for C02: the driver ran the real getToken / Manager.Authenticate (http and jwt methods) against a
   local auth server and a local JWKS server, and ships the oracle values computed by the real libraries. *)
From Coq Require Import List ZArith Bool.
Require Import MTX.Lib.Utf8 MTX.Lib.Json MTX.Model.C01_Auth MTX.Model.C02_AuthExt MTX.Model.C02_Jwks.
Import ListNotations.
Local Open Scope Z_scope.

Inductive creq := CReq (user pass token ipstr action path proto : list Z) (id : option (list Z))
                       (query agent : list Z) (ask : bool).

(* how the driver assembled the query string: from these decoded pairs (it did the escaping), or deliberately malformed;
   and what the real url.ParseQuery made of it: err != nil, v["token"], v["jwt"] *)
Inductive qshape := QPairs (pairs : list (list Z * list Z)) | QBad.
Inductive qreal := QReal (err : bool) (tokens jwts : list (list Z)).

Definition rxtable := list ((list Z * list Z) * bool).         (* (pattern, text) -> compiles && MatchString *)
Definition permlist := list (list Z * list Z).                 (* (action, path) *)

(* what the driver knows about a token string by construction: whether it must verify whatever the issuer/audience
   settings are (good key of a served JWKS, untampered, allowed alg, not expired / not before, iss and aud of a JSON type a
   token may carry), the iss claim it put in ([] = absent, null or ""), the aud claim it put in (a string is a one-element
   list; [] = absent, null or an empty array), the permission list it put into the claim (None: claim missing or not a
   permission list), the subject *)
Inductive tinfo := TInfo (valid : bool) (iss : list Z) (aud : list (list Z)) (perms : option permlist) (sub : list Z).

(* golang-jwt on a candidate token WITHOUT parser options (None: rejected): subject, issuer, audience, raw JSON under the
   claim key; lib_ok: the same library call WITH the options the configuration calls for (built by the driver) succeeds *)
Inductive vclaims := VC (sub iss : list Z) (aud : list (list Z)) (raw : option (list Z)) (lib_ok : bool).

Inductive obs := OGranted (user : list Z) | ODenied (ask : bool) | OPanic.

(* a session on one Manager: Authenticate calls (with what the JWKS server would answer at that moment: Some key-set id,
   None = no usable answer), RefreshJWTJWKS calls, and the refresh period passing *)
Inductive sstep :=
| SAuth (served : option Z) (q : creq) (shape : qshape) (real : qreal) (o : obs)
| SRefresh
| SExpire.

Inductive case :=
| Tok (inq : bool) (q : creq) (shape : qshape) (real : qreal) (observed : list Z)            (* getToken(inq, req) *)
| Http (ex : permlist) (rx : rxtable) (q : creq) (shape : qshape) (real : qreal)
       (status : option Z)                           (* what the case's auth server answers; None: nothing listens *)
       (posts : list (list Z))                       (* raw bodies it received *)
       (fields : list (list (list Z * option (list Z))))   (* each body decoded by encoding/json: key -> string / null *)
       (o : obs)
| Jwt (ex : permlist) (rx : rxtable) (q : creq) (shape : qshape) (real : qreal)
      (inq : option bool) (jwks_ok : bool)
      (issuer audience : list Z)                                        (* Manager.JWTIssuer, Manager.JWTAudience *)
      (parse : list (list Z * option vclaims))                          (* candidate token -> golang-jwt verdict *)
      (decp : list (list Z * option permlist))                          (* raw JSON -> []AuthInternalUserPermission *)
      (decs : list (list Z * option (list Z)))                          (* raw JSON -> string *)
      (known : list (list Z * tinfo))                                   (* by construction *)
      (o : obs)
| JwtSeq (ex : permlist) (rx : rxtable) (inq : option bool) (issuer audience : list Z)
         (keysets : list (Z * list Z))                                  (* key-set id -> ids of its keys (by construction) *)
         (parse : list ((list Z * list Z) * option vclaims))            (* ([key-set id], candidate token) -> golang-jwt *)
         (decp : list (list Z * option permlist))
         (decs : list (list Z * option (list Z)))
         (known : list (list Z * (Z * tinfo)))                          (* token -> (id of the signing key, the rest) *)
         (steps : list sstep).

(* ---- tables -------------------------------------------------------------------------------- *)

Fixpoint lookup1 {B} (t : list (list Z * B)) (k : list Z) : option B :=
  match t with
  | [] => None
  | (k', v) :: r => if list_eqb k' k then Some v else lookup1 r k
  end.

Fixpoint lookup2 {B} (t : list ((list Z * list Z) * B)) (k1 k2 : list Z) : option B :=
  match t with
  | [] => None
  | ((a, b), v) :: r => if list_eqb a k1 && list_eqb b k2 then Some v else lookup2 r k1 k2
  end.

Fixpoint lookupZ {B} (t : list (Z * B)) (k : Z) : option B :=
  match t with
  | [] => None
  | (k', v) :: r => if k' =? k then Some v else lookupZ r k
  end.

Definition get {B} (d : B) (o : option B) : B := match o with Some v => v | None => d end.
Definition flat {B} (o : option (option B)) : option B := match o with Some v => v | None => None end.
Definition present {B} (o : option B) : bool := match o with Some _ => true | None => false end.

Fixpoint lists_eqb (a b : list (list Z)) : bool :=
  match a, b with
  | [], [] => true
  | x :: a', y :: b' => list_eqb x y && lists_eqb a' b'
  | _, _ => false
  end.

(* ---- model side ------------------------------------------------------------------------------ *)

Definition m_req (q : creq) : xreq :=
  match q with CReq us pa tok ip act path proto id query agent ask =>
    {| x_user := us; x_pass := pa; x_token := tok; x_ipstr := ip; x_action := act; x_path := path; x_proto := proto;
       x_id := id; x_query := query; x_agent := agent; x_ask := ask |} end.
Definition m_perm (p : list Z * list Z) : perm := {| p_action := fst p; p_path := snd p |}.
Definition m_rx (t : rxtable) : list Z -> list Z -> bool := fun p s => get false (lookup2 t p s).

Definition m_claims (v : vclaims) : jclaims :=
  match v with VC sub iss aud raw _ => {| jc_sub := sub; jc_iss := iss; jc_aud := aud; jc_raw := raw |} end.

Definition obs_of (o : outcome) : obs := match o with Granted u => OGranted u | Denied a => ODenied a end.
Definition obs_eqb (a b : obs) : bool :=
  match a, b with
  | OGranted x, OGranted y => list_eqb x y
  | ODenied x, ODenied y => Bool.eqb x y
  | OPanic, OPanic => true
  | _, _ => false
  end.

Definition q_query (q : creq) : list Z := match q with CReq _ _ _ _ _ _ _ _ query _ _ => query end.
Definition q_path (q : creq) : list Z := match q with CReq _ _ _ _ _ path _ _ _ _ _ => path end.

(* the model of url.ParseQuery agrees with the real one on what getToken looks at, and with the driver's construction *)
Definition query_model_ok (q : creq) (shape : qshape) (real : qreal) : bool :=
  let '(err, ps) := parse_query (q_query q) in
  match real with QReal rerr rtok rjwt =>
    Bool.eqb err rerr && (err || (lists_eqb (values k_token ps) rtok && lists_eqb (values k_jwt ps) rjwt))
  end &&
  match shape with
  | QPairs want => negb err && lists_eqb (map fst ps) (map fst want) && lists_eqb (map snd ps) (map snd want)
  | QBad => err
  end.

(* every '~' permission of the list has its regexp oracle value for this path *)
Definition rx_complete (rx : rxtable) (path : list Z) (ps : permlist) : bool :=
  forallb (fun p => match snd p with
                    | c :: pat => negb (c =? c_tilde) || present (lookup2 rx pat path)
                    | [] => true
                    end) ps.

Fixpoint obs_list_eqb (a b : list obs) : bool :=
  match a, b with
  | [], [] => true
  | x :: a', y :: b' => obs_eqb x y && obs_list_eqb a' b'
  | _, _ => false
  end.

Definition mismatch_seq (ex : permlist) (rx : rxtable) (inq : option bool) (issuer audience : list Z)
  (keysets : list (Z * list Z)) (parse : list ((list Z * list Z) * option vclaims))
  (decp : list (list Z * option permlist)) (decs : list (list Z * option (list Z))) (steps : list sstep) : bool :=
  let f_verify := fun (k : Z) t => match flat (lookup2 parse [k] t) with Some v => Some (m_claims v) | None => None end in
  let f_decp := fun raw => match flat (lookup1 decp raw) with Some ps => Some (map m_perm ps) | None => None end in
  let f_decs := fun raw => flat (lookup1 decs raw) in
  let evs := map (fun s => match s with
                           | SAuth served q _ _ _ => EAuth Z served (m_req q)
                           | SRefresh => ERefresh Z
                           | SExpire => EExpire Z
                           end) steps in
  let observed := flat_map (fun s => match s with SAuth _ _ _ _ o => [o] | _ => [] end) steps in
  let outs := snd (run Z (m_rx rx) f_verify f_decp f_decs issuer audience (map m_perm ex) inq (js_init Z) evs) in
  negb (obs_list_eqb (map obs_of outs) observed)
  || negb (forallb (fun s => match s with
                             | SAuth _ q shape real _ =>
                                 query_model_ok q shape real && rx_complete rx (q_path q) ex &&
                                 (* every key set has its verdict on the token the model selects *)
                                 match get_token (in_query_flag true inq) (m_req q) with
                                 | [] => true
                                 | tok => forallb (fun ks => present (lookup2 parse [fst ks] tok)) keysets
                                 end
                             | _ => true
                             end) steps)
  || negb (forallb (fun e => match snd e with
                             | Some (VC _ _ _ raw lib_ok as v) =>
                                 Bool.eqb lib_ok (forallb (opt_ok (m_claims v)) (parser_opts issuer audience)) &&
                                 match raw with
                                 | Some rw => present (lookup1 decp rw) &&
                                              (present (flat (lookup1 decp rw)) || present (lookup1 decs rw))
                                 | None => true
                                 end
                             | None => true
                             end) parse).

Definition mismatch (c : case) : bool :=
  match c with
  | Tok inq q shape real observed =>
      negb (list_eqb (get_token inq (m_req q)) observed) || negb (query_model_ok q shape real)
  | Http ex rx q shape real status posts fields o =>
      let r := m_req q in
      let post := fun _ : list Z => status in
      negb (obs_eqb (obs_of (authenticate_http (m_rx rx) post (map m_perm ex) r)) o)
      || negb (lists_eqb match http_posted (m_rx rx) (map m_perm ex) r with
                         | Some b => match status with Some _ => [b] | None => [] end
                         | None => []
                         end posts)
      || negb (query_model_ok q shape real) || negb (rx_complete rx (q_path q) ex)
  | Jwt ex rx q shape real inq jwks_ok issuer audience parse decp decs known o =>
      let r := m_req q in
      let f_verify := fun t => match flat (lookup1 parse t) with Some v => Some (m_claims v) | None => None end in
      let f_decp := fun raw => match flat (lookup1 decp raw) with Some ps => Some (map m_perm ps) | None => None end in
      let f_decs := fun raw => flat (lookup1 decs raw) in
      let tok := get_token (in_query_flag true inq) r in
      negb (obs_eqb (obs_of (authenticate_jwt_cfg (m_rx rx) f_verify f_decp f_decs issuer audience (map m_perm ex) jwks_ok inq r)) o)
      || negb (query_model_ok q shape real) || negb (rx_complete rx (q_path q) ex)
      (* the modelled option list + verifyIssuer/verifyAudience agree with the real library called with the options *)
      || negb (forallb (fun e => match snd e with
                                 | Some (VC _ _ _ _ lib_ok as v) =>
                                     Bool.eqb lib_ok (forallb (opt_ok (m_claims v)) (parser_opts issuer audience))
                                 | None => true
                                 end) parse)
      (* oracle completeness along the path the model takes *)
      || negb (match tok with
               | [] => true
               | _ => match lookup1 parse tok with
                      | None => false
                      | Some (Some (VC _ _ _ (Some raw) _)) =>
                          present (lookup1 decp raw) &&
                          match flat (lookup1 decp raw) with
                          | Some ps => rx_complete rx (q_path q) ps
                          | None => present (lookup1 decs raw) &&
                                    match flat (lookup1 decs raw) with
                                    | Some s => present (lookup1 decp s) &&
                                                match flat (lookup1 decp s) with
                                                | Some ps => rx_complete rx (q_path q) ps
                                                | None => true
                                                end
                                    | None => true
                                    end
                          end
                      | Some _ => true
                      end
               end)
  | JwtSeq ex rx inq issuer audience keysets parse decp decs _ steps =>
      mismatch_seq ex rx inq issuer audience keysets parse decp decs steps
  end.

(* ---- the property on the observed results, without the model ----------------------------------- *)

Definition s_is (a b : list Z) : bool := list_eqb a b.

Definition spec_is_http (proto action : list Z) : bool :=
  s_is proto [104; 108; 115] || s_is proto [119; 101; 98; 114; 116; 99] ||                  (* hls webrtc *)
  s_is action a_playback || s_is action a_api || s_is action a_metrics || s_is action a_pprof.

Definition single (vs : list (list Z)) : option (list Z) := match vs with [v] => Some v | _ => None end.

Definition pair_values (k : list Z) (ps : list (list Z * list Z)) : list (list Z) :=
  flat_map (fun p => if list_eqb (fst p) k then [snd p] else []) ps.

(* token field, else password, else - for RTSP/RTMP, or for HTTP-based requests when allowed - the single "token"
   parameter, else the single "jwt" parameter. None: the query is malformed and decides (not constrained here) *)
Definition spec_token (inq : bool) (q : creq) (shape : qshape) : option (list Z) :=
  match q with CReq _ pa tok _ act _ proto _ _ _ _ =>
    match tok with
    | _ :: _ => Some tok
    | [] => match pa with
            | _ :: _ => Some pa
            | [] => if s_is proto [114; 116; 115; 112] || s_is proto [114; 116; 109; 112] || (inq && spec_is_http proto act)
                    then match shape with
                         | QPairs ps => match single (pair_values k_token ps) with
                                        | Some v => Some v
                                        | None => match single (pair_values k_jwt ps) with Some v => Some v | None => Some [] end
                                        end
                         | QBad => None
                         end
                    else Some []
            end
    end
  end.

Definition spec_path_action (a : list Z) : bool := s_is a a_publish || s_is a a_read || s_is a a_playback.

Definition spec_grants (rx : rxtable) (action path : list Z) (ps : permlist) : bool :=
  existsb (fun p => s_is (fst p) action &&
                    (negb (spec_path_action action) ||
                     match snd p with
                     | [] => true
                     | 126 :: pat => get false (lookup2 rx pat path)
                     | _ => s_is (snd p) path
                     end)) ps.

Definition spec_ask (q : creq) (tok : list Z) : bool :=
  match q with CReq us pa _ _ _ _ _ _ _ _ ask => ask && s_is us [] && s_is pa [] && s_is tok [] end.

(* the decoded body carries the request's fields (strings as encoding/json transmits them) *)
Definition field_is (fs : list (list Z * option (list Z))) (k : list Z) (v : option (list Z)) : bool :=
  match lookup1 fs k, v with
  | Some (Some a), Some b => list_eqb a (sanitize b)
  | Some None, None => true
  | _, _ => false
  end.

Definition spec_body (q : creq) (tok : list Z) (fs : list (list Z * option (list Z))) : bool :=
  match q with CReq us pa _ ip act path proto id query agent _ =>
    (length fs =? 10)%nat &&
    field_is fs [105; 112] (Some ip) && field_is fs [117; 115; 101; 114] (Some us) &&
    field_is fs [112; 97; 115; 115; 119; 111; 114; 100] (Some pa) && field_is fs [116; 111; 107; 101; 110] (Some tok) &&
    field_is fs [97; 99; 116; 105; 111; 110] (Some act) && field_is fs [112; 97; 116; 104] (Some path) &&
    field_is fs [112; 114; 111; 116; 111; 99; 111; 108] (Some proto) && field_is fs [105; 100] id &&
    field_is fs [113; 117; 101; 114; 121] (Some query) && field_is fs [117; 115; 101; 114; 65; 103; 101; 110; 116] (Some agent)
  end.

(* a configured issuer must BE the token's iss; a configured audience must be AMONG the token's aud; an empty setting does
   not constrain; the two settings are independent *)
Definition spec_settings (issuer audience iss : list Z) (aud : list (list Z)) : bool :=
  (s_is issuer [] || s_is iss issuer) && (s_is audience [] || existsb (s_is audience) aud).

(* sessions. The key set in effect is the one the JWKS server handed out at the first request that was not excluded after
   the last RefreshJWTJWKS / expiry of the refresh period (none if it had no usable answer then: the next such request
   tries again); excluded requests are granted without consulting the JWKS. A token must verify iff its signing key is in
   the key set in effect (and the rest of it is in order). Returns true when an observed outcome contradicts this. *)
Fixpoint spec_seq (ex : permlist) (rx : rxtable) (flag : bool) (issuer audience : list Z) (keysets : list (Z * list Z))
  (known : list (list Z * (Z * tinfo))) (cur : option Z) (steps : list sstep) : bool :=
  match steps with
  | [] => false
  | SRefresh :: rest => spec_seq ex rx flag issuer audience keysets known None rest
  | SExpire :: rest => spec_seq ex rx flag issuer audience keysets known None rest
  | SAuth served q shape _ o :: rest =>
      match q with CReq _ _ _ _ act path _ _ _ _ _ =>
        if spec_grants rx act path ex then
          match o with OGranted u => negb (s_is u []) | _ => true end
          || spec_seq ex rx flag issuer audience keysets known cur rest
        else
          let eff := match cur with Some k => Some k | None => served end in
          match spec_token flag q shape with
          | None => spec_seq ex rx flag issuer audience keysets known eff rest
          | Some tok =>
              let info := match tok with [] => None | _ => lookup1 known tok end in
              let '(ok, sub) := match eff, info with
                                | Some ks, Some (keyid, TInfo true iss aud (Some ps) sub) =>
                                    (existsb (Z.eqb keyid) (get [] (lookupZ keysets ks)) &&
                                     spec_settings issuer audience iss aud && spec_grants rx act path ps, sub)
                                | _, _ => (false, [])
                                end in
              match o with
              | OGranted u => negb (ok && s_is u sub)
              | ODenied a => ok || negb (Bool.eqb a (spec_ask q tok))
              | OPanic => true
              end
              || spec_seq ex rx flag issuer audience keysets known eff rest
          end
      end
  end.

Definition spec_fail (c : case) : bool :=
  match c with
  | Tok inq q shape _ observed =>
      match spec_token inq q shape with Some t => negb (list_eqb t observed) | None => false end
  | Http ex rx q shape _ status posts fields o =>
      match q with CReq us _ _ _ act path _ _ _ _ _ =>
        let excl := spec_grants rx act path ex in
        let ok := match status with Some st => (200 <=? st) && (st <=? 299) | None => false end in
        match spec_token false q shape with
        | None => false
        | Some tok =>
            match o with
            | OGranted u => negb ((excl && s_is u []) || (negb excl && ok && s_is u us))
            | ODenied a => excl || ok || negb (Bool.eqb a (spec_ask q tok))
            | OPanic => true
            end
            (* when the server was consulted it was consulted once, with the request's fields and the selected token *)
            || (negb excl && match status with
                             | Some _ => match fields with [fs] => negb (spec_body q tok fs) | _ => true end
                             | None => false
                             end)
        end
      end
  | Jwt ex rx q shape _ inq jwks_ok issuer audience _ _ _ known o =>
      match q with CReq _ _ _ _ act path _ _ _ _ _ =>
        let excl := spec_grants rx act path ex in
        let flag := match inq with Some b => b | None => false end in
        match spec_token flag q shape with
        | None => false
        | Some tok =>
            let info := match tok with [] => None | _ => lookup1 known tok end in
            let '(ok, sub) := match info with
                              | Some (TInfo true iss aud (Some ps) sub) =>
                                  (jwks_ok && spec_settings issuer audience iss aud && spec_grants rx act path ps, sub)
                              | _ => (false, [])
                              end in
            match o with
            | OGranted u => negb ((excl && s_is u []) || (negb excl && ok && s_is u sub))
            | ODenied a => excl || ok || negb (Bool.eqb a (spec_ask q tok))
            | OPanic => true
            end
        end
      end
  | JwtSeq ex rx inq issuer audience keysets _ _ _ known steps =>
      spec_seq ex rx (match inq with Some b => b | None => false end) issuer audience keysets known None steps
  end.
