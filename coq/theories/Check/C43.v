(* Correspondence cases for C43: one request/operation history run against the real HLS server (gin handler of
   internal/servers/hls with a stub path manager), with what was observed after every operation. *)
From Coq Require Import List ZArith NArith Bool.
From Coq Require String Ascii.
Require Export MTX.Model.C43_Hls.
Import ListNotations.
Local Open Scope Z_scope.

(* printable strings are shipped as string literals *)
Definition Bs (s : String.string) : list Z :=
  map (fun a => Z.of_N (Ascii.N_of_ascii a)) (String.list_ascii_of_string s).

(* observation of one operation:
   status  HTTP status of a request; 1/0 = done / nothing done for Kick, MuxClose, PathNotReady; 0 otherwise
   secret  the session secret the client received (string), if any
   via     where it was delivered: 0 = only in the URIs of the playlist (query), 1 = only as cookie, 2 = both, 3 = n/a
   id      identity of the session the driver saw appear in the muxer (numbered in order of appearance)
   pc, pq  ORACLE: google/uuid Parse of the hlsSession cookie value / of the session query value of a media request
   sip     session.ip of the session that appeared (read from the muxer's table)
   who     GROUND TRUTH, not an observation: which of the case's clients really originated the request (index into
           `clients`): the TCP peer itself, or the host in front of a chain of proxies that are all configured as
           trusted and each append their peer to X-Forwarded-For (or replace it by X-Real-Ip). None = undetermined: a
           trusted proxy that hides or garbles its peer *)
Record obs := mkob { o_status : Z; o_secret : option (list Z); o_via : Z; o_id : option Z;
                     o_pc : option uuid; o_pq : option uuid; o_sip : option (list Z); o_who : option Z }.

(* perm: admitted (path, credentials, client index) ; nostr: paths without stream ; tp: hlsTrustedProxies ;
   clients: addresses of the clients ; ips: ORACLE net.ParseIP on every item of every forwarding header and on every
   client / proxy address of the case (text, address); a text that is not listed is not an IP.
   Header identities in netreq: 0 X-Forwarded-For, 1 X-Real-Ip, 2 CF-Connecting-IP, 3 X-Appengine-Remote-Addr,
   4 Fly-Client-IP, 5 True-Client-IP, 6 X-Client-IP, 7 Forwarded *)
Inductive case :=
  Hist (alw : bool) (cdn : list Z) (perm : list (Z * Z * Z)) (nostr : list Z)
       (tp : list cidr) (clients : list addr) (ips : list (list Z * addr)) (steps : list (op * obs)).

Definition perm_lookup (perm : list (Z * Z * Z)) (p cred ip : Z) : bool :=
  existsb (fun t => let '(a, b, c) := t in (a =? p) && (b =? cred) && (c =? ip)) perm.

Definition ip_lookup (ips : list (list Z * addr)) (t : list Z) : option addr :=
  match find (fun e => bytes_eqb (fst e) t) ips with Some e => Some (snd e) | None => None end.

Definition addr_eqb (a b : addr) : bool := Bool.eqb (fst a) (fst b) && (snd a =? snd b).

Fixpoint index_of (a : addr) (l : list addr) (i : Z) : option Z :=
  match l with
  | [] => None
  | x :: r => if addr_eqb x a then Some i else index_of a r (i + 1)
  end.

(* the stub path manager: net.ParseIP(ctx.ClientIP()) must be the address of a client the table admits *)
Definition auth_of (perm : list (Z * Z * Z)) (clients : list addr) (ips : list (list Z * addr)) (p cred : Z) (ip : list Z) : bool :=
  match ip_lookup ips ip with
  | Some a => match index_of a clients 0 with Some i => perm_lookup perm p cred i | None => false end
  | None => false
  end.

Definition mkconf (alw : bool) (cdn : list Z) (perm : list (Z * Z * Z)) (nostr : list Z)
                  (tp : list cidr) (clients : list addr) (ips : list (list Z * addr)) : config :=
  {| always := alw; cdn_secret := cdn; auth := auth_of perm clients ips; nostream := fun p => memz p nostr;
     trusted := tp; parse_ip := ip_lookup ips |}.

Definition opt_eqb {A} (eqb : A -> A -> bool) (a b : option A) : bool :=
  match a, b with
  | Some x, Some y => eqb x y
  | None, None => true
  | _, _ => false
  end.

(* does the observation agree with the model's outcome ? *)
Definition agree (c : config) (o : op) (x : out) (ob : obs) : bool :=
  match x with
  | ORedirect => (o_status ob =? 302) && opt_eqb Z.eqb (o_id ob) None
  | OUnauth => (o_status ob =? 401) && opt_eqb Z.eqb (o_id ob) None
  | ONotFound => (o_status ob =? 404) && opt_eqb Z.eqb (o_id ob) None
  | OErr => (o_status ob =? 500) && opt_eqb Z.eqb (o_id ob) None
  | OCreated vc id =>
      (o_status ob =? 200) && opt_eqb Z.eqb (o_id ob) (Some id) && (o_via ob =? (if vc then 1 else 0))
      && match o, o_secret ob with
         | Multi _ _ n _ _ _ sec, Some str =>
             opt_eqb bytes_eqb (uuid_parse str) (Some sec) && (Z.of_nat (length sec) =? 16)
             && opt_eqb bytes_eqb (o_sip ob) (Some (cip c n))      (* session.ip = the model's ClientIP *)
         | _, _ => false
         end
  | OCdnCreated id => (o_status ob =? 200) && opt_eqb Z.eqb (o_id ob) (Some id) && (o_via ob =? 3)
  | OCdn => (o_status ob =? 200) && opt_eqb Z.eqb (o_id ob) None && (o_via ob =? 3)
  | OPass => (o_status ob =? 200) || (o_status ob =? 404)
  | OKicked ok | OClosed ok => o_status ob =? (if ok then 1 else 0)
  | ONone => o_status ob =? 0
  end.

(* the uuid.Parse model against the real library on the raw secrets of this request *)
Definition parse_agree (o : op) (ob : obs) : bool :=
  match o with
  | Media _ _ _ cookie query =>
      match cookie with Some v => opt_eqb bytes_eqb (uuid_parse v) (o_pc ob) | None => true end
      && opt_eqb bytes_eqb (uuid_parse query) (o_pq ob)
  | _ => true
  end.

Fixpoint compare (c : config) (st : state) (steps : list (op * obs)) : bool :=
  match steps with
  | [] => true
  | (o, ob) :: r => let '(st1, x) := step c st o in agree c o x ob && parse_agree o ob && compare c st1 r
  end.

Definition mismatch (cs : case) : bool :=
  match cs with
  | Hist alw cdn perm nostr tp clients ips steps => negb (compare (mkconf alw cdn perm nostr tp clients ips) init steps)
  end.

(* ---- the property on the observations only (no model state, no model uuid parser) ---------------------------- *)

Definition cdn_hdr (cdn hdr : list Z) : bool :=
  match cdn with [] => false | _ => bytes_eqb hdr ([66; 101; 97; 114; 101; 114; 32] ++ cdn) end.

Definition passed (ob : obs) : bool := (o_status ob =? 200) || (o_status ob =? 404).

(* this observed event ends session `id` of path p *)
Definition ends (p id : Z) (e : op * obs) : bool :=
  let '(o, ob) := e in
  match o with
  | Kick i => (i =? id) && (o_status ob =? 1)
  | Expire ids => memz id ids
  | MuxClose q | InstCrash q => q =? p
  | PathNotReady q => (q =? p) && (o_status ob =? 1)
  | _ => false
  end.

(* is there, in the earlier part of the history, an event accepted by w (giving a session identity) that is not
   followed by the end of that session ? *)
Fixpoint witness (w : op * obs -> option Z) (p : Z) (prev : list (op * obs)) : bool :=
  match prev with
  | [] => false
  | e :: r =>
      match w e with
      | Some id => forallb (fun x => negb (ends p id x)) r
      | None => false
      end || witness w p r
  end.

Definition some_eqb (a b : option uuid) : bool :=
  match a, b with Some x, Some y => bytes_eqb x y | _, _ => false end.

Definition admitted (perm : list (Z * Z * Z)) (p cred : Z) (who : option Z) : bool :=
  match who with Some i => perm_lookup perm p cred i | None => true end.

Definition same_client (a b : option Z) : bool :=
  match a, b with Some x, Some y => x =? y | _, _ => true end.

Definition justified (cdn : list Z) (perm : list (Z * Z * Z)) (prev : list (op * obs)) (e : op * obs) : bool :=
  let '(o, ob) := e in
  match o with
  | Media p _ hdr cookie query =>
      if negb (passed ob) then true
      else if cdn_hdr cdn hdr then
        (* CDN: a CDN session was created on THIS path by a request carrying the CDN secret, and still lives *)
        witness (fun e' => match e' with
                           | (Multi p' _ _ hdr' _ _ _, ob') =>
                               if (p' =? p) && cdn_hdr cdn hdr' && (o_status ob' =? 200) then o_id ob' else None
                           | _ => None
                           end) p prev
      else
        (* the request "carries the secret" if the cookie or the query holds it; which of the two the server looks at
           (cookie first) is part of the model and checked by `mismatch`, not part of the property.
           "From the same IP": the two requests were really originated by the same client (ground truth `who`; how
           the server finds out - peer address, headers of trusted proxies - is the model's business) *)
        witness (fun e' => match e' with
                           | (Multi p' cred _ hdr' ccq _ sec, ob') =>
                               if (p' =? p) && negb (cdn_hdr cdn hdr') && (o_status ob' =? 200) && ccq
                                  && admitted perm p' cred (o_who ob') && same_client (o_who ob') (o_who ob)
                                  && (some_eqb (match cookie with Some _ => o_pc ob | None => None end) (Some sec)
                                      || some_eqb (o_pq ob) (Some sec))
                               then o_id ob' else None
                           | _ => None
                           end) p prev
  | Multi p cred _ hdr ccq _ _ =>
      (* a session is only created for an admitted client that went through the cookie check (or for the CDN) *)
      if (o_status ob =? 200) && negb (cdn_hdr cdn hdr) then ccq && admitted perm p cred (o_who ob) else true
  | _ => true
  end.

Fixpoint spec_walk (cdn : list Z) (perm : list (Z * Z * Z)) (prev rest : list (op * obs)) : bool :=
  match rest with
  | [] => true
  | e :: r => justified cdn perm prev e && spec_walk cdn perm (prev ++ [e]) r
  end.

Definition spec_fail (cs : case) : bool :=
  match cs with Hist alw cdn perm nostr _ _ _ steps => negb (spec_walk cdn perm [] steps) end.
