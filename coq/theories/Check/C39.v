(* Correspondence cases for C39: a history of ReloadConf/Start/Stop on the real forward.Manager. *)
From Coq Require Import List ZArith Bool.
Require Export MTX.Model.C39_Forward.
Import ListNotations.
Local Open Scope Z_scope.

(* observation after each operation: handlers in order as (identity, configuration token, running?), plus the
   identities of handlers that are no longer in the list but still run (leaked), and the start/stop events of the op.
   Identities are numbered by the driver in order of creation, like the model's. *)
Record obs := { o_handlers : list (Z * Z * bool); o_leaked : list Z; o_events : list event }.
Inductive case := Hist (fwd0 : list Z) (ops : list op) (observed : list obs).

Definition event_eqb (a b : event) : bool :=
  match a, b with
  | EStart x, EStart y | EStop x, EStop y => x =? y
  | _, _ => false
  end.

Fixpoint list_eqb {A} (eqb : A -> A -> bool) (a b : list A) : bool :=
  match a, b with
  | [], [] => true
  | x :: a', y :: b' => eqb x y && list_eqb eqb a' b'
  | _, _ => false
  end.

Fixpoint all2 {A B} (f : A -> B -> bool) (a : list A) (b : list B) : bool :=
  match a, b with
  | [], [] => true
  | x :: a', y :: b' => f x y && all2 f a' b'
  | _, _ => false
  end.

Definition memz (x : Z) (l : list Z) : bool := existsb (Z.eqb x) l.

(* events of one operation are compared as sets per kind: the real code starts/stops in list order, but only the
   sets matter for the property *)
Definition same_events (a b : list event) : bool :=
  forallb (fun e => existsb (event_eqb e) b) a && forallb (fun e => existsb (event_eqb e) a) b.

Fixpoint compare (s : state) (ops : list op) (observed : list obs) : bool :=
  match ops, observed with
  | [], [] => true
  | o :: r, ob :: obr =>
      let '(s1, ev) := step s o in
      all2 (fun h t => let '(i, c, run) := t in (hid h =? i) && (hconf h =? c) && Bool.eqb run (memz (hid h) (live s1)))
               (handlers s1) (o_handlers ob)
      && (match o_leaked ob with [] => true | _ => false end)
      && same_events ev (o_events ob)
      && compare s1 r obr
  | _, _ => false
  end.

Definition mismatch (c : case) : bool :=
  match c with Hist fwd0 ops observed => negb (compare (init fwd0) ops observed) end.

(* the property on the observations only *)
Fixpoint nodupb (l : list Z) : bool :=
  match l with [] => true | a :: r => negb (memz a r) && nodupb r end.

Fixpoint spec_walk (conf : list Z) (st : bool) (prev : list (Z * Z * bool)) (ops : list op) (observed : list obs) : bool :=
  match ops, observed with
  | [], [] => true
  | o :: r, ob :: obr =>
      let conf' := match o with Reload f => f | _ => conf end in
      let st' := match o with Reload _ => st | Start => true | Stop => false end in
      let hs := o_handlers ob in
      (* one handler per configured destination, in order, distinct identities *)
      list_eqb Z.eqb (map (fun t => snd (fst t)) hs) conf' && nodupb (map (fun t => fst (fst t)) hs)
      (* all run while the stream is available, none otherwise, and nothing else runs *)
      && forallb (fun t => Bool.eqb (snd t) st') hs && (match o_leaked ob with [] => true | _ => false end)
      (* a reload leaves position-wise unchanged destinations untouched: same identity, no start/stop event *)
      && (match o with
          | Reload _ =>
              forallb (fun '(p, n) =>
                         let '(pi, pc, _) := p in let '(ni, nc, _) := n in
                         if pc =? nc then (pi =? ni) && negb (existsb (event_eqb (EStop pi)) (o_events ob))
                                          && negb (existsb (event_eqb (EStart pi)) (o_events ob))
                         else negb (pi =? ni) && (negb st || (existsb (event_eqb (EStop pi)) (o_events ob)
                                                             && existsb (event_eqb (EStart ni)) (o_events ob))))
                      (combine prev hs)
          | _ => true
          end)
      && spec_walk conf' st' hs r obr
  | _, _ => false
  end.

Definition spec_fail (c : case) : bool :=
  match c with
  | Hist fwd0 ops observed =>
      negb (spec_walk fwd0 false (map (fun '(i, d) => (Z.of_nat i, d, false)) (combine (seq 0 (length fwd0)) fwd0)) ops observed)
  end.
