(* Correspondence cases for C04: one real HTTP request to one of the four real servers (real auth.Manager with a
   permission matrix behind it). The route tables are the ones generated from the source on this run. *)
From Coq Require Import List String ZArith Bool.
Require Import MTX.Model.C04_HttpAuth.
Require Export MTXGen.C04_Routes.
Import ListNotations.
Local Open Scope string_scope.
Local Open Scope list_scope.

(* class of the observed response body *)
Inductive bodyclass :=
| BEmpty                (* no body *)
| BAuthErr              (* exactly {"status":"error","error":"authentication error"} *)
| BNotFound             (* gin's "404 page not found" *)
| BInvalidPath          (* the JSON error "invalid path name: ..." and nothing else *)
| BOther.               (* anything else: the handler ran *)

(* client address classes: 0 = 127.0.0.1 and 4 = 127.0.0.2 are REAL peer addresses (the driver connects from them);
   1..3 = 10.1.1.1, 10.9.9.9, 10.3.3.3 only ever appear in X-Forwarded-For / X-Real-Ip headers.
   one row of the permission matrix: user, password, client-IP classes ([] = any), permissions (action, path; [] = all) *)
Record urow := mkU { u_name : list Z; u_pass : list Z; u_ips : list Z; u_perms : list (string * list Z) }.

Inductive case :=
  (* the permission matrix the driver configured (must be the_matrix below, which spec_fail uses) *)
| Matrix (users : list urow)
| Req (srv : string)
      (method pattern : string) (listed acrm : bool)
      (cuser cpass : list Z)            (* the credentials the client presented (Basic / Bearer user:pass), else empty *)
      (trusts_peer : bool)              (* the real peer is one of the trusted proxies this instance is CONFIGURED with
                                           (instance 0: 127.0.0.1/32; instance 1: none) *)
      (peer : Z)                        (* class of the real peer address (0 or 4) *)
      (fwd : Z)                         (* class named by the forwarding headers (X-Forwarded-For first, else X-Real-Ip);
                                           negative = no such header *)
      (qpath : list Z) (path_valid : bool)      (* ?path= and conf.IsValidPathName of it (oracle) *)
      (o_api o_metrics o_pprof o_playback_path o_playback : bool)
          (* the real Manager.Authenticate admits these credentials FROM THE PEER ADDRESS for: api, metrics, pprof,
             playback on qpath, playback on "" *)
      (f_api f_metrics f_pprof f_playback_path f_playback : bool)
          (* the same FROM THE FORWARDED ADDRESS (from the peer address when there is none) *)
      (status : Z) (body : bodyclass) (touched : bool).

Fixpoint list_eqb (a b : list Z) : bool :=
  match a, b with
  | [], [] => true
  | x :: a', y :: b' => Z.eqb x y && list_eqb a' b'
  | _, _ => false
  end.

Definition table_of (srv : string) : option table :=
  find (fun t => String.eqb (t_server t) srv) generated_tables.

(* the matrix of the drivers (harness/c04lib): admin from IP class 1 only, one user per action, a per-path playback
   user, a user without administrative permissions, `any` (no credentials) for metrics from IP class 3, a user for
   every administrative action from the real loopback peer only, and `any` for pprof from the real loopback peer *)
Definition b (s : string) : list Z := map (fun a => Z.of_nat (Ascii.nat_of_ascii a)) (list_ascii_of_string s).
Definition the_matrix : list urow := [
  mkU (b "admin") (b "adminpass") [1]%Z [("api", []); ("metrics", []); ("pprof", []); ("playback", [])];
  mkU (b "apiuser") (b "apipass") [] [("api", [])];
  mkU (b "metuser") (b "met:pass") [] [("metrics", [])];
  mkU (b "ppuser") (b "pppass") [1; 3]%Z [("pprof", [])];
  mkU (b "pbuser") (b "pbpass") [] [("playback", b "cam1"); ("read", [])];
  mkU (b "pball") (b "pballpass") [1]%Z [("playback", [])];
  mkU (b "reader") (b "readpass") [] [("read", []); ("publish", [])];
  mkU (b "any") [] [3]%Z [("metrics", [])];
  mkU (b "louser") (b "lopass") [0]%Z [("api", []); ("metrics", []); ("pprof", []); ("playback", [])];
  mkU (b "any") [] [0]%Z [("pprof", [])]
].

Definition urow_eqb (x y : urow) : bool :=
  list_eqb (u_name x) (u_name y) && list_eqb (u_pass x) (u_pass y) && list_eqb (u_ips x) (u_ips y) &&
  (Nat.eqb (List.length (u_perms x)) (List.length (u_perms y))) &&
  forallb (fun ab => String.eqb (fst (fst ab)) (fst (snd ab)) && list_eqb (snd (fst ab)) (snd (snd ab)))
          (combine (u_perms x) (u_perms y)).

Definition olookup (act : string) (wp : bool) (o : bool * bool * bool * bool * bool) : bool :=
  let '(o1, o2, o3, o4, o5) := o in
  if String.eqb act "API" then o1 else if String.eqb act "Metrics" then o2 else if String.eqb act "Pprof" then o3
  else if String.eqb act "Playback" then (if wp then o4 else o5) else false.

Definition data_obs (body : bodyclass) (touched : bool) : bool :=
  touched || match body with BOther => true | _ => false end.

Definition mismatch (c : case) : bool :=
  match c with
  | Matrix users =>
      negb (Nat.eqb (List.length users) (List.length the_matrix) &&
            forallb (fun xy => urow_eqb (fst xy) (snd xy)) (combine users the_matrix))
  | Req srv method pattern listed acrm cuser cpass trusts_peer peer fwd qpath path_valid o1 o2 o3 o4 o5 f1 f2 f3 f4 f5
        st body touched =>
      match table_of srv with
      | None => true
      | Some t =>
          (* the admit oracle: the real manager's decisions for the two addresses the server could take the client for *)
          let auth := fun act (p : option (list Z)) (_ : creds) (ip : list Z) =>
                        let oracle := if list_eqb ip [peer] then (o1, o2, o3, o4, o5) else (f1, f2, f3, f4, f5) in
                        match p with
                        | None => olookup act false oracle
                        | Some x => list_eqb x qpath && olookup act true oracle
                        end in
          let valid := fun x => list_eqb x qpath && path_valid in
          let q := {| q_method := method; q_pattern := pattern; q_listed := listed; q_acrm := acrm;
                      q_creds := {| c_user := cuser; c_pass := cpass; c_token := [] |};
                      q_ip := []; q_path := qpath; q_other := [] |} in
          let w := {| w_peer := [peer]; w_forwarded := if Z.ltb fwd 0 then None else Some [fwd] |} in
          (* the client address is the one gin's ClientIP yields on this table (t_proxies_set) for this peer / headers *)
          let r := serve_wire auth valid t (fun _ => trusts_peer) w q in
          let d := data_obs body touched in
          negb (Bool.eqb d (carries_data r)) || (negb d && negb (Z.eqb st (status r)))
      end
  end.

(* ---- the property on the observation (no model, no generated table) ---------------------------------------- *)

Definition s_any : list Z := [97; 110; 121]%Z.

Definition required_action (srv : string) : string :=
  if String.eqb srv "api" then "api" else if String.eqb srv "metrics" then "metrics"
  else if String.eqb srv "pprof" then "pprof" else "playback".

Definition is_playback (srv : string) : bool := String.eqb srv "playback".

(* some row of the matrix gives this client the action (on this path) from this IP *)
Definition entitled (users : list urow) (act : string) (per_path : bool) (path cuser cpass : list Z) (ip : Z) : bool :=
  existsb (fun u =>
    match u_ips u with [] => true | l => existsb (Z.eqb ip) l end &&
    existsb (fun ap => String.eqb (fst ap) act &&
                       (negb per_path || match snd ap with [] => true | p => list_eqb p path end)) (u_perms u) &&
    (list_eqb (u_name u) s_any || (list_eqb (u_name u) cuser && list_eqb (u_pass u) cpass))) users.

Definition spec_fail (c : case) : bool :=
  match c with
  | Matrix _ => false
  | Req srv method pattern listed acrm cuser cpass trusts_peer peer fwd qpath path_valid _ _ _ _ _ _ _ _ _ _ st body touched =>
      let users := the_matrix in
      (* the client address the property speaks about: what the forwarding headers name only if the real peer is a
         configured trusted proxy, else the real peer, whatever the headers say *)
      let ip := if trusts_peer && negb (Z.ltb fwd 0) then fwd else peer in
      let d := data_obs body touched in
      let pb := is_playback srv in
      let ent := entitled users (required_action srv) pb qpath cuser cpass ip in
      let pre := String.eqb method "OPTIONS" && acrm in
      (* data or a state change only for a client admitted for the server's action (on the requested path) *)
      (d && negb ent)
      (* preflight requests are answered without data, with 204 *)
      || (pre && (d || negb (Z.eqb st 204)))
      (* playback: nothing is done for an invalid path name *)
      || (d && pb && negb path_valid)
      (* a refused request is answered 401 (playback: 400 for an invalid path name, 404 where there is no route) *)
      || (negb ent && negb pre &&
          negb (Z.eqb st (if pb then (if listed then (if path_valid then 401 else 400) else 404) else 401)))
  end.
