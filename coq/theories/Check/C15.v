(* Correspondence cases for C15: a real pathManager with real path objects went through a history of
   configuration reloads / publishers arriving and leaving; after every step (and after every asynchronous
   path.reloadConf had landed) the driver recorded the live paths. A step may be a RACE: several reloads issued
   back to back while the manager was busy and some path goroutines could not receive, then everything released;
   the observation is taken once every hand-over has landed. The model is the delivery layer
   (Model/C15_Delivery.v, in-order hand-overs, guarded idle close), drained after every step. *)
From Coq Require Import List ZArith Bool String.
Require Import MTX.Model.C14_PathConf MTX.Model.C15_PathMgr MTX.Model.C15_Delivery MTXGen.C15_HotFields.
Import ListNotations.
Local Open Scope Z_scope.

(* the real conf.FindPathConf(pm.pathConfs, name) *)
Inductive res := RNone | RSome (key : str) (groups : list str).

(* a live path: pm.paths key, pa.confName, id of pa.SafeConf() (ids are canonical: equal ids <-> reflect.DeepEqual),
   pa.matches, whether it is the same *path object as the path of that name before the step, resolution of its name *)
Inductive pobs := PO (name confName : str) (conf : Z) (matches : list str) (kept : bool) (r : res).

Inductive hop := HReload (nc : list (str * Z)) | HCreate (n : str) | HLeave (n : str)
                 | HRaced (ncs : list (list (str * Z)))    (* reloads issued back to back, received later *)
                 | HRacedLeave (nc : list (str * Z)) (n : str).
                     (* a reload, and the publisher of n leaves before the path n has received what the reload handed over
                        (only generated where the order in which the path then takes the two does not matter) *)

(* before_res: for every path live before the step, the resolution of its name under the configuration in force
   after the step; after: the live paths after the step, sorted by name *)
Inductive hstep := HS (o : hop) (before_res : list (str * res)) (after : list pobs).

Inductive case :=
| Fields (names : list string)                      (* reflect: field names of conf.Path in order *)
| CanUpd (field : string) (idx : Z) (equal : bool) (can : bool)
    (* two configurations differing exactly in that field: new.Equal(old), pathConfCanBeUpdated(old, new) *)
| Hist (oracle : list (str * str * option (list str)))   (* (regexp key, name, FindStringSubmatch) *)
       (confs : list (Z * list (Z * Z)))                  (* conf id -> sparse vector (field index, value id), 0 omitted *)
       (init : list (str * Z)) (init_obs : list pobs) (steps : list hstep).

(* ---- decoding ---- *)
Definition nfields : nat := List.length path_fields.

Fixpoint sp_get (sp : list (Z * Z)) (i : Z) : Z :=
  match sp with
  | [] => 0
  | (j, v) :: r => if j =? i then v else sp_get r i
  end.

Definition dense (sp : list (Z * Z)) : conf := map (fun i => sp_get sp (Z.of_nat i)) (seq 0 nfields).

Fixpoint tbl_get (tbl : list (Z * list (Z * Z))) (id : Z) : list (Z * Z) :=
  match tbl with
  | [] => []
  | (j, sp) :: r => if j =? id then sp else tbl_get r id
  end.

Definition conf_of (tbl : list (Z * list (Z * Z))) (id : Z) : conf := dense (tbl_get tbl id).

Fixpoint oracle_get (o : list (str * str * option (list str))) (k n : str) : option (list str) :=
  match o with
  | [] => None
  | (k', n', r) :: rest => if str_eqb k' k && str_eqb n' n then r else oracle_get rest k n
  end.

Definition res_of (r : result conf) : res :=
  match r with Found k _ g => RSome k g | _ => RNone end.

Definition res_eqb (a b : res) : bool :=
  match a, b with
  | RNone, RNone => true
  | RSome k g, RSome k' g' => str_eqb k k' && strs_eqb g g'
  | _, _ => false
  end.

(* ---- model side ---- *)
Fixpoint ins_path (p : lpath) (l : list lpath) : list lpath :=
  match l with
  | [] => [p]
  | q :: r => if str_ltb (p_name p) (p_name q) then p :: q :: r else q :: ins_path p r
  end.
Definition sort_paths (l : list lpath) : list lpath := fold_right ins_path [] l.

Definition path_matches_obs (tbl : list (Z * list (Z * Z))) (m : str -> str -> option (list str))
           (prev s : xstate) (x : xpath) (o : pobs) : bool :=
  let 'PO name cn cid mt kept r := o in
  let p := x_p x in
  str_eqb (p_name p) name && str_eqb (p_confName p) cn
  && conf_eqb (x_conf x) (conf_of tbl cid)      (* what the path goroutine runs with *)
  && strs_eqb (x_matches x) mt
  && Bool.eqb kept (existsb (fun q => p_gen (x_p q) =? p_gen p) (xs_paths prev))
  && res_eqb (res_of (find m (xs_confs s) name)) r.

Fixpoint all2 {A B} (f : A -> B -> bool) (a : list A) (b : list B) : bool :=
  match a, b with
  | [], [] => true
  | x :: a', y :: b' => f x y && all2 f a' b'
  | _, _ => false
  end.

Fixpoint ins_xpath (x : xpath) (l : list xpath) : list xpath :=
  match l with
  | [] => [x]
  | q :: r => if str_ltb (p_name (x_p x)) (p_name (x_p q)) then x :: q :: r else q :: ins_xpath x r
  end.
Definition sort_xpaths (l : list xpath) : list xpath := fold_right ins_xpath [] l.

Definition state_matches tbl m (prev s : xstate) (obs : list pobs) : bool :=
  negb (xs_crashed s) && quiet s && all2 (path_matches_obs tbl m prev s) (sort_xpaths (xs_paths s)) obs.

Definition confs_of tbl (nc : list (str * Z)) : list (str * conf) := map (fun e => (fst e, conf_of tbl (snd e))) nc.

(* one observed step: the operation, then every pending hand-over lands, oldest first *)
Definition hstep_model tbl m (s : xstate) (o : hop) : xstate :=
  match o with
  | HReload nc => drain (xreload m hot_mask s (confs_of tbl nc))
  | HCreate n => xcreate m s n
  | HLeave n => xleave true s n
  | HRaced ncs => drain (fold_left (fun s' nc => xreload m hot_mask s' (confs_of tbl nc)) ncs s)
  | HRacedLeave nc n => drain (xleave true (xreload m hot_mask s (confs_of tbl nc)) n)
  end.

Fixpoint steps_match tbl m (s : xstate) (steps : list hstep) : bool :=
  match steps with
  | [] => true
  | HS o bres after :: rest =>
      let s' := hstep_model tbl m s o in
      state_matches tbl m s s' after
      && forallb (fun e => res_eqb (res_of (find m (xs_confs s') (fst e))) (snd e)) bres
      && Nat.eqb (List.length bres) (List.length (xs_paths s))
      && steps_match tbl m s' rest
  end.

Fixpoint strings_eqb (a b : list string) : bool :=
  match a, b with
  | [], [] => true
  | x :: a', y :: b' => String.eqb x y && strings_eqb a' b'
  | _, _ => false
  end.

Fixpoint distinct_vectors (l : list conf) : bool :=
  match l with
  | [] => true
  | c :: r => negb (existsb (conf_eqb c) r) && distinct_vectors r
  end.

Definition unit_vec (idx : Z) : conf := map (fun i => if Z.of_nat i =? idx then 1 else 0) (seq 0 nfields).
Definition zero_vec : conf := map (fun _ => 0) (seq 0 nfields).

Definition mismatch (c : case) : bool :=
  match c with
  | Fields names => negb (strings_eqb names path_fields)
  | CanUpd field idx equal can =>
      negb (String.eqb (nth (Z.to_nat idx) path_fields EmptyString) field
            && negb equal
            && Bool.eqb can (can_update zero_vec (unit_vec idx)))
  | Hist oracle tbl init init_obs steps =>
      let m := oracle_get oracle in
      let s0 := xinit m hot_mask (confs_of tbl init) in
      negb (distinct_vectors (map (fun e => dense (snd e)) tbl)
            && state_matches tbl m (XST [] [] 0 false) s0 init_obs
            && steps_match tbl m s0 steps)
  end.

(* ---- the property on the observations only (no path-manager model) ---- *)
Fixpoint assoc_id (cs : list (str * Z)) (k : str) : option Z :=
  match cs with
  | [] => None
  | (k', v) :: r => if str_eqb k' k then Some v else assoc_id r k
  end.

Fixpoint assoc_res (l : list (str * res)) (n : str) : res :=
  match l with
  | [] => RNone
  | (n', r) :: rest => if str_eqb n' n then r else assoc_res rest n
  end.

Definition po_name (o : pobs) := let 'PO n _ _ _ _ _ := o in n.
Definition po_kept (o : pobs) := let 'PO _ _ _ _ k _ := o in k.

Fixpoint no_dup_names (l : list pobs) : bool :=
  match l with
  | [] => true
  | o :: r => negb (existsb (fun q => str_eqb (po_name q) (po_name o)) r) && no_dup_names r
  end.

(* every static configuration has a live path; every live path resolves, and runs with exactly what resolution selects *)
Definition reconciled (cur : list (str * Z)) (obs : list pobs) : bool :=
  no_dup_names obs
  && forallb (fun e => is_regex_key (fst e) || existsb (fun o => str_eqb (po_name o) (fst e)) obs) cur
  && forallb (fun o => let 'PO name cn cid mt _ r := o in
                       match r with
                       | RSome k g => str_eqb cn k && strs_eqb mt g
                                      && match assoc_id cur k with Some id => id =? cid | None => false end
                       | RNone => false
                       end) obs.

(* two configurations differ on hot-reloadable fields only (generated list, own formulation) *)
Definition only_hot_diff (a b : conf) : bool :=
  forallb (fun i => (nth i a 0 =? nth i b 0) || mem_str (nth i path_fields EmptyString) hot_fields) (seq 0 nfields).

Definition kept_after (after : list pobs) (n : str) : bool :=
  existsb (fun o => str_eqb (po_name o) n && po_kept o) after.

(* a path survives a reload (same object, clients stay) iff its name still resolves and the selected
   configuration differs from the one it runs with on hot-reloadable fields only *)
Definition kept_rule tbl (cur : list (str * Z)) (prev : list pobs) (o : hop) (bres : list (str * res))
           (after : list pobs) : bool :=
  forallb (fun p =>
    let 'PO name _ cid0 mt0 _ _ := p in
    match o with
    | HReload _ =>
        let hot_ok := match assoc_res bres name with
                      | RSome k g => match assoc_id cur k with
                                     | Some id1 => only_hot_diff (conf_of tbl cid0) (conf_of tbl id1)
                                     | None => false
                                     end
                      | RNone => false
                      end in
        Bool.eqb (kept_after after name) hot_ok
    | HRaced _ =>
        (* several reloads: a path that survived them all resolves and differs on hot fields only *)
        let hot_ok := match assoc_res bres name with
                      | RSome k g => match assoc_id cur k with
                                     | Some id1 => only_hot_diff (conf_of tbl cid0) (conf_of tbl id1)
                                     | None => false
                                     end
                      | RNone => false
                      end in
        implb (kept_after after name) hot_ok
    | HRacedLeave _ n =>
        let hot_ok := match assoc_res bres name with
                      | RSome k g => match assoc_id cur k with
                                     | Some id1 => only_hot_diff (conf_of tbl cid0) (conf_of tbl id1)
                                     | None => false
                                     end
                      | RNone => false
                      end in
        if str_eqb n name then implb (kept_after after name) hot_ok else Bool.eqb (kept_after after name) hot_ok
    | HCreate _ => kept_after after name
    | HLeave n => if str_eqb n name then true else kept_after after name
    end) prev
  && forallb (fun o' => implb (po_kept o') (existsb (fun p => str_eqb (po_name p) (po_name o')) prev)) after.

Fixpoint steps_ok tbl (cur : list (str * Z)) (prev : list pobs) (steps : list hstep) : bool :=
  match steps with
  | [] => true
  | HS o bres after :: rest =>
      let cur' := match o with HReload nc => nc | HRaced ncs => last ncs cur | HRacedLeave nc _ => nc | _ => cur end in
      reconciled cur' after && kept_rule tbl cur' prev o bres after && steps_ok tbl cur' after rest
  end.

Definition has_prefix (p s : string) : bool := String.prefix p s.

(* "forwarding, recording, some camera controls" (+ Name/Regexp, which follow the key) *)
Definition documented_hot (f : string) : bool :=
  String.eqb f "Name" || String.eqb f "Regexp" || String.eqb f "Forward"
  || has_prefix "Record" f || has_prefix "RPICamera" f.

Definition spec_fail (c : case) : bool :=
  match c with
  | Fields _ => false
  | CanUpd field _ _ can => can && negb (documented_hot field)
  | Hist _ tbl init init_obs steps =>
      negb (reconciled init init_obs && steps_ok tbl init init_obs steps)
  end.
