(* Correspondence cases for C22: the driver pushed sequences of units through the real
   subStreamFormat.writeUnitInner (format updaters, then unit remuxers) and recorded, per unit, the
   delivered payload, the parameter sets the out-format holds afterwards and whether
   updateOutDesc was called. *)
From Coq Require Import List ZArith Bool.
Require Export MTX.Model.C22_Remux.
Import ListNotations.
Local Open Scope Z_scope.

Inductive obs :=
| OUnit (out : list bytes) (after : list (option bytes)) (updated : bool)
| OPanic.

Inductive case :=
| CH264 (sps pps : option bytes) (steps : list (list bytes * obs))
| CH265 (vps sps pps : option bytes) (steps : list (list bytes * obs))
  (* frames as one-element lists; out = [] for the nil payload, [frame] otherwise *)
| CMpeg4 (cfg : option bytes) (steps : list (bytes * obs))
| CAV1 (steps : list (list bytes * obs))
  (* any other format: payload (list of byte strings) in, payload out *)
| COther (kind : Z) (payload out : list bytes)
  (* units handed over by an in-tree producer (RTP decoder, AVCC/Annex-B reader, initialize2) *)
| CProducer (producer : Z) (units : list (list bytes)).

(* ---- equality ---- *)
Fixpoint lb_eqb (a b : list bytes) : bool :=
  match a, b with
  | [], [] => true
  | x :: a', y :: b' => bytes_eqb x y && lb_eqb a' b'
  | _, _ => false
  end.
Definition ob_eqb (a b : option bytes) : bool :=
  match a, b with
  | None, None => true
  | Some x, Some y => bytes_eqb x y
  | _, _ => false
  end.
Fixpoint lob_eqb (a b : list (option bytes)) : bool :=
  match a, b with
  | [], [] => true
  | x :: a', y :: b' => ob_eqb x y && lob_eqb a' b'
  | _, _ => false
  end.

(* ---- running the model ---- *)
Fixpoint h264_agree (st : h264_params) (steps : list (list bytes * obs)) : bool :=
  match steps with
  | [] => true
  | (au, o) :: r =>
      match h264_write st au, o with
      | Panic, OPanic => match r with [] => true | _ => false end
      | Ok (out, st', u), OUnit out' after u' =>
          lb_eqb out out' && lob_eqb [st'.(h4_sps); st'.(h4_pps)] after && Bool.eqb u u' && h264_agree st' r
      | _, _ => false
      end
  end.

Fixpoint h265_agree (st : h265_params) (steps : list (list bytes * obs)) : bool :=
  match steps with
  | [] => true
  | (au, o) :: r =>
      match h265_write st au, o with
      | Panic, OPanic => match r with [] => true | _ => false end
      | Ok (out, st', u), OUnit out' after u' =>
          lb_eqb out out' && lob_eqb [st'.(h5_vps); st'.(h5_sps); st'.(h5_pps)] after && Bool.eqb u u'
          && h265_agree st' r
      | _, _ => false
      end
  end.

Definition frame_out (f : bytes) : list bytes := match f with [] => [] | _ => [f] end.

(* the configuration: nil and empty are one value for the code; the driver reports None for nil *)
Fixpoint mpeg4_agree (cfg : bytes) (steps : list (bytes * obs)) : bool :=
  match steps with
  | [] => true
  | (f, o) :: r =>
      let '(out, cfg', u) := mpeg4_write cfg f in
      match o with
      | OUnit out' [after] u' =>
          lb_eqb (frame_out out) out' && bytes_eqb cfg' (slice_of after) && Bool.eqb u u' && mpeg4_agree cfg' r
      | _ => false
      end
  end.

Fixpoint av1_agree (steps : list (list bytes * obs)) : bool :=
  match steps with
  | [] => true
  | (tu, o) :: r =>
      match av1_remux tu, o with
      | Panic, OPanic => match r with [] => true | _ => false end
      | Ok out, OUnit out' [] false => lb_eqb out out' && av1_agree r
      | _, _ => false
      end
  end.

Definition mismatch (c : case) : bool :=
  match c with
  | CH264 s p steps => negb (h264_agree {| h4_sps := s; h4_pps := p |} steps)
  | CH265 v s p steps => negb (h265_agree {| h5_vps := v; h5_sps := s; h5_pps := p |} steps)
  | CMpeg4 cfg steps => negb (mpeg4_agree (slice_of cfg) steps)
  | CAV1 steps => negb (av1_agree steps)
  | COther _ p out => negb (lb_eqb (other_write p) out)
  | CProducer _ _ => false
  end.

(* ---- the property on the observed outputs only (no model function below this line; the unit types are
   recomputed with div/mod instead of the shifts and masks of the model) ---- *)

Definition is_nil (n : bytes) : bool := match n with [] => true | _ => false end.
Definition has_empty (au : list bytes) : bool := existsb is_nil au.

Definition t264 (n : bytes) : Z := match n with [] => -1 | b :: _ => b mod 32 end.
Definition t265 (n : bytes) : Z := match n with [] => -1 | b :: _ => (b / 2) mod 64 end.
Definition tav1 (n : bytes) : Z := match n with [] => -1 | b :: _ => (b / 8) mod 16 end.

Definition mem (x : Z) (l : list Z) : bool := existsb (Z.eqb x) l.

(* most recent: last in-band unit of that type, else what was known before *)
Definition most_recent (typ : bytes -> Z) (t : Z) (prev : option bytes) (au : list bytes) : option bytes :=
  match rev (filter (fun n => typ n =? t) au) with
  | x :: _ => Some x
  | [] => prev
  end.

Definition known1 (o : option bytes) : bool := match o with Some (_ :: _) => true | _ => false end.
Definition get1 (o : option bytes) : bytes := match o with Some s => s | None => [] end.

(* one unit of a NAL-unit codec. kinds: parameter types in description order; strip: types removed;
   keyt: types that make the unit a key frame. Returns None on a violation, else the parameters now current. *)
Definition nal_step (typ : bytes -> Z) (kinds strip keyt : list Z)
    (cur : list (option bytes)) (au : list bytes) (o : obs) : option (list (option bytes)) :=
  match o with
  | OPanic => None
  | OUnit out after upd =>
      let expect := map (fun '(t, prev) => most_recent typ t prev au) (combine kinds cur) in
      let key := existsb (fun n => mem (typ n) keyt) au in
      let prefix := if key && forallb known1 after then map get1 after else [] in
      let body := filter (fun n => negb (mem (typ n) strip)) au in
      if lob_eqb after expect && lb_eqb out (prefix ++ body) && (upd || lob_eqb after cur)
         && negb (has_empty out)
      then Some after else None
  end.

(* a whole sequence; a unit with an empty NAL unit is outside the precondition: anything may happen there
   and the sequence is not followed further *)
Fixpoint nal_seq_fail (typ : bytes -> Z) (kinds strip keyt : list Z)
    (cur : list (option bytes)) (steps : list (list bytes * obs)) : bool :=
  match steps with
  | [] => false
  | (au, o) :: r =>
      if has_empty au then false
      else match nal_step typ kinds strip keyt cur au o with
           | None => true
           | Some cur' => nal_seq_fail typ kinds strip keyt cur' r
           end
  end.

Fixpoint starts (p s : bytes) : bool :=
  match p with
  | [] => true
  | x :: p' => match s with [] => false | y :: s' => (x =? y) && starts p' s' end
  end.

(* split s before the first 00 00 01 B3 *)
Fixpoint split_gov (s : bytes) : option (bytes * bytes) :=
  if starts [0; 0; 1; 179] s then Some ([], s)
  else match s with
       | [] => None
       | c :: r => match split_gov r with Some (a, b) => Some (c :: a, b) | None => None end
       end.

Definition mpeg4_step (cur : bytes) (f : bytes) (o : obs) : option bytes :=
  match o with
  | OUnit out [after] upd =>
      let inband :=
        if starts [0; 0; 1; 176] f
        then match split_gov (skipn 4 f) with Some (a, _) => Some (firstn 4 f ++ a) | None => None end
        else None in
      let expect_cfg := match inband with Some conf => conf | None => cur end in
      let expect_out :=
        match inband with
        | Some _ => f
        | None => match split_gov f with Some _ => cur ++ f | None => f end
        end in
      if bytes_eqb (get1 after) expect_cfg && lb_eqb out (match expect_out with [] => [] | _ => [expect_out] end)
         && (upd || bytes_eqb (get1 after) cur)
      then Some (get1 after) else None
  | _ => None
  end.

Fixpoint mpeg4_seq_fail (cur : bytes) (steps : list (bytes * obs)) : bool :=
  match steps with
  | [] => false
  | (f, o) :: r => match mpeg4_step cur f o with None => true | Some cur' => mpeg4_seq_fail cur' r end
  end.

Fixpoint av1_seq_fail (steps : list (list bytes * obs)) : bool :=
  match steps with
  | [] => false
  | (tu, o) :: r =>
      if has_empty tu then false
      else match o with
           | OUnit out _ _ => negb (lb_eqb out (filter (fun n => negb (tav1 n =? 2)) tu)) || av1_seq_fail r
           | OPanic => true
           end
  end.

Definition spec_fail (c : case) : bool :=
  match c with
  | CH264 s p steps => nal_seq_fail t264 [7; 8] [7; 8; 9] [5] [s; p] steps
  | CH265 v s p steps => nal_seq_fail t265 [32; 33; 34] [32; 33; 34; 35] [19; 20; 21] [v; s; p] steps
  | CMpeg4 cfg steps => mpeg4_seq_fail (get1 cfg) steps
  | CAV1 steps => av1_seq_fail steps
  | COther _ p out => negb (lb_eqb p out)
  | CProducer _ units => existsb has_empty units
  end.
