(* Correspondence cases for C03: a real pathManager (internal/core) with the real auth.Manager (internal users with a
   permission matrix) went through a history of FindPathConf / Describe / AddReader / AddPublisher calls (public
   entry points, through the manager's goroutine) and configuration reloads; the driver recorded the outcome of every
   call and, through the API listing, the path on which the author of an admitted request actually sits. *)
From Coq Require Import List ZArith Bool.
Require Import MTX.Model.C14_PathConf MTX.Model.C03_Auth.
Require Export MTX.Model.C03_Origin.
Import ListNotations.
Local Open Scope Z_scope.

Inductive obs :=
| OFound (c : Z)            (* FindPathConf succeeded; id of the returned configuration (ids: equal <-> reflect.DeepEqual) *)
| OAttached (n : str)       (* the call succeeded; n = the one live path on which the author is source / reader
                               (Describe: the path that answered); a bogus name if there is not exactly one *)
| ONoStream                 (* admitted by the path manager; the path had no stream (PathNoStreamAvailableError) *)
| OErr (e : Z)              (* 1 invalid name, 2 not configured, 3 authentication, 4 configuration has changed, 9 other *)
| ONone.                    (* reload *)

Inductive hcall :=
| HFind (n : str) (publish skip : bool) (cred ip : Z)
| HAdd (k : Z) (n : str) (publish skip : bool) (cred ip : Z) (ctc : option Z)   (* k: 0 Describe 1 AddReader 2 AddPublisher *)
| HReload (nc : list (str * Z)).

(* first: index of the FindPathConf step this call completes as a well-formed two-step flow (-1: none);
   in_force: id of the configuration conf.FindPathConf selects for the name in the configuration in force when the
   call is made (asked by the driver directly, None = not configured / invalid name) *)
Inductive hstep := HS (c : hcall) (o : obs) (first : Z) (in_force : option Z).

Inductive case :=
| Hist (oracle : list (str * str * option (list str)))     (* regexp key, name, FindStringSubmatch *)
       (authtbl : list (bool * str * Z * Z * bool))        (* publish, name, cred, ip, auth.Manager admitted *)
       (init : list (str * Z)) (steps : list hstep)
(* End to end: a real protocol client (proto: 0 RTSP, 1 RTMP, 2 HLS, 3 WebRTC WHEP, 4 SRT) tried to publish / read on a
   running Core. name: the path name the request designates as the protocol defines it (computed by the driver from
   the bytes it put on the wire); cred / ip: index of the credentials the protocol carries and of the source address;
   conf0: id of the configuration serving the name (None: invalid name / not configured); reload: Some c = the
   configuration was reloaded between authorization and attachment (publisher flows), c serving the name afterwards
   (same id <-> reflect.DeepEqual); has_stream: a publisher of the driver's own sits on the name;
   admitted / attached: the path manager's listing shows the client's session as source / reader of a path, and of
   which; oracle_req / oracle_att: auth.Manager.Authenticate asked directly for (action, name / attached, cred, ip). *)
| E2E (proto : Z) (publish : bool) (name : str) (cred ip : Z)
      (conf0 : option Z) (reload : option (option Z)) (has_stream : bool)
      (admitted : bool) (attached : str) (oracle_req oracle_att : bool)
(* End to end with a network between client and server (second Core of the driver runs with <proto>TrustedProxies set):
   trusted: the <proto>TrustedProxies of the Core the attempt ran against (v4?, base address, prefix length);
   peer: source address of the connection the driver opened (text); hdrs: forwarding headers put on a HTTP request
   (0 X-Forwarded-For, 1 X-Real-Ip; joined values); pp: source address of a PROXY protocol v1 header written first on
   a RTSP / RTMP connection; ptbl: ORACLE net.ParseIP of the peer, of every header item and of pp (v4?, number);
   who: GROUND TRUTH - the address of the host the driver played as the originator of the request (the driver plays
   honest proxies itself: it connects from the proxy's address and writes what an honest proxy would write);
   otbl: for every address text involved (peer, header items, pp, who): auth.Manager.Authenticate asked directly for
   (action, name, cred, that address) and - when admitted - for (action, attached, cred, that address). *)
| E2EN (proto : Z) (publish : bool) (name : str) (cred : Z)
       (trusted : list (bool * Z * Z))
       (peer : str) (hdrs : list (Z * str)) (pp : option str)
       (ptbl : list (str * option (bool * Z)))
       (who : str)
       (conf0 : option Z) (has_stream : bool) (admitted : bool) (attached : str)
       (otbl : list (str * (bool * bool))).

Fixpoint oracle_get (o : list (str * str * option (list str))) (k n : str) : option (list str) :=
  match o with
  | [] => None
  | (k', n', r) :: rest => if str_eqb k' k && str_eqb n' n then r else oracle_get rest k n
  end.

Fixpoint auth_get (t : list (bool * str * Z * Z * bool)) (p : bool) (n : str) (c i : Z) : bool :=
  match t with
  | [] => false
  | (p', n', c', i', r) :: rest =>
      if Bool.eqb p' p && str_eqb n' n && (c' =? c) && (i' =? i) then r else auth_get rest p n c i
  end.

Definition kind_of (k : Z) : kind := if k =? 0 then KDescribe else if k =? 1 then KReader else KPublisher.

Definition err_code (e : reject) : Z :=
  match e with EInvalid => 1 | ENotConfigured => 2 | EAuth => 3 | EConfChanged => 4 end.

(* ---- model side ---- *)
Definition events_match (evs : list (event Z Z)) (o : obs) : bool :=
  match evs, o with
  | [Authenticated _ _ _ _; Resolved _ _ c], OFound c' => c =? c'
  | [Attached _ n], OAttached n' => str_eqb n n'
  | [Authenticated _ _ _ _; Attached _ n], OAttached n' => str_eqb n n'
  | [Attached k _], ONoStream => negb (kind_publish k)
  | [Authenticated _ _ _ _; Attached k _], ONoStream => negb (kind_publish k)
  | [Rejected e], OErr e' => err_code e =? e'
  | [], ONone => true
  | _, _ => false
  end.

Definition call_of (c : hcall) : call Z Z :=
  match c with
  | HFind n p s cr ip => CFind (AR n p s cr ip)
  | HAdd k n p s cr ip ctc => CAdd (kind_of k) (AR n p s cr ip) ctc
  | HReload nc => CReload nc
  end.

Fixpoint steps_match m auth (cs : confs) (steps : list hstep) : bool :=
  match steps with
  | [] => true
  | HS c o _ inf :: rest =>
      let '(cs', evs) := step m auth cs (call_of c) in
      events_match evs o
      && match c with
         | HReload _ => true
         | HFind n _ _ _ _ | HAdd _ n _ _ _ _ _ =>
             match conf_of_result (resolve m cs n), inf with
             | Some a, Some b => a =? b
             | None, None => true
             | _, _ => false
             end
         end
      && steps_match m auth cs' rest
  end.

Definition mismatch (c : case) : bool :=
  match c with
  | Hist o t init steps => negb (steps_match (oracle_get o) (auth_get t) init steps)
  | E2E _ publish n cr ip conf0 reload has_stream admitted _ oreq _ =>
      let m := e2e_model publish n cr ip conf0 reload oreq in
      if admitted then negb m else m && (publish || has_stream)
  | E2EN proto publish n cr tr peer hdrs pp ptbl who conf0 has_stream admitted _ otbl =>
      (* the address the server of that protocol evaluates, by the sources its call sites use (Model/C03_Origin.v), must
         be the ground truth; the admission is the flow's with the manager's verdict for THAT address *)
      let ip := e2en_ip proto tr ptbl peer hdrs pp in
      let oreq := match tbl_get otbl ip with Some (r, _) => r | None => false end in
      let m := e2e_model publish n cr 0 conf0 None oreq in
      (* a PROXY header sent to a server that installed no PROXY listener is garbage to the protocol parser: the
         connection may fail whatever the credentials (RTMP does, gortsplib skips the line) *)
      let garbage := match proto_carrier proto, tr, pp with CTcp, [], Some _ => true | _, _, _ => false end in
      negb (txt_eqb ip who) || (if admitted then negb m else m && (publish || has_stream) && negb garbage)
  end.

(* ---- the property on the observed outcomes alone (no model function) ---- *)
Definition admitted (o : obs) : bool := match o with OAttached _ | ONoStream => true | _ => false end.

Definition opt_eqb (a b : option Z) : bool :=
  match a, b with Some x, Some y => x =? y | None, None => true | _, _ => false end.

Definition step_ok (t : list (bool * str * Z * Z * bool)) (all : list hstep) (s : hstep) : bool :=
  match s with
  | HS (HFind n p _ cr ip) (OFound c) _ inf =>
      (* FindPathConf answers only for admitted credentials, with the configuration in force *)
      auth_get t p n cr ip && opt_eqb inf (Some c)
  | HS (HAdd k n p skip cr ip ctc) o first inf =>
      if admitted o then
        match o with OAttached n' => str_eqb n n' | _ => true end
        && (if skip then
              if first <? 0 then true    (* SkipAuth outside a well-formed flow: the caller's business *)
              else match nth_error all (Z.to_nat first) with
                   | Some (HS (HFind n1 p1 _ cr1 ip1) (OFound c1) _ _) =>
                       str_eqb n1 n && Bool.eqb p1 p && Bool.eqb p (k =? 2) && auth_get t p n cr1 ip1
                       && (if k =? 2 then opt_eqb ctc (Some c1) && opt_eqb inf (Some c1) else true)
                   | _ => false
                   end
            else Bool.eqb p (k =? 2) && auth_get t (k =? 2) n cr ip)
      else true
  | _ => true
  end.

Definition spec_fail (c : case) : bool :=
  match c with
  | Hist _ t _ steps => negb (forallb (step_ok t steps) steps)
  | E2E _ _ n _ _ conf0 reload _ admitted attached _ oatt =>
      (* a client that became source / reader of a path: the authentication manager admits its credentials and address
         for the action on that very path, that path is the one the request named, and (publisher flows) the
         configuration serving it is still the one it was authorized under. A refusal is never a violation. *)
      admitted
      && negb (oatt && str_eqb attached n
               && match reload with Some c1 => opt_eqb conf0 c1 | None => true end)
  | E2EN _ _ n _ _ _ _ _ _ who _ _ admitted attached otbl =>
      (* the same, with the manager asked about the ORIGINATOR's address (ground truth, not the headers, not the model) *)
      admitted
      && negb (match tbl_get otbl who with Some (_, a) => a | None => false end && str_eqb attached n)
  end.

(* the end-to-end judgement is not vacuous: an admission the oracle does not back, an attachment to another path and an
   attachment across a configuration change fail; the plain admitted case and every refusal pass *)
Example e2e_spec_examples :
  let n := [112; 49] in let n2 := [112; 50] in
  (spec_fail (E2E 0 true n 3 0 (Some 1) None false true n true true),
   spec_fail (E2E 0 true n 3 0 (Some 1) None false true n true false),
   spec_fail (E2E 0 true n 3 0 (Some 1) None false true n2 true true),
   spec_fail (E2E 1 true n 1 0 (Some 1) (Some (Some 2)) false true n true true),
   spec_fail (E2E 1 true n 1 0 (Some 1) (Some (Some 1)) false true n true true),
   spec_fail (E2E 4 false n 0 0 (Some 1) None true false [] true false))
  = (false, true, true, true, false, false).
Proof. vm_compute. reflexivity. Qed.

Example e2e_model_examples :
  let n := [112; 49] in
  (mismatch (E2E 0 true n 3 0 (Some 1) None false true n true true),
   mismatch (E2E 0 true n 3 0 (Some 1) None false false [] true false),
   mismatch (E2E 1 true n 1 0 (Some 1) (Some (Some 2)) false false [] true false),
   mismatch (E2E 1 true n 1 0 (Some 1) (Some (Some 2)) false true n true true),
   mismatch (E2E 2 false n 2 0 (Some 1) None false false [] true false),
   mismatch (E2E 2 false n 2 0 None None true true n true true))
  = (false, true, false, true, false, true).
Proof. vm_compute. reflexivity. Qed.

(* network cases: R = 203.0.113.7 reads through the trusted proxy P = 127.0.0.3 with credentials the manager admits from
   P only. Refused: fine. Accepted: a violation (the manager was asked about the proxy). The same client with
   credentials admitted from R: admitted is fine, refused is a (model) mismatch; a forged header from an untrusted peer. *)
Example e2en_examples :
  let n := [99; 97; 109] in
  let P := [49; 50; 55; 46; 48; 46; 48; 46; 51] in let R := [50; 48; 51; 46; 48; 46; 49; 49; 51; 46; 55] in
  let tr := [(true, 2130706435, 32)] in
  let pt := [(P, Some (true, 2130706435)); (R, Some (true, 3405803783))] in
  let onlyP := [(P, (true, true)); (R, (false, false))] in let onlyR := [(P, (false, false)); (R, (true, true))] in
  let c adm o := E2EN 3 false n 11 tr P [(0, R)] None pt R (Some 1) true adm (if adm then n else []) o in
  let f adm o := E2EN 2 false n 11 tr R [(0, P)] None pt R (Some 1) true adm (if adm then n else []) o in
  (spec_fail (c false onlyP), mismatch (c false onlyP), spec_fail (c true onlyP), mismatch (c true onlyP),
   spec_fail (c true onlyR), mismatch (c true onlyR), mismatch (c false onlyR),
   spec_fail (f true onlyP), mismatch (f false onlyP),
   (* a PROXY header on RTSP: believed from P, ignored from R *)
   mismatch (E2EN 0 true n 11 tr P [] (Some R) pt R (Some 1) false true n onlyR),
   mismatch (E2EN 0 true n 11 tr R [] (Some P) pt R (Some 1) false false [] onlyP),
   spec_fail (E2EN 0 true n 11 tr R [] (Some P) pt R (Some 1) false true n onlyP))
  = (false, false, true, true, false, false, true, true, false, false, false, true).
Proof. vm_compute. reflexivity. Qed.
