(* C20b correspondence: hook log lines observed on a real internal/servers/rtsp server (in-package driver
   harness/inpkg/internal/servers/rtsp/zz_verif_c20b_test.go) against Model/C20b_SessionHooks.v.
   One case = one TCP connection: the connection's own hook lines and the sessions created on it, each with the
   requests sent, the state of the gortsplib session before / after each request (rsession.State(), the oracle) and the
   runOnRead / runOnUnread lines its logger printed during the request. *)
From Coq Require Import List Bool ZArith.
Require Import MTX.Lib.Trace MTX.Model.C20b_SiteTypes.
Require Export MTX.Model.C20b_SessionHooks.
Import ListNotations.

(* observed lines: "... command started", "... command stopped", "runOnUn... command launched", and OPanicStop = the
   closure panicked ("close of closed channel": externalcmd.Cmd.Close called a second time), caught by the driver *)
Inductive oline := OStarted | OStopped | OLaunched | OPanicStop.

Definition oline_eqb (a b : oline) : bool :=
  match a, b with
  | OStarted, OStarted | OStopped, OStopped | OLaunched, OLaunched | OPanicStop, OPanicStop => true
  | _, _ => false
  end.

Fixpoint olines_eqb (a b : list oline) : bool :=
  match a, b with
  | [], [] => true
  | x :: a', y :: b' => oline_eqb x y && olines_eqb a' b'
  | _, _ => false
  end.

(* what the closures of internal/hooks print for a sequence of constructor / closure calls: the closure first closes
   the start command (panic when it was closed before: Cmd.Close closes a channel), logs "stopped", then launches the
   stop command *)
Fixpoint render (start_on stop_on : bool) (cmd_open : bool) (t : list hev) : list oline :=
  match t with
  | [] => []
  | HStart :: r => (if start_on then [OStarted] else []) ++ render start_on stop_on true r
  | HStop :: r =>
      (if start_on
       then if cmd_open then OStopped :: (if stop_on then [OLaunched] else []) else [OPanicStop]
       else if stop_on then [OLaunched] else [])
      ++ render start_on stop_on false r
  | HPanic :: r => render start_on stop_on cmd_open r
  end.

Record step := mk_step { sp_op : kop; sp_pre : lstate; sp_post : lstate; sp_lines : list oline }.
Record sobs := mk_sobs { so_steps : list step; so_ended : bool; so_overlap : bool }.

Record case := mk_case {
  k_read_on : bool; k_unread_on : bool;         (* path conf: runOnRead / runOnUnread set *)
  k_conn_on : bool; k_disc_on : bool;           (* server conf: runOnConnect / runOnDisconnect set *)
  k_conn_ops : list cop;                        (* OnConnOpen, requests, OnConnClose as driven *)
  k_conn_lines : list oline;                    (* runOnConnect / runOnDisconnect lines of the connection *)
  k_sessions : list sobs
}.

(* ---- model vs observation ------------------------------------------------------------------------------------------- *)
(* per request: state before, lines, state after.  cmd_open = the start command of the last OnRead is still open *)
Fixpoint steps_mismatch (ron uon : bool) (st : kst) (cmd_open : bool) (steps : list step) : bool :=
  match steps with
  | [] => false
  | sp :: r =>
      let st' := fst (ks_step st (sp_op sp)) in
      let ev := snd (ks_step st (sp_op sp)) in
      let cmd_open' := fold_left (fun o e => match e with HStart => true | HStop => false | HPanic => o end) ev cmd_open in
      negb (lstate_eqb (r_l (k_r st)) (sp_pre sp)) ||
      negb (olines_eqb (render ron uon cmd_open ev) (sp_lines sp)) ||
      negb (lstate_eqb (r_l (k_r st')) (sp_post sp)) ||
      steps_mismatch ron uon st' cmd_open' r
  end.

(* scripted overlap (the kick runs while the session goroutine is inside onPause): the driver lists the operations in
   the order kick, pause; only the flattened lines are compared *)
Definition sess_mismatch (ron uon : bool) (s : sobs) : bool :=
  if so_overlap s
  then negb (olines_eqb (render ron uon false (ks_trace (map sp_op (so_steps s)))) (concat (map sp_lines (so_steps s))))
  else steps_mismatch ron uon kst0 false (so_steps s).

Definition mismatch (c : case) : bool :=
  negb (cn_valid (k_conn_ops c)) ||
  negb (olines_eqb (render (k_conn_on c) (k_disc_on c) false (cn_trace (k_conn_ops c))) (k_conn_lines c)) ||
  existsb (sess_mismatch (k_read_on c) (k_unread_on c)) (k_sessions c).

(* ---- the property on the observed lines alone ----------------------------------------------------------------------- *)
Definition ocls (l : oline) : option bool :=
  match l with OStarted => Some true | OStopped | OPanicStop => Some false | OLaunched => None end.

(* start/stop lines alternate, start first; closed when the owner has ended *)
Definition lines_bad (ended : bool) (ls : list oline) : bool :=
  match mon_run (alt_mon ocls) false ls with
  | Some opened => ended && opened
  | None => true
  end.

(* every "launched" line directly follows a stop when the start command is configured too *)
Fixpoint launched_bad (prev_stop : bool) (ls : list oline) : bool :=
  match ls with
  | [] => false
  | OLaunched :: r => negb prev_stop || launched_bad false r
  | OStopped :: r => launched_bad true r
  | _ :: r => launched_bad false r
  end.

Definition spec_fail (c : case) : bool :=
  lines_bad (existsb (fun o => match o with CClose => true | _ => false end) (k_conn_ops c)) (k_conn_lines c) ||
  (k_conn_on c && launched_bad false (k_conn_lines c)) ||
  existsb (fun s => let ls := concat (map sp_lines (so_steps s)) in
                    lines_bad (so_ended s) ls || (k_read_on c && launched_bad false ls)) (k_sessions c).
