(* Correspondence cases for C09.
   Sub    : the real env.Load(prefix, &d) on a value of a type of the real schema or of the zoo
   Whole  : the real env.Load("MTX", conf) on a whole configuration; the type is the GENERATED schema
   Param  : the real conf.Load (and the same steps without Validate) for one leaf parameter of the real schema:
            file only / variables only / file(other value)+variable / file+unrelated variables /
            legacy-prefix variables only / file(other)+legacy(other)+variable *)
From Coq Require Import List ZArith Bool.
Require Export MTX.Model.C09_Env MTX.Model.C09_Lit MTXGen.C09_EnvSchema.   (* the cases use their constructors *)
Require Import MTX.Model.C09_EnvSpec.
Import ListNotations.
Local Open Scope Z_scope.

Inductive obs := OOk (v : value) | OErr | OPanic.
Inductive lobs := LOk (digest : Z) | LErr | LPanic.
Inductive step := SField (tag : str) | SKey (k : str) | SIdx (i : Z).

Definition MISS : str := [77; 73; 83; 83].

(* oracles from the tables the driver computed with the real UnmarshalEnv / strconv.ParseFloat *)
Definition mkO (cp : list ((Z * str) * option str)) (ct : list ((Z * str) * str)) (cz : list (Z * str))
               (fp : list (str * option str)) : oracles :=
  {| cparse := fun k s => match find (fun e => (fst (fst e) =? k) && str_eqb (snd (fst e)) s) cp with
                          | Some e => snd e | None => Some MISS end;
     ctext := fun k c => match find (fun e => (fst (fst e) =? k) && str_eqb (snd (fst e)) c) ct with
                         | Some e => snd e | None => MISS end;
     czero := fun k => match find (fun e => fst e =? k) cz with Some e => snd e | None => MISS end;
     fparse := fun s => match find (fun e => str_eqb (fst e) s) fp with Some e => snd e | None => Some MISS end;
     fzero := [48] |}.

Inductive case :=
| Sub (t : ty) (OR : oracles) (E : env) (p : str) (d : value) (target : option value) (go_expressible : bool) (o : obs)
| Whole (OR : oracles) (E : env) (d : value) (o : obs)
| Param (steps : list step) (name : str) (ra rb rc ru rl rd fa fb fc fu fl' fd : lobs).

(* ---- equality of values; map entries up to order ------------------------------------------- *)
Fixpoint list_eqb {A} (f : A -> A -> bool) (a b : list A) : bool :=
  match a, b with
  | [], [] => true
  | x :: a', y :: b' => f x y && list_eqb f a' b'
  | _, _ => false
  end.
Definition opt_eqb {A} (f : A -> A -> bool) (a b : option A) : bool :=
  match a, b with None, None => true | Some x, Some y => f x y | _, _ => false end.

Fixpoint mlen (m : ments) : nat := match m with MNil => O | MCons _ _ r => S (mlen r) end.

Fixpoint value_eqb (a b : value) {struct a} : bool :=
  match a, b with
  | VBool x, VBool y => Bool.eqb x y
  | VInt x, VInt y | VUint x, VUint y => x =? y
  | VFloat x, VFloat y | VStr x, VStr y | VCustom x, VCustom y => str_eqb x y
  | VStrs x, VStrs y | VFloats x, VFloats y => opt_eqb (list_eqb str_eqb) x y
  | VUints x, VUints y => opt_eqb (list_eqb Z.eqb) x y
  | VStructs None, VStructs None | VHook None, VHook None | VMap None, VMap None | VPtr None, VPtr None => true
  | VStructs (Some x), VStructs (Some y) | VHook (Some x), VHook (Some y) => vals_eqb x y
  | VStruct x, VStruct y => vals_eqb x y
  | VMap (Some x), VMap (Some y) => Nat.eqb (mlen x) (mlen y) && ments_sub x y
  | VPtr (Some x), VPtr (Some y) => value_eqb x y
  | VOpaque, VOpaque => true
  | _, _ => false
  end
with vals_eqb (a b : vals) {struct a} : bool :=
  match a, b with
  | VNil, VNil => true
  | VCons x a', VCons y b' => value_eqb x y && vals_eqb a' b'
  | _, _ => false
  end
with ments_sub (a b : ments) {struct a} : bool :=     (* every entry of a is in b (keys are distinct in dumps) *)
  match a with
  | MNil => true
  | MCons k v r => match mlookup k b with Some w => value_eqb v w | None => false end && ments_sub r b
  end.

Definition env_sub (a b : env) : bool :=
  forallb (fun kv => match lookup b (fst kv) with Some v => str_eqb v (snd kv) | None => false end) a.
Definition env_same (a b : env) : bool := Nat.eqb (length a) (length b) && env_sub a b && env_sub b a.

Definition obs_agrees (r : result value) (o : obs) : bool :=
  match r, o with
  | Ok v, OOk w => value_eqb v w
  | Err, OErr | Panic, OPanic => true
  | _, _ => false
  end.

Definition MTX : str := [77; 84; 88].

(* the variable name of a leaf parameter, derived from the GENERATED schema the way the loader derives it *)
Fixpoint find_field (tag : str) (fs : fields) : option ty :=
  match fs with
  | FNil => None
  | FCons tag' t r => if str_eqb tag' tag then Some t else find_field tag r
  end.
Definition unptr_ty (t : ty) : ty := match t with TPtr t' => t' | _ => t end.
Fixpoint var_name (t : ty) (p : str) (steps : list step) : option str :=
  match steps with
  | [] => match unptr_ty t with
          | TStruct _ | TStructs _ | THook _ | TMap _ | TPtr _ | TBad => None
          | _ => Some p
          end
  | SField tag :: r =>
      match unptr_ty t with
      | TStruct fs | THook fs => match find_field tag fs with Some t' => var_name t' (sub p (fname tag)) r | None => None end
      | _ => None
      end
  | SKey k :: r => match unptr_ty t with TMap e => var_name e (sub p (upper k)) r | _ => None end
  | SIdx i :: r => match unptr_ty t with TStructs fs => var_name (TStruct fs) (sub p (dec i)) r | _ => None end
  end.

Definition lobs_eqb (a b : lobs) : bool :=
  match a, b with
  | LOk x, LOk y => x =? y
  | LErr, LErr => true
  | _, _ => false          (* a panic is never acceptable *)
  end.

Definition mismatch (c : case) : bool :=
  match c with
  | Sub t OR E p d target go_ok o =>
      negb (obs_agrees (load_env OR false t E p d) o)
      || match target with
         | Some v => go_ok && negb (env_same (filter (fun kv => under p (fst kv)) E) (env_of OR (unptr_ty t) p (match v with VPtr (Some x) => x | _ => v end)))
         | None => false
         end
  | Whole OR E d o => negb (obs_agrees (load_env OR false conf_ty E MTX d) o)
  | Param steps name _ _ _ _ _ _ _ _ _ _ _ _ =>
      negb (opt_eqb str_eqb (var_name conf_ty MTX steps) (Some name))
  end.

(* The property on the observed outputs only.
   Sub with a target v: if the variables below the prefix are the canonical spelling of v, v is expressible
   and the previous value d is dominated by v, then the real loader must return exactly v.
   Param: all six ways of giving the value load the same configuration (or are all rejected). *)
Definition spec_fail (c : case) : bool :=
  match c with
  | Sub t OR E p d (Some v) _ o =>
      let pt := unptr_ty t in
      let pv := match t, v with TPtr _, VPtr (Some x) => Some x | TPtr _, _ => None | _, _ => Some v end in
      match pv with
      | None => false
      | Some x =>
          wf_ty pt && wt pt x && expressible OR pt x
          && dominated OR pt (match t, d with TPtr _, VPtr o' => o' | TPtr _, _ => None | _, _ => Some d end) x
          && env_same (filter (fun kv => under p (fst kv)) E) (env_of OR pt p x)
          && negb (match o with OOk w => value_eqb v w | _ => false end)
      end
  | Sub _ _ _ _ _ None _ _ => false
  | Whole _ _ _ _ => false
  | Param _ _ ra rb rc ru rl rd fa fb fc fu fl' fd =>
      negb (forallb (lobs_eqb ra) [rb; rc; ru; rl; rd] && forallb (lobs_eqb fa) [fb; fc; fu; fl'; fd])
  end.
