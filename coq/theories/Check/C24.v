(* Correspondence cases for C24: the real Go helpers against the translated definitions and against exact arithmetic. *)
From Coq Require Import List ZArith Bool.
Require Import MTX.Lib.IntWrap MTX.Model.C24_MulDiv.
Require Export MTX.Model.C24_Inline MTX.Model.C24_TsOut.
Require Export MTXGen.C24_Sites MTXGen.C24_Inline.
Import ListNotations.
Local Open Scope Z_scope.

Inductive case :=
| K3 (f : Z -> Z -> Z -> Z) (v m d obs : Z)          (* f(v, m, d) returned obs *)
| KTo (f : Z -> Z -> Z) (t rate obs : Z)             (* ticks -> ns *)
| KFrom (f : Z -> Z -> Z) (d rate obs : Z)           (* ns -> ticks *)
| KInl (s : inline_site) (a b c obs : Z)             (* an inline a * b / c site, evaluated by its enclosing real function
                                                        on the operands a b c, yielded obs *)
| KFact (lo hi obs_lo obs_hi : Z)                    (* a library range fact [lo, hi] used by an inline site, and the extreme
                                                        values observed over the producer's whole input domain *)
| KTs (k : ts_branch) (rate pts i obs : Z)           (* the real mpegts.FromStream, branch k on a format of clock rate `rate`:
                                                        the PES header written for frame i of a unit stamped pts carries obs
                                                        (raw 33 bits, parsed from the produced transport stream) *)
| KTsRec (k : ts_branch) (rate pts i obs : Z)        (* the same for the MPEG-TS recorder (recorder.formatMPEGTS, its own copy of
                                                        the branches): PES headers of the recorded .ts file *)
| KRtmpDur (rate pts adv obs : Z).                   (* the real rtmp.FromStream, a branch that derives one timestamp per frame
                                                        (AC-3, MPEG-4 Audio, Opus): the message written for the frame that lies adv
                                                        ticks after the unit timestamp pts carries DTS obs (nanoseconds) *)

Definition mismatch (c : case) : bool :=
  match c with
  | K3 f v m d obs => negb (f v m d =? obs)
  | KTo f t r obs => negb (f t r =? obs)
  | KFrom f d r obs => negb (f d r =? obs)
  | KInl s a b c obs => negb (is_f s a b c =? obs)
  | KFact _ _ _ _ => false
  | KTs k rate pts i obs => negb (pes33 (ts_written protocols_mpegts__multiplyAndDivide k rate pts i) =? obs)
  | KTsRec k rate pts i obs => negb (pes33 (ts_written recorder__multiplyAndDivide k rate pts i) =? obs)
  | KRtmpDur rate pts adv obs => negb (protocols_rtmp__timestampToDuration (wrap64 (pts + adv)) rate =? obs)
  end.

Definition ok_rate (r : Z) : bool := (1 <=? r) && (r <=? 4294967296).

(* the property on the observed result: whenever the exact result is representable (and the call is one the
   code base makes: one factor is time.Second, the other a rate in 1..2^32) the result is the exact quotient *)
Definition exact_or_free (v m d obs : Z) : bool :=
  let e := Z.quot (v * m) d in
  if ok_rate m && ok_rate d && ((m =? 1000000000) || (d =? 1000000000)) && in_int64b v && in_int64b e
  then obs =? e else true.

Definition spec_fail (c : case) : bool :=
  match c with
  | K3 _ v m d obs => negb (exact_or_free v m d obs)
  | KTo _ t r obs => negb (exact_or_free t 1000000000 r obs)
  | KFrom _ d r obs => negb (exact_or_free d r 1000000000 obs)
  (* inline site: divisor non-zero and exact result representable in the expression's type -> the observed value is it *)
  | KInl s a b c obs =>
      let e := Z.quot (a * b) c in
      negb (c =? 0) && in_rngb e (is_res s) && negb (obs =? e)
  (* range fact: the real producer stays inside the range the theorem assumes *)
  | KFact lo hi obs_lo obs_hi => (obs_lo <? lo) || (hi <? obs_hi) || (obs_hi <? obs_lo)
  (* written timestamp: the exact conversion to 90 kHz of the POSITION of that frame (unit timestamp + i frame lengths) *)
  | KTs k rate pts i obs | KTsRec k rate pts i obs => ts_judged rate pts i && negb (ts_obs_ok k rate pts i obs)
  (* message timestamp: the exact conversion to nanoseconds of the POSITION of that frame (unit timestamp + lengths of the
     earlier frames of the unit), whenever it is representable *)
  | KRtmpDur rate pts adv obs =>
      let e := conv (pts + adv) rate 1000000000 in
      ok_rate rate && in_int64b pts && in_int64b (pts + adv) && in_int64b e && negb (obs =? e)
  end.
