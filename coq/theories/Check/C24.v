(* Correspondence cases for C24: the real Go helpers against the translated definitions and against exact arithmetic. *)
From Coq Require Import List ZArith Bool.
Require Import MTX.Lib.IntWrap MTX.Model.C24_MulDiv.
Require Export MTXGen.C24_Sites.
Import ListNotations.
Local Open Scope Z_scope.

Inductive case :=
| K3 (f : Z -> Z -> Z -> Z) (v m d obs : Z)          (* f(v, m, d) returned obs *)
| KTo (f : Z -> Z -> Z) (t rate obs : Z)             (* ticks -> ns *)
| KFrom (f : Z -> Z -> Z) (d rate obs : Z).          (* ns -> ticks *)

Definition mismatch (c : case) : bool :=
  match c with
  | K3 f v m d obs => negb (f v m d =? obs)
  | KTo f t r obs => negb (f t r =? obs)
  | KFrom f d r obs => negb (f d r =? obs)
  end.

Definition ok_rate (r : Z) : bool := (1 <=? r) && (r <=? 4294967296).

(* the property on the observed result: whenever the exact result is representable (and the call is one the
   code base makes: one factor is time.Second, the other a rate in 1..2^32) the result is the exact quotient *)
Definition exact_or_free (v m d obs : Z) : bool :=
  let e := Z.quot (v * m) d in
  if ok_rate m && ok_rate d && ((m =? 1000000000) || (d =? 1000000000)) && in_int64b v && in_int64b e
  then obs =? e else true.

Definition spec_fail (c : case) : bool :=
  match c with
  | K3 _ v m d obs => negb (exact_or_free v m d obs)
  | KTo _ t r obs => negb (exact_or_free t 1000000000 r obs)
  | KFrom _ d r obs => negb (exact_or_free d r 1000000000 obs)
  end.
