(* Correspondence cases for C11. The driver ran the real Clone()/deepClone on a value,
   dumped original and copy into ONE heap (cells of the original first, then the cells only
   the copy reaches), then mutated the copy at every reflect path and re-hashed the original. *)
From Coq Require Import List ZArith Bool.
Require Import MTX.Lib.Heap MTX.Model.C11_Clone.
Import ListNotations.
Local Open Scope Z_scope.

(* short constructors for the cases files (all numerals are Z) *)
Definition Sc (z : Z) : value := VScalar z.
Definition Pt (a : Z) : value := VRef KPtr (Some (Z.to_nat a)).
Definition Sl (a : Z) : value := VRef KSlice (Some (Z.to_nat a)).
Definition Mp (a : Z) : value := VRef KMap (Some (Z.to_nat a)).
Definition PtN : value := VRef KPtr None.
Definition SlN : value := VRef KSlice None.
Definition MpN : value := VRef KMap None.
Definition St (fs : list (bool * value)) : value := VStruct fs.
Definition X (v : value) : bool * value := (true, v).     (* exported field *)
Definition U (v : value) : bool * value := (false, v).    (* field reflect cannot set *)
Definition If (v : value) : value := VIface (Some v).
Definition IfN : value := VIface None.
Definition Xz : bool * value := X (Sc 0).                (* frequent fields, to keep the cases files small *)
Definition Xn : bool * value := X PtN.
Definition Uz : bool * value := U (Sc 0).

Inductive case :=
| Clone (n : Z)                 (* cells 0..n-1 are the ones the original reaches *)
        (h : heap)              (* joint heap observed after the clone *)
        (v v' : value)          (* root of the original, root of the copy *)
        (depth : Z)             (* nesting depth of the dump (must be below the fuel) *)
        (muts : Z)              (* mutation sites exercised on the copy *)
        (bad : list Z)          (* sites whose mutation changed the original *)
        (supported : bool)      (* only kinds/aliasing the universe represents were met *)
| Schema (kinds : list Z)       (* reflect kinds met in the types Conf and Path (type walk) *)
         (iface_fields : Z).    (* number of interface-typed positions *)

Definition FUEL : nat := 48%nat.

(* ---- model side: the model's clone must be isomorphic to the observed one ---- *)
Fixpoint lookup (a : nat) (ren : list (nat * nat)) : option nat :=
  match ren with
  | [] => None
  | (x, y) :: r => if Nat.eqb x a then Some y else lookup a r
  end.
Definition in_range (b : nat) (ren : list (nat * nat)) : bool := existsb (fun p => Nat.eqb (snd p) b) ren.

(* compare (hm, vm) with (ho, vo) up to a renaming of the addresses >= n, built on the way *)
Fixpoint iso (fuel n : nat) (hm ho : heap) (ren : list (nat * nat)) (vm vo : value) : option (list (nat * nat)) :=
  match fuel with
  | O => None
  | S k =>
      match vm, vo with
      | VScalar a, VScalar b => if a =? b then Some ren else None
      | VRef k1 None, VRef k2 None => if refkind_eqb k1 k2 then Some ren else None
      | VRef k1 (Some a), VRef k2 (Some b) =>
          if negb (refkind_eqb k1 k2) then None
          else if Nat.ltb a n || Nat.ltb b n then (if Nat.eqb a b then Some ren else None)
          else match lookup a ren with
               | Some b' => if Nat.eqb b' b then Some ren else None
               | None =>
                   if in_range b ren then None else
                   match nth_error hm a, nth_error ho b with
                   | Some cm, Some co =>
                       (fix go (ren : list (nat * nat)) (l1 l2 : list value) : option (list (nat * nat)) :=
                          match l1, l2 with
                          | [], [] => Some ren
                          | x :: r1, y :: r2 =>
                              match iso k n hm ho ren x y with
                              | Some ren' => go ren' r1 r2
                              | None => None
                              end
                          | _, _ => None
                          end) ((a, b) :: ren) cm co
                   | _, _ => None
                   end
               end
      | VStruct f1, VStruct f2 =>
          (fix go (ren : list (nat * nat)) (l1 l2 : list (bool * value)) : option (list (nat * nat)) :=
             match l1, l2 with
             | [], [] => Some ren
             | (b1, x) :: r1, (b2, y) :: r2 =>
                 if Bool.eqb b1 b2 then
                   match iso k n hm ho ren x y with
                   | Some ren' => go ren' r1 r2
                   | None => None
                   end
                 else None
             | _, _ => None
             end) ren f1 f2
      | VIface None, VIface None => Some ren
      | VIface (Some x), VIface (Some y) => iso k n hm ho ren x y
      | _, _ => None
      end
  end.

(* kinds of package reflect the model covers: Bool..Complex128 (1..16), Array of scalars (17,
   reported only when its elements are scalars), Func (19, immutable), Interface (20), Map (21),
   Pointer (22), Slice (23), String (24), Struct (25). Not covered: Chan (18), UnsafePointer (26),
   arrays holding references (reported as 117). *)
Definition kind_ok (k : Z) : bool := ((1 <=? k) && (k <=? 17)) || ((19 <=? k) && (k <=? 25)).

Definition mismatch (c : case) : bool :=
  match c with
  | Clone n h v v' depth _ _ supported =>
      negb supported || negb (depth <? Z.of_nat FUEL) ||
      match deep_clone true FUEL (firstn (Z.to_nat n) h) v with
      | None => true
      | Some (hm, vm) =>
          match iso FUEL (Z.to_nat n) hm h [] vm v' with Some _ => false | None => true end
      end
  | Schema kinds _ => negb (forallb kind_ok kinds)
  end.

(* ---- the property on the observation alone ---- *)
Fixpoint is_zero_b (v : value) : bool :=
  match v with
  | VScalar z => z =? 0
  | VRef _ a => match a with None => true | Some _ => false end
  | VStruct fs => forallb (fun bf => is_zero_b (snd bf)) fs
  | VIface d => match d with None => true | Some _ => false end
  end.

(* same shape through the heap; fields reflect cannot set are zero in the copy *)
Fixpoint same_shape_b (n : nat) (h : heap) (v v' : value) : bool :=
  match n with
  | O => false
  | S k =>
      match v, v' with
      | VScalar z, VScalar z' => z =? z'
      | VRef kd None, VRef kd' None => refkind_eqb kd kd'
      | VRef kd (Some a), VRef kd' (Some a') =>
          refkind_eqb kd kd' &&
          match nth_error h a, nth_error h a' with
          | Some c, Some c' =>
              Nat.eqb (length c) (length c') && forallb (fun p => same_shape_b k h (fst p) (snd p)) (combine c c')
          | _, _ => false
          end
      | VStruct fs, VStruct fs' =>
          Nat.eqb (length fs) (length fs') &&
          forallb (fun p => Bool.eqb (fst (fst p)) (fst (snd p)) &&
                            if fst (fst p) then same_shape_b k h (snd (fst p)) (snd (snd p))
                            else is_zero_b (snd (snd p))) (combine fs fs')
      | VIface None, VIface None => true
      | VIface (Some d), VIface (Some d') => same_shape_b k h d d'
      | _, _ => false
      end
  end.

Definition shares (h : heap) (v v' : value) : bool :=
  let ro := reach_list FUEL h v in
  existsb (fun a => existsb (Nat.eqb a) ro) (reach_list FUEL h v').

Definition spec_fail (c : case) : bool :=
  match c with
  | Clone n h v v' _ _ bad _ =>
      match bad with [] => false | _ => true end      (* a mutation of the copy changed the original *)
      || shares h v v'                                (* the copy reaches a cell the original reaches *)
      || negb (same_shape_b FUEL h v v')              (* the copy is not a copy *)
  | Schema _ _ => false
  end.
