(* C16 correspondence.
   CPath: the shared path-loop case (Check/PathSMCase.v) with the C16 specification: one instance.
   CName: the life of a path NAME on a real pathManager (Model/C16_Names.v): client requests, reloads of every
   kind, and tear-downs that the driver holds open (a publisher / reader whose Close() blocks until released)
   while further requests arrive. *)
From Coq Require Import List ZArith Bool.
Require Export MTX.Model.PathSM MTX.Model.C16_Names MTX.Check.PathSMCase.
Import ListNotations.
Local Open Scope Z_scope.

(* what the driver does, in the order it did it *)
Inductive xs :=
| XS (s : sched)                          (* one scheduler choice of the model *)
| XTicksUntil (i : Z) (k : Z) (id : Z)    (* instance i tears down until it is INSIDE Close() of publisher id (k = 0) / reader id (k = 1) *)
| XTicksAll (i : Z).                      (* the held Close() is released; instance i finishes its tear-down *)

(* what the driver sees *)
Inductive nobs :=
| OAns (q inst code : Z)     (* request q answered by instance number inst (creation order; -1 when refused): 0 = accepted, else error code *)
| OPubClosed (p : Z)         (* Publisher.Close() returned *)
| OReaderClosed (r : Z)      (* Reader.Close() returned *)
| ONoConf (q : Z)            (* the manager refused q: path not configured *)
| OGone (q : Z).             (* an instance that is closing / closed answered "terminated" *)

(* per step: events observed during the step (real order), and pm.paths[name] after it:
   -2 not observed, -1 the manager does not answer (blocked) or has no instance, n >= 0 instance number n *)
Inductive ncase := NCase (cf : pconf) (live0 : Z) (steps : list (xs * list nobs * Z)).

Inductive case := CPath (c : pcase) | CName (c : ncase).

(* ---- model side -------------------------------------------------------------------------------------- *)
Definition obs_of (e : nevent) : list nobs :=
  match e with
  | NEv i (EAnswer q (AStream _)) => [OAns q i 0]
  | NEv _ (EAnswer q (AErr c)) => [OAns q (-1) c]    (* the client of a refused request is not told by which instance *)
  | NEv _ (EPubClosed p) => [OPubClosed p]
  | NEv _ (EReaderClosed r) => [OReaderClosed r]
  | NNoConf q => [ONoConf q]
  | NGone _ q => [OGone q]
  | _ => []
  end.

Definition nobs_code (o : nobs) : Z * Z * Z * Z :=
  match o with
  | OAns q i c => (1, q, i, c)
  | OPubClosed p => (2, p, 0, 0)
  | OReaderClosed r => (3, r, 0, 0)
  | ONoConf q => (4, q, 0, 0)
  | OGone q => (5, q, 0, 0)
  end.
Definition nobs_eqb (a b : nobs) : bool :=
  let '(a1, a2, a3, a4) := nobs_code a in let '(b1, b2, b3, b4) := nobs_code b in
  (a1 =? b1) && (a2 =? b2) && (a3 =? b3) && (a4 =? b4).
Definition count_obs (o : nobs) (l : list nobs) : nat := length (filter (nobs_eqb o) l).
(* same events, any order (Go map order of reader closes; concurrent clients) *)
Definition same_obs (a b : list nobs) : bool :=
  forallb (fun o => Nat.eqb (count_obs o a) (count_obs o b)) (a ++ b).

Definition next_pend (i : Z) (ns : nstate) : option pevent :=
  match find (fun x => i_id x =? i) (n_dying ns) with
  | Some x => hd_error (i_pend x)
  | None => None
  end.
Definition is_gate (k id : Z) (e : pevent) : bool :=
  match e with
  | EPubClosed p => (k =? 0) && (p =? id)
  | EReaderClosed r => (k =? 1) && (r =? id)
  | _ => false
  end.
Fixpoint ticks (fuel : nat) (i : Z) (gate : pevent -> bool) (ns : nstate) (acc : list nevent) : nstate * list nevent :=
  match fuel with
  | O => (ns, acc)
  | S f =>
      match next_pend i ns with
      | None => (ns, acc)
      | Some e =>
          if gate e then (ns, acc)
          else let (ns', ev) := nstep wait_always ns (STick i) in ticks f i gate ns' (acc ++ ev)
      end
  end.
Definition xstep (ns : nstate) (x : xs) : nstate * list nevent :=
  match x with
  | XS s => nstep wait_always ns s
  | XTicksUntil i k id => ticks 400 i (is_gate k id) ns []
  | XTicksAll i => ticks 400 i (fun _ => false) ns []
  end.
Definition live_code (ns : nstate) : Z := match n_live ns with Some x => i_id x | None => -1 end.

Fixpoint nrun_cmp (ns : nstate) (steps : list (xs * list nobs * Z)) : bool :=
  match steps with
  | [] => true
  | (x, obs, lv) :: r =>
      let (ns1, evs) := xstep ns x in
      same_obs (flat_map obs_of evs) obs && ((lv =? -2) || (lv =? live_code ns1)) && nrun_cmp ns1 r
  end.

Definition nmismatch (c : ncase) : bool :=
  match c with
  | NCase cf l0 steps => negb (((l0 =? -2) || (l0 =? 0)) && nrun_cmp (ninit cf) steps)
  end.

(* ---- the property on the observations alone --------------------------------------------------------------
   who occupies which instance: a publisher / reader is attached to instance i from the accepting answer of i
   until its Close() has returned (or it removed itself).  At no moment may two instances of the name be
   occupied, nor two publishers be attached to the name; and when pm.paths[name] is seen to be instance j,
   nobody may still occupy another instance.  (Within one instance "at most one publisher" is the CPath spec;
   it is re-stated here for the name.) *)
Inductive who := WPub (p : Z) | WReader (r : Z).
Definition who_eqb (a b : who) : bool :=
  match a, b with WPub p, WPub p' => p =? p' | WReader r, WReader r' => r =? r' | _, _ => false end.
Definition is_pub (w : who) : bool := match w with WPub _ => true | _ => false end.

Definition req_of (x : xs) : list (Z * who) :=
  match x with
  | XS (SHandle (MReq (AddPublisher q p _))) | XS (SDirect _ (AddPublisher q p _)) => [(q, WPub p)]
  | XS (SHandle (MReq (AddReader q r))) | XS (SDirect _ (AddReader q r)) => [(q, WReader r)]
  | _ => []
  end.
Fixpoint lookup_who (q : Z) (m : list (Z * who)) : option who :=
  match m with [] => None | (q', w) :: r => if q =? q' then Some w else lookup_who q r end.

Definition occ := list (Z * who).
Definition drop_who (w : who) (o : occ) : occ := filter (fun e => negb (who_eqb w (snd e))) o.
Definition other_inst (i : Z) (o : occ) : bool := existsb (fun e => negb (fst e =? i)) o.
Definition has_pub (o : occ) : bool := existsb (fun e => is_pub (snd e)) o.

(* one observed event; None = violation *)
Definition occ_event (qm : list (Z * who)) (o : occ) (e : nobs) : option occ :=
  match e with
  | OAns q i 0 =>
      match lookup_who q qm with
      | Some w =>
          if other_inst i o then None                       (* another instance is still occupied *)
          else if is_pub w && has_pub o then None             (* a second publisher on the name *)
          else Some ((i, w) :: drop_who w o)
      | None => Some o
      end
  | OPubClosed p => Some (drop_who (WPub p) o)
  | OReaderClosed r => Some (drop_who (WReader r) o)
  | _ => Some o
  end.
Definition occ_after_op (x : xs) (o : occ) : occ :=
  match x with
  | XS (SDirect _ (RemovePublisher p)) => drop_who (WPub p) o
  | XS (SDirect _ (RemoveReader r)) => drop_who (WReader r) o
  | _ => o
  end.
Definition occ_step (qm : list (Z * who)) (o : occ) (st : xs * list nobs * Z) : option occ :=
  let '(x, obs, lv) := st in
  match mrun (occ_event qm) o obs with
  | None => None
  | Some o1 =>
      let o2 := occ_after_op x o1 in
      if (0 <=? lv) && other_inst lv o2 then None else Some o2
  end.

Definition nspec_fail (c : ncase) : bool :=
  match c with
  | NCase cf l0 steps =>
      let qm := flat_map (fun st => req_of (fst (fst st))) steps in
      match mrun (occ_step qm) [] steps with Some _ => false | None => true end
  end.

Definition mismatch (c : case) : bool :=
  match c with CPath p => PathSMCase.mismatch p | CName n => nmismatch n end.
Definition spec_fail (c : case) : bool :=
  match c with CPath p => spec_fail_c16 p | CName n => nspec_fail n end.
