(* Correspondence cases for C35. The drivers call the real handlers (in-package, under recover()) and the
   real listeners (raw TCP / QUIC) and record what happened; `mismatch` compares with Model/C35_PreAuth.v,
   `spec_fail` restates the property on the observation alone: no panic on anything the front end lets
   through, and the process alive after hostile traffic. *)
From Coq Require Import List ZArith Bool.
Require Import MTX.Lib.PathClean MTX.Model.C34_Descriptors.
Require Export MTX.Model.C35_PreAuth MTX.Model.C35_SessionConc MTX.Model.C35_TsIngest.
Import ListNotations.
Local Open Scope Z_scope.

(* long generated strings are shipped run-length encoded: rp n u = u repeated n times *)
Fixpoint rp_nat (n : nat) (u : list Z) : list Z := match n with O => [] | S k => u ++ rp_nat k u end.
Definition rp (n : Z) (u : list Z) : list Z := rp_nat (Z.to_nat n) u.

(* what one request produced: a panic (caught by the driver's recover), or the HTTP status, the
   (Name, Publish) of every path-manager call in order, and a tag (front-end specific, 0 by default) *)
Inductive obs :=
| OPanic
| ORes (status : Z) (names : list (list Z * bool)) (tag : Z).

(* ---- raced MoQ sessions: what the driver did and saw --------------------------------------------------- *)

Inductive action :=
| AStart (i : nat) | AFeed (i : nat) | AEof (i : nat) | ACancel
| AHold | ARelease              (* the driver takes / releases s.mutex *)
| APm (i : nat) (answer : bool). (* the driver's path manager holds back / answers handler i's request *)

Record tobs := TO {
  o_res : option err;           (* None: did not return (panicked, or still blocked at the end) *)
  o_panic : bool;
  o_wrote : list Z;             (* messages written to its stream, in order *)
  o_pm : option (list Z * list Z * bool);
  o_snap : option (sstate * list Z * list Z)
}.
Record gobs := GO { f_st : sstate; f_name : list Z; f_query : list Z; f_setup : bool; f_ready : bool; f_ctx : bool }.

Inductive case :=
  (* httpp.handlerFilterRequests on a request with this URL.Path: did it call the next handler? *)
| CFilter (path : list Z) (passed : bool) (panicked : bool)
  (* the gin router of the HLS server called directly (no filter in front), or through the listener
     (wire = true: the path is what net/url makes of the request target) *)
| CHls (wire : bool) (m : meth) (path : list Z) (cookie : bool) (o : obs)
  (* uuid_at: offsets i such that uuid.Parse(path[i:]) succeeds (oracle for the session secret) *)
| CWebrtc (wire : bool) (m : meth) (path : list Z) (uuid_at : list Z) (o : obs)
  (* am: user/pass echoed by /authmirror when printable *)
| CMoqH2 (m : meth) (path hdr : list Z) (o : obs) (am : option (list Z * list Z))
| CMoqH3 (m : meth) (path : list Z) (o : obs)
  (* a WebTransport session opened by a real client on this request path: the path name of the session *)
| CMoqWT (path : list Z) (session_name : option (list Z))
  (* processSetupMessage on a native QUIC session: u.Path of url.ParseRequestURI(PATH) (None: rejected by net/url) *)
| CMoqQuic (upath : option (list Z)) (name : option (list Z)) (panicked : bool)
  (* conf.IsValidPathName: 0 = nil, 1..5 = the five errors in source order *)
| CValid (name : list Z) (err : Z) (panicked : bool)
  (* api.paramName *)
| CParam (s : list Z) (r : option (list Z)) (panicked : bool)
  (* srt streamID.unmarshal on a raw stream id (the decoded fields are C34's subject; here: does it panic?) *)
| CSrt (raw : list Z) (failed : bool) (panicked : bool)
  (* MPEG-TS ingestion (publisher DATA): the real EnhancedReader.Initialize + ToStream + read loop on a generated
     stream under recover(); tracks and events as a plain mediacommon Reader sees the same bytes (oracle), elements
     as mpeg4audio decodes them (oracle); o = what the in-tree code did *)
| CTs (ts : list TS.track) (evs : list TS.event) (o : TS.ires)
  (* RTSP DESCRIBE through a real Core: ctx_path = gortsplib's path of the request URL (oracle) *)
| CRtsp (ctx_path : list Z) (status : Z)
  (* crash oracle (testing): after the hostile traffic described in desc, is the process alive and does
     every listener still answer a well-formed request? *)
| CCrash (listener : Z) (alive : bool) (answers : bool)
  (* a real MoQ session (created by the real Server on a scripted connection), its stream handlers / apiItem / Close
     started in goroutines and driven through `script` (the driver holds s.mutex, lets handlers run into it, releases
     it; bytes arrive, streams end, the context is cancelled); per handler what it returned / wrote / asked the path
     manager / read, and the session's final state *)
| CMoqRace (c : cfg) (name query : list Z) (ss : list stream) (script : list action) (obs : list tobs) (fin : gobs).

(* ---- expected observation from a model outcome (the fake path manager of the drivers refuses every
        request with a plain error, so a front end answers 500 after its first call) ---------------- *)

Definition exp_hls (cookie : bool) (o : hls_out) : obs :=
  match o with
  | HNotGet | HIgnored => ORes 404 [] 0
  | HStatic => ORes 200 [] 0
  | HRedirect => ORes 302 [] 0
  | HIndex d => ORes 500 [(d, false)] 0
  | HFile KMultivariant d _ => if cookie then ORes 500 [(d, false)] 0 else ORes 302 [] 0
  | HFile _ _ _ => ORes 401 [] 0
  end.

Definition uuid_ok (path : list Z) (uuid_at : list Z) (secret : list Z) : bool :=
  existsb (fun i => i =? len path - len secret) uuid_at.

Definition exp_w (path uuid_at : list Z) (o : w_out) : obs :=
  match o with
  | WOptions n b => ORes 500 [(n, b)] 0
  | WPost _ _ => ORes 400 [] 0
  | WNotAllowed => ORes 405 [] 0
  | WNoop => ORes 404 [] 0
  | WPatch _ => ORes 400 [] 0
  | WDelete s => if uuid_ok path uuid_at s then ORes 404 [] 0 else ORes 400 [] 0
  | WStaticPub | WStaticRead => ORes 200 [] 0
  | WPage n b => ORes 500 [(n, b)] 0
  | WRedirect => ORes 302 [] 0
  end.

Definition exp_m2 (o : m2_out) : obs :=
  match o with
  | M2AuthMirror AMBad => ORes 400 [] 0
  | M2AuthMirror (AMOk _ _) => ORes 200 [] 0
  | M2Fingerprint | M2StaticRead | M2StaticPub => ORes 200 [] 0
  | M2Noop => ORes 404 [] 0
  | M2Page n b => ORes 500 [(n, b)] 0
  | M2Redirect => ORes 302 [] 0
  end.

(* tag 1 = a JSON error body was written (the request got past the path tests) *)
Definition exp_h3 (o : h3_out) : obs :=
  match o with
  | H3Ignored => ORes 404 [] 0
  | H3Bad => ORes 400 [] 0
  | H3Session _ => ORes 400 [] 1
  end.

Definition lift {A} (f : A -> obs) (r : res A) : obs := match r with Ok a => f a | Panic => OPanic end.
Definition lift_front {A} (f : A -> obs) (r : res (option A)) : obs :=
  match r with Ok (Some a) => f a | Ok None => ORes 400 [] 0 | Panic => OPanic end.

Fixpoint names_eqb (a b : list (list Z * bool)) : bool :=
  match a, b with
  | [], [] => true
  | (x, p) :: a', (y, q) :: b' => beqb x y && Bool.eqb p q && names_eqb a' b'
  | _, _ => false
  end.

Definition obs_eqb (a b : obs) : bool :=
  match a, b with
  | OPanic, OPanic => true
  | ORes s n t, ORes s' n' t' => (s =? s') && names_eqb n n' && (t =? t')
  | _, _ => false
  end.

Definition opt_eqb (a b : option (list Z)) : bool :=
  match a, b with
  | None, None => true
  | Some x, Some y => beqb x y
  | _, _ => false
  end.

Definition is_get (m : meth) : bool := match m with MGet => true | _ => false end.

Definition verr_code (v : option verr) : Z :=
  match v with None => 0 | Some VEmpty => 1 | Some VLead => 2 | Some VTrail => 3 | Some VChars => 4 | Some VDots => 5 end.

(* the RTSP pipeline behind DESCRIBE on a Core whose only path is all_others and that has no publisher:
   400 from the guard or from the path manager's name check, else 404 (no stream) *)
Definition exp_rtsp (ctx_path : list Z) : res Z :=
  n <- rtsp_name ctx_path ;;
  match n with
  | None => Ok 400
  | Some name => ok <- gate name ;; Ok (if ok then 404 else 400)
  end.

(* ---- raced MoQ sessions: every outcome the model allows for a script ------------------------------------------ *)

Definition bz (b : bool) : Z := if b then 1 else 0.
Definition nz (n : nat) : Z := Z.of_nat n.
Definition err_code (e : err) : Z :=
  match e with
  | ENil => 1 | EParse => 2 | EVersion => 3 | EWTPath => 4 | EWTAuthority => 5 | EMissingPath => 6 | EInvalidPath => 7
  | EEmptyPath => 8 | EDupSetup => 9 | EExpectedClientSetup => 10 | ETerminated => 11 | EUnsupportedStream => 12
  | EUnsupportedMsg => 13 | EUnexpectedSubscribe => 14 | EUnexpectedPublish => 15 | EBadTrackName => 16
  | EStreamNotReady => 17 | ETrackRange => 18 | EPM => 19 | ECatalogJSON => 20 | ECatalogMany => 21 | ECatalogDup => 22
  | EToStream => 23 | ESubCatalogClosed => 24 | EPubCatalogClosed => 25 | EPubTrackClosed => 26 | ETrackNotFound => 27
  | EBeyondModel => 28
  end.
Definition st_code (s : sstate) : Z := match s with SIdle => 0 | SRead => 1 | SPublish => 2 end.
Definition res_code (r : option err) : Z := match r with Some e => err_code e | None => 0 end.
Definition cat_code (c : option catinfo) : Z := match c with Some (b, n) => 1 + bz b + 2 * nz n | None => 0 end.
Definition lock_code (l : lockst) : Z := match l with LFree => 0 | LEnv => 1 | LThread i => 2 + nz i end.
Definition lz (l : list Z) : list Z := nz (List.length l) :: l.

Fixpoint zl_eqb (a b : list Z) : bool :=
  match a, b with
  | [], [] => true
  | x :: a', y :: b' => (x =? y) && zl_eqb a' b'
  | _, _ => false
  end.

(* the part of a goroutine's state that can differ between two runs of the same script *)
Definition thread_key1 (t : thread) : list Z :=
  [nz (List.length (t_ops t)); match t_alt t with Some _ => 1 | None => 0 end; res_code (t_res t); bz (t_holds t)].
Definition thread_key2 (t : thread) : list Z :=
  [bz (t_on t); bz (t_fed t); bz (t_eof t); bz (t_pmgo t); cat_code (t_cat t); nz (List.length (t_wrote t));
   match t_pm t with Some _ => 1 | None => 0 end]
  ++ lz (t_name t) ++ lz (t_query t)
  ++ match t_snap t with Some (s, n, q) => (1 + st_code s) :: lz n ++ lz q | None => [0] end.
Definition sess_key (g : sess) : list Z :=
  [lock_code (g_lock g); bz (g_setup g); bz (g_ready g); cat_code (g_cat g); bz (g_ctx g); st_code (g_st g);
   match g_tracks g with Some k => 1 + nz k | None => 0 end; nz (g_ntr g); bz (g_pathset g)]
  ++ lz (g_name g) ++ lz (g_query g).

Definition conf := (sess * list thread)%type.
Definition conf_key (x : conf) : list Z :=
  flat_map thread_key1 (snd x) ++ sess_key (fst x) ++ flat_map thread_key2 (snd x).

(* statements that touch nothing another goroutine can see *)
Definition is_local (o : op) : bool :=
  match o with OWrite _ | ORet _ | OCallPM _ | ORead | ODrain => true | _ => false end.
Definition next_is_local (t : thread) : bool :=
  match t_alt t, t_ops t with None, o :: _ => is_local o | _, _ => false end.

(* after a visible statement a goroutine runs on while it holds the mutex (a critical section is one move: what it
   does inside is invisible until it unlocks) and through statements that are local to it *)
Fixpoint cont (fuel : nat) (c : cfg) (g : sess) (i : nat) (t : thread) : sess * thread :=
  match fuel with
  | O => (g, t)
  | S f => if t_holds t || next_is_local t
           then match step c g i t 0 with XOk g' t' => cont f c g' i t' | _ => (g, t) end
           else (g, t)
  end.
Definition macro (c : cfg) (x : conf) (i ch : nat) : option conf :=
  match nth_error (snd x) i with
  | Some t => match step c (fst x) i t ch with
              | XOk g' t' => let (g2, t2) := cont 64 c g' i t' in Some (g2, upd i t2 (snd x))
              | _ => None
              end
  | None => None
  end.
(* a select with several ready cases may take any of them; every other statement ignores the choice *)
Definition choices (t : thread) : list nat :=
  match t_alt t, t_ops t with
  | None, (OWaitSetup | ORecvCatalog | OWaitPubReady | OWaitEofOrCtx) :: _ => [0%nat; 1%nat; 2%nat]
  | _, _ => [0%nat]
  end.
Definition succs (c : cfg) (x : conf) : list conf :=
  flat_map (fun i => match nth_error (snd x) i with
                     | Some t => flat_map (fun ch => match macro c x i ch with Some y => [y] | None => [] end) (choices t)
                     | None => []
                     end)
           (seq 0 (List.length (snd x))).

(* seen: key, state, nothing left to run *)
Definition entry := (list Z * conf * bool)%type.
Definition seen_mem (k : list Z) (seen : list entry) : bool := existsb (fun e => zl_eqb k (fst (fst e))) seen.

Fixpoint closure (fuel : nat) (c : cfg) (todo : list conf) (seen : list entry) : list entry :=
  match fuel with
  | O => seen
  | S f => match todo with
           | [] => seen
           | x :: rest =>
               let k := conf_key x in
               if seen_mem k seen then closure f c rest seen
               else let n := succs c x in
                    closure f c (n ++ rest) ((k, x, match n with [] => true | _ => false end) :: seen)
           end
  end.

Definition map_thread (i : nat) (f : thread -> thread) (x : conf) : conf :=
  match nth_error (snd x) i with Some t => (fst x, upd i (f t) (snd x)) | None => x end.
Definition act (a : action) (x : conf) : conf :=
  match a with
  | AStart i => map_thread i (fun t => t_env t true (t_fed t) (t_eof t) (t_pmgo t)) x
  | AFeed i => map_thread i (fun t => t_env t (t_on t) true (t_eof t) (t_pmgo t)) x
  | AEof i => map_thread i (fun t => t_env t (t_on t) (t_fed t) true (t_pmgo t)) x
  | APm i b => map_thread i (fun t => t_env t (t_on t) (t_fed t) (t_eof t) b) x
  | ACancel => (set_ctx (fst x), snd x)
  | AHold => (match g_lock (fst x) with LFree => set_lock (fst x) LEnv | _ => fst x end, snd x)
  | ARelease => (match g_lock (fst x) with LEnv => set_lock (fst x) LFree | _ => fst x end, snd x)
  end.

Definition explore_fuel : nat := Z.to_nat 40000.
(* the states in which nothing is left to run *)
Definition settled (c : cfg) (xs : list conf) : list conf :=
  map (fun e => snd (fst e)) (filter (fun e => snd e) (closure explore_fuel c xs [])).
(* all states the session can be in after the script.  The driver goes on to its next action only when every handler
   goroutine has returned or is parked (mutex, channel, stream): only settled states are carried over *)
Definition explore (c : cfg) (x0 : conf) (script : list action) : list conf :=
  fold_left (fun (S : list conf) a => settled c (map (act a) S)) script (settled c [x0]).

Definition opt_err_eqb (a b : option err) : bool := res_code a =? res_code b.
Definition trip_eqb (a b : option (list Z * list Z * bool)) : bool :=
  match a, b with
  | None, None => true
  | Some (n, q, p), Some (n', q', p') => zl_eqb n n' && zl_eqb q q' && Bool.eqb p p'
  | _, _ => false
  end.
Definition snap_eqb (a b : option (sstate * list Z * list Z)) : bool :=
  match a, b with
  | None, None => true
  | Some (s, n, q), Some (s', n', q') => (st_code s =? st_code s') && zl_eqb n n' && zl_eqb q q'
  | _, _ => false
  end.
Definition thread_matches (t : thread) (o : tobs) : bool :=
  negb (o_panic o) && opt_err_eqb (t_res t) (o_res o) && zl_eqb (rev (t_wrote t)) (o_wrote o)
  && trip_eqb (t_pm t) (o_pm o) && snap_eqb (t_snap t) (o_snap o).
Fixpoint threads_match (ts : list thread) (os : list tobs) : bool :=
  match ts, os with
  | [], [] => true
  | t :: ts', o :: os' => thread_matches t o && threads_match ts' os'
  | _, _ => false
  end.
Definition sess_matches (g : sess) (f : gobs) : bool :=
  (st_code (g_st g) =? st_code (f_st f)) && zl_eqb (g_name g) (f_name f) && zl_eqb (g_query g) (f_query f)
  && Bool.eqb (g_setup g) (f_setup f) && Bool.eqb (g_ready g) (f_ready f) && Bool.eqb (g_ctx g) (f_ctx f).

(* the observation is one of the model's final states: nothing left to run, every handler and the session as seen *)
Definition race_allowed (c : cfg) (name query : list Z) (ss : list stream) (script : list action)
                        (obs : list tobs) (fin : gobs) : bool :=
  existsb (fun x => sess_matches (fst x) fin && threads_match (snd x) obs)
          (explore c (sess0 name query, map (thread0 c AsFound) ss) script).

Definition rend_eqb (a b : TS.rend) : bool :=
  match a, b with TS.REof, TS.REof | TS.RDecode, TS.RDecode | TS.RDynamic, TS.RDynamic => true | _, _ => false end.
Definition optz_eqb (a b : option Z) : bool :=
  match a, b with Some x, Some y => Z.eqb x y | None, None => true | _, _ => false end.
Fixpoint optzs_eqb (a b : list (option Z)) : bool :=
  match a, b with [], [] => true | x :: a', y :: b' => optz_eqb x y && optzs_eqb a' b' | _, _ => false end.
Definition ires_eqb (a b : TS.ires) : bool :=
  match a, b with
  | TS.IInitErr, TS.IInitErr | TS.INoCodecs, TS.INoCodecs | TS.IPanic, TS.IPanic => true
  | TS.IRan m r u e, TS.IRan m' r' u' e' => optzs_eqb m m' && Z.eqb r r' && (Z.eqb u u' || (u' <? 0)) && rend_eqb e e'   (* units < 0: not observed *)
  | _, _ => false
  end.

Definition mismatch (c : case) : bool :=
  match c with
  | CFilter path passed panicked =>
      match http_filter path with
      | Ok b => panicked || negb (Bool.eqb b passed)
      | Panic => negb panicked
      end
  | CHls wire m path cookie o =>
      negb (obs_eqb o (if wire then lift_front (exp_hls cookie) (hls_front (is_get m) path)
                       else lift (exp_hls cookie) (hls_dispatch (is_get m) path)))
  | CWebrtc wire m path uuid_at o =>
      negb (obs_eqb o (if wire then lift_front (exp_w path uuid_at) (webrtc_front m path)
                       else lift (exp_w path uuid_at) (webrtc_dispatch m path)))
  | CMoqH2 m path hdr o am =>
      let r := moq_h2_dispatch m path hdr in
      negb (obs_eqb o (lift exp_m2 r))
      || match am, r with
         | Some (u, p), Ok (M2AuthMirror (AMOk u' p')) => negb (beqb u u' && beqb p p')
         | Some _, _ => true
         | None, _ => false
         end
  | CMoqH3 m path o => negb (obs_eqb o (lift exp_h3 (moq_h3_dispatch m path)))
  | CMoqWT path sn =>
      match moq_h3_dispatch MConnect path with
      | Ok (H3Session n) => negb (opt_eqb sn (Some n))
      | Ok _ => negb (opt_eqb sn None)
      | Panic => true
      end
  | CMoqQuic upath name panicked =>
      panicked || negb (opt_eqb name (match upath with Some u => moq_quic_name u | None => None end))
  | CValid name err panicked =>
      match is_valid_path_name name with
      | Ok v => panicked || negb (verr_code v =? err)
      | Panic => negb panicked
      end
  | CSrt raw failed panicked =>
      match srt_unmarshal raw with
      | Ok (SidErr _) => panicked || negb failed      (* model: error *)
      | Ok (SidOk _) => panicked || failed            (* model: parsed *)
      | Panic => negb panicked
      end
  | CParam s r panicked =>
      match param_name s with
      | Ok v => panicked || negb (opt_eqb v r)
      | Panic => negb panicked
      end
  | CRtsp ctx_path status =>
      match exp_rtsp ctx_path with Ok s => negb (s =? status) | Panic => true end
  | CCrash _ _ _ => false
  | CTs ts evs o => negb (ires_eqb (TS.ingest TS.PvCode ts evs) o)
  | CMoqRace c name query ss script obs fin => negb (race_allowed c name query ss script obs fin)
  end.

(* ---- the property on the observation alone ----------------------------------------------------------- *)

Definition starts_with_slash (p : list Z) : bool := match p with c :: _ => c =? 47 | [] => false end.
Definition panicked_obs (o : obs) : bool := match o with OPanic => true | _ => false end.

(* CFilter: nothing that is empty or does not begin with '/' reaches the handlers behind the filter *)
Definition spec_fail (c : case) : bool :=
  match c with
  | CFilter path passed panicked => panicked || (passed && negb (starts_with_slash path))
    (* a direct call stands behind no filter: a panic counts only on a path the filter lets through *)
  | CHls wire _ path _ o => panicked_obs o && (wire || starts_with_slash path)
  | CWebrtc _ _ _ _ o => panicked_obs o
  | CMoqH2 _ _ _ o _ => panicked_obs o
  | CMoqH3 _ _ o => panicked_obs o
  | CMoqWT _ _ => false
  | CMoqQuic _ _ panicked => panicked
  | CValid _ _ panicked => panicked
  | CParam _ _ panicked => panicked
  | CSrt _ _ panicked => panicked
    (* the publisher goroutine panicked on publisher-supplied MPEG-TS data *)
  | CTs _ _ o => match o with TS.IPanic => true | _ => false end
  | CRtsp _ status => status =? 0            (* 0 = no answer: the connection or the process died *)
  | CCrash _ alive answers => negb (alive && answers)
    (* no stream handler, API call or Close() of the raced session panicked *)
  | CMoqRace _ _ _ _ _ obs _ => existsb o_panic obs
  end.
