(* Correspondence cases for C35. The drivers call the real handlers (in-package, under recover()) and the
   real listeners (raw TCP / QUIC) and record what happened; `mismatch` compares with Model/C35_PreAuth.v,
   `spec_fail` restates the property on the observation alone: no panic on anything the front end lets
   through, and the process alive after hostile traffic. *)
From Coq Require Import List ZArith Bool.
Require Import MTX.Lib.PathClean MTX.Model.C34_Descriptors.
Require Export MTX.Model.C35_PreAuth.
Import ListNotations.
Local Open Scope Z_scope.

(* long generated strings are shipped run-length encoded: rp n u = u repeated n times *)
Fixpoint rp_nat (n : nat) (u : list Z) : list Z := match n with O => [] | S k => u ++ rp_nat k u end.
Definition rp (n : Z) (u : list Z) : list Z := rp_nat (Z.to_nat n) u.

(* what one request produced: a panic (caught by the driver's recover), or the HTTP status, the
   (Name, Publish) of every path-manager call in order, and a tag (front-end specific, 0 by default) *)
Inductive obs :=
| OPanic
| ORes (status : Z) (names : list (list Z * bool)) (tag : Z).

Inductive case :=
  (* httpp.handlerFilterRequests on a request with this URL.Path: did it call the next handler? *)
| CFilter (path : list Z) (passed : bool) (panicked : bool)
  (* the gin router of the HLS server called directly (no filter in front), or through the listener
     (wire = true: the path is what net/url makes of the request target) *)
| CHls (wire : bool) (m : meth) (path : list Z) (cookie : bool) (o : obs)
  (* uuid_at: offsets i such that uuid.Parse(path[i:]) succeeds (oracle for the session secret) *)
| CWebrtc (wire : bool) (m : meth) (path : list Z) (uuid_at : list Z) (o : obs)
  (* am: user/pass echoed by /authmirror when printable *)
| CMoqH2 (m : meth) (path hdr : list Z) (o : obs) (am : option (list Z * list Z))
| CMoqH3 (m : meth) (path : list Z) (o : obs)
  (* a WebTransport session opened by a real client on this request path: the path name of the session *)
| CMoqWT (path : list Z) (session_name : option (list Z))
  (* processSetupMessage on a native QUIC session: u.Path of url.ParseRequestURI(PATH) (None: rejected by net/url) *)
| CMoqQuic (upath : option (list Z)) (name : option (list Z)) (panicked : bool)
  (* conf.IsValidPathName: 0 = nil, 1..5 = the five errors in source order *)
| CValid (name : list Z) (err : Z) (panicked : bool)
  (* api.paramName *)
| CParam (s : list Z) (r : option (list Z)) (panicked : bool)
  (* srt streamID.unmarshal on a raw stream id (the decoded fields are C34's subject; here: does it panic?) *)
| CSrt (raw : list Z) (failed : bool) (panicked : bool)
  (* RTSP DESCRIBE through a real Core: ctx_path = gortsplib's path of the request URL (oracle) *)
| CRtsp (ctx_path : list Z) (status : Z)
  (* crash oracle (testing): after the hostile traffic described in desc, is the process alive and does
     every listener still answer a well-formed request? *)
| CCrash (listener : Z) (alive : bool) (answers : bool).

(* ---- expected observation from a model outcome (the fake path manager of the drivers refuses every
        request with a plain error, so a front end answers 500 after its first call) ---------------- *)

Definition exp_hls (cookie : bool) (o : hls_out) : obs :=
  match o with
  | HNotGet | HIgnored => ORes 404 [] 0
  | HStatic => ORes 200 [] 0
  | HRedirect => ORes 302 [] 0
  | HIndex d => ORes 500 [(d, false)] 0
  | HFile KMultivariant d _ => if cookie then ORes 500 [(d, false)] 0 else ORes 302 [] 0
  | HFile _ _ _ => ORes 401 [] 0
  end.

Definition uuid_ok (path : list Z) (uuid_at : list Z) (secret : list Z) : bool :=
  existsb (fun i => i =? len path - len secret) uuid_at.

Definition exp_w (path uuid_at : list Z) (o : w_out) : obs :=
  match o with
  | WOptions n b => ORes 500 [(n, b)] 0
  | WPost _ _ => ORes 400 [] 0
  | WNotAllowed => ORes 405 [] 0
  | WNoop => ORes 404 [] 0
  | WPatch _ => ORes 400 [] 0
  | WDelete s => if uuid_ok path uuid_at s then ORes 404 [] 0 else ORes 400 [] 0
  | WStaticPub | WStaticRead => ORes 200 [] 0
  | WPage n b => ORes 500 [(n, b)] 0
  | WRedirect => ORes 302 [] 0
  end.

Definition exp_m2 (o : m2_out) : obs :=
  match o with
  | M2AuthMirror AMBad => ORes 400 [] 0
  | M2AuthMirror (AMOk _ _) => ORes 200 [] 0
  | M2Fingerprint | M2StaticRead | M2StaticPub => ORes 200 [] 0
  | M2Noop => ORes 404 [] 0
  | M2Page n b => ORes 500 [(n, b)] 0
  | M2Redirect => ORes 302 [] 0
  end.

(* tag 1 = a JSON error body was written (the request got past the path tests) *)
Definition exp_h3 (o : h3_out) : obs :=
  match o with
  | H3Ignored => ORes 404 [] 0
  | H3Bad => ORes 400 [] 0
  | H3Session _ => ORes 400 [] 1
  end.

Definition lift {A} (f : A -> obs) (r : res A) : obs := match r with Ok a => f a | Panic => OPanic end.
Definition lift_front {A} (f : A -> obs) (r : res (option A)) : obs :=
  match r with Ok (Some a) => f a | Ok None => ORes 400 [] 0 | Panic => OPanic end.

Fixpoint names_eqb (a b : list (list Z * bool)) : bool :=
  match a, b with
  | [], [] => true
  | (x, p) :: a', (y, q) :: b' => beqb x y && Bool.eqb p q && names_eqb a' b'
  | _, _ => false
  end.

Definition obs_eqb (a b : obs) : bool :=
  match a, b with
  | OPanic, OPanic => true
  | ORes s n t, ORes s' n' t' => (s =? s') && names_eqb n n' && (t =? t')
  | _, _ => false
  end.

Definition opt_eqb (a b : option (list Z)) : bool :=
  match a, b with
  | None, None => true
  | Some x, Some y => beqb x y
  | _, _ => false
  end.

Definition is_get (m : meth) : bool := match m with MGet => true | _ => false end.

Definition verr_code (v : option verr) : Z :=
  match v with None => 0 | Some VEmpty => 1 | Some VLead => 2 | Some VTrail => 3 | Some VChars => 4 | Some VDots => 5 end.

(* the RTSP pipeline behind DESCRIBE on a Core whose only path is all_others and that has no publisher:
   400 from the guard or from the path manager's name check, else 404 (no stream) *)
Definition exp_rtsp (ctx_path : list Z) : res Z :=
  n <- rtsp_name ctx_path ;;
  match n with
  | None => Ok 400
  | Some name => ok <- gate name ;; Ok (if ok then 404 else 400)
  end.

Definition mismatch (c : case) : bool :=
  match c with
  | CFilter path passed panicked =>
      match http_filter path with
      | Ok b => panicked || negb (Bool.eqb b passed)
      | Panic => negb panicked
      end
  | CHls wire m path cookie o =>
      negb (obs_eqb o (if wire then lift_front (exp_hls cookie) (hls_front (is_get m) path)
                       else lift (exp_hls cookie) (hls_dispatch (is_get m) path)))
  | CWebrtc wire m path uuid_at o =>
      negb (obs_eqb o (if wire then lift_front (exp_w path uuid_at) (webrtc_front m path)
                       else lift (exp_w path uuid_at) (webrtc_dispatch m path)))
  | CMoqH2 m path hdr o am =>
      let r := moq_h2_dispatch m path hdr in
      negb (obs_eqb o (lift exp_m2 r))
      || match am, r with
         | Some (u, p), Ok (M2AuthMirror (AMOk u' p')) => negb (beqb u u' && beqb p p')
         | Some _, _ => true
         | None, _ => false
         end
  | CMoqH3 m path o => negb (obs_eqb o (lift exp_h3 (moq_h3_dispatch m path)))
  | CMoqWT path sn =>
      match moq_h3_dispatch MConnect path with
      | Ok (H3Session n) => negb (opt_eqb sn (Some n))
      | Ok _ => negb (opt_eqb sn None)
      | Panic => true
      end
  | CMoqQuic upath name panicked =>
      panicked || negb (opt_eqb name (match upath with Some u => moq_quic_name u | None => None end))
  | CValid name err panicked =>
      match is_valid_path_name name with
      | Ok v => panicked || negb (verr_code v =? err)
      | Panic => negb panicked
      end
  | CSrt raw failed panicked =>
      match srt_unmarshal raw with
      | Ok (SidErr _) => panicked || negb failed      (* model: error *)
      | Ok (SidOk _) => panicked || failed            (* model: parsed *)
      | Panic => negb panicked
      end
  | CParam s r panicked =>
      match param_name s with
      | Ok v => panicked || negb (opt_eqb v r)
      | Panic => negb panicked
      end
  | CRtsp ctx_path status =>
      match exp_rtsp ctx_path with Ok s => negb (s =? status) | Panic => true end
  | CCrash _ _ _ => false
  end.

(* ---- the property on the observation alone ----------------------------------------------------------- *)

Definition starts_with_slash (p : list Z) : bool := match p with c :: _ => c =? 47 | [] => false end.
Definition panicked_obs (o : obs) : bool := match o with OPanic => true | _ => false end.

(* CFilter: nothing that is empty or does not begin with '/' reaches the handlers behind the filter *)
Definition spec_fail (c : case) : bool :=
  match c with
  | CFilter path passed panicked => panicked || (passed && negb (starts_with_slash path))
    (* a direct call stands behind no filter: a panic counts only on a path the filter lets through *)
  | CHls wire _ path _ o => panicked_obs o && (wire || starts_with_slash path)
  | CWebrtc _ _ _ _ o => panicked_obs o
  | CMoqH2 _ _ _ o _ => panicked_obs o
  | CMoqH3 _ _ o => panicked_obs o
  | CMoqWT _ _ => false
  | CMoqQuic _ _ panicked => panicked
  | CValid _ _ panicked => panicked
  | CParam _ _ panicked => panicked
  | CSrt _ _ panicked => panicked
  | CRtsp _ status => status =? 0            (* 0 = no answer: the connection or the process died *)
  | CCrash _ alive answers => negb (alive && answers)
  end.
