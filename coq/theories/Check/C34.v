(* Correspondence cases for C34: the real streamID.unmarshal, quoteCredential/readQuotedCredential,
   LinkHeaderMarshal/Unmarshal, httpp.Credentials, rtsp.Credentials (and base64.StdEncoding, gortsplib
   headers.Authorization as exercised oracles) on generated and hostile byte strings. *)
From Coq Require Import List ZArith Bool.
Require Import MTX.Lib.Base64.
Require Export MTX.Model.C34_Descriptors.
Import ListNotations.
Local Open Scope Z_scope.

Inductive sid_obs := OSidPanic | OSidErr (e : sid_err) | OSid (m : sid_mode) (path query user pass : list Z).
Inductive cred_obs := OCredPanic | OCred (user pass token : list Z).
Inductive link_obs := OLinkPanic | OLinkErr | OLink (servers : list ice_server).
Inductive quoted_obs := OQPanic | OQNone | OQ (s rest : list Z).

Inductive case :=
(* SRT stream id *)
| SidRaw (raw : list Z) (o : sid_obs)
    (* legacy id written by the driver from fields (credentials iff one is non-empty, query iff non-empty),
       with "#feedbackplay" appended when fb *)
| SidLegacy (m : sid_mode) (p u s q : list Z) (fb : bool) (raw : list Z) (o : sid_obs)
| SidStd (items : list (list Z * list Z)) (raw : list Z) (o : sid_obs)
(* WHIP Link header *)
| QuoteRT (s rest quoted : list Z) (o : quoted_obs)   (* quoted = quoteCredential(s); o = readQuotedCredential('"'+quoted+'"'+rest) *)
| QuoteRaw (v : list Z) (o : quoted_obs)
| LinkRT (servers : list ice_server) (hdr : list (list Z)) (o : link_obs)   (* hdr = LinkHeaderMarshal(servers) *)
| LinkRaw (hdr : list (list Z)) (o : link_obs)
(* HTTP Authorization values *)
| HttpBasic (u p : list Z) (vals : list (list Z)) (o : cred_obs)            (* vals[0] = "Basic " + base64(u:p) by Go *)
| HttpBearerPair (u p : list Z) (idx : Z) (vals : list (list Z)) (o : cred_obs)
| HttpBearerTok (t : list Z) (idx : Z) (vals : list (list Z)) (o : cred_obs)
| HttpRaw (vals : list (list Z)) (o : cred_obs)
| B64Dec (s : list Z) (dec : option (list Z))         (* base64.StdEncoding.DecodeString *)
| B64Enc (s enc : list Z)                             (* base64.StdEncoding.EncodeToString *)
(* RTSP Authorization: orc = what gortsplib's headers.Authorization.Unmarshal returned on vals *)
| RtspBasic (u p : list Z) (vals : list (list Z)) (orc : rtsp_auth) (o : cred_obs)   (* vals = Authorization{Basic,u,p}.Marshal() *)
| RtspRaw (vals : list (list Z)) (orc : rtsp_auth) (o : cred_obs).

(* ---- equalities ---- *)
Fixpoint list_eqb {A} (eqb : A -> A -> bool) (a b : list A) : bool :=
  match a, b with
  | [], [] => true
  | x :: a', y :: b' => eqb x y && list_eqb eqb a' b'
  | _, _ => false
  end.

Definition mode_eqb (a b : sid_mode) := match a, b with MRead, MRead | MPublish, MPublish => true | _, _ => false end.
Definition err_eqb (a b : sid_err) :=
  match a, b with
  | ErrInvalidValue, ErrInvalidValue | ErrUnsupportedMode, ErrUnsupportedMode | ErrSyntax, ErrSyntax => true
  | _, _ => false
  end.

Definition sid_obs_eqb (a b : sid_obs) : bool :=
  match a, b with
  | OSidPanic, OSidPanic => true
  | OSidErr e1, OSidErr e2 => err_eqb e1 e2
  | OSid m1 p1 q1 u1 s1, OSid m2 p2 q2 u2 s2 => mode_eqb m1 m2 && beqb p1 p2 && beqb q1 q2 && beqb u1 u2 && beqb s1 s2
  | _, _ => false
  end.

Definition obs_of_sid (r : sid_result) : sid_obs :=
  match r with
  | SidOk s => OSid (sid_mode_of s) (sid_path s) (sid_query s) (sid_user s) (sid_pass s)
  | SidErr e => OSidErr e
  end.

Definition cred_obs_eqb (a b : cred_obs) : bool :=
  match a, b with
  | OCredPanic, OCredPanic => true
  | OCred u1 p1 t1, OCred u2 p2 t2 => beqb u1 u2 && beqb p1 p2 && beqb t1 t2
  | _, _ => false
  end.

Definition obs_of_cred (c : credentials) : cred_obs := OCred (c_user c) (c_pass c) (c_token c).

Definition opt_eqb {A} (eqb : A -> A -> bool) (a b : option A) : bool :=
  match a, b with Some x, Some y => eqb x y | None, None => true | _, _ => false end.

Definition ice_eqb (a b : ice_server) : bool :=
  beqb (ice_url a) (ice_url b) && beqb (ice_user a) (ice_user b) && opt_eqb beqb (ice_cred a) (ice_cred b).

Definition link_obs_eqb (a b : link_obs) : bool :=
  match a, b with
  | OLinkPanic, OLinkPanic | OLinkErr, OLinkErr => true
  | OLink x, OLink y => list_eqb ice_eqb x y
  | _, _ => false
  end.

Definition obs_of_link (r : option (list ice_server)) : link_obs := match r with Some l => OLink l | None => OLinkErr end.

Definition quoted_obs_eqb (a b : quoted_obs) : bool :=
  match a, b with
  | OQPanic, OQPanic | OQNone, OQNone => true
  | OQ s1 r1, OQ s2 r2 => beqb s1 s2 && beqb r1 r2
  | _, _ => false
  end.

Definition obs_of_quoted (r : option (list Z * list Z)) : quoted_obs := match r with Some (s, t) => OQ s t | None => OQNone end.

Definition rtsp_auth_eqb (a b : rtsp_auth) : bool :=
  match a, b with
  | RErr, RErr => true
  | RAuth RBasic u1 p1, RAuth RBasic u2 p2 => beqb u1 u2 && beqb p1 p2
  | RAuth RDigest u1 p1, RAuth RDigest u2 p2 => beqb u1 u2 && beqb p1 p2
  | _, _ => false
  end.

(* the driver's legacy printer must be the model's printer *)
Definition legacy_raw (m : sid_mode) (p u s q : list Z) (fb : bool) : list Z :=
  print_legacy m p u s q ++ (if fb then s_feedbackplay else []).

(* ---- model vs implementation ---- *)
Definition mismatch (c : case) : bool :=
  match c with
  | SidRaw raw o => negb (sid_obs_eqb (obs_of_sid (stream_id_unmarshal raw)) o)
  | SidLegacy m p u s q fb raw o =>
      negb (beqb raw (legacy_raw m p u s q fb)) || negb (sid_obs_eqb (obs_of_sid (stream_id_unmarshal raw)) o)
  | SidStd items raw o =>
      negb (beqb raw (print_std_items items)) || negb (sid_obs_eqb (obs_of_sid (stream_id_unmarshal raw)) o)
  | QuoteRT s rest quoted o =>
      negb (beqb quoted (quote_credential s)) ||
      negb (quoted_obs_eqb (obs_of_quoted (read_quoted ([c_dquote] ++ quoted ++ [c_dquote] ++ rest))) o)
  | QuoteRaw v o => negb (quoted_obs_eqb (obs_of_quoted (read_quoted v)) o)
  | LinkRT servers hdr o =>
      negb (list_eqb beqb hdr (link_marshal servers)) || negb (link_obs_eqb (obs_of_link (link_unmarshal hdr)) o)
  | LinkRaw hdr o => negb (link_obs_eqb (obs_of_link (link_unmarshal hdr)) o)
  | HttpBasic u p vals o =>
      negb (beqb (hd [] vals) (print_basic u p)) || negb (cred_obs_eqb (obs_of_cred (http_credentials vals)) o)
  | HttpBearerPair _ _ _ vals o | HttpBearerTok _ _ vals o | HttpRaw vals o =>
      negb (cred_obs_eqb (obs_of_cred (http_credentials vals)) o)
  | B64Dec s dec => negb (opt_eqb beqb (b64_decode s) dec)
  | B64Enc s enc => negb (beqb (b64_encode s) enc)
  | RtspBasic u p vals orc o =>
      negb (list_eqb beqb vals (rtsp_print_basic u p)) ||
      negb (rtsp_auth_eqb (rtsp_header_unmarshal orc vals) orc) ||
      negb (cred_obs_eqb (obs_of_cred (rtsp_credentials orc)) o)
  | RtspRaw vals orc o =>
      negb (rtsp_auth_eqb (rtsp_header_unmarshal orc vals) orc) ||
      negb (cred_obs_eqb (obs_of_cred (rtsp_credentials orc)) o)
  end.

(* ---- the property on the observed outputs (no parser model below this line) -------------------------------- *)

Definition colon_free (s : list Z) : bool := no_byte 58 s.
Definition comma_free (s : list Z) : bool := no_byte 44 s.
Definition eq_free (s : list Z) : bool := no_byte 61 s.

Fixpoint ends_with_b (suf s : list Z) : bool :=   (* is suf a suffix of s *)
  beqb suf s || match s with [] => false | _ :: r => ends_with_b suf r end.

Fixpoint count (c : Z) (s : list Z) : Z := match s with [] => 0 | x :: r => (if x =? c then 1 else 0) + count c r end.

Definition colon_join (parts : list (list Z)) : list Z := join 58 parts.

(* print(parse(raw)) = raw for an accepted legacy id, up to one "#feedbackplay" *)
Definition legacy_reprints (raw : list Z) (m : sid_mode) (p q u s : list Z) : bool :=
  let a := action_str m in
  let cands :=
    (if is_nil q && is_nil u && is_nil s then [colon_join [a; p]] else []) ++
    (if is_nil u && is_nil s then [colon_join [a; p; q]] else []) ++
    (if is_nil q then [colon_join [a; p; u; s]] else []) ++
    [colon_join [a; p; u; s; q]] in
  existsb (fun c => beqb raw c || beqb raw (c ++ s_feedbackplay)) cands.

(* last value of key k among the items *)
Fixpoint last_value (k : list Z) (items : list (list Z * list Z)) (acc : option (list Z)) : option (list Z) :=
  match items with
  | [] => acc
  | (k', v) :: r => last_value k r (if beqb k' k then Some v else acc)
  end.

Definition std_mode_of (v : list Z) : option sid_mode :=
  if beqb v s_request then Some MRead else if beqb v s_publish then Some MPublish else None.

Definition dflt (o : option (list Z)) : list Z := match o with Some v => v | None => [] end.

Definition spec_fail (c : case) : bool :=
  match c with
  | SidRaw raw o =>
      match o with
      | OSidPanic => true
      | OSid m p q u s =>
          if has_prefix s_std_prefix raw then false
          else negb (legacy_reprints raw m p q u s)
      | OSidErr _ =>
          (* a well-formed legacy id must not be refused *)
          if has_prefix s_std_prefix raw then false
          else (has_prefix (s_read ++ [58]) raw || has_prefix (s_publish ++ [58]) raw) && (count 58 raw <=? 4)
      end
  | SidLegacy m p u s q fb raw o =>
      let last := if is_nil q then (if is_nil u && is_nil s then p else s) else q in
      if colon_free p && colon_free u && colon_free s && colon_free q && (fb || negb (ends_with_b s_feedbackplay last))
      then negb (sid_obs_eqb o (OSid m p q u s))
      else match o with OSidPanic => true | _ => false end
  | SidStd items raw o =>
      if negb (is_nil items) && forallb (fun '(k, v) => eq_free k && comma_free k && comma_free v) items then
        let modes := map snd (filter (fun '(k, _) => beqb k k_m) items) in
        if forallb (fun v => match std_mode_of v with Some _ => true | None => false end) modes then
          let m := match last_value k_m items None with
                   | Some v => match std_mode_of v with Some m => m | None => MRead end
                   | None => MRead
                   end in
          negb (sid_obs_eqb o (OSid m (dflt (last_value k_r items None)) []
                                    (dflt (last_value k_u items None)) (dflt (last_value k_s items None))))
        else negb (sid_obs_eqb o (OSidErr ErrUnsupportedMode))
      else match o with OSidPanic => true | _ => false end
  | QuoteRT s rest _ o => negb (quoted_obs_eqb o (OQ s rest))
  | QuoteRaw v o =>
      match o with
      | OQPanic => true
      | OQNone => false
      | OQ s rest =>
          (* the value starts with a quote and the rest is what follows a quote *)
          negb (match v with c :: _ => c =? 34 | [] => false end) || negb (ends_with_b (34 :: rest) v)
      end
  | LinkRT servers hdr o =>
      if forallb (fun s => no_byte 62 (ice_url s)) servers then
        negb (link_obs_eqb o (OLink (map (fun s => if is_nil (ice_user s) then mkIce (ice_url s) [] None
                                                   else mkIce (ice_url s) (ice_user s) (Some (cred_str (ice_cred s))))
                                         servers)))
      else match o with OLinkPanic => true | _ => false end
  | LinkRaw hdr o =>
      match o with
      | OLinkPanic => true
      | OLinkErr => false
      | OLink servers =>
          (* an accepted header is exactly what the printer writes for the servers read from it, and never carries
             an empty username with a credential *)
          negb (list_eqb beqb (link_marshal servers) hdr) ||
          existsb (fun s => is_nil (ice_user s) && match ice_cred s with Some _ => true | None => false end) servers
      end
  | HttpBasic u p vals o =>
      if colon_free u && negb (existsb (has_prefix s_bearer_sp) vals)
      then negb (cred_obs_eqb o (OCred u p []))
      else match o with OCredPanic => true | _ => false end
  | HttpBearerPair u p idx vals o =>
      if colon_free u && colon_free p && (0 <=? idx) &&
         beqb (nth (Z.to_nat idx) vals []) (s_bearer_sp ++ u ++ 58 :: p) &&
         negb (existsb (has_prefix s_bearer_sp) (firstn (Z.to_nat idx) vals))
      then negb (cred_obs_eqb o (OCred u p []))
      else match o with OCredPanic => true | _ => false end
  | HttpBearerTok t idx vals o =>
      if negb (count 58 t =? 1) && (0 <=? idx) &&
         beqb (nth (Z.to_nat idx) vals []) (s_bearer_sp ++ t) &&
         negb (existsb (has_prefix s_bearer_sp) (firstn (Z.to_nat idx) vals))
      then negb (cred_obs_eqb o (OCred [] [] t))
      else match o with OCredPanic => true | _ => false end
  | HttpRaw vals o =>
      match o with
      | OCredPanic => true
      | OCred u p t =>
          (* a token excludes user/pass; without any Authorization value nothing is returned *)
          (negb (is_nil t) && negb (is_nil u && is_nil p)) ||
          (is_nil vals && negb (is_nil u && is_nil p && is_nil t))
      end
  | B64Dec _ _ | B64Enc _ _ => false
  | RtspBasic u p vals orc o =>
      if colon_free u then negb (cred_obs_eqb o (OCred u p []))
      else match o with OCredPanic => true | _ => false end
  | RtspRaw vals orc o =>
      match o with
      | OCredPanic => true
      | OCred u p t => negb (is_nil t) || (match vals with [] => negb (is_nil u && is_nil p) | _ => false end)
      end
  end.
